"""./check Cxx --tier quick|thorough [--replay path]   (DESIGN.md section 5: verdict logic)"""
import argparse
import importlib
import json
import os
import sys
import time
import traceback
from pathlib import Path

sys.path.insert(0, str(Path(__file__).resolve().parents[1]))
from tools.vlib import core  # noqa: E402


def match_known(prop, viol, known):
    """A violation matches an open known finding iff the finding's key equals the violation's key."""
    for k in known.get("open", []):
        if k.get("property") == prop and k.get("key") is not None and k.get("key") == viol.get("key"):
            return k
    return None


def main():
    ap = argparse.ArgumentParser()
    ap.add_argument("prop")
    ap.add_argument("--tier", default=os.environ.get("VERIF_TIER", "quick"), choices=["quick", "thorough"])
    ap.add_argument("--replay", default=None)
    args = ap.parse_args()
    prop = args.prop.upper()
    seed = int(os.environ.get("VERIF_SEED", "0"))
    repo = os.environ.get("VERIF_REPO", "/repo")
    ctx = core.Ctx(prop, args.tier, seed, repo)
    rc = 1
    try:
        rc = run(ctx, prop, args)
    except Exception:
        # a crash of the machinery is not a verdict about the code; it is a broken check -> non-zero exit, no VIOLATION line
        traceback.print_exc()
        print(f"CHECK-ERROR property={prop}: the checking machinery itself failed", flush=True)
        rc = 2
    finally:
        ctx.cleanup()
    sys.exit(rc)


def run(ctx, prop, args):
    mod = importlib.import_module(f"tools.props.{prop.lower()}")
    known = core.load_known()
    build = core.build_for(ctx, prop)
    proof_ok = build["props_ok"] and build["obligations"] > 0 and build["discharged"] == build["obligations"]

    if args.replay:
        data = json.loads(Path(args.replay).read_text())
        out = mod.replay(ctx, build, data)
        print(json.dumps(out, indent=1, default=str))
        return 1 if out.get("fails") else 0

    res = mod.run(ctx, build)  # {"coverage":…, "corr_failures":[…], "impl_violations":[…], "assumptions":[…]}
    corr = res.get("corr_failures", [])
    viols = list(res.get("impl_violations", []))
    broken = []
    if not build["model_ok"]:
        broken.append({"kind": "model-build", "log": build["model_log"][-1500:]})
    if not proof_ok:
        failed_tr = {k: v.get("error") for k, v in build["translators"].items() if not v.get("ok")}
        broken.append({"kind": "proof-obligations", "obligations": build["obligations"], "discharged": build["discharged"],
                       "failed_translators": failed_tr, "hygiene": build["hygiene"], "axioms_seen": build["axioms_seen"],
                       "log": build["props_log"][-2500:]})
    if corr:
        broken.append({"kind": "correspondence", "n": len(corr), "first": corr[:5]})

    if broken and not viols and hasattr(mod, "search"):
        # directed search for a concrete failing input against the implementation alone
        t = 60 if ctx.tier == "quick" else 900
        try:
            viols.extend(mod.search(ctx, build, res, time_budget=t) or [])
        except Exception as e:  # the search is best effort
            ctx.notes.append(f"search crashed: {type(e).__name__}: {e}")

    lines = []
    new_viols = []
    seen_known = {}
    for v in viols:
        k = match_known(prop, v, known)
        if k is not None:
            seen_known.setdefault(k["key"], (k, v))
        else:
            new_viols.append(v)
    for key, (k, v) in seen_known.items():
        lines.append(f"KNOWN-FINDING: property={prop} {k.get('what', key)}")

    exit_code = 0
    if new_viols:
        path = core.write_replay(ctx, {"property": prop, "kind": "concrete-input", "violation": new_viols[0],
                                       "n_violations": len(new_viols), "broken": broken,
                                       "how_to_replay": f"./check {prop} --replay <this file>"})
        lines.append(f"VIOLATION property={prop} replay={path}")
        exit_code = 1
    elif broken:
        path = core.write_replay(ctx, {"property": prop, "kind": "no-failing-input-found", "broken": broken,
                                       "notes": ctx.notes,
                                       "meaning": "a proof obligation or the model/implementation correspondence no longer checks; the property is no longer shown to hold"})
        lines.append(f"VIOLATION property={prop} replay={path} no-failing-input-found")
        exit_code = 1

    cov = res.get("coverage", {})
    cov["known_findings_observed"] = sorted(seen_known)
    cov["broken"] = [b["kind"] for b in broken]
    cov["notes"] = ctx.notes
    core.write_evidence(ctx, build, cov, len(new_viols) + (1 if (broken and not new_viols) else 0), res.get("assumptions"))
    for ln in lines:
        print(ln, flush=True)
    print(f"{prop} tier={ctx.tier} seed={ctx.seed} obligations={build['obligations']} discharged={build['discharged']} "
          f"corr_failures={len(corr)} impl_violations={len(viols)} new={len(new_viols)} wall={time.time()-ctx.t0:.1f}s exit={exit_code}", flush=True)
    return exit_code


if __name__ == "__main__":
    main()
