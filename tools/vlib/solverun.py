"""Shared pieces of the solver correspondence (C01-C09): case generation in the exact-dyadic
regime, running the implementation, decoding observations."""
from fractions import Fraction as F

from tools.vlib import core, mdpgen

BIT_BUDGET = 48  # conservative: every float64 operation of the implementation is then exact

FAMILIES = ["tab", "tab", "dim", "ties", "absorb", "unreach", "det", "chain"]
GAMMAS_EXACT_THR = [F(1, 2), F(1, 4), F(1, 8)]          # (1-g)/g is an integer -> threshold dyadic
GAMMAS_F32 = [F(1, 2), F(1, 4), F(3, 4), F(7, 8), F(1)]   # exactly representable even as float32


def fl(x):
    x = F(x)
    return x.numerator / x.denominator


def rand_values(rng, n, kind=None):
    kind = kind or rng.choice(["small", "small", "neg", "huge", "tied", "frac"])
    if kind == "small":
        return [F(rng.randint(-8, 8)) for _ in range(n)]
    if kind == "neg":
        return [F(-rng.randint(0, 64)) for _ in range(n)]
    if kind == "huge":
        return [F(rng.randint(-8, 8)) * 2 ** 20 for _ in range(n)]
    if kind == "tied":
        c = F(rng.randint(-4, 4))
        return [c for _ in range(n)]
    return [F(rng.randint(-64, 64), 8) for _ in range(n)]


def fracs(xs):
    return None if xs is None else [F(x) for x in xs]


def pick_mb(rng, n):
    """batch sizes that make the last batch partially padded, plus the usual ones"""
    opts = [1, 2, 3, 5, 7, n, n + 3, 64, 1024]
    if n > 2:
        opts += [n - 1, (n + 1) // 2]
    return rng.choice([o for o in opts if o >= 1])


def case_id(obj):
    return core.case_hash(obj)[:12]


def nontrivial_mdp(spec, ref=None):
    """>= 2 events with positive probability somewhere and >= 2 actions with different rewards somewhere"""
    ev = any(sum(1 for p in row if F(p) > 0) >= 2 for rs in spec["prb"] for row in rs)
    ac = any(len({tuple(r) for r in rs}) >= 2 for rs in spec["rew"]) or any(len({tuple(r) for r in rs}) >= 2 for rs in spec["nxt"])
    return ev and ac
