"""Generated MDPs in the exact-dyadic regime, and an independent Fraction reference
(used as SEARCH ORACLE and for the exactness guard; never as the proof)."""
import itertools
import math
from fractions import Fraction as F

# ----------------------------------------------------------------------------- generation


def _simplex(rng, n, denom):
    """n non-negative integers summing to denom"""
    cuts = sorted(rng.randint(0, denom) for _ in range(n - 1))
    parts = [b - a for a, b in zip([0] + cuts, cuts + [denom])]
    rng.shuffle(parts)
    return parts


def _vectors(rng, n, dims, include_zero):
    """n distinct integer vectors of the given dimension, row-major from an offset box"""
    if dims == 1:
        rad = [n]
    else:
        rad = []
        rem = n
        for _ in range(dims - 1):
            r = rng.choice([x for x in (1, 2, 3) if x <= max(1, rem)])
            rad.append(r)
            rem = max(1, math.ceil(rem / r))
        rad.append(rem)
    off = [rng.choice([0, 0, 1, -2, 3]) for _ in range(dims)]
    if include_zero:
        off = [0] * dims
    vecs = [[x + o for x, o in zip(v, off)] for v in itertools.product(*[range(r) for r in rad])][:n]
    if not include_zero and [0] * dims in vecs:
        vecs = [[x + 5 for x in v] for v in vecs]
    assert len(vecs) == n
    return vecs


def gen_mdp(rng, family="tab", nS=None, nA=None, nE=None, denom=8, rscale=0, rmax=8, dims=None, init="zero", with_init_policy=False):
    nS = nS or rng.randint(1, 7)
    nA = nA or rng.randint(1, 4)
    nE = nE or rng.randint(1, 4)
    if family == "det":
        denom = 1
    dims = dims or (rng.randint(1, 3), rng.randint(1, 2), rng.randint(1, 3))
    include_zero = rng.random() < 0.5
    states = _vectors(rng, nS, dims[0], include_zero)
    events = _vectors(rng, nE, dims[2], rng.random() < 0.5)
    n_unique_a = nA
    dup_of = list(range(nA))
    if family == "ties" and nA >= 2:
        n_unique_a = rng.randint(1, nA - 1)
        dup_of = list(range(n_unique_a)) + [rng.randrange(n_unique_a) for _ in range(nA - n_unique_a)]
    uniq_vecs = _vectors(rng, n_unique_a, dims[1], rng.random() < 0.5)
    actions = [uniq_vecs[dup_of[a]] for a in range(nA)]
    scale = F(2) ** rscale
    nxt = [[[rng.randrange(nS) for _ in range(nE)] for _ in range(nA)] for _ in range(nS)]
    rew = [[[F(rng.randint(-rmax, rmax)) * scale for _ in range(nE)] for _ in range(nA)] for _ in range(nS)]
    prb = [[[F(x, denom) for x in _simplex(rng, nE, denom)] for _ in range(nA)] for _ in range(nS)]
    if family == "absorb":
        s0 = rng.randrange(nS)
        for a in range(nA):
            nxt[s0][a] = [s0] * nE
    if family == "unreach" and nS >= 2:
        s0 = rng.randrange(nS)
        for s in range(nS):
            for a in range(nA):
                nxt[s][a] = [x if x != s0 else (s0 + 1) % nS for x in nxt[s][a]]
    if family == "chain":
        # slow-mixing: mostly stay, tiny chance to move on; makes stopping-rule bounds tight
        for s in range(nS):
            for a in range(nA):
                for e in range(nE):
                    nxt[s][a][e] = s if e == 0 else (s + 1) % nS
                w = _simplex(rng, nE - 1, 1) if nE > 1 else []
                prb[s][a] = [F(denom - 1, denom) if nE > 1 else F(1)] + [F(x, denom) for x in w]
    if family == "ties" and nA >= 2:
        for s in range(nS):
            for a in range(nA):
                nxt[s][a] = list(nxt[s][dup_of[a]])
                rew[s][a] = list(rew[s][dup_of[a]])
                prb[s][a] = list(prb[s][dup_of[a]])
            if rng.random() < 0.5 and n_unique_a >= 2:
                # exact tie between two different actions
                b = rng.randrange(1, n_unique_a)
                for a in range(nA):
                    if dup_of[a] == b:
                        nxt[s][a], rew[s][a], prb[s][a] = list(nxt[s][0]), list(rew[s][0]), list(prb[s][0])
    if family == "periodic":
        # deterministic cycle of length nS under every action; rewards differ by action
        for s in range(nS):
            for a in range(nA):
                nxt[s][a] = [(s + 1) % nS] * nE
    if family == "unichain":
        # state 0 reachable from everywhere with positive probability under every action, and aperiodic (self loop at 0)
        for s in range(nS):
            for a in range(nA):
                nxt[s][a][0] = 0
                if prb[s][a][0] == 0:
                    j = max(range(nE), key=lambda e: prb[s][a][e])
                    prb[s][a][j] -= F(1, denom)
                    prb[s][a][0] += F(1, denom)
    zero_s = [0] * dims[0]
    zidx = states.index(zero_s) if zero_s in states else rng.randrange(nS)
    spec = {
        "family": family, "nS": nS, "nA": nA, "nE": nE,
        "states": states, "actions": actions, "events": events,
        "nxt": nxt, "rew": [[[str(x) for x in r] for r in rs] for rs in rew], "prb": [[[str(x) for x in r] for r in rs] for rs in prb],
        "zidx": zidx, "zero_is_state": zero_s in states,
        "prob_as_array": rng.random() < 0.3,
        "init_values": None, "init_policy": None,
    }
    if init == "random":
        spec["init_values"] = [str(F(rng.randint(-16, 16), 2) * scale) for _ in range(nS)]
    if with_init_policy:
        spec["init_policy"] = [rng.randrange(n_unique_a) for _ in range(nS)]
    return spec


# ----------------------------------------------------------------------------- reference (exact rationals)

class Ref:
    def __init__(self, spec):
        self.nS, self.nA, self.nE = spec["nS"], spec["nA"], spec["nE"]
        self.nxt = spec["nxt"]
        self.rew = [[[F(x) for x in r] for r in rs] for rs in spec["rew"]]
        self.prb = [[[F(x) for x in r] for r in rs] for rs in spec["prb"]]
        self.init = [F(x) for x in spec["init_values"]] if spec.get("init_values") else [F(0)] * self.nS
        self.spec = spec
        self.max_bits = 0  # exactness budget actually needed (denominator bits + magnitude bits)

    def _track(self, terms):
        if not terms:
            return
        den = max((t.denominator.bit_length() - 1) for t in terms)
        mag = sum(abs(t) for t in terms)
        mb = max(0, math.ceil(math.log2(mag + 1))) if mag else 0
        self.max_bits = max(self.max_bits, den + mb + 1)

    def q(self, V, s, a, g):
        inner = [self.rew[s][a][e] + g * V[self.nxt[s][a][e]] for e in range(self.nE)]
        terms = [self.prb[s][a][e] * inner[e] for e in range(self.nE)]
        self._track(terms + inner + [g * V[self.nxt[s][a][e]] for e in range(self.nE)])
        return sum(terms, F(0))

    def backup(self, V, s, g):
        return max(self.q(V, s, a, g) for a in range(self.nA))

    def sweep(self, V, g):
        return [self.backup(V, s, g) for s in range(self.nS)]

    def greedy(self, V, g):
        out = []
        for s in range(self.nS):
            qs = [self.q(V, s, a, g) for a in range(self.nA)]
            out.append(qs.index(max(qs)))
        return out

    def sweep_pi(self, P, V, g):
        return [self.q(V, s, P[s], g) for s in range(self.nS)]

    # exact policy value (discounted) by Gaussian elimination
    def policy_value(self, P, g):
        n = self.nS
        A = [[(F(1) if i == j else F(0)) for j in range(n)] + [F(0)] for i in range(n)]
        for s in range(n):
            for e in range(self.nE):
                p = self.prb[s][P[s]][e]
                A[s][self.nxt[s][P[s]][e]] -= g * p
                A[s][n] += p * self.rew[s][P[s]][e]
        return solve_linear(A)

    def optimal_value(self, g):
        P = [0] * self.nS
        for _ in range(10000):
            v = self.policy_value(P, g)
            P2 = self.greedy(v, g)
            if P2 == P:
                return v, P
            P = P2
        raise RuntimeError("exact policy iteration did not terminate")

    # average reward of a stationary policy on a unichain model: solve h + g = r + P h, h[ref] = 0
    def policy_gain(self, P, ref=0):
        n = self.nS
        # unknowns: h[0..n-1] except h[ref] := 0 replaced by gain in that column
        A = [[F(0)] * (n + 1) for _ in range(n)]
        for s in range(n):
            row = [F(0)] * n
            row[s] += 1
            r = F(0)
            for e in range(self.nE):
                p = self.prb[s][P[s]][e]
                row[self.nxt[s][P[s]][e]] -= p
                r += p * self.rew[s][P[s]][e]
            row[ref] = F(1)  # column ref now stands for the gain (h[ref] = 0)
            A[s] = row + [r]
        sol = solve_linear(A)
        gain = sol[ref]
        h = list(sol)
        h[ref] = F(0)
        return gain, h

    def optimal_gain(self):
        """exact average-reward policy iteration (unichain); returns (gain, bias, policy)"""
        P = [0] * self.nS
        for _ in range(10000):
            gain, h = self.policy_gain(P)
            P2 = []
            changed = False
            for s in range(self.nS):
                qs = [self.q(h, s, a, F(1)) for a in range(self.nA)]
                best = max(qs)
                if qs[P[s]] == best:
                    P2.append(P[s])
                else:
                    P2.append(qs.index(best))
                    changed = True
            if not changed:
                return gain, h, P
            P = P2
        raise RuntimeError("average-reward policy iteration did not terminate")


def solve_linear(A):
    """Gauss-Jordan on an augmented rational matrix; raises on singular systems."""
    n = len(A)
    A = [list(r) for r in A]
    for c in range(n):
        piv = next((r for r in range(c, n) if A[r][c] != 0), None)
        if piv is None:
            raise ZeroDivisionError("singular system")
        A[c], A[piv] = A[piv], A[c]
        inv = 1 / A[c][c]
        A[c] = [x * inv for x in A[c]]
        for r in range(n):
            if r != c and A[r][c] != 0:
                f = A[r][c]
                A[r] = [x - f * y for x, y in zip(A[r], A[c])]
    return [A[i][n] for i in range(n)]


def span(a, b):
    d = [x - y for x, y in zip(a, b)]
    return max(d) - min(d)


def maxabs(a, b):
    return max(abs(x - y) for x, y in zip(a, b))


def vi_threshold(g, eps):
    return eps if g == 1 else eps * (1 - g) / g


def measure(test, new, old):
    return span(new, old) if test == "span" else maxabs(new, old)


def float_exact(x):
    """is the rational x exactly a float64?"""
    try:
        return F(x.numerator / x.denominator) == x
    except OverflowError:
        return False
