"""Whole-run correspondence cases: one generated MDP + solver + configuration + a history of
solve(k_i) calls.  Produces (a) the implementation job, (b) the Gallina check term,
(c) the exact reference run with exactness / decision-margin guards."""
import random
from fractions import Fraction as F

from tools.vlib import core, mdpgen, refsolve, solverun
from tools.vlib.cases import coq_mdp, ctest, onatlist, oqll
from tools.vlib.core import blit, natlist, natlit, qlist, qlit, zlit
from tools.vlib.solverun import fl, fracs

MARGIN = F(1, 10 ** 6)


def init_values(spec):
    return [F(x) for x in spec["init_values"]] if spec.get("init_values") else [F(0)] * spec["nS"]


def reference(case, perms=None, devices=1):
    """exact reference run; returns (per-call results, guard dict)"""
    spec = case["spec"]
    ref = mdpgen.Ref(spec)
    g, eps = F(case["g"]), F(case["eps"])
    marg = refsolve.Margin()
    V0 = init_values(spec)
    s = case["solver"]
    if s == "vi":
        out = refsolve.vi_run(ref, g, eps, case["test"], case["ks"], V0, marg)
    elif s == "rvi":
        out = refsolve.rvi_run(ref, eps, case["ks"], V0, marg)
    elif s == "pvi":
        out = refsolve.pvi_run(ref, g, eps, case["period"], case["ks"], V0, case.get("clear", False), marg)
    elif s == "savi":
        out = refsolve.savi_run(ref, g, eps, case["test"], case["ks"], V0, case["mb"], devices, perms, marg)
    elif s == "pi":
        out = refsolve.pi_run(ref, g, eps, case["test"], case["max_eval"], case["reset"], case["ks"], V0, spec.get("init_policy"), marg)
    else:
        raise ValueError(s)
    ok_bits = ref.max_bits <= solverun.BIT_BUDGET
    ok_margin = marg.min_rel is None or marg.min_rel > MARGIN
    return out, {"bits": ref.max_bits, "min_margin": None if marg.min_rel is None else float(marg.min_rel), "ok": ok_bits and ok_margin}


def config_of(case):
    s = case["solver"]
    cfg = {"epsilon": fl(case["eps"]), "max_batch_size": case["mb"]}
    cfg["gamma"] = fl(case["g"])
    if s in ("vi", "savi", "pi"):
        cfg["convergence_test"] = case["test"]
    if s == "pvi":
        cfg["period"] = case["period"]
        cfg["clear_value_history_on_convergence"] = bool(case.get("clear", False))
    if s == "savi":
        cfg["shuffle_states"] = bool(case.get("shuffle", False))
        cfg["random_seed"] = int(case.get("random_seed", 42))
    if s == "pi":
        cfg["max_eval_iter"] = case["max_eval"]
        cfg["reset_values_for_each_policy_eval"] = bool(case["reset"])
    cfg.update(case.get("extra_config", {}))
    return cfg


def job_of(case):
    return {"kind": "solve_ops", "problem": case["spec"], "solver": case["solver"], "config": config_of(case),
            "ops": [["solve", k] for k in case["ks"]]}


def gen_run_case(rng, solver, **kw):
    """one structured case; caller filters with reference(...)['ok']"""
    fam = kw.get("family") or rng.choice(solverun.FAMILIES if solver not in ("rvi",) else ["unichain", "unichain", "det"])
    if solver == "rvi":
        g = F(1)
    else:
        g = kw.get("g") or rng.choice(kw.get("gammas") or solverun.GAMMAS_F32[:-1])
    denom = kw.get("denom") or (rng.choice([2, 4, 8]) if g == 1 else 8)
    spec = mdpgen.gen_mdp(rng, family=fam, nS=kw.get("nS"), nA=kw.get("nA"), nE=kw.get("nE"), denom=denom,
                          rscale=kw.get("rscale", rng.choice([0, 0, 0, -2, 3])), init=kw.get("init") or rng.choice(["zero", "zero", "random"]),
                          with_init_policy=(solver == "pi" and rng.random() < 0.5))
    if kw.get("neg_rewards"):
        # every reward <= 0 with different magnitudes: value estimates DECREASE sweep by sweep (cost problems)
        spec["rew"] = [[[str(-abs(F(x)) - (1 if kw["neg_rewards"] == "strict" else 0)) for x in row] for row in sa] for sa in spec["rew"]]
    case = {"solver": solver, "spec": spec, "g": str(g), "eps": str(kw.get("eps") or rng.choice([F(1, 4), F(1, 32), F(1, 1024), F(2), F(1, 2 ** 20)])),
            "mb": kw.get("mb") or solverun.pick_mb(rng, spec["nS"]),
            "ks": kw.get("ks") or rng.choice([[3], [6], [2, 3], [1, 1, 4], [8], [1], [12]])}
    if solver in ("vi", "savi", "pi"):
        case["test"] = kw.get("test") or rng.choice(["span", "max_diff"])
    if solver == "pvi":
        case["period"] = kw.get("period") or rng.randint(1 if g != 1 else 2, 5)
        case["clear"] = kw.get("clear", rng.random() < 0.3)
    if solver == "savi":
        case["shuffle"] = kw.get("shuffle", rng.random() < 0.5)
        case["random_seed"] = rng.randrange(1000)
    if solver == "pi":
        case["max_eval"] = kw.get("max_eval") or rng.choice([1, 3, 100])
        case["reset"] = kw.get("reset", rng.random() < 0.5)
    return case


NEAR_ONE = F(2 ** 17 - 1, 2 ** 17)     # a discount factor within 1e-5 of one that is still a dyadic rational


def directed(ctx, solver, quick=True):
    """streams that ordinary sampling does not reach (each found by a seeded change that slipped through):
    (a) gamma within 1e-5 of one - 'close to 1' must not be treated as 1; a huge epsilon makes an undiscounted threshold pass at
        once while the documented threshold eps*(1-gamma)/gamma is far from met within the two sweeps that stay exact;
    (b) cost problems (all rewards <= 0) under the max_diff test: all value changes are negative"""
    out = []
    k = 2 if quick else 12
    if solver in ("vi", "pi", "savi"):
        for t in ("span", "max_diff"):
            kw = {"family": "det", "g": NEAR_ONE, "eps": F(64), "ks": [2], "test": t, "rscale": 0, "init": "zero"}
            if solver == "pi":
                kw["max_eval"] = 1
            if solver == "savi":
                kw["shuffle"] = False
            out += generate(ctx, solver, k, max_tries=80, accept=lambda c, r: not r[-1]["converged"], **kw)
        kw = {"test": "max_diff", "neg_rewards": "strict", "gammas": [F(1, 2), F(3, 4)], "ks": [30], "init": "zero", "eps": F(1, 32)}
        if solver == "savi":
            kw["shuffle"] = False
        out += generate(ctx, solver, k, max_tries=120, accept=lambda c, r: r[-1]["converged"] and r[-1]["iteration"] >= 3, **kw)
    return out


def generate(ctx, solver, count, accept=None, max_tries=None, **kw):
    out = []
    tries = 0
    max_tries = max_tries or count * 30
    while len(out) < count and tries < max_tries:
        tries += 1
        sub = ctx.rng.randrange(10 ** 9)
        rng = random.Random(sub)
        case = gen_run_case(rng, solver, **kw)
        case["seed"] = sub
        if solver == "savi" and case.get("shuffle"):
            # permutations are only known after the implementation ran; guard on the fixed-order run as a proxy
            pass
        try:
            refout, guard = reference(case)
        except (ZeroDivisionError, OverflowError):
            continue
        if not guard["ok"]:
            continue
        if accept is not None and not accept(case, refout):
            continue
        case["guard"] = guard
        out.append(case)
    return out


# ----------------------------------------------------------------------------- Gallina check terms

def coq_item(case, result, k, devices=1, perms=None):
    """boolean Gallina term: the model, run through the same history, reproduces every observation exactly"""
    spec = case["spec"]
    s = case["solver"]
    g, eps = qlit(case["g"]), qlit(case["eps"])
    pre = f"Definition M{k} := {coq_mdp(spec)}.\nDefinition V0_{k} := {qlist(init_values(spec))}.\n"
    obs = result["obs"]
    n = spec["nS"]
    calls = list(zip(case["ks"], obs[1:]))
    parts = [f"wf_b M{k}"]
    if s == "vi":
        st = f"(vi_init V0_{k})"
        body = ""
        term = "true"
        # nested lets, innermost first
        for j in reversed(range(len(calls))):
            kk, o = calls[j]
            chk = f"vi_obs_ok st{j + 1} {qlist(o['values'])} {natlit(o['iteration'])} {onatlist(o['policy'])}"
            term = f"(let '(st{j + 1}, _, _) := S_vi_solve M{k} {g} {eps} {ctest(case['test'])} false 1%nat {natlit(kk)} st{j} in {chk} && {term})"
        parts.append(f"(let st0 := {st} in {term})")
    elif s == "rvi":
        term = "true"
        for j in reversed(range(len(calls))):
            kk, o = calls[j]
            chk = f"rvi_obs_ok st{j + 1} {qlist(o['values'])} {natlit(o['iteration'])} {onatlist(o['policy'])} {qlit(o['gain'])}"
            term = f"(let '(st{j + 1}, _, _) := S_rvi_solve M{k} {g} {eps} false 1%nat {natlit(kk)} st{j} in {chk} && {term})"
        parts.append(f"(let st0 := rvi_init V0_{k} in {term})")
    elif s == "pvi":
        term = "true"
        for j in reversed(range(len(calls))):
            kk, o = calls[j]
            chk = (f"pvi_obs_ok st{j + 1} {qlist(o['values'])} {natlit(o['iteration'])} {onatlist(o['policy'])} "
                   f"{oqll(o['history'])} {natlit(o['hidx'])}")
            term = f"(let '(st{j + 1}, _, _) := S_pvi_solve M{k} {g} {eps} {blit(case.get('clear', False))} false 1%nat {natlit(kk)} st{j} in {chk} && {term})"
        parts.append(f"(let st0 := pvi_init {natlit(case['period'])} V0_{k} in {term})")
    elif s == "savi":
        plist = perms or []
        pre += (f"Definition perms{k} : list (option (list nat)) := [" + "; ".join("None" if p is None else f"Some {natlist(p)}" for p in plist) + "].\n"
                f"Definition perm{k} (i : nat) : option (list nat) := nth i perms{k} None.\n")
        term = "true"
        for j in reversed(range(len(calls))):
            kk, o = calls[j]
            chk = f"savi_obs_ok st{j + 1} {qlist(o['values'])} {natlit(o['iteration'])} {onatlist(o['policy'])}"
            term = (f"(let '(st{j + 1}, _, _) := S_savi_solve M{k} {g} {eps} {zlit(n)} {zlit(case['mb'])} {zlit(devices)} {natlit(spec['zidx'])} "
                    f"true (7#1) perm{k} {ctest(case['test'])} false 1%nat {natlit(kk)} st{j} in {chk} && {term})")
        parts.append(f"(let st0 := savi_init V0_{k} in {term})")
    elif s == "pi":
        ip = "None" if spec.get("init_policy") is None else f"(Some {natlist(spec['init_policy'])})"
        o0 = obs[0]
        parts.append(f"natlist_eqb (pi_pol (S_pi_init M{k} {g} {ip} V0_{k})) {natlist(o0['policy'])}")
        term = "true"
        for j in reversed(range(len(calls))):
            kk, o = calls[j]
            chk = f"pi_obs_ok st{j + 1} {qlist(o['values'])} {natlit(o['iteration'])} {natlist(o['policy'])}"
            term = (f"(let '(st{j + 1}, _, _) := S_pi_solve M{k} {g} {eps} {ctest(case['test'])} {natlit(case['max_eval'])} {blit(case['reset'])} V0_{k} "
                    f"false 1%nat {natlit(kk)} st{j} in {chk} && {term})")
        parts.append(f"(let st0 := S_pi_init M{k} {g} {ip} V0_{k} in {term})")
    return pre, "(" + " && ".join(parts) + ")"


def decode_obs(o):
    d = {"values": fracs(o["values"]), "iteration": o["iteration"], "policy": o.get("policy")}
    if "gain" in o:
        d["gain"] = F(o["gain"])
    if "history" in o:
        d["history"] = None if o["history"] is None else [fracs(r) for r in o["history"]]
        d["hidx"] = o["hidx"]
    return d


def compare_with_reference(case, result, refout):
    """first difference between the implementation's observations and the independent reference run (or None)"""
    for j, (o, r) in enumerate(zip(result["obs"][1:], refout)):
        d = decode_obs(o)
        for key in ("values", "iteration", "policy", "gain", "history", "hidx"):
            if key in r and key in d and d[key] != r[key]:
                return f"solve call {j + 1}: {key} differs from the reference run (impl {str(d[key])[:200]} vs reference {str(r[key])[:200]})"
    return None
