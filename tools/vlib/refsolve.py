"""Independent exact-rational reference runs of the five solvers (Python Fractions).
Role: exactness / decision-margin guard for generated cases, and SEARCH ORACLE.
The authoritative model is the Gallina one; this file proves nothing."""
from fractions import Fraction as F

from tools.vlib.mdpgen import Ref, measure, span, vi_threshold


class Margin:
    """smallest relative distance between a convergence measure and its threshold"""

    def __init__(self):
        self.min_rel = None

    def see(self, m, thr):
        if m is None:
            return
        rel = abs(m - thr) / thr if thr != 0 else abs(m - thr)
        if self.min_rel is None or rel < self.min_rel:
            self.min_rel = rel


def layout(n, mb, d):
    """independent port of the documented layout rule (ceil split, min 64 on multi-device, never above max)"""
    spd = -(-n // d)
    bs = min(mb, n) if d == 1 else min(mb, max(64, spd))
    nb = 1 if spd <= bs else -(-spd // bs)
    return bs, nb, d * nb * bs - n


def vi_run(ref, g, eps, test, ks, V0, marg=None):
    thr = vi_threshold(g, eps)
    V, it, out = list(V0), 0, []
    for k in ks:
        conv = False
        for _ in range(k):
            new = ref.sweep(V, g)
            m = measure(test, new, V)
            if marg is not None:
                marg.see(m, thr)
            V, it = new, it + 1
            if m < thr:
                conv = True
                break
        out.append({"values": list(V), "iteration": it, "policy": ref.greedy(V, g), "converged": conv})
    return out


def rvi_run(ref, eps, ks, V0, marg=None):
    g = F(1)
    V, it, gain, out = list(V0), 0, V0[-1], []
    for k in ks:
        conv = False
        for _ in range(k):
            new = [x - gain for x in ref.sweep(V, g)]
            m = span(new, V)
            if marg is not None:
                marg.see(m, eps)
            gain = new[-1]
            V, it = new, it + 1
            if m < eps:
                conv = True
                break
        out.append({"values": list(V), "iteration": it, "policy": ref.greedy(V, g), "converged": conv, "gain": gain})
    return out


def pvi_run(ref, g, eps, period, ks, V0, clear=False, marg=None):
    """keeps ALL iterates in a list (no circular buffer): independent of the implementation's indexing"""
    iterates = [list(V0)]
    out = []
    cleared = False
    for k in ks:
        conv = False
        for _ in range(k):
            V = iterates[-1]
            new = ref.sweep(V, g)
            iterates.append(new)
            n = len(iterates) - 1
            if n < period:
                m = None
            elif g == 1:
                m = span(new, iterates[n - period])
            else:
                deltas = [F(0)] * len(new)
                for j in range(n - period + 1, n + 1):
                    deltas = [dl + (a - b) / g ** (j - 1) for dl, a, b in zip(deltas, iterates[j], iterates[j - 1])]
                m = max(deltas) - min(deltas)
            if marg is not None and m is not None:
                marg.see(m, eps)
            if m is not None and m < eps:
                conv = True
                break
        n = len(iterates) - 1
        if conv and clear:
            cleared = True
        hist = None
        if not cleared:
            buf = [[F(0)] * len(V0) for _ in range(period + 1)]
            buf[0] = list(V0)
            for j in range(1, n + 1):
                buf[j % (period + 1)] = iterates[j]
            hist = buf
        out.append({"values": list(iterates[-1]), "iteration": n, "policy": ref.greedy(iterates[-1], g), "converged": conv,
                    "history": hist, "hidx": n % (period + 1)})
    return out


def gs_sweep(ref, g, V, order, bs, nb, d):
    """block Gauss-Seidel: state at flat position pos belongs to device pos // (nb*bs), batch (pos // bs) % nb;
    it sees new values of the states in earlier batches of the same device."""
    n = len(V)
    new = list(V)
    result = list(V)
    for dev in range(d):
        cur = list(V)
        for b in range(nb):
            lo = (dev * nb + b) * bs
            block = [order[p] for p in range(lo, min(lo + bs, n)) if p < n]
            vals = {s: ref.backup(cur, s, g) for s in block}
            for s, x in vals.items():
                cur[s] = x
                result[s] = x
    return result


def savi_run(ref, g, eps, test, ks, V0, mb, d, perms=None, marg=None):
    thr = vi_threshold(g, eps)
    n = len(V0)
    bs, nb, _ = layout(n, mb, d)
    V, it, out, sw = list(V0), 0, [], 0
    for k in ks:
        conv = False
        for _ in range(k):
            # (the implementation may have made FEWER sweeps than this reference needs - e.g. it stopped too early; the comparison
            #  then reports the iteration mismatch, it must not crash here)
            order = perms[sw] if perms is not None and sw < len(perms) and perms[sw] is not None else list(range(n))
            new = gs_sweep(ref, g, V, order, bs, nb, d)
            sw += 1
            m = measure(test, new, V)
            if marg is not None:
                marg.see(m, thr)
            V, it = new, it + 1
            if m < thr:
                conv = True
                break
        out.append({"values": list(V), "iteration": it, "policy": ref.greedy(V, g), "converged": conv})
    return out


def eval_policy(ref, g, thr, test, max_eval, P, start, marg=None):
    vals = list(start)
    for _ in range(max_eval):
        new = ref.sweep_pi(P, vals, g)
        m = measure(test, new, vals)
        if marg is not None:
            marg.see(m, thr)
        if m < thr:
            return vals, True
        vals = new
    return vals, False


def pi_run(ref, g, eps, test, max_eval, reset, ks, V0, init_policy=None, marg=None):
    thr = vi_threshold(g, eps)
    P = list(init_policy) if init_policy is not None else ref.greedy([F(0)] * ref.nS, g)
    V, it, out = list(V0), 0, []
    last_ok = False
    for k in ks:
        conv = False
        for _ in range(k):
            V, last_ok = eval_policy(ref, g, thr, test, max_eval, P, V0 if reset else V, marg)
            newP = ref.greedy(V, g)
            changed = sum(1 for a, b in zip(newP, P) if a != b)
            P, it = newP, it + 1
            if changed == 0:
                conv = True
                break
        out.append({"values": list(V), "iteration": it, "policy": list(P), "converged": conv, "last_eval_converged": last_ok})
    return out
