"""Kill driver for C11: runs the child, watches its markers and the checkpoint directory (inotify),
sends SIGKILL at a seeded random time or at a staged point, reports what had been committed."""
import json
import os
import re
import signal
import subprocess
import threading
import time

from tools.vlib import core


class Watch:
    """inotifywait on the checkpoint directory; records commits (MOVED_TO <dir>/<k>) and fires a kill on a regex"""

    def __init__(self, d, trigger=None, occurrence=1, on_fire=None):
        os.makedirs(d, exist_ok=True)
        self.d = d
        self.commits = []
        self.events = 0
        self.trigger = re.compile(trigger) if trigger else None
        self.occurrence = occurrence
        self.hits = 0
        self.on_fire = on_fire
        self.fired = False
        self.p = subprocess.Popen(["inotifywait", "-m", "-r", "-q", "-e", "create,moved_to,moved_from,delete", "--format", "%e %w%f", d],
                                  stdout=subprocess.PIPE, stderr=subprocess.DEVNULL, text=True)
        self.t = threading.Thread(target=self._loop, daemon=True)
        self.t.start()
        time.sleep(0.15)

    def _loop(self):
        for line in self.p.stdout:
            line = line.strip()
            self.events += 1
            m = re.match(r"MOVED_TO,ISDIR (.*)/(\d+)$", line)
            if m and os.path.dirname(m.group(1) + "/x") == self.d.rstrip("/"):
                self.commits.append(int(m.group(2)))
            if self.trigger and not self.fired and self.trigger.search(line):
                self.hits += 1
                if self.hits >= self.occurrence:
                    self.fired = True
                    if self.on_fire:
                        self.on_fire()

    def stop(self):
        try:
            self.p.kill()
        except OSError:
            pass


def run_and_kill(ctx, job, mode, param, timeout=120):
    """mode: 'time' (param = seconds after READY), 'marker' (param = (regex on child stdout, occurrence)),
    'inotify' (param = (regex on inotify lines, occurrence)), 'none'."""
    d = job["config"]["checkpoint_dir"]
    jf = ctx.scratch / f"crashjob_{os.getpid()}_{threading.get_ident()}_{time.time_ns()}.json"
    jf.write_text(json.dumps(job))
    child = subprocess.Popen([core.PY, "-m", "tools.impl.crash_child", str(jf)], cwd=core.VERIF, env=ctx.child_env(),
                             stdout=subprocess.PIPE, stderr=subprocess.DEVNULL, text=True)
    info = {"killed": False, "lines": [], "commits_seen_before_kill": [], "mode": mode, "param": param}
    lock = threading.Lock()

    def kill():
        with lock:
            if child.poll() is None and not info["killed"]:
                info["commits_seen_before_kill"] = list(watch.commits)
                try:
                    os.kill(child.pid, signal.SIGKILL)
                    info["killed"] = True
                except OSError:
                    pass

    watch = Watch(d, trigger=param[0] if mode == "inotify" else None, occurrence=param[1] if mode == "inotify" else 1, on_fire=kill)
    t0 = time.time()
    hits = 0
    timer = None
    try:
        for line in child.stdout:
            line = line.strip()
            info["lines"].append(line)
            if line == "READY" and mode == "time":
                timer = threading.Timer(param, kill)
                timer.start()
            if mode == "marker" and not info["killed"] and re.search(param[0], line):
                hits += 1
                if hits >= param[1]:
                    kill()
            if time.time() - t0 > timeout:
                kill()
        child.wait(timeout=30)
    finally:
        if timer:
            timer.cancel()
        if child.poll() is None:
            child.kill()
        time.sleep(0.05)
        watch.stop()
    info["finished_normally"] = any(l.startswith("DONE") for l in info["lines"])
    if not info["killed"]:
        info["commits_seen_before_kill"] = list(watch.commits)
    info["returncode"] = child.returncode
    return info
