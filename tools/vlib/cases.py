"""Emitting Gallina terms for generated cases and evaluating boolean checks in coqc."""
from fractions import Fraction as F

from tools.vlib import core
from tools.vlib.core import blit, natlist, natlit, qlist, qlit, zlit

SOLVE_IMPORTS = ("From Coq Require Import QArith List Arith Bool ZArith.\n"
                 "From MdpaxV Require Import Model.ListUtil Model.QFun Model.MDP Model.Bellman Model.Batching Model.Kernel Model.SemiAsync Model.Solvers Model.CorrSolve.\n"
                 "Import ListNotations.\n")


def coq_mdp(spec):
    nxt = "[" + "; ".join("[" + "; ".join(natlist(r) for r in rs) + "]" for rs in spec["nxt"]) + "]"
    rew = "[" + "; ".join("[" + "; ".join(qlist(r) for r in rs) + "]" for rs in spec["rew"]) + "]"
    prb = "[" + "; ".join("[" + "; ".join(qlist(r) for r in rs) + "]" for rs in spec["prb"]) + "]"
    return f"(of_tables {nxt} {rew} {prb})"


def onatlist(x):
    return "None" if x is None else f"(Some {natlist(x)})"


def oqll(x):
    return "None" if x is None else "(Some [" + "; ".join(qlist(r) for r in x) + "])"


def coq_bools(ctx, name, items, imports=SOLVE_IMPORTS, shard=40, timeout=900):
    """items: list of (prelude_text, bool_term). Returns (failing indices, errors)."""
    from concurrent.futures import ThreadPoolExecutor

    shards = [items[i:i + shard] for i in range(0, len(items), shard)]

    def run(k):
        pre = "\n".join(p for p, _ in shards[k] if p)
        terms = ";\n  ".join(t for _, t in shards[k])
        body = f"{pre}\nEval vm_compute in (failing O [\n  {terms}\n]).\n"
        rc, out, err = core.coq_eval(ctx, f"{name}_{k}", imports, body, timeout)
        if rc != 0:
            return None, f"coqc failed on shard {k}: {err[-1500:]}"
        lst = core.parse_nat_list(out)
        if lst is None:
            return None, f"unparsable coqc output on shard {k}: {out[-500:]}"
        return [k * shard + i for i in lst], None

    failing, errors = [], []
    if not items:
        return failing, errors
    with ThreadPoolExecutor(max_workers=max(1, min(ctx.jobs, 12))) as ex:
        for res, err in ex.map(run, range(len(shards))):
            if err:
                errors.append(err)
            else:
                failing.extend(res)
    return failing, errors


def ctest(t):
    return "Span" if t == "span" else "MaxDiff"
