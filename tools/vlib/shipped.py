"""Parameter grids of the four shipped problems and their complete tables (via the implementation worker)."""
import concurrent.futures as cf
import itertools
import random

import numpy as np

from tools.vlib import core, problems_ref as PR


def grid(ctx, per_problem=None):
    quick = ctx.tier == "quick"
    n = per_problem or (3 if quick else 100)
    rng = random.Random(f"{ctx.seed}-shipped")
    dy = lambda: rng.choice([0.0, 0.5, 1.0, 2.0, 3.0, 5.0, 7.0, 10.0, 0.25])  # noqa: E731  (dyadic cost coefficients: rewards compare exactly)
    out = []
    for i in range(n):
        out.append({"kind": "forest", "params": {"S": rng.choice([1, 2, 3, 5, 8]), "p": rng.choice([0.0, 0.1, 0.25, 1.0]), "r1": dy() + 1, "r2": dy()}})
    for i in range(n):
        m = rng.choice([1, 2, 3] if quick else [1, 2, 3, 4, 5])
        L = rng.choice([1, 2, 3] if quick else [1, 2, 3, 4])
        Q = rng.choice([1, 2, 3]) if m + L <= 4 else rng.choice([1, 2])
        out.append({"kind": "de_moor", "params": {"max_demand": rng.choice([3, 6, 9]), "demand_gamma_mean": rng.choice([1.0, 2.5, 4.0]), "demand_gamma_cov": rng.choice([0.3, 0.5, 2.0]),
                                                  "max_useful_life": m, "lead_time": L, "max_order_quantity": Q, "variable_order_cost": dy(), "shortage_cost": dy(),
                                                  "wastage_cost": dy(), "holding_cost": dy(), "issue_policy": rng.choice(["fifo", "lifo"])}})
    for i in range(n):
        m = rng.choice([1, 2])
        out.append({"kind": "hendrix", "params": {"max_useful_life": m, "max_order_quantity_a": rng.choice([1, 2, 3]), "max_order_quantity_b": rng.choice([1, 2, 3]),
                                                  "demand_poisson_mean_a": rng.choice([0.5, 2.0, 5.0, 8.0]), "demand_poisson_mean_b": rng.choice([0.5, 2.0, 5.0]),
                                                  "substitution_probability": rng.choice([0.0, 0.5, 1.0, 0.25]), "variable_order_cost_a": dy(), "variable_order_cost_b": dy(),
                                                  "sales_price_a": dy(), "sales_price_b": dy()}})
    # the finding's own parameterisation (DESIGN.md section 1) is always in the grid
    out.append({"kind": "hendrix", "params": {"max_useful_life": 2, "max_order_quantity_a": 3, "max_order_quantity_b": 3}})
    for i in range(n):
        m = rng.choice([1, 2, 3])
        out.append({"kind": "mirjalili", "params": {"max_demand": rng.choice([2, 4, 6]), "max_useful_life": m, "max_order_quantity": rng.choice([1, 2, 3]),
                                                    "weekday_demand_negbin_n": [rng.choice([2.2, 3.5, 5.5, 11.0]) for _ in range(7)],
                                                    "weekday_demand_negbin_delta": [rng.choice([0.5, 3.3, 5.7, 6.9]) for _ in range(7)],
                                                    "useful_life_at_arrival_distribution_c_0": [rng.choice([-1.0, 0.0, 0.5, 1.0]) for _ in range(m - 1)],
                                                    "useful_life_at_arrival_distribution_c_1": [rng.choice([-0.5, 0.0, 0.25]) for _ in range(m - 1)],
                                                    "variable_order_cost": dy(), "fixed_order_cost": dy(), "shortage_cost": dy(), "wastage_cost": dy(), "holding_cost": dy()}})
    # directed corners, always in the grid: demand above the order limit with useful life >= 2 (delivery refusal, shortage and
    # wastage all occur on some triple), every cost coefficient distinct so no two cost terms can be confused
    out.append({"kind": "mirjalili", "params": {"max_demand": 6, "max_useful_life": 2, "max_order_quantity": 3, "weekday_demand_negbin_n": [3.5] * 7, "weekday_demand_negbin_delta": [5.7] * 7,
                                                "useful_life_at_arrival_distribution_c_0": [0.5], "useful_life_at_arrival_distribution_c_1": [0.25],
                                                "variable_order_cost": 1.0, "fixed_order_cost": 10.0, "shortage_cost": 20.0, "wastage_cost": 5.0, "holding_cost": 0.5}})
    out.append({"kind": "mirjalili", "params": {"max_demand": 5, "max_useful_life": 3, "max_order_quantity": 2, "weekday_demand_negbin_n": [2.2, 3.5, 5.5, 11.0, 2.2, 3.5, 5.5],
                                                "weekday_demand_negbin_delta": [0.5, 3.3, 5.7, 6.9, 0.5, 3.3, 5.7],
                                                "useful_life_at_arrival_distribution_c_0": [1.0, 0.5], "useful_life_at_arrival_distribution_c_1": [0.0, -0.5],
                                                "variable_order_cost": 0.25, "fixed_order_cost": 3.0, "shortage_cost": 7.0, "wastage_cost": 2.0, "holding_cost": 1.0}})
    # extreme logits of the useful-life-at-arrival law (accepted by the configuration validation): the documented
    # multinomial is still a distribution (one age class takes essentially all the mass)
    for c1 in (400.0, -400.0):   # beyond exp overflow in double precision too
        out.append({"kind": "mirjalili", "params": {"max_demand": 3, "max_useful_life": 2, "max_order_quantity": 2, "weekday_demand_negbin_n": [3.5] * 7, "weekday_demand_negbin_delta": [5.7] * 7,
                                                    "useful_life_at_arrival_distribution_c_0": [1.0], "useful_life_at_arrival_distribution_c_1": [c1],
                                                    "variable_order_cost": 1.0, "fixed_order_cost": 10.0, "shortage_cost": 20.0, "wastage_cost": 5.0, "holding_cost": 0.5}})
    for pol in ("fifo", "lifo"):
        out.append({"kind": "de_moor", "params": {"max_demand": 7, "demand_gamma_mean": 2.5, "demand_gamma_cov": 0.5, "max_useful_life": 3, "lead_time": 2, "max_order_quantity": 2,
                                                  "variable_order_cost": 3.0, "shortage_cost": 5.0, "wastage_cost": 7.0, "holding_cost": 1.0, "issue_policy": pol}})
    # demand limit BELOW the order limit (event space sized by the order limit, not by the demand limit) and three age classes for
    # the two-product problem (issuing carries demand across more than one older class)
    out.append({"kind": "mirjalili", "params": {"max_demand": 1, "max_useful_life": 2, "max_order_quantity": 3, "weekday_demand_negbin_n": [3.5] * 7, "weekday_demand_negbin_delta": [5.7] * 7,
                                                "useful_life_at_arrival_distribution_c_0": [0.5], "useful_life_at_arrival_distribution_c_1": [0.25],
                                                "variable_order_cost": 1.0, "fixed_order_cost": 10.0, "shortage_cost": 20.0, "wastage_cost": 5.0, "holding_cost": 0.5}})
    out.append({"kind": "mirjalili", "params": {"max_demand": 2, "max_useful_life": 3, "max_order_quantity": 3, "weekday_demand_negbin_n": [2.2] * 7, "weekday_demand_negbin_delta": [3.3] * 7,
                                                "useful_life_at_arrival_distribution_c_0": [1.0, 0.5], "useful_life_at_arrival_distribution_c_1": [0.0, 0.25],
                                                "variable_order_cost": 0.25, "fixed_order_cost": 3.0, "shortage_cost": 7.0, "wastage_cost": 2.0, "holding_cost": 1.0}})
    out.append({"kind": "hendrix", "params": {"max_useful_life": 3, "max_order_quantity_a": 1, "max_order_quantity_b": 2, "demand_poisson_mean_a": 0.5, "demand_poisson_mean_b": 2.0,
                                              "substitution_probability": 0.5, "variable_order_cost_a": 0.5, "variable_order_cost_b": 0.25, "sales_price_a": 1.0, "sales_price_b": 2.0}})
    # long order pipelines (lead time 3 and 4: newest and oldest in-transit orders are different entries)
    for L, m in ((3, 2), (4, 1)):
        out.append({"kind": "de_moor", "params": {"max_demand": 5, "demand_gamma_mean": 2.5, "demand_gamma_cov": 0.5, "max_useful_life": m, "lead_time": L, "max_order_quantity": 2,
                                                  "variable_order_cost": 3.0, "shortage_cost": 5.0, "wastage_cost": 7.0, "holding_cost": 1.0, "issue_policy": "fifo" if L == 3 else "lifo"}})
    # product A can hold more stock than product B (tables indexed by the wrong product's range would be too short)
    out.append({"kind": "hendrix", "params": {"max_useful_life": 2, "max_order_quantity_a": 3, "max_order_quantity_b": 1, "demand_poisson_mean_a": 2.0, "demand_poisson_mean_b": 0.5,
                                              "substitution_probability": 0.5, "variable_order_cost_a": 0.5, "variable_order_cost_b": 0.25, "sales_price_a": 1.0, "sales_price_b": 2.0}})
    out.append({"kind": "hendrix", "params": {"max_useful_life": 2, "max_order_quantity_a": 2, "max_order_quantity_b": 3, "demand_poisson_mean_a": 2.0, "demand_poisson_mean_b": 5.0,
                                              "substitution_probability": 0.25, "variable_order_cost_a": 0.5, "variable_order_cost_b": 0.25, "sales_price_a": 1.0, "sales_price_b": 2.0}})
    # no substitution at all / certain substitution (the boundary values of the substitution probability), small means so that the
    # demand truncation loses almost nothing and the comparison with the documented joint law is tight
    for rho in (0.0, 1.0):
        out.append({"kind": "hendrix", "params": {"max_useful_life": 2, "max_order_quantity_a": 2, "max_order_quantity_b": 2, "demand_poisson_mean_a": 0.5, "demand_poisson_mean_b": 0.5,
                                                  "substitution_probability": rho, "variable_order_cost_a": 0.5, "variable_order_cost_b": 0.25, "sales_price_a": 1.0, "sales_price_b": 2.0}})
    # construction HISTORY: the measured problem is built after a sibling of the same class that differs in ONE size parameter
    # (same demand distribution parameters) was built in the same process - a problem's functions depend on its own parameters only
    sib = [("de_moor", {"max_demand": 5, "demand_gamma_mean": 2.5, "demand_gamma_cov": 0.5, "max_useful_life": 2, "lead_time": 1, "max_order_quantity": 2,
                        "variable_order_cost": 3.0, "shortage_cost": 5.0, "wastage_cost": 7.0, "holding_cost": 1.0, "issue_policy": "fifo"}, [{"max_demand": 8}]),
           ("de_moor", {"max_demand": 8, "demand_gamma_mean": 4.0, "demand_gamma_cov": 0.5, "max_useful_life": 2, "lead_time": 1, "max_order_quantity": 2,
                        "variable_order_cost": 3.0, "shortage_cost": 5.0, "wastage_cost": 7.0, "holding_cost": 1.0, "issue_policy": "lifo"}, [{"max_demand": 4}, {"max_order_quantity": 3}]),
           ("hendrix", {"max_useful_life": 2, "max_order_quantity_a": 2, "max_order_quantity_b": 1, "demand_poisson_mean_a": 2.0, "demand_poisson_mean_b": 2.0,
                        "substitution_probability": 0.5, "variable_order_cost_a": 0.5, "variable_order_cost_b": 0.25, "sales_price_a": 1.0, "sales_price_b": 2.0},
            [{"max_order_quantity_a": 1, "max_order_quantity_b": 3}]),
           ("mirjalili", {"max_demand": 4, "max_useful_life": 2, "max_order_quantity": 2, "weekday_demand_negbin_n": [3.5] * 7, "weekday_demand_negbin_delta": [5.7] * 7,
                          "useful_life_at_arrival_distribution_c_0": [0.5], "useful_life_at_arrival_distribution_c_1": [0.25],
                          "variable_order_cost": 1.0, "fixed_order_cost": 10.0, "shortage_cost": 20.0, "wastage_cost": 5.0, "holding_cost": 0.5},
            [{"max_demand": 2}, {"max_demand": 6, "max_order_quantity": 3}]),
           ("forest", {"S": 5, "p": 0.25, "r1": 4.0, "r2": 2.0}, [{"S": 3}, {"S": 8, "p": 0.5}])]
    for kind, params, changes in sib:
        out.append({"kind": kind, "params": params, "pre": [{"kind": kind, "params": dict(params, **ch)} for ch in changes]})
    return out


def large(ctx):
    """parameterisations whose state space has more than 2^16 rows (the index of every row is checked, transitions from a sample)"""
    quick = ctx.tier == "quick"
    out = [{"kind": "de_moor", "params": {"max_demand": 6, "demand_gamma_mean": 4.0, "demand_gamma_cov": 0.5, "max_useful_life": 3, "lead_time": 3, "max_order_quantity": 9},
            "sample": {"n": 300, "seed": ctx.seed}}]                                        # 10^5 states
    if not quick:
        out += [{"kind": "hendrix", "params": {"max_useful_life": 3, "max_order_quantity_a": 6, "max_order_quantity_b": 6}, "sample": {"n": 200, "seed": ctx.seed}},   # 7^6
                {"kind": "mirjalili", "params": {"max_demand": 3, "max_useful_life": 4, "max_order_quantity": 21, "useful_life_at_arrival_distribution_c_0": [1.0, 0.5, 0.25],
                                                 "useful_life_at_arrival_distribution_c_1": [0.0, 0.25, -0.5]}, "sample": {"n": 200, "seed": ctx.seed}},            # 7 x 22^3
                {"kind": "de_moor", "params": {"max_demand": 4, "max_useful_life": 2, "lead_time": 3, "max_order_quantity": 20}, "sample": {"n": 300, "seed": ctx.seed + 1}},   # 21^4
                {"kind": "de_moor", "params": {"max_demand": 4, "max_useful_life": 9, "lead_time": 8, "max_order_quantity": 1}, "sample": {"n": 300, "seed": ctx.seed + 2}}]   # 2^16 exactly
    return out


def tables(ctx, problems, x64=True):
    """returns list of (problem, meta, npz) ; npz is None when the implementation raised"""
    outs = [str(ctx.scratch / f"tab_{i}.npz") for i in range(len(problems))]
    jobs = [{"kind": "problem_tables", "problem": p, "out": o, "x64": x64, "pre": p.get("pre", []), "sample": p.get("sample")} for p, o in zip(problems, outs)]
    res = core.run_workers(ctx, jobs, nproc=8)
    result = []
    for p, o, r in zip(problems, outs, res):
        if "error" in r:
            result.append((p, r, None))
        else:
            result.append((p, r, np.load(o)))
    return result
