"""Shared machinery of the /verif checks: translators -> coq/gen, Coq build, model
evaluation inside coqc (vm_compute), implementation workers, evidence, verdicts."""
import fcntl
import hashlib
import json
import os
import random
import re
import shutil
import subprocess
import sys
import tempfile
import time
from concurrent.futures import ThreadPoolExecutor
from pathlib import Path

VERIF = Path(__file__).resolve().parents[2]
COQ = VERIF / "coq"
GEN = COQ / "gen"
PY = "/venv/bin/python"
COQ_FLAGS = ["-Q", str(COQ / "theories"), "MdpaxV", "-Q", str(GEN), "MdpaxGen"]
AXIOM_ALLOW = set()  # DESIGN.md section 7: empty by design

TRUSTED_BASE_COMMON = [
    "Coq 8.16.1 kernel (coqc, full .vo build, vm_compute for model evaluation; no native_compute)",
    "no axioms: every Props theorem must print 'Closed under the global context'",
    "fail-closed Python-ast translators tools/translate/*.py (regenerate coq/gen/*.v from /repo on every run)",
    "correspondence harness (Python): tabulation of problems, Fraction(float) conversion, canonicalisation",
    "model is exact rational arithmetic; IEEE-754/XLA/JAX are modelled, validated by bit-exact dyadic correspondence",
]


class Ctx:
    def __init__(self, prop, tier, seed, repo):
        self.prop = prop
        self.tier = tier
        self.seed = seed
        self.repo = str(Path(repo).resolve())
        self.jobs = int(os.environ.get("VERIF_JOBS", "16"))
        self.t0 = time.time()
        self.scratch = Path(tempfile.mkdtemp(prefix="mdpax-verif.", dir="/var/tmp"))
        self.rng = random.Random(f"{seed}-{prop}")
        self.notes = []

    def cleanup(self):
        shutil.rmtree(self.scratch, ignore_errors=True)

    def child_env(self, devices=1, threads=2, extra=None):
        env = dict(os.environ)
        env.update({
            "PYTHONPATH": f"{self.repo}/src:{VERIF}",
            "PYTHONHASHSEED": "0",
            "JAX_PLATFORMS": "cpu",
            "MDPAX_VERIF": "1",
            "PIP_NO_INDEX": "1",
            "XLA_FLAGS": f"--xla_force_host_platform_device_count={devices} --xla_cpu_multi_thread_eigen=false intra_op_parallelism_threads={threads}",
            "OMP_NUM_THREADS": str(threads),
            "TF_CPP_MIN_LOG_LEVEL": "3",
        })
        if extra:
            env.update(extra)
        return env


# --------------------------------------------------------------------------- translators

TRANSLATORS = {
    "GenBatch": "gen_batch",
    "GenSpaces": "gen_spaces",
    "GenValidators": "gen_validators",
    "GenThreshold": "gen_threshold",
    "GenFields": "gen_fields",
    "GenLoops": "gen_loops",
    "GenPeriodic": "gen_periodic",
    "GenRestore": "gen_restore",
    "GenRoutes": "gen_routes",
    "GenSave": "gen_save",
    "GenSemiAsync": "gen_semiasync",
    "GenKernel": "gen_kernel",
    "GenRviStep": "gen_rvistep",
    "GenPiEval": "gen_pieval",
    "GenDeMoor": "gen_demoor",
    "GenMirjalili": "gen_mirjalili",
    "GenHendrix": "gen_hendrix",
    "GenForest": "gen_forest",
    "GenProbStruct": "gen_probstruct",
    "GenPiStep": "gen_pistep",
    "GenMatrices": "gen_matrices",
}


def regen(repo):
    """Run every translator against `repo`; (re)write coq/gen/<Name>.v only when its text changed.
    A failed translation writes a stub that cannot compile, so exactly its dependents break."""
    import importlib

    sys.path.insert(0, str(VERIF))
    GEN.mkdir(exist_ok=True)
    status = {}
    for gname, mod in TRANSLATORS.items():
        try:
            m = importlib.import_module(f"tools.translate.{mod}")
        except ModuleNotFoundError:
            continue
        try:
            text, meta = m.translate(repo)
            status[gname] = {"ok": True, "meta": meta}
        except Exception as e:  # fail closed
            msg = f"{type(e).__name__}: {e}".replace("*)", "* )").replace("(*", "( *")
            text = f"(* TRANSLATION FAILED: {msg} *)\nDefinition translation_failed : False := I.\n"
            status[gname] = {"ok": False, "error": f"{type(e).__name__}: {e}"}
        tgt = GEN / f"{gname}.v"
        if not tgt.exists() or tgt.read_text() != text:
            tgt.write_text(text)
        (GEN / f"{gname}.json").write_text(json.dumps(status[gname], indent=1))
    return status


class BuildLock:
    def __enter__(self):
        (VERIF / "build").mkdir(exist_ok=True)
        self.f = open(VERIF / "build" / "lock", "w")
        fcntl.flock(self.f, fcntl.LOCK_EX)
        return self

    def __exit__(self, *a):
        fcntl.flock(self.f, fcntl.LOCK_UN)
        self.f.close()


def _ensure_makefile():
    mk = COQ / "Makefile"
    cp = COQ / "_CoqProject"
    if not mk.exists() or mk.stat().st_mtime < cp.stat().st_mtime:
        subprocess.run(["coq_makefile", "-f", "_CoqProject", "-o", "Makefile"], cwd=COQ, check=True,
                       stdout=subprocess.DEVNULL, stderr=subprocess.DEVNULL)


def coq_make(targets, jobs=16, timeout=1500):
    """make the given .vo targets (paths relative to coq/). Returns (ok, log)."""
    _ensure_makefile()
    p = subprocess.run(["timeout", str(timeout), "make", "-k", f"-j{jobs}"] + list(targets), cwd=COQ,
                       stdout=subprocess.PIPE, stderr=subprocess.STDOUT, text=True)
    return p.returncode == 0, p.stdout


def build_for(ctx, prop):
    """regen + build the model and the property file. Returns dict with obligations etc."""
    with BuildLock():
        tstatus = regen(ctx.repo)
        res = {"translators": tstatus}
        listed = [ln.strip() for ln in (COQ / "_CoqProject").read_text().splitlines() if ln.strip().startswith("theories/Model/") and ln.strip().endswith(".v")]
        model_targets = [ln + "o" for ln in listed]   # exactly the files of the project (a scratch file lying in the directory is not a target)
        ok_model, log_model = coq_make(model_targets, ctx.jobs)
        res["model_ok"] = ok_model
        res["model_log"] = log_model[-4000:] if not ok_model else ""
        pfile = COQ / "theories" / "Props" / f"{prop}.v"
        vo = pfile.with_suffix(".vo")
        if vo.exists():
            vo.unlink()
        ok, log = coq_make([f"theories/Props/{prop}.vo"], ctx.jobs)
        res["props_ok"] = ok
        res["props_log"] = log[-6000:]
    src = pfile.read_text()
    theorems = re.findall(r"^\s*Theorem\s+(\w+)", src, flags=re.M)
    res["theorems"] = theorems
    res["obligations"] = len(theorems)
    closed = 0
    axioms_seen = []
    if ok:
        # output of Print Assumptions, in order
        blocks = re.split(r"(?=Closed under the global context|Axioms:)", log)
        for b in blocks:
            if b.startswith("Closed under the global context"):
                closed += 1
            elif b.startswith("Axioms:"):
                names = re.findall(r"^\s*([\w\.]+)\s*:", b[len("Axioms:"):], flags=re.M)
                axioms_seen.append(names)
                if names and all(n in AXIOM_ALLOW for n in names):
                    closed += 1
    res["discharged"] = min(closed, len(theorems)) if ok else 0
    res["axioms_seen"] = axioms_seen
    res["hygiene"] = hygiene_scan()
    if res["hygiene"]:
        res["discharged"] = 0
    n_pa = len(re.findall(r"^\s*Print Assumptions\s+\w+", src, flags=re.M))
    if n_pa < len(theorems):
        res["discharged"] = min(res["discharged"], n_pa)
    if ctx.tier == "thorough" and ok:
        res["coqchk"] = coqchk(prop)
        if not res["coqchk"]["ok"]:
            res["discharged"] = 0
    return res


def coqchk(prop):
    """independent re-check of the compiled property file and everything it depends on (thorough tier only: ~40 s)"""
    t0 = time.time()
    with BuildLock():
        p = subprocess.run(["timeout", "1500", "coqchk", "-silent", "-o", "-Q", "theories", "MdpaxV", "-Q", "gen", "MdpaxGen", f"MdpaxV.Props.{prop}"],
                           cwd=COQ, capture_output=True, text=True)
    out = p.stdout + p.stderr
    summ = out[out.find("CONTEXT SUMMARY"):] if "CONTEXT SUMMARY" in out else out[-1500:]

    def field(name):
        m = re.search(r"\* " + re.escape(name) + r":\s*(.*?)(?=\n\s*\n|\n\* |\Z)", summ, flags=re.S)
        txt = (m.group(1).strip() if m else "?")
        return [] if txt == "<none>" else [x.strip() for x in txt.splitlines() if x.strip()]
    axioms = field("Axioms")
    info = {"rc": p.returncode, "seconds": round(time.time() - t0, 1), "axioms": axioms,
            "type_in_type": field("Constants/Inductives relying on type-in-type"),
            "unsafe_fixpoints": field("Constants/Inductives relying on unsafe (co)fixpoints"),
            "assumed_positivity": field("Inductives whose positivity is assumed")}
    info["ok"] = (p.returncode == 0 and all(a in AXIOM_ALLOW for a in axioms) and not info["type_in_type"] and not info["unsafe_fixpoints"] and not info["assumed_positivity"]
                  and "?" not in axioms)
    return info


FORBIDDEN = re.compile(r"\b(Admitted|admit|Axiom|Axioms|Parameter|Parameters|Conjecture|Admit Obligations|bypass_check|type-in-type|impredicative-set)\b|Unset\s+Guard|Unset\s+Positivity|Unset\s+Universe")


def hygiene_scan():
    bad = []
    for p in list((COQ / "theories").rglob("*.v")) + list(GEN.glob("*.v")):
        txt = re.sub(r"\(\*.*?\*\)", "", p.read_text(), flags=re.S)
        for m in FORBIDDEN.finditer(txt):
            if p.parent == GEN and "TRANSLATION FAILED" in p.read_text():
                continue
            bad.append(f"{p.relative_to(COQ)}: {m.group(0)}")
    cp = (COQ / "_CoqProject").read_text()
    if re.search(r"type-in-type|impredicative-set|-vos|-vok", cp):
        bad.append("_CoqProject: forbidden flag")
    return bad


# --------------------------------------------------------------------------- model evaluation in coqc

def coq_eval(ctx, name, imports, body, timeout=900):
    """Compile a throw-away .v file (vm_compute evaluation of the model) and return coqc's stdout."""
    d = ctx.scratch / "cases"
    d.mkdir(exist_ok=True)
    f = d / f"{name}.v"
    f.write_text(imports + "\n" + body + "\n")
    p = subprocess.run(["timeout", str(timeout), "coqc"] + COQ_FLAGS + [str(f)], cwd=d,
                       stdout=subprocess.PIPE, stderr=subprocess.PIPE, text=True)
    return p.returncode, p.stdout, p.stderr


def parse_nat_list(out):
    """Parse the result of `Eval vm_compute in (… : list nat)`: returns list of ints, or None."""
    m = re.search(r"=\s*(\[.*?\])\s*:\s*list nat", out, flags=re.S)
    if not m:
        return None
    body = m.group(1).strip()[1:-1].strip()
    if not body:
        return []
    return [int(x.replace("%nat", "")) for x in re.split(r"\s*;\s*", body)]


def coq_failing(ctx, name, imports, case_type, checker, case_terms, shard=400, timeout=900):
    """Evaluate `checker : case_type -> bool` on every term (in kernel, vm_compute);
    returns (failing_indices, errors)."""
    shards = [case_terms[i:i + shard] for i in range(0, len(case_terms), shard)]

    def run(k):
        terms = shards[k]
        body = (f"Definition cases : list ({case_type}) := [\n  " + ";\n  ".join(terms) + "\n].\n"
                f"Fixpoint failing (i : nat) (l : list ({case_type})) : list nat :=\n"
                f"  match l with [] => [] | c :: t => if {checker} c then failing (S i) t else i :: failing (S i) t end.\n"
                f"Eval vm_compute in (failing O cases).\n")
        rc, out, err = coq_eval(ctx, f"{name}_{k}", imports, body, timeout)
        if rc != 0:
            return None, f"coqc failed on shard {k}: {err[-1500:]}"
        lst = parse_nat_list(out)
        if lst is None:
            return None, f"unparsable coqc output on shard {k}: {out[-500:]}"
        return [k * shard + i for i in lst], None

    failing, errors = [], []
    with ThreadPoolExecutor(max_workers=max(1, min(ctx.jobs, 8))) as ex:
        for res, err in ex.map(run, range(len(shards))):
            if err:
                errors.append(err)
            else:
                failing.extend(res)
    return failing, errors


def coq_show(ctx, name, imports, term, timeout=300):
    rc, out, err = coq_eval(ctx, name, imports, f"Eval vm_compute in ({term}).", timeout)
    return (out if rc == 0 else f"ERROR: {err[-1500:]}")


# Gallina literals -----------------------------------------------------------

def zlit(i):
    i = int(i)
    return f"({i})%Z" if i < 0 else f"{i}%Z"


def zlist(xs):
    return "[" + "; ".join(zlit(x) for x in xs) + "]"


def natlit(i):
    return f"{int(i)}%nat"


def natlist(xs):
    return "[" + "; ".join(natlit(x) for x in xs) + "]"


def qlit(fr):
    from fractions import Fraction

    fr = Fraction(fr)
    n = f"({fr.numerator})" if fr.numerator < 0 else f"{fr.numerator}"
    return f"({n} # {fr.denominator})%Q"


def qlist(xs):
    return "[" + "; ".join(qlit(x) for x in xs) + "]"


def blit(b):
    return "true" if b else "false"


# --------------------------------------------------------------------------- implementation workers

def run_worker(ctx, jobs, devices=1, threads=2, timeout=1800, extra_env=None):
    """Run a list of JSON jobs in ONE fresh python process that imports mdpax from ctx.repo."""
    inp = json.dumps(jobs)
    p = subprocess.run([PY, "-m", "tools.impl.worker"], input=inp, cwd=VERIF, env=ctx.child_env(devices, threads, extra_env),
                       stdout=subprocess.PIPE, stderr=subprocess.PIPE, text=True, timeout=timeout)
    marker = "@@RESULT@@"
    if marker not in p.stdout:
        return [{"error": "worker-crashed", "stderr": p.stderr[-3000:], "stdout": p.stdout[-1000:]} for _ in jobs]
    return json.loads(p.stdout.split(marker, 1)[1])


def run_workers(ctx, jobs, nproc=None, devices=1, threads=2, timeout=1800, extra_env=None):
    """Split jobs round-robin over nproc fresh processes; results in input order."""
    nproc = nproc or max(1, min(ctx.jobs // max(1, threads), 8, len(jobs)))
    if not jobs:
        return []
    buckets = [jobs[i::nproc] for i in range(nproc)]
    with ThreadPoolExecutor(max_workers=nproc) as ex:
        outs = list(ex.map(lambda b: run_worker(ctx, b, devices, threads, timeout, extra_env), buckets))
    res = [None] * len(jobs)
    for i in range(nproc):
        for k, r in enumerate(outs[i]):
            res[i + k * nproc] = r
    return res


# --------------------------------------------------------------------------- verdicts / evidence

def load_known():
    p = VERIF / "known_findings.json"
    if p.exists():
        return json.loads(p.read_text())
    return {"open": [], "fixed": []}


def write_replay(ctx, data):
    d = VERIF / "replays"
    d.mkdir(exist_ok=True)
    blob = json.dumps(data, indent=1, sort_keys=True, default=str)
    h = hashlib.sha1(blob.encode()).hexdigest()[:10]
    path = d / f"{ctx.prop}-{h}.json"
    path.write_text(blob)
    return path


def write_evidence(ctx, build, coverage, violations, assumptions=None):
    cov = {
        "obligations": build.get("obligations", 0),
        "discharged": build.get("discharged", 0),
        "checker_cmd": f"cd /verif/coq && make theories/Props/{ctx.prop}.vo  (coqc 8.16.1; Print Assumptions under every Theorem)",
        "trusted_base": TRUSTED_BASE_COMMON + coverage.pop("trusted_base_extra", []),
        "theorems": build.get("theorems", []),
        "translators": {k: (v.get("meta", {}).get("spans") if v.get("ok") else v.get("error")) for k, v in build.get("translators", {}).items()},
    }
    if build.get("coqchk"):
        cov["coqchk"] = build["coqchk"]
    cov.update(coverage)
    ev = {
        "property_id": ctx.prop,
        "tier": ctx.tier,
        "seed": ctx.seed,
        "level": "proof",
        "coverage": cov,
        "assumptions": assumptions or [],
        "wall_s": round(time.time() - ctx.t0, 2),
        "violations": violations,
    }
    # /verif/evidence describes /repo only: a run against another tree (VERIF_REPO=<scratch worktree>, used to evaluate seeded
    # changes) records under build/ (git-ignored) so that it can never be mistaken for, or committed as, evidence about /repo
    if os.path.realpath(str(ctx.repo)) == "/repo":
        edir = VERIF / "evidence"
    else:
        edir = VERIF / "build" / ("evidence-" + re.sub(r"[^A-Za-z0-9]+", "_", str(ctx.repo)).strip("_"))
        ev["repo"] = str(ctx.repo)
    edir.mkdir(parents=True, exist_ok=True)
    (edir / f"{ctx.prop}.json").write_text(json.dumps(ev, indent=1, default=str))
    return ev


def case_hash(obj):
    return hashlib.sha1(json.dumps(obj, sort_keys=True, default=str).encode()).hexdigest()
