"""Independent scalar (pure Python, no arrays) reference of the four shipped problems, written from
their documentation: spaces, dynamics, rewards; and their event distributions computed with scipy/math.
Role: SEARCH ORACLE / property predicate for C13-C16.  It proves nothing."""
import itertools
import math

DEFAULTS = {
    "forest": {"S": 3, "r1": 4.0, "r2": 2.0, "p": 0.1},
    "de_moor": {"max_demand": 100, "demand_gamma_mean": 4.0, "demand_gamma_cov": 0.5, "max_useful_life": 2, "lead_time": 1, "max_order_quantity": 10,
                "variable_order_cost": 3.0, "shortage_cost": 5.0, "wastage_cost": 7.0, "holding_cost": 1.0, "issue_policy": "lifo"},
    "hendrix": {"max_useful_life": 2, "demand_poisson_mean_a": 5.0, "demand_poisson_mean_b": 5.0, "substitution_probability": 0.5, "variable_order_cost_a": 0.5,
                "variable_order_cost_b": 0.5, "sales_price_a": 1.0, "sales_price_b": 1.0, "max_order_quantity_a": 10, "max_order_quantity_b": 10},
    "mirjalili": {"max_demand": 20, "weekday_demand_negbin_n": (3.5, 11.0, 7.2, 11.1, 5.9, 5.5, 2.2), "weekday_demand_negbin_delta": (5.7, 6.9, 6.5, 6.2, 5.8, 3.3, 3.4),
                  "max_useful_life": 3, "useful_life_at_arrival_distribution_c_0": (1.0, 0.5), "useful_life_at_arrival_distribution_c_1": (0.0, 0.0), "max_order_quantity": 20,
                  "variable_order_cost": 0.0, "fixed_order_cost": 10.0, "shortage_cost": 20.0, "wastage_cost": 5.0, "holding_cost": 1.0},
}


def params_of(kind, params):
    p = dict(DEFAULTS[kind])
    p.update(params or {})
    return p


def box(maxs):
    return [list(v) for v in itertools.product(*[range(m + 1) for m in maxs])]


# ------------------------------------------------------------------------------------------- spaces
def spaces(kind, P):
    if kind == "forest":
        return [[s] for s in range(P["S"])], [[0], [1]], [[0], [1]]
    if kind == "de_moor":
        dim = P["max_useful_life"] + P["lead_time"] - 1
        return box([P["max_order_quantity"]] * dim), [[q] for q in range(P["max_order_quantity"] + 1)], [[d] for d in range(P["max_demand"] + 1)]
    if kind == "hendrix":
        m = P["max_useful_life"]
        return (box([P["max_order_quantity_a"]] * m + [P["max_order_quantity_b"]] * m), box([P["max_order_quantity_a"], P["max_order_quantity_b"]]),
                box([P["max_order_quantity_a"] * m, P["max_order_quantity_b"] * m]))
    if kind == "mirjalili":
        m, Q = P["max_useful_life"], P["max_order_quantity"]
        recs = [list(r) for r in itertools.product(*[range(Q + 1)] * m) if sum(r) <= Q]
        events = [[d] + r for r in recs for d in range(P["max_demand"] + 1)]
        return box([6] + [Q] * (m - 1)), [[q] for q in range(Q + 1)], events
    raise ValueError(kind)


# ------------------------------------------------------------------------------------------- dynamics
def issue(stock, demand, oldest_first=True):
    """stock[0] is the youngest age class, stock[-1] the oldest.  Returns stock after issuing."""
    stock = list(stock)
    order = range(len(stock) - 1, -1, -1) if oldest_first else range(len(stock))
    rem = demand
    for i in order:
        take = min(stock[i], rem)
        stock[i] -= take
        rem -= take
    return stock


def transition(kind, P, s, a, e):
    if kind == "forest":
        age, cut, fire = s[0], a[0] == 1, e[0] == 1
        top = age == P["S"] - 1
        if cut:
            reward = P["r2"] if top else (0.0 if age == 0 else 1.0)
        else:
            # pymdptoolbox's reward matrix: r1 for waiting in the oldest state (whether or not the fire event is drawn)
            reward = P["r1"] if top else 0.0
        nxt = 0 if (cut or fire) else min(age + 1, P["S"] - 1)
        return [nxt], reward
    if kind == "de_moor":
        L, m = P["lead_time"], P["max_useful_life"]
        transit, stock = list(s[: L - 1]), list(s[L - 1:])
        q, d = a[0], e[0]
        pipeline = [q] + transit                      # newest order first
        after = issue(stock, d, oldest_first=(P["issue_policy"] == "fifo"))
        shortage = max(d - sum(stock), 0)
        expired = after[-1]
        holding = sum(after[: m - 1])
        reward = -(P["variable_order_cost"] * q + P["shortage_cost"] * shortage + P["wastage_cost"] * expired + P["holding_cost"] * holding)
        arriving = pipeline[-1]                       # placed L-1 steps ago (this step's order when L = 1)
        return pipeline[: L - 1] + [arriving] + after[: m - 1], reward
    if kind == "hendrix":
        m = P["max_useful_life"]
        sa, sb = list(s[:m]), list(s[m:])
        ia, ib = e
        aa, ab = issue(sa, ia, True), issue(sb, ib, True)
        reward = (P["sales_price_a"] * ia + P["sales_price_b"] * ib) - (P["variable_order_cost_a"] * a[0] + P["variable_order_cost_b"] * a[1])
        return [a[0]] + aa[: m - 1] + [a[1]] + ab[: m - 1], reward
    if kind == "mirjalili":
        m, Q = P["max_useful_life"], P["max_order_quantity"]
        wd, stock = s[0], [0] + list(s[1:])
        d, rec = e[0], list(e[1:])
        opening = [min(max(x + r, 0), Q) for x, r in zip(stock, rec)]     # units beyond the per-age limit are refused at delivery
        after = issue(opening, d, True)
        q = a[0]
        shortage = max(d - sum(opening), 0)
        reward = -(P["variable_order_cost"] * q + P["fixed_order_cost"] * (1 if q > 0 else 0) + P["shortage_cost"] * shortage
                   + P["wastage_cost"] * after[-1] + P["holding_cost"] * sum(after))
        return [(wd + 1) % 7] + after[: m - 1], reward
    raise ValueError(kind)


def index_of(kind, P, v):
    """row-major index in the documented state space (None when v is not a state)"""
    if kind == "forest":
        return v[0] if 0 <= v[0] < P["S"] else None
    if kind == "de_moor":
        maxs = [P["max_order_quantity"]] * (P["max_useful_life"] + P["lead_time"] - 1)
    elif kind == "hendrix":
        maxs = [P["max_order_quantity_a"]] * P["max_useful_life"] + [P["max_order_quantity_b"]] * P["max_useful_life"]
    else:
        maxs = [6] + [P["max_order_quantity"]] * (P["max_useful_life"] - 1)
    if len(v) != len(maxs) or any(not (0 <= x <= mx) for x, mx in zip(v, maxs)):
        return None
    i = 0
    for x, mx in zip(v, maxs):
        i = i * (mx + 1) + x
    return i


# ------------------------------------------------------------------------------------------- distributions (scipy / math)
def demoor_pmf(P):
    from scipy.stats import gamma
    mean, cov = P["demand_gamma_mean"], P["demand_gamma_cov"]
    shape, scale = 1 / cov ** 2, mean * cov ** 2
    D = P["max_demand"]
    cdf = lambda x: gamma.cdf(x, shape, scale=scale)  # noqa: E731
    pm = [cdf(0.5) - cdf(0.0)] + [cdf(d + 0.5) - cdf(d - 0.5) for d in range(1, D + 1)]
    pm[-1] += 1 - sum(pm)
    return pm


def mirjalili_demand_pmf(P, weekday):
    from scipy.stats import nbinom
    n, delta = P["weekday_demand_negbin_n"][weekday], P["weekday_demand_negbin_delta"][weekday]
    p = n / (n + delta)
    D = P["max_demand"]
    pm = [nbinom.pmf(d, n, p) for d in range(D + 1)]
    pm[-1] += 1 - sum(pm)
    return pm


def mirjalili_received_prob(P, q, rec):
    if sum(rec) != q:
        return 0.0
    m = P["max_useful_life"]
    c0, c1 = P["useful_life_at_arrival_distribution_c_0"], P["useful_life_at_arrival_distribution_c_1"]
    # logit 0 for remaining life 1, c0_j + c1_j * q for remaining life j + 2; the stock vector lists the longest life first
    logits = [0.0] + [c0[j] + c1[j] * q for j in range(m - 1)]
    logits = logits[::-1]
    mx = max(logits)
    w = [math.exp(x - mx) for x in logits]
    probs = [x / sum(w) for x in w]
    coef = math.factorial(q)
    for r in rec:
        coef //= math.factorial(r)
    out = float(coef)
    for pr, r in zip(probs, rec):
        out *= pr ** r
    return out


def hendrix_tables(P):
    """brute-force joint law of (issued_a, issued_b) per total stocks, truncated at the model's maximum demand"""
    from scipy.stats import binom, poisson
    m = P["max_useful_life"]
    Dmax = m * (max(P["max_order_quantity_a"], P["max_order_quantity_b"]) + 2)
    pa = [poisson.pmf(k, P["demand_poisson_mean_a"]) for k in range(Dmax + 1)]
    pb = [poisson.pmf(k, P["demand_poisson_mean_b"]) for k in range(Dmax + 1)]
    return Dmax, pa, pb


def hendrix_lost_mass(P, stock_a, stock_b):
    """closed form of the probability mass the four-case table loses to the truncation (DESIGN.md C13)"""
    from scipy.stats import binom, poisson
    m = P["max_useful_life"]
    D = m * (max(P["max_order_quantity_a"], P["max_order_quantity_b"]) + 2)
    la, lb, rho = P["demand_poisson_mean_a"], P["demand_poisson_mean_b"], P["substitution_probability"]
    # pu[u] = P(U = u, D_b >= stock_b) computed as the code does: x ranges over excess demand with x + stock_b < D
    pu = []
    for u in range(0, D + 1):
        if u >= D - stock_b:
            pu.append(0.0)
            continue
        xs = range(u, D - stock_b)
        pu.append(sum(poisson.pmf(x + stock_b, lb) * binom.pmf(u, x, rho) for x in xs))
    total_b_lt = poisson.cdf(stock_b - 1, lb) if stock_b > 0 else 0.0
    # kept mass: P(D_b < stock_b) [A is a full Poisson there] + sum_{k + u <= D} pa(k) pu(u)
    kept = total_b_lt + sum(poisson.pmf(k, la) * pu[u] for u in range(D + 1) for k in range(0, D - u + 1))
    return 1.0 - kept
