"""Child process of the C11 kill experiments: solve with checkpointing, printing a marker line
around every save() call (harness-side wrapper of the PUBLIC save method; no source hook)."""
import json
import sys


def main():
    job = json.load(open(sys.argv[1]))
    from tools.impl import handlers
    handlers._quiet()
    import jax
    jax.config.update("jax_enable_x64", True)
    problem = handlers.make_problem(job["problem"])
    cfg = dict(job["config"])
    cfg.setdefault("verbose", 0)
    solver = handlers.make_solver(job["solver"], problem, cfg)
    if job.get("restore_from"):
        try:
            solver.load_checkpoint(job["restore_from"])
            print(f"RESTORED {int(solver.iteration)}", flush=True)
        except ValueError as e:
            print(f"NOCHECKPOINT {str(e)[:80]}", flush=True)
    orig = solver.save

    def marked(step):
        print(f"SAVE-BEGIN {int(step)}", flush=True)
        r = orig(step)
        print(f"SAVE-END {int(step)}", flush=True)
        return r

    solver.save = marked
    print("READY", flush=True)
    remaining = int(job["total"]) - int(solver.iteration)
    if remaining > 0:
        solver.solve(max_iterations=remaining)
    if getattr(solver, "checkpoint_manager", None) is not None:
        solver.checkpoint_manager.wait_until_finished()
    print(f"DONE {int(solver.iteration)}", flush=True)


if __name__ == "__main__":
    main()
