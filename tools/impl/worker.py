"""Implementation-side worker: runs in a fresh /venv python with PYTHONPATH=<repo>/src.
Reads a JSON list of jobs on stdin; prints '@@RESULT@@' + JSON list of results."""
import contextlib
import io
import json
import os
import sys
import traceback


def main():
    jobs = json.loads(sys.stdin.read())
    results = []
    # keep the implementation's own chatter away from the result channel
    real_stdout = sys.stdout
    sys.stdout = sys.stderr
    from tools.impl import handlers

    for job in jobs:
        try:
            fn = handlers.HANDLERS[job["kind"]]
            results.append(fn(job))
        except BaseException as e:  # noqa: BLE001 - report everything, including SystemExit of the code under test
            results.append({"error": type(e).__name__, "message": str(e)[:2000], "trace": traceback.format_exc()[-3000:]})
    sys.stdout = real_stdout
    sys.stdout.write("@@RESULT@@" + json.dumps(results))
    sys.stdout.flush()


if __name__ == "__main__":
    main()
