"""Handlers executed inside the implementation worker (imports mdpax lazily)."""
import os

HANDLERS = {}


def handler(name):
    def deco(fn):
        HANDLERS[name] = fn
        return fn
    return deco


def _quiet():
    from loguru import logger
    logger.remove()


# ----------------------------------------------------------------------------- C18
@handler("c18_layout")
def c18_layout(job):
    """BatchProcessor attributes for a list of (n, mb, d); optionally arrays."""
    _quiet()
    import jax.numpy as jnp
    import numpy as np
    from mdpax.utils.batch_processing import BatchProcessor
    from loguru import logger
    logger.remove()
    out = []
    for (n, mb, d) in job["cases"]:
        bp = BatchProcessor(n_states=n, state_dim=1, max_batch_size=mb, pmap_device_count=d)
        out.append([int(bp.batch_size), int(bp.n_batches), int(bp.n_pad), int(bp.n_devices), [int(x) for x in bp.batch_shape]])
    arrays = []
    for (n, mb, d, trailing) in job.get("array_cases", []):
        try:
            arrays.append(_c18_array(n, mb, d, trailing))
        except Exception as e:  # noqa: BLE001
            arrays.append({"error": type(e).__name__, "message": str(e)[:500]})
    return {"attrs": out, "arrays": arrays}


def _c18_array(n, mb, d, trailing):
    if True:
        import jax.numpy as jnp
        import numpy as np
        from mdpax.utils.batch_processing import BatchProcessor
        sd = 2
        bp = BatchProcessor(n_states=n, state_dim=sd, max_batch_size=mb, pmap_device_count=d)
        states = jnp.stack([jnp.arange(1, n + 1), jnp.arange(1, n + 1) * 7], axis=1).astype(jnp.int32)
        prepared = bp.prepare_batches(states)
        pshape = [int(x) for x in prepared.shape]
        first = np.asarray(prepared[..., 0]).reshape(-1).tolist()
        second = np.asarray(prepared[..., 1]).reshape(-1).tolist()
        # a per-slot result with trailing shape: value = slot content * (1 + position in trailing block)
        base = prepared[..., 0]
        tshape = tuple(trailing)
        mult = jnp.arange(1, int(np.prod(tshape)) + 1 if tshape else 2).reshape(tshape) if tshape else None
        if tshape:
            res = base.reshape(base.shape + (1,) * len(tshape)) * mult
        else:
            res = base
        unb = bp.unbatch_results(res)
        ushape = [int(x) for x in unb.shape]
        unb_np = np.asarray(unb).reshape(ushape[0], -1) if ushape[0] > 0 else np.zeros((0, 1))
        return {"pshape": pshape, "first": [int(x) for x in first], "second": [int(x) for x in second],
                "ushape": ushape, "unb": [[int(v) for v in row] for row in unb_np.tolist()]}


# ----------------------------------------------------------------------------- C19
@handler("c19_spaces")
def c19_spaces(job):
    """create_range_space on (mins, maxs) boxes; index_fn on every vector of the box enlarged by `margin`."""
    _quiet()
    import itertools
    import jax
    import jax.numpy as jnp
    import numpy as np
    from mdpax.utils.spaces import create_range_space
    out = []
    for mins, maxs in job["cases"]:
        try:
            space, index_fn = create_range_space(jnp.array(mins), jnp.array(maxs))
            margin = job.get("margin", 2)
            probes = list(itertools.product(*[range(lo - margin, hi + margin + 1) for lo, hi in zip(mins, maxs)]))
            if len(probes) > job.get("max_probes", 4096):
                import random
                rnd = random.Random(len(probes))
                inside = list(itertools.product(*[range(lo, hi + 1) for lo, hi in zip(mins, maxs)]))
                probes = inside + rnd.sample(probes, job.get("max_probes", 4096) // 4)
            n = len(probes)
            size = 1
            while size < n:
                size *= 2
            padded = probes + [probes[0]] * (size - n)
            idx = jax.vmap(index_fn)(jnp.array(padded, dtype=jnp.int32))
            idx = [int(x) for x in np.asarray(idx)[:n]]
            out.append({"space": np.asarray(space).astype(int).tolist(), "shape": list(space.shape), "dtype": str(space.dtype),
                        "probes": [list(p) for p in probes], "idx": idx})
        except Exception as e:  # noqa: BLE001
            out.append({"error": type(e).__name__, "message": str(e)[:500]})
    return out


@handler("c19_big")
def c19_big(job):
    """boxes with tens of thousands of rows and more: the whole space and seeded probes go back as arrays in an .npz"""
    _quiet()
    import jax
    import jax.numpy as jnp
    import numpy as np
    from mdpax.utils.spaces import create_range_space
    out = []
    for k, (mins, maxs) in enumerate(job["cases"]):
        try:
            space, index_fn = create_range_space(jnp.array(mins), jnp.array(maxs))
            rs = np.random.RandomState(int(job.get("seed", 0)) + k)
            lo, hi = np.array(mins), np.array(maxs)
            probes = np.stack([rs.randint(l - 2, h + 3, size=2048) for l, h in zip(lo, hi)], axis=1).astype(np.int32)
            idx = np.asarray(jax.vmap(index_fn)(jnp.array(probes)))
            own = np.asarray(jax.vmap(index_fn)(space))
            f = f"{job['out']}_{k}.npz"
            np.savez(f, space=np.asarray(space), probes=probes, idx=idx, own=own)
            out.append({"file": f, "dtype": str(space.dtype)})
        except Exception as e:  # noqa: BLE001
            out.append({"error": type(e).__name__, "message": str(e)[:500]})
    return out


# ----------------------------------------------------------------------------- solver runs
def _fx(arr):
    """exact rationals of a float array, as strings"""
    import numpy as np
    from fractions import Fraction
    a = np.asarray(arr, dtype=np.float64).reshape(-1)
    return [str(Fraction(float(x))) if np.isfinite(x) else str(float(x)) for x in a]


def _canon_policy(problem, policy):
    """policy rows (action vectors) -> index of the FIRST action row with that vector"""
    import numpy as np
    if policy is None:
        return None
    A = np.asarray(problem.action_space)
    P = np.asarray(policy)
    out = []
    for row in P:
        m = np.where((A == row).all(axis=1))[0]
        out.append(int(m[0]) if len(m) else -1)
    return out


SOLVERS = {"vi": "ValueIteration", "pi": "PolicyIteration", "rvi": "RelativeValueIteration",
           "pvi": "PeriodicValueIteration", "savi": "SemiAsyncValueIteration"}


def make_problem(pspec):
    if pspec.get("kind", "tabular") == "tabular":
        from tools.impl.tabular import TabularProblem
        return TabularProblem(pspec)
    import mdpax.problems as mp
    from mdpax.problems.perishable_inventory.de_moor_single_product import DeMoorSingleProductPerishable
    from mdpax.problems.perishable_inventory.hendrix_two_product import HendrixTwoProductPerishable
    from mdpax.problems.perishable_inventory.mirjalili_platelet import MirjaliliPlateletPerishable
    from mdpax.problems.forest import Forest
    cls = {"forest": Forest, "de_moor": DeMoorSingleProductPerishable, "hendrix": HendrixTwoProductPerishable,
           "mirjalili": MirjaliliPlateletPerishable}[pspec["kind"]]
    params = dict(pspec.get("params", {}))
    for k, v in list(params.items()):
        if isinstance(v, list):
            params[k] = tuple(v)
    return cls(**params)


def make_solver(name, problem, config):
    import mdpax.solvers as ms
    cls = getattr(ms, SOLVERS[name])
    return cls(problem=problem, **config)


def observe(solver, name):
    import numpy as np
    o = {"values": _fx(solver.values), "dtype": str(np.asarray(solver.values).dtype), "iteration": int(solver.iteration),
         "policy": _canon_policy(solver.problem, solver.policy),
         "n_pad": int(solver.n_pad), "batch_size": int(solver.batch_size), "n_devices": int(solver.n_devices),
         "n_batches": int(solver.batch_processor.n_batches), "len_values": int(np.asarray(solver.values).shape[0])}
    if name == "rvi":
        o["gain"] = _fx([solver.gain])[0]
    if name == "pvi":
        o["history"] = None if solver.value_history is None else [_fx(r) for r in np.asarray(solver.value_history)]
        o["hidx"] = int(solver.history_index)
        o["period"] = int(solver.period)
    if name == "savi":
        perms = getattr(solver, "_verif_permutations", None)
        o["perms"] = None if perms is None else [None if p is None else [int(x) for x in p] for p in perms]
    return o


@handler("solve_ops")
def solve_ops(job):
    """Build problem + solver, apply a list of operations, observe after each."""
    _quiet()
    import jax
    import jax.numpy as jnp
    import numpy as np
    from tools.impl.tabular import frac_to_float
    if job.get("x64_first", True):
        # as if a double-precision solver had been built earlier in this process (C20 tests the other order)
        jax.config.update("jax_enable_x64", True)
    problem = make_problem(job["problem"])
    name = job["solver"]
    cfg = dict(job.get("config", {}))
    cfg.setdefault("verbose", 0)
    solver = make_solver(name, problem, cfg)
    obs = [observe(solver, name)]
    obs[0]["conv_threshold"] = _fx([float(solver.conv_threshold)])[0]
    obs[0]["gamma_used"] = _fx([float(solver.gamma)])[0]
    for op in job.get("ops", []):
        kind = op[0]
        if kind == "solve":
            st = solver.solve(max_iterations=int(op[1]))
            o = observe(solver, name)
            o["returned_values_equal_attr"] = bool(np.array_equal(np.asarray(st.values), np.asarray(solver.values)))
            o["returned_iteration"] = int(st.info.iteration)
            o["returned_policy"] = _canon_policy(problem, st.policy)
            obs.append(o)
        elif kind == "set_values":
            # in the solver's own value dtype (float32 when single precision was requested)
            solver.values = jnp.array(np.array([frac_to_float(x) for x in op[1]], dtype=np.asarray(solver.values).dtype))
            obs.append({"ok": True})
        elif kind == "set_gamma":
            # public attribute, assigned exactly the way the constructor builds it (so cached executables are reused)
            solver.gamma = jnp.array(float(op[1]))
            obs.append({"ok": True})
        elif kind == "set_policy":
            A = np.asarray(problem.action_space)
            solver.policy = jnp.array(np.array([A[a] for a in op[1]]))
            obs.append({"ok": True})
        elif kind == "extract_policy":
            # private helper; absent => recorded as skipped (public route still covers greedy(T V))
            if hasattr(solver, "_extract_policy"):
                obs.append({"policy": _canon_policy(problem, solver._extract_policy())})
            else:
                obs.append({"skipped": True})
        elif kind == "wait":
            if getattr(solver, "checkpoint_manager", None) is not None:
                solver.checkpoint_manager.wait_until_finished()
            obs.append({"ok": True})
        else:
            raise ValueError(f"unknown op {kind}")
    if getattr(solver, "checkpoint_manager", None) is not None:
        solver.checkpoint_manager.wait_until_finished()
    return {"obs": obs}


@handler("tabulate")
def tabulate_job(job):
    _quiet()
    import jax
    jax.config.update("jax_enable_x64", True)
    from tools.impl.tabular import tabulate
    problem = make_problem(job["problem"])
    t = tabulate(problem)
    import numpy as np
    z = np.zeros(np.asarray(problem.state_space).shape[1], dtype=np.int32)
    import jax.numpy as jnp
    t["zidx"] = int(problem.state_to_index(jnp.array(z)))
    iv = jax.vmap(problem.initial_value)(problem.state_space)
    t["init_values"] = _fx(iv)
    return t


# ----------------------------------------------------------------------------- C06
@handler("savi_sweeps")
def savi_sweeps(job):
    """Semi-async solver: solve(1) repeatedly, recording the value vector after every sweep,
    the permutation the hook recorded, and an independent recomputation of the documented permutation."""
    _quiet()
    import jax
    import jax.numpy as jnp
    import numpy as np
    jax.config.update("jax_enable_x64", True)
    problem = make_problem(job["problem"])
    cfg = dict(job["config"])
    cfg.setdefault("verbose", 0)
    solver = make_solver("savi", problem, cfg)
    out = {"values": [_fx(solver.values)], "iteration": [], "n_devices": int(solver.n_devices), "batch_size": int(solver.batch_size),
           "n_batches": int(solver.batch_processor.n_batches), "n_pad": int(solver.n_pad)}
    key = jax.random.PRNGKey(int(cfg.get("random_seed", 42)))
    documented = []
    for k_ in range(job["sweeps"]):
        if job.get("schedule"):
            # the public configuration flag is switched on a LIVE solver between sweeps (it is read afresh for every sweep)
            solver.config.shuffle_states = bool(job["schedule"][k_])
            cfg["shuffle_states"] = bool(job["schedule"][k_])
        solver.solve(max_iterations=1)
        out["values"].append(_fx(solver.values))
        out["iteration"].append(int(solver.iteration))
        if cfg.get("shuffle_states"):
            key, sub = jax.random.split(key)
            documented.append([int(x) for x in np.asarray(jax.random.permutation(sub, jnp.arange(problem.n_states)))])
        else:
            documented.append(None)
    perms = getattr(solver, "_verif_permutations", None)
    out["perms"] = None if perms is None else [None if p is None else [int(x) for x in p] for p in perms]
    out["documented_perms"] = documented
    out["policy"] = _canon_policy(problem, solver.policy)
    return out


# ----------------------------------------------------------------------------- C17
@handler("build_matrices")
def build_matrices(job):
    _quiet()
    import re
    import jax
    import numpy as np
    if job.get("x64", True):
        jax.config.update("jax_enable_x64", True)
    problem = make_problem(job["problem"])
    # earlier calls on the SAME problem object (their outcome is not the one measured): the method takes its tolerance per call
    for t in job.get("pre_tols", []):
        try:
            problem.build_transition_and_reward_matrices(normalization_tolerance=t)
        except ValueError:
            pass
    try:
        if "tol" in job:
            P, R = problem.build_transition_and_reward_matrices(normalization_tolerance=job["tol"])
        else:
            P, R = problem.build_transition_and_reward_matrices()
    except ValueError as e:
        m = re.search(r"state (\d+), action (\d+)", str(e))
        return {"error_kind": "ValueError", "message": str(e)[:300], "state": int(m.group(1)) if m else None, "action": int(m.group(2)) if m else None}
    P = np.asarray(P, dtype=np.float64)
    R = np.asarray(R, dtype=np.float64)
    if job.get("sparse"):
        # large problems: only the non-zero transition entries travel back (action, state, successor, exact value)
        nz = np.argwhere(P != 0)
        return {"nz": [[int(a), int(s_), int(j)] for a, s_, j in nz], "nzv": _fx(P[P != 0]), "R": [_fx(row) for row in R], "pshape": list(P.shape), "rshape": list(R.shape),
                "finite": bool(np.isfinite(P).all() and np.isfinite(R).all())}
    return {"P": [[_fx(row) for row in Pa] for Pa in P], "R": [_fx(row) for row in R], "pshape": list(P.shape), "rshape": list(R.shape)}


# ----------------------------------------------------------------------------- checkpoint experiments (C09-C12)
def _dir_listing(d):
    import hashlib
    import os
    out = {"exists": os.path.isdir(d), "steps": [], "tmp": [], "config": False, "other": [], "digest": None}
    if not out["exists"]:
        return out
    h = hashlib.sha1()
    for name in sorted(os.listdir(d)):
        p = os.path.join(d, name)
        if name.isdigit() and os.path.isdir(p):
            out["steps"].append(int(name))
        elif "orbax-checkpoint-tmp" in name:
            out["tmp"].append(name)
        elif name == "config.yaml":
            out["config"] = True
        else:
            out["other"].append(name)
    for root, dirs, files in sorted(os.walk(d)):
        dirs.sort()
        for f in sorted(files):
            fp = os.path.join(root, f)
            h.update(os.path.relpath(fp, d).encode())
            try:
                with open(fp, "rb") as fh:
                    h.update(fh.read())
            except OSError:
                pass
    out["steps"].sort()
    out["digest"] = h.hexdigest()
    return out


def observe_full(solver, name):
    import numpy as np
    o = observe(solver, name)
    o["values_shape"] = list(np.asarray(solver.values).shape)
    o["policy_dtype"] = None if solver.policy is None else str(np.asarray(solver.policy).dtype)
    o["policy_vectors"] = None if solver.policy is None else np.asarray(solver.policy).astype(int).tolist()
    o["ckpt"] = {"frequency": int(getattr(solver, "checkpoint_frequency", 0)), "max": int(getattr(solver, "max_checkpoints", 0)),
                 "async": bool(getattr(solver, "enable_async_checkpointing", False)),
                 "dir": str(getattr(solver, "checkpoint_dir", None)), "enabled": bool(solver.is_checkpointing_enabled)}
    if name == "savi":
        o["batch_order"] = None if solver.batch_order is None else [int(x) for x in np.asarray(solver.batch_order)]
    return o


def _config_dict(solver):
    from omegaconf import OmegaConf
    import dataclasses
    cfg = solver.config
    try:
        if dataclasses.is_dataclass(cfg):
            return json_safe(dataclasses.asdict(cfg))
        return json_safe(OmegaConf.to_container(cfg, resolve=True))
    except Exception as e:  # noqa: BLE001
        return {"unserialisable": str(e)[:200]}


def json_safe(x):
    try:
        from omegaconf import DictConfig, ListConfig, OmegaConf
        if isinstance(x, (DictConfig, ListConfig)):
            x = OmegaConf.to_container(x, resolve=True)
    except ImportError:
        pass
    if isinstance(x, dict):
        return {str(k): json_safe(v) for k, v in x.items()}
    if isinstance(x, (list, tuple)):
        return [json_safe(v) for v in x]
    if isinstance(x, (int, float, str, bool)) or x is None:
        return x
    return str(x)


def _apply_ops(solver, name, ops, obs, markers=False):
    import sys as _sys
    for op in ops:
        if op[0] == "solve":
            solver.solve(max_iterations=int(op[1]))
            obs.append(observe_full(solver, name))
        elif op[0] == "solve_until":
            rem = int(op[1]) - int(solver.iteration)
            if rem > 0:
                solver.solve(max_iterations=rem)
            obs.append(observe_full(solver, name))
        elif op[0] == "wait":
            if getattr(solver, "checkpoint_manager", None) is not None:
                solver.checkpoint_manager.wait_until_finished()
            obs.append({"ok": True})
        else:
            raise ValueError(op[0])


@handler("ckpt_run")
def ckpt_run(job):
    """Fresh process: build, run solve() calls with checkpointing, record a snapshot at every save() call."""
    _quiet()
    import jax
    if job.get("x64_first", True):   # False: the problem is built BEFORE 64-bit mode is on (the usual order in a fresh process)
        jax.config.update("jax_enable_x64", True)
    problem = make_problem(job["problem"])
    name = job["solver"]
    cfg = dict(job["config"])
    cfg.setdefault("verbose", 0)
    before = _dir_listing(cfg.get("checkpoint_dir")) if cfg.get("checkpoint_dir") else None
    solver = make_solver(name, problem, cfg)
    after_ctor = _dir_listing(cfg.get("checkpoint_dir")) if cfg.get("checkpoint_dir") else None
    saves = []
    orig = solver.save

    def rec(step):
        saves.append({"step": int(step), "state": observe_full(solver, name), "enabled": bool(solver.is_checkpointing_enabled)})
        return orig(step)

    solver.save = rec
    obs = [observe_full(solver, name)]
    _apply_ops(solver, name, job.get("ops", []), obs)
    if getattr(solver, "checkpoint_manager", None) is not None:
        solver.checkpoint_manager.wait_until_finished()
    return {"obs": obs, "saves": saves, "dir_before": before, "dir_after_ctor": after_ctor,
            "dir": _dir_listing(cfg.get("checkpoint_dir")) if cfg.get("checkpoint_dir") else None,
            "config": _config_dict(solver), "has_full_config": bool(solver.has_full_config)}


@handler("ckpt_restore")
def ckpt_restore(job):
    """Fresh process: rebuild from a checkpoint directory (class-level restore or instance-level load_checkpoint),
    observe, optionally continue."""
    _quiet()
    import jax
    import mdpax.solvers as ms
    if job.get("x64_first", True):   # False: the problem is built BEFORE 64-bit mode is on (the usual order in a fresh process)
        jax.config.update("jax_enable_x64", True)
    name = job["solver"]
    cls = getattr(ms, SOLVERS[name])
    src = job["dir"]
    before = _dir_listing(src)
    try:
        if job.get("route", "restore") == "restore":
            kw = dict(job.get("overrides", {}))
            if job.get("step") is not None:
                kw["step"] = job["step"]
            solver = cls.restore(src, **kw)
        else:
            problem = make_problem(job["problem"])
            cfg = dict(job["config"])
            cfg.setdefault("verbose", 0)
            solver = make_solver(name, problem, cfg)
            if job.get("step") is not None:
                solver.load_checkpoint(src, step=job["step"])
            else:
                solver.load_checkpoint(src)
    except Exception as e:  # noqa: BLE001
        return {"raised": type(e).__name__, "message": str(e)[:300], "dir_before": before, "dir_after": _dir_listing(src)}
    obs = [observe_full(solver, name)]
    after_restore = _dir_listing(src)
    _apply_ops(solver, name, job.get("ops", []), obs)
    if getattr(solver, "checkpoint_manager", None) is not None:
        solver.checkpoint_manager.wait_until_finished()
    newdir = job.get("overrides", {}).get("new_checkpoint_dir")
    return {"obs": obs, "dir_before": before, "dir_after_restore": after_restore, "dir_after": _dir_listing(src),
            "new_dir": _dir_listing(newdir) if newdir else None, "config": _config_dict(solver),
            "problem_name": solver.problem.name, "n_states": int(solver.problem.n_states)}


@handler("ckpt_follow")
def ckpt_follow(job):
    """One process, two solvers on the SAME checkpoint directory: the writer runs k1 sweeps, a follower is built (its
    checkpoint manager is created now) and loads; the writer runs k2 more sweeps; the follower loads again (latest step).
    A solver built by hand from the same directory afterwards is the comparison."""
    _quiet()
    import jax
    jax.config.update("jax_enable_x64", True)
    name = job["solver"]
    cfg = dict(job["config"])
    cfg.setdefault("verbose", 0)
    d = cfg["checkpoint_dir"]
    writer = make_solver(name, make_problem(job["problem"]), cfg)
    obs_w = []
    _apply_ops(writer, name, [["solve", int(job["k1"])]], obs_w)
    if getattr(writer, "checkpoint_manager", None) is not None:
        writer.checkpoint_manager.wait_until_finished()
    follower = make_solver(name, make_problem(job["problem"]), cfg)
    out = {}
    try:
        follower.load_checkpoint(d)
        out["first"] = observe_full(follower, name)
        _apply_ops(writer, name, [["solve", int(job["k2"])]], obs_w)
        if getattr(writer, "checkpoint_manager", None) is not None:
            writer.checkpoint_manager.wait_until_finished()
        out["steps"] = _dir_listing(d)["steps"]
        follower.load_checkpoint(d)
        out["second"] = observe_full(follower, name)
        fresh = make_solver(name, make_problem(job["problem"]), dict(cfg, checkpoint_dir=d + "_other", checkpoint_frequency=0))
        fresh.load_checkpoint(d)
        out["fresh"] = observe_full(fresh, name)
    except Exception as e:  # noqa: BLE001
        return {"raised": type(e).__name__, "message": str(e)[:300]}
    out["writer"] = obs_w
    return out


# ----------------------------------------------------------------------------- C20
PROBLEM_CLASSES = {
    "forest": ("mdpax.problems.forest", "Forest", "ForestConfig"),
    "de_moor": ("mdpax.problems.perishable_inventory.de_moor_single_product", "DeMoorSingleProductPerishable", "DeMoorSingleProductPerishableConfig"),
    "hendrix": ("mdpax.problems.perishable_inventory.hendrix_two_product", "HendrixTwoProductPerishable", "HendrixTwoProductPerishableConfig"),
    "mirjalili": ("mdpax.problems.perishable_inventory.mirjalili_platelet", "MirjaliliPlateletPerishable", "MirjaliliPlateletPerishableConfig"),
}


def _tuplify(params):
    return {k: (tuple(v) if isinstance(v, list) else v) for k, v in params.items()}


@handler("c20_construct")
def c20_construct(job):
    """FRESH process, x64 NOT pre-enabled: construct by one of three routes in one of two orders, optionally solve."""
    import importlib
    import numpy as np
    _quiet()
    import mdpax.solvers as ms
    name = job["solver"]
    scls = getattr(ms, SOLVERS[name])
    mod, pcls_name, pcfg_name = PROBLEM_CLASSES[job["problem"]["kind"]]
    pm = importlib.import_module(mod)
    pcls, pcfg = getattr(pm, pcls_name), getattr(pm, pcfg_name)
    pparams = _tuplify(job["problem"].get("params", {}))
    cfg = dict(job.get("config", {}))
    cfg.setdefault("verbose", 0)
    out = {"route": job["route"], "order": job.get("order")}
    try:
        if job.get("problem_only"):
            pcls(**pparams)
            return dict(out, ok=True)
        if job.get("order") == "solver_first":
            from mdpax.problems import Forest
            scls(problem=Forest(S=3), **({"gamma": 1.0} if name == "rvi" else {}), **({"period": 2} if name == "pvi" else {}), verbose=0)
        problem_obj = None
        if job["route"] == "kwargs":
            problem_obj = pcls(**pparams)
            solver = scls(problem=problem_obj, **cfg)
        elif job["route"] == "config_only":
            solver = scls(config=scls.Config(problem=pcfg(**pparams), **cfg))
        elif job["route"] == "yaml":
            from hydra.utils import instantiate
            from omegaconf import OmegaConf
            first = scls(problem=pcls(**pparams), **cfg)
            path = os.path.join(job["tmpdir"], "config.yaml")
            os.makedirs(job["tmpdir"], exist_ok=True)
            OmegaConf.save(first.config, path)
            solver = instantiate(OmegaConf.load(path))
        else:
            raise ValueError(job["route"])
    except Exception as e:  # noqa: BLE001
        return dict(out, raised=type(e).__name__, message=str(e)[:300], stage="construct")
    out["constructed"] = True
    out["conv_threshold"] = str(float(solver.conv_threshold))
    out["gamma_used"] = float(solver.gamma).hex()
    out["gamma_dtype"] = str(np.asarray(solver.gamma).dtype)
    if job.get("solve"):
        try:
            st = solver.solve(max_iterations=int(job["solve"]))
        except Exception as e:  # noqa: BLE001
            return dict(out, raised=type(e).__name__, message=str(e)[:300], stage="solve")
        out.update({"values": _fx(st.values), "dtype": str(np.asarray(st.values).dtype), "iteration": int(st.info.iteration),
                    "policy": _canon_policy(solver.problem, st.policy), "returned": True})
        if job.get("twice") and problem_obj is not None:
            # a SECOND solver on the SAME problem object, built when 64-bit mode is certainly on: same problem data, so any
            # difference from the first solver is the solver's own precision handling
            try:
                s2 = scls(problem=problem_obj, **cfg)
                st2 = s2.solve(max_iterations=int(job["solve"]))
                out["second"] = {"values": _fx(st2.values), "dtype": str(np.asarray(st2.values).dtype), "iteration": int(st2.info.iteration),
                                 "policy": _canon_policy(s2.problem, st2.policy), "gamma_used": float(s2.gamma).hex()}
            except Exception as e:  # noqa: BLE001
                out["second"] = {"raised": type(e).__name__, "message": str(e)[:300]}
    return dict(out, ok=True)


# ----------------------------------------------------------------------------- shipped problems: complete tables (C13-C16)
@handler("problem_tables")
def problem_tables(job):
    """Complete state x action x event tables of a shipped problem through its PUBLIC functions; saved as .npz."""
    _quiet()
    import jax
    import jax.numpy as jnp
    import numpy as np
    if job.get("x64", True):
        jax.config.update("jax_enable_x64", True)
    earlier = [make_problem(q) for q in job.get("pre", [])]   # siblings built earlier in this process (kept alive)
    problem = make_problem(job["problem"])
    S, A, E = problem.state_space, problem.action_space, problem.random_event_space
    vt = jax.jit(jax.vmap(jax.vmap(jax.vmap(problem.transition, in_axes=(None, None, 0)), in_axes=(None, 0, None)), in_axes=(0, None, None)))
    vp = jax.jit(jax.vmap(jax.vmap(jax.vmap(problem.random_event_probability, in_axes=(None, None, 0)), in_axes=(None, 0, None)), in_axes=(0, None, None)))
    own = jax.vmap(problem.state_to_index)(S)
    nS_all = len(S)
    sel = np.arange(nS_all)
    if job.get("sample"):
        # large spaces: the index of EVERY listed state, transitions from a seeded sample of the states only
        rs = np.random.RandomState(int(job["sample"]["seed"]))
        sel = np.unique(np.concatenate([rs.choice(nS_all, size=min(nS_all, int(job["sample"]["n"])), replace=False), [0, nS_all - 1]]))
    Sfull, S = S, S[sel]
    ns, rw = vt(S, A, E)
    pr = vp(S, A, E)
    idx = jax.jit(jax.vmap(jax.vmap(jax.vmap(problem.state_to_index))))(ns)
    iv = jax.vmap(problem.initial_value)(S)
    nS, nA, nE = len(S), len(A), len(E)
    np.savez(job["out"], states=np.asarray(Sfull), sample_idx=sel, actions=np.asarray(A), events=np.asarray(E),
             next=np.asarray(ns).reshape(nS, nA, nE, -1), reward=np.asarray(rw, dtype=np.float64).reshape(nS, nA, nE),
             prob=np.asarray(pr, dtype=np.float64).reshape(nS, nA, nE), idx=np.asarray(idx).reshape(nS, nA, nE),
             own=np.asarray(own).reshape(-1), init=np.asarray(iv, dtype=np.float64).reshape(-1))
    return {"nS": nS_all, "nA": nA, "nE": nE, "prob_dtype": str(np.asarray(pr).dtype), "name": problem.name,
            "state_dtype": str(np.asarray(S).dtype)}
