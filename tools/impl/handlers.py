"""Handlers executed inside the implementation worker (imports mdpax lazily)."""
import os

HANDLERS = {}


def handler(name):
    def deco(fn):
        HANDLERS[name] = fn
        return fn
    return deco


def _quiet():
    from loguru import logger
    logger.remove()


# ----------------------------------------------------------------------------- C18
@handler("c18_layout")
def c18_layout(job):
    """BatchProcessor attributes for a list of (n, mb, d); optionally arrays."""
    _quiet()
    import jax.numpy as jnp
    import numpy as np
    from mdpax.utils.batch_processing import BatchProcessor
    from loguru import logger
    logger.remove()
    out = []
    for (n, mb, d) in job["cases"]:
        bp = BatchProcessor(n_states=n, state_dim=1, max_batch_size=mb, pmap_device_count=d)
        out.append([int(bp.batch_size), int(bp.n_batches), int(bp.n_pad), int(bp.n_devices), [int(x) for x in bp.batch_shape]])
    arrays = []
    for (n, mb, d, trailing) in job.get("array_cases", []):
        try:
            arrays.append(_c18_array(n, mb, d, trailing))
        except Exception as e:  # noqa: BLE001
            arrays.append({"error": type(e).__name__, "message": str(e)[:500]})
    return {"attrs": out, "arrays": arrays}


def _c18_array(n, mb, d, trailing):
    if True:
        import jax.numpy as jnp
        import numpy as np
        from mdpax.utils.batch_processing import BatchProcessor
        sd = 2
        bp = BatchProcessor(n_states=n, state_dim=sd, max_batch_size=mb, pmap_device_count=d)
        states = jnp.stack([jnp.arange(1, n + 1), jnp.arange(1, n + 1) * 7], axis=1).astype(jnp.int32)
        prepared = bp.prepare_batches(states)
        pshape = [int(x) for x in prepared.shape]
        first = np.asarray(prepared[..., 0]).reshape(-1).tolist()
        second = np.asarray(prepared[..., 1]).reshape(-1).tolist()
        # a per-slot result with trailing shape: value = slot content * (1 + position in trailing block)
        base = prepared[..., 0]
        tshape = tuple(trailing)
        mult = jnp.arange(1, int(np.prod(tshape)) + 1 if tshape else 2).reshape(tshape) if tshape else None
        if tshape:
            res = base.reshape(base.shape + (1,) * len(tshape)) * mult
        else:
            res = base
        unb = bp.unbatch_results(res)
        ushape = [int(x) for x in unb.shape]
        unb_np = np.asarray(unb).reshape(ushape[0], -1) if ushape[0] > 0 else np.zeros((0, 1))
        return {"pshape": pshape, "first": [int(x) for x in first], "second": [int(x) for x in second],
                "ushape": ushape, "unb": [[int(v) for v in row] for row in unb_np.tolist()]}


# ----------------------------------------------------------------------------- C19
@handler("c19_spaces")
def c19_spaces(job):
    """create_range_space on (mins, maxs) boxes; index_fn on every vector of the box enlarged by `margin`."""
    _quiet()
    import itertools
    import jax
    import jax.numpy as jnp
    import numpy as np
    from mdpax.utils.spaces import create_range_space
    out = []
    for mins, maxs in job["cases"]:
        try:
            space, index_fn = create_range_space(jnp.array(mins), jnp.array(maxs))
            margin = job.get("margin", 2)
            probes = list(itertools.product(*[range(lo - margin, hi + margin + 1) for lo, hi in zip(mins, maxs)]))
            if len(probes) > job.get("max_probes", 4096):
                import random
                rnd = random.Random(len(probes))
                inside = list(itertools.product(*[range(lo, hi + 1) for lo, hi in zip(mins, maxs)]))
                probes = inside + rnd.sample(probes, job.get("max_probes", 4096) // 4)
            n = len(probes)
            size = 1
            while size < n:
                size *= 2
            padded = probes + [probes[0]] * (size - n)
            idx = jax.vmap(index_fn)(jnp.array(padded, dtype=jnp.int32))
            idx = [int(x) for x in np.asarray(idx)[:n]]
            out.append({"space": np.asarray(space).astype(int).tolist(), "shape": list(space.shape), "dtype": str(space.dtype),
                        "probes": [list(p) for p in probes], "idx": idx})
        except Exception as e:  # noqa: BLE001
            out.append({"error": type(e).__name__, "message": str(e)[:500]})
    return out
