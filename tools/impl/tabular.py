"""A Problem realising arbitrary finite tables behind vector-valued states/actions/events.
Used by the correspondence harness to feed generated MDPs to the real solvers."""
from fractions import Fraction

import jax.numpy as jnp
import numpy as np

from mdpax.core.problem import Problem


def fr(x):
    return Fraction(x)


def frac_to_float(x):
    f = Fraction(x)
    v = f.numerator / f.denominator
    assert Fraction(v) == f, f"{x} is not exactly representable"
    return v


def _no_target_config():
    from dataclasses import dataclass
    from typing import Optional

    from mdpax.core.problem import ProblemConfig

    @dataclass
    class NoTargetConfig(ProblemConfig):
        _target_: Optional[str] = None
        note: str = "hand-made"
    return NoTargetConfig()


class TabularProblem(Problem):
    """spec keys: states/actions/events (lists of int vectors), nxt[s][a][e] (int),
    rew/prb[s][a][e] (str fractions), zidx (index assigned to vectors that are not states),
    init_values (list of str fractions) or None, init_policy (list of action indices) or None,
    prob_as_array (bool)."""

    def __init__(self, spec, dtype=None):
        self.spec = spec
        self._dtype = dtype
        super().__init__()
        if spec.get("config_kind") == "no_target":
            # a user-defined problem that carries a configuration object from which it can NOT be rebuilt (no class path)
            self.config = _no_target_config()

    @property
    def name(self):
        return "verif_tabular"

    def _setup_before_space_construction(self):
        sp = self.spec
        dt = self._dtype or jnp.float64
        self._nxt = jnp.array(np.array(sp["nxt"], dtype=np.int32))
        self._rew = jnp.array(np.array([[[frac_to_float(x) for x in r] for r in rs] for rs in sp["rew"]], dtype=np.float64)).astype(dt)
        self._prb = jnp.array(np.array([[[frac_to_float(x) for x in r] for r in rs] for rs in sp["prb"]], dtype=np.float64)).astype(dt)
        self._zidx = int(sp.get("zidx", 0))
        if sp.get("init_values") is not None:
            self._init = jnp.array(np.array([frac_to_float(x) for x in sp["init_values"]], dtype=np.float64)).astype(dt)
        else:
            self._init = None
        if sp.get("init_policy") is not None:
            self._initpol = jnp.array(np.array([sp["actions"][a] for a in sp["init_policy"]], dtype=np.int32))
        else:
            self._initpol = None
        self._prob_as_array = bool(sp.get("prob_as_array", False))

    def _construct_state_space(self):
        return jnp.array(np.array(self.spec["states"], dtype=np.int32))

    def _construct_action_space(self):
        return jnp.array(np.array(self.spec["actions"], dtype=np.int32))

    def _construct_random_event_space(self):
        return jnp.array(np.array(self.spec["events"], dtype=np.int32))

    @staticmethod
    def _lookup(space, v, default):
        match = jnp.all(space == v, axis=1)
        return jnp.where(jnp.any(match), jnp.argmax(match), default)

    def state_to_index(self, state):
        return self._lookup(self.state_space, state, self._zidx)

    def _aidx(self, action):
        return self._lookup(self.action_space, action, 0)

    def _eidx(self, event):
        return self._lookup(self.random_event_space, event, 0)

    def random_event_probability(self, state, action, random_event):
        p = self._prb[self.state_to_index(state), self._aidx(action), self._eidx(random_event)]
        if self._prob_as_array:
            return p.reshape(1)
        return p

    def transition(self, state, action, random_event):
        s, a, e = self.state_to_index(state), self._aidx(action), self._eidx(random_event)
        return self.state_space[self._nxt[s, a, e]], self._rew[s, a, e]

    def initial_value(self, state):
        if self._init is None:
            return 0.0
        return self._init[self.state_to_index(state)]

    def initial_policy(self, state):
        if self._initpol is None:
            raise NotImplementedError("No custom initial policy defined")
        return self._initpol[self.state_to_index(state)]


def tabulate(problem):
    """Tables of ANY Problem through its public functions only (independent of all solver code).
    Returns nxt (ints), rew, prb (exact Fractions of the floats the problem returns), and the spaces."""
    import jax

    S = np.asarray(problem.state_space)
    A = np.asarray(problem.action_space)
    E = np.asarray(problem.random_event_space)
    states, actions, events = jnp.array(S), jnp.array(A), jnp.array(E)
    vt = jax.vmap(jax.vmap(jax.vmap(problem.transition, in_axes=(None, None, 0)), in_axes=(None, 0, None)), in_axes=(0, None, None))
    vp = jax.vmap(jax.vmap(jax.vmap(problem.random_event_probability, in_axes=(None, None, 0)), in_axes=(None, 0, None)), in_axes=(0, None, None))
    ns, rw = vt(states, actions, events)
    pr = vp(states, actions, events)
    idx = jax.vmap(jax.vmap(jax.vmap(problem.state_to_index)))(ns)
    nS, nA, nE = len(S), len(A), len(E)
    ns = np.asarray(ns)
    idx = np.asarray(idx).reshape(nS, nA, nE)
    rw = np.asarray(rw, dtype=np.float64).reshape(nS, nA, nE)
    pr = np.asarray(pr, dtype=np.float64).reshape(nS, nA, nE)
    return {"nS": nS, "nA": nA, "nE": nE, "states": S.tolist(), "actions": A.tolist(), "events": E.tolist(),
            "nxt": idx.astype(int).tolist(), "next_vectors": ns.astype(int).tolist(),
            "rew": [[[str(Fraction(float(x))) for x in r] for r in rs] for rs in rw],
            "prb": [[[str(Fraction(float(x))) for x in r] for r in rs] for rs in pr]}
