#!/bin/bash
# usage: tools/seedcheck.sh <patch.diff> <prop> [<prop> ...]
# applies a seeded change to /repo, runs the quick checks, and undoes it straight afterwards.
set -u
patch="$1"; shift
cd /verif
if ! git -C /repo diff --quiet; then echo "/repo has uncommitted changes: refusing"; exit 2; fi
git -C /repo apply "$patch" || { echo "patch does not apply"; exit 2; }
trap 'git -C /repo checkout -- . ; git -C /repo clean -fdq src' EXIT
for p in "$@"; do
  out=$(./check "$p" --tier quick 2>&1 | grep -E "VIOLATION|^$p tier" | tail -2 | tr '\n' ' ')
  echo "$p: $out"
done
