#!/usr/bin/env python3
"""writes /verif/seeded/README.md: one row per stored seeded change, from its meta.json"""
import json, pathlib

SEEDED = pathlib.Path("/verif/seeded")
rows = []
for d in sorted(p for p in SEEDED.iterdir() if (p / "meta.json").exists()):
    m = json.loads((d / "meta.json").read_text())
    v = (m.get("verified_on_repo") or {}).get("results", {})
    res = ", ".join(f"{p}: {r['violation']}" for p, r in sorted(v.items())) or "-"
    caught = any(r["violation"] == "concrete" for r in v.values())
    rows.append((d.name, m["property"], ", ".join(m.get("files_touched", [])).replace("src/mdpax/", ""), res, "yes" if caught else ("no-failing-input-found only" if v else "?")))
out = ["# Seeded changes", "",
       "Each directory: `patch.diff` (applies to `/repo` HEAD), `demo.py` (exit 1 on the changed tree, 0 on `/repo`), `confirm.log`",
       "(whole test suite on the changed worktree + both demo runs), `meta.json` (property, what the change needs to manifest, what each",
       "relevant check reported while the machinery was being built, and `verified_on_repo`: the outcome of",
       "`git -C /repo apply patch.diff` / `./check <prop> --tier quick` / `git -C /repo checkout -- .`, run by `tools/seedverify.py`).", "",
       "| seeded change | property | file(s) | quick checks on /repo with the patch applied | concrete replayable input |", "|---|---|---|---|---|"]
out += [f"| `{a}` | {b} | {c} | {d} | {e} |" for a, b, c, d, e in rows]
(SEEDED / "README.md").write_text("\n".join(out) + "\n")
print(len(rows), "rows;", sum(1 for r in rows if r[4] == "yes"), "with a concrete input")
