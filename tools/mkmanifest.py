"""Regenerate MANIFEST.json from the table below (run after adding a property check)."""
import json
import subprocess
from pathlib import Path

V = Path(__file__).resolve().parents[1]
props = [json.loads(l) for l in open(V / "properties.jsonl")]

# id -> (level text, level note / trusted base slice, technique, design ref)
CLAIMED = {
    "C18": ("Layout arithmetic (batch size bounds, batch count, padding >= 0, slots = states + padding, device count) and the lossless prepare/unbatch round trip are Coq theorems for ALL n_states, max_batch_size, device counts >= 1 and any row type, stated about definitions regenerated from batch_processing.py on every run; BatchProcessor is additionally run against the kernel-evaluated model on a box (exhaustive in thorough tier).",
            "Coq 8.16.1 kernel; translator tools/translate/gen_batch.py; device count passed through pmap_device_count (jax.devices() not modelled); jnp reshape/vstack/slicing modelled as list operations and validated by correspondence.",
            "Coq proof over source-translated definitions + kernel-evaluated differential check", "6 C18"),
    "C19": ("Enumeration of the box (size, completeness at the row-major rank, soundness, no duplicates), index_fn(nth i) = i and nearest-point clipping are Coq theorems for ALL dimension counts and integer bounds mins <= maxs, about definitions regenerated from spaces.py; create_range_space is run against the kernel-evaluated model on all boxes of dimension <= 2 (<= 3 thorough) with bounds in [-3,3] plus samples up to dimension 4, every vector of the box enlarged by 2.",
            "Coq 8.16.1 kernel; translator tools/translate/gen_spaces.py; jnp.ravel_multi_index(mode='clip') and itertools.product modelled (ravel_clip, cart) and validated by correspondence; int32 overflow out of scope.",
            "Coq proof over source-translated definitions + kernel-evaluated differential check", "6 C19"),
    "C02": ("The code-shaped kernel (devices x batches x slots with the padded last batch and the positional carry tuple) is proved equal to the specification sweep max_a sum_e prb*(rew + gamma*V[nxt]) for EVERY layout, value vector and gamma; the extracted policy is proved to be the first maximiser; monotonicity, gamma-contraction and constant shift are proved for every well-formed MDP. The hand-written kernel model is tied to the code by bit-exact per-sweep correspondence on injected value vectors (exact-dyadic regime), evaluated in the Coq kernel.",
            "Coq 8.16.1 kernel; hand-written model of _calculate_updated_* / _extract_policy_* (Model/Kernel.v) tied by correspondence; layout arithmetic translated from source (GenBatch); IEEE-754/XLA modelled by exact rationals on inputs where every float operation is exact.",
            "Coq proof (kernel = Bellman backup for all layouts) + kernel-evaluated bit-exact differential check", "6 C02"),
    "C03": ("Layout independence is a Coq theorem: the code-shaped sweep, policy extraction and policy-evaluation kernels, and whole runs of VI, RVI, periodic VI and PI (final state, convergence flag and every checkpoint snapshot) are equal for ANY two layouts and ANY padding content; returned vectors have n_states entries. Tied to the code by whole-run bit-exact correspondence under emulated device counts 1-3 (1-8 thorough) and batch sizes that do / do not pad, including no-padding multi-device layouts.",
            "Coq 8.16.1 kernel; kernels hand-modelled (Model/Kernel.v) and tied by correspondence; pmap/sharding behaviour is only observable by execution (XLA_FLAGS host device emulation); semi-asynchronous runs are compared per partition.",
            "Coq proof (runs equal across layouts) + multi-device bit-exact differential runs", "6 C03"),
    "C01": ("Error bounds of the documented stopping rules are Coq theorems for every well-formed MDP, gamma in (0,1), epsilon, start state, checkpoint setting and run length: VI/span < epsilon, VI/max_diff values < epsilon and policy < 2 epsilon, PI < epsilon/gamma (span) and 2 epsilon/gamma (max_diff) under the hypothesis the proof forces (last evaluation converged; the unconditional statement is refuted in Coq by a witness that replays on the real code - open known finding), any block Gauss-Seidel sweep (semi-async) < epsilon and 2 gamma epsilon/(1-gamma). Whole runs of VI, PI and SAVI (fixed and shuffled) are compared bit-exactly with the kernel-evaluated model; returned policies are evaluated exactly against exact V*.",
            "Coq 8.16.1 kernel; solver state machines hand-modelled (Model/Solvers.v) and tied by whole-run correspondence; existence of V*/v_pi not proved (bounds hold for every solution, uniqueness proved); floating point outside the model.",
            "Coq proof of a-priori bounds lifted to solver runs + bit-exact run correspondence + exact policy evaluation oracle", "6 C01"),
    "C08": ("solve() of every solver is proved equal to the interpretation of the loop skeleton translated from ITS source on every run; for that loop: at most k further iterations, iteration = number of sweeps, stop at the FIRST passing test, convergence reported iff the last test passed, values = that many reference backups of the start values (VI spelled out), thresholds equal the documented formulas (about the translated formulas), solve(k1);solve(k2) = solve(k1+k2) for all five solvers, initial values = map initial_value. Histories of solve() calls (before and after convergence) are compared bit-exactly with the kernel-evaluated model and with a single solve(sum k).",
            "Coq 8.16.1 kernel; translators gen_loops.py / gen_threshold.py (fail-closed); _iteration_step bodies hand-modelled and tied by correspondence.",
            "Coq proof over source-translated loop skeletons and thresholds + bit-exact history correspondence", "6 C08"),
    "C04": ("For every well-formed MDP and every solution (g*, h*) of the average-reward optimality equation: gain brackets min(Th-h) <= g* <= max(Th-h) (also per policy, and g_pi <= g*); every RVI run that reports convergence from the fresh solver or any later state reports a gain within epsilon of g*, returns a policy whose gain is within epsilon of g*, and satisfies the optimality equation within epsilon at every state; the reference component equals the gain after every iteration (no drift; partial: no uniform span bound). Runs are compared bit-exactly with the kernel-evaluated model; gains are checked against exact rational policy iteration.",
            "Coq 8.16.1 kernel; RVI step hand-modelled (Model/Solvers.v) tied by correspondence; threshold/test translated from source; existence of (g*, h*) (unichain) not proved - theorems quantify over solutions; aperiodicity only matters for convergence being reached.",
            "Coq proof of gain brackets lifted to RVI runs + bit-exact run correspondence + exact gain oracle", "6 C04"),
    "C05": ("Policy-evaluation step = expected one-step value under the state's own action for EVERY layout; the evaluation loop returns the pre-update iterate on a passed test and the last iterate on an exhausted budget; converged max_diff evaluation is within epsilon/gamma of the exact policy value; PI stops before its limit iff the improvement step changed no action; the stored policy is greedy for the stored values after every step; first policy = problem's initial policy or argmax of expected immediate reward; reset option. Tied by evaluating injected policies (public route) and whole runs bit-exactly.",
            "Coq 8.16.1 kernel; PI step/evaluation hand-modelled tied by correspondence; loop skeleton and thresholds translated from source.",
            "Coq proof + bit-exact correspondence on injected policies and whole PI runs", "6 C05"),
    "C07": ("About the index / exponent / guard expressions translated from periodic_value_iteration.py on every run: the circular-buffer invariant (slot i mod (p+1) holds V_i for the last p+1 iterates) holds after ANY number of sweeps; the number compared with epsilon equals the documented measure of the true VI iterates (infinite before a full period, span(V_n - V_(n-p)) for gamma = 1, span of the discount-corrected sum otherwise); solve() from the fresh solver returns plain VI iterates, the greedy policy, stops at the FIRST n >= p below epsilon; d-step gain bracket and |V_n - V_(n-p) - p g*| < eps at convergence for gamma = 1 with no aperiodicity assumption. Runs (incl. periodic cycles, buffers wrapping >= 5 times, history clearing) compared bit-exactly incl. the whole value_history.",
            "Coq 8.16.1 kernel; translator gen_periodic.py; the sweep itself and numpy buffer mutation are hand-modelled (functional update) and tied by correspondence; gamma restricted to powers of two in the exact regime.",
            "Coq proof over source-translated index expressions + bit-exact run/buffer correspondence", "6 C07"),
    "C06": ("PARTIAL proof + exact correspondence. Proved for every well-formed MDP: the per-device scan (carried vector, masked scatter, padding rows, ANY resolution order of duplicate scatter indices) outputs exactly the block Gauss-Seidel values and padding never influences a real state; undoing the permutation with argsort restores natural order for every permutation; for EVERY partition the block Gauss-Seidel operator is a gamma-contraction (one-sided form) with exactly the fixed points of synchronous VI, hence the C01 max_diff bounds for every partition/permutation. Not proved: the composition of the device scan with the prepare/unbatch positions into one statement about the whole sweep (named in Props/C06.v); that composition is exercised exactly: every sweep is compared bit-for-bit with the model (both scatter orders) and with an independent block Gauss-Seidel driven by the recorded permutation, permutations are checked to be permutations, redrawn per sweep, equal to the documented seeded draw, and reproducible.",
            "Coq 8.16.1 kernel; scan/scatter hand-modelled (Model/SemiAsync.v) tied by per-sweep correspondence; jax.random.permutation is an oracle (input of the model) checked by recomputation; hook MDPAX_VERIF=1 records the permutation (fallback: documented key splitting).",
            "Coq proof (device scan = block Gauss-Seidel; contraction/fixed points for every partition) + per-sweep bit-exact correspondence with recorded permutations", "6 C06"),
    "C17": ("For every problem whose successors are in range: P[a,s,s'] is the total probability of the events leading to s' (several events accumulate), R[s,a] the expected immediate reward, row sums equal the event-probability sums, an error is returned iff some row deviates from one by more than the tolerance (every tolerance) and names the first worst (action, state) pair, accepted rows sum to one and equal the raw entries when the row is a distribution, and the backup computed from (P, R) equals the functional backup for every value function. The builder is run against the kernel-evaluated model on generated problems with colliding successors and defective rows (exact comparison of P, R and of the named pair).",
            "Coq 8.16.1 kernel; builder hand-modelled (Model/Matrices.v) tied by correspondence; vmap/scatter-add/unravel_index modelled by sums and first-argmax; float precision: x64 enabled first.",
            "Coq proof (regrouping by successor, error decision) + exact differential check of the builder", "6 C17"),
    "C09": ("For every solver state machine: the final save of solve(k) snapshots exactly the loop's end state under its iteration number; continuing from that snapshot equals one uninterrupted run (any k1, k2; first leg not converged); a retained periodic snapshot carrying the final label is that same state; state and convergence flag are independent of checkpointing being on and of its frequency; restore-latest returns the last accepted save; every field an iteration reads is in the saved AND restored field lists translated from the source (exception stated: the PRNG key of shuffled semi-async). Tied by real interrupt/resume in FRESH processes (restore() and load_checkpoint() routes, 1-2 interruptions, all five solvers, frequency/retention/async grid) compared bit for bit with an uninterrupted process and with the model.",
            "Coq 8.16.1 kernel; translators gen_fields.py / gen_loops.py; Orbax encode/decode and YAML config round trip are contracts validated by the fresh-process runs; store contract Model/Store.v.",
            "Coq proof (resume = uninterrupted, transparency, field coverage over source-translated lists) + fresh-process interrupt/resume experiments", "6 C09"),
    "C10": ("PROVED (about logic translated from utils/checkpointing.py and the solvers): error choice (no config -> FileNotFoundError, no completed step -> ValueError), step choice (requested, else latest; 0 counts as not given), errors precede instantiation / state assignment / return, the four overrides write exactly the four checkpoint settings, both routes share step rule and field assignment, every field of the property's list is saved and assigned back (partial: a stored policy of the VI family is dropped by the template mechanism - refuted in the model, open known finding). VALIDATED, not proved: byte fidelity of Orbax decoding and the Hydra/OmegaConf round trip - fresh-process save/restore over solvers x shipped problems (tuple parameters, non-default seed/period), default and explicit steps, override combinations, load_checkpoint route, malformed directories, directory digests.",
            "Coq 8.16.1 kernel; translators gen_restore.py / gen_fields.py; Orbax and Hydra/OmegaConf are third-party contracts modelled (Model/Restore.v) and validated by execution.",
            "Coq proof of the restore decision logic over source-translated definitions + fresh-process bit-for-bit restore experiments", "6 C10"),
    "C12": ("For every solver loop: the save calls of solve(k) are exactly the periodic ones followed by the final one; a periodic save (l, s) exists iff checkpointing is on and l is a multiple of f reached without convergence, and s is the solver state of iteration l; labels strictly increase; with frequency 0 no save is attempted; the directory after ANY sequence of save calls is the m most recent of the accepted saves (a save is accepted iff newer than everything before), holds at most m steps, and the last accepted save is what restore returns. Tied by fresh-process runs over a frequency x retention x history x sync/async grid: save calls, directory listing and the content of retained steps (restored in further processes) are compared with the documented set-builder and with the model store.",
            "Coq 8.16.1 kernel; loop skeleton translated from source; Orbax CheckpointManager (skip when latest >= step, max_to_keep, commit by rename) is a contract (Model/Store.v) validated by the runs.",
            "Coq proof (save-call characterisation, store = last m accepted) + fresh-process directory experiments", "6 C12"),
    "C11": ("Over the model of Model/Crash.v (solver thread || writer/finalizer thread || Crash, Orbax's tmp-write-rename-then-delete protocol): an invariant preserved by EVERY atomic step of every interleaving shows that after any finite execution, crash at any point included, restore finds either nothing or an intact step holding exactly the state of the iteration it is labelled with, never older than the last executed commit; the invariant survives restart on whatever a crash left (chains); continuing reaches the uninterrupted result (C09); the snapshot-at-call-time assumption is shown load bearing by a refutation of the variant without it. Validated on the real code by SIGKILL experiments: seeded random times, SAVE-BEGIN/END markers, and inotify-staged points (tmp directory creation, first file, rename, deletion of an old step), 1-3 crash rounds, all five solvers, sync/async; the restored state is compared with the independently recomputed trajectory and the model.",
            "Coq 8.16.1 kernel; Orbax's protocol, POSIX rename atomicity, filesystem and kill semantics are MODELLED (trusted), the real writer thread's interleavings are sampled by kill experiments, not enumerated.",
            "Coq proof of a crash invariant over all interleavings of a protocol model + staged SIGKILL experiments", "6 C11"),
    "C20": ("About definitions translated from the source on every run: each of the nine validators accepts EXACTLY its documented domain (iff, all parameter values) and rejects with ValueError/TypeError; the number format is well formed for every threshold magnitude and for a non-finite threshold; thresholds are defined for every accepted (gamma != 0, epsilon) (gamma = 0 is IEEE +infinity, outside the rational model, checked by execution); the three construction routes build the same configuration and double precision gives float64 in both construction orders (both were false on the unfixed tree: two fix commits). Tied by FRESH-process constructions: solver class x route x order x boundary grid x shipped problems, accepted sets must solve and agree across routes, rejected sets must raise at construction, and the translated validators are evaluated against the outcomes.",
            "Coq 8.16.1 kernel; translators gen_validators.py / gen_threshold.py / gen_routes.py; Hydra/OmegaConf and dataclass validation-on-construction are third-party behaviour validated by execution; NaN/inf parameters outside the model.",
            "Coq proof over source-translated validators/format/route facts + fresh-process construction grid", "6 C20"),
}

man = {
    "version": 1,
    "setup_cmd": "./setup.sh",
    "hooks": {
        "guard": "MDPAX_VERIF",
        "enable": "MDPAX_VERIF=1 in the environment of every subprocess the checks start (tools/vlib/core.py: Ctx.child_env)",
        "baseline_off_cmd": "cd /repo && env -u MDPAX_VERIF /venv/bin/python -m pytest -ra -q -p no:cacheprovider --timeout=900 --continue-on-collection-errors",
        "source_commits": [],
        "add_only": True,
    },
    "engines": [
        {"name": "coq-model", "path": "coq/", "serves_properties": [], "kind_free_text": "Gallina model + theorems (Coq 8.16.1, coq_makefile/make, full .vo); Props/Cxx.v hold only statements closed by `exact` with Print Assumptions"},
        {"name": "translators", "path": "tools/translate/", "serves_properties": [], "kind_free_text": "fail-closed Python-ast translators regenerating coq/gen/*.v from /repo's working tree on every run"},
        {"name": "correspondence", "path": "tools/props/", "serves_properties": [], "kind_free_text": "differential execution: the Gallina model is evaluated by vm_compute inside coqc on the same inputs the implementation ran (fresh /venv python processes importing mdpax from /repo/src)"},
    ],
    "checks": [],
    "not_applicable": [],
    "notes": "All checks: ./check <id> --tier quick|thorough. DESIGN.md sections 5 (verdict logic), 6 (per property), 7 (trusted base).",
}
hooks_file = V / "hooks_commits.txt"
if hooks_file.exists():
    man["hooks"]["source_commits"] = [l.strip() for l in hooks_file.read_text().split() if l.strip()]
for p in props:
    pid = p["id"]
    if pid in CLAIMED:
        t, n, tech, ref = CLAIMED[pid]
        man["checks"].append({
            "property_id": pid,
            "quick_cmd": f"./check {pid} --tier quick",
            "thorough_cmd": f"./check {pid} --tier thorough",
            "evidence_file": f"evidence/{pid}.json",
            "replay_cmd_template": f"./check {pid} --replay {{path}}",
            "engine": "coq-model",
            "level_claimed": {"category": "proof", "text": t, "design_ref": ref},
            "level_note": n,
            "technique": tech,
        })
        for e in man["engines"]:
            e["serves_properties"].append(pid)
    else:
        man["not_applicable"].append({"property_id": pid, "reason": "check not yet built (work in progress, DESIGN.md section 12); this is not a claim that machine-checked proof cannot apply"})
json.dump(man, open(V / "MANIFEST.json", "w"), indent=1)
print("claimed:", [c["property_id"] for c in man["checks"]])
