#!/usr/bin/env python3
"""usage: tools/seedsave.py <worktree> <demo.py> <confirm.log> <seeded-id> <property> <needs> <caught_by json>
stores a confirmed seeded change under /verif/seeded/<seeded-id>/ (patch.diff, demo.py, confirm.log, meta.json)"""
import json, pathlib, shutil, subprocess, sys

wt, demo, log, sid, prop, needs, caught = sys.argv[1:8]
d = pathlib.Path("/verif/seeded") / sid
d.mkdir(parents=True, exist_ok=True)
diff = subprocess.run(["git", "-C", wt, "diff"], capture_output=True, text=True, check=True).stdout
assert diff.strip(), "empty diff"
(d / "patch.diff").write_text(diff)
shutil.copy(demo, d / "demo.py")
shutil.copy(log, d / "confirm.log")
base = subprocess.run(["git", "-C", "/repo", "rev-parse", "--short", "HEAD"], capture_output=True, text=True).stdout.strip()
meta = {"property": prop, "applies_to_repo_commit": base, "needs_to_manifest": needs,
        "files_touched": [l[6:] for l in diff.splitlines() if l.startswith("+++ b/")],
        "confirmed": {"how": "tools/seedconfirm.sh <scratch worktree> demo.py: the repository's whole test suite on the changed worktree, the demonstration on the changed "
                             "worktree (must exit 1) and on /repo (must exit 0); output in confirm.log",
                      "note": "the only failing test, test_periodic_value_iteration::test_matches_reference_policy[mirjalili/m3/exp1], fails on the unchanged tree too in this sandbox (out of memory at max_batch_size 5000)"},
        "checks": json.loads(caught)}
(d / "meta.json").write_text(json.dumps(meta, indent=1) + "\n")
print("saved", d)
