"""The nine __post_init__ validators (5 solver configs, 4 problem configs) -> coq/gen/GenValidators.v.
Each becomes `validate_<k> : <k>_cfg -> option verr` = the ordered chain of `if cond: raise`."""
import ast

from .pyexpr import TranslateError, fail, find_class, find_func, load_module, name_of, strip_docstring

HEADER = """(* GENERATED from the __post_init__ validators of the solver and problem configs -- do not edit *)
From Coq Require Import QArith List String Bool.
Import ListNotations.
Open Scope Q_scope.
Inductive verr := VValueError | VTypeError | VOther.
Inductive problem_kind := PNone | PConfig | POtherObject.   (* what was passed as `problem` *)
Definition Qltb' (a b : Q) : bool := negb (Qle_bool b a).
"""

CLASSES = [
    ("vi", "solvers/value_iteration.py", "ValueIterationConfig"),
    ("pi", "solvers/policy_iteration.py", "PolicyIterationConfig"),
    ("rvi", "solvers/relative_value_iteration.py", "RelativeValueIterationConfig"),
    ("pvi", "solvers/periodic_value_iteration.py", "PeriodicValueIterationConfig"),
    ("savi", "solvers/semi_async_value_iteration.py", "SemiAsyncValueIterationConfig"),
    ("forest", "problems/forest.py", "ForestConfig"),
    ("demoor", "problems/perishable_inventory/de_moor_single_product.py", "DeMoorSingleProductPerishableConfig"),
    ("hendrix", "problems/perishable_inventory/hendrix_two_product.py", "HendrixTwoProductPerishableConfig"),
    ("mirjalili", "problems/perishable_inventory/mirjalili_platelet.py", "MirjaliliPlateletPerishableConfig"),
]
ERR = {"ValueError": "VValueError", "TypeError": "VTypeError"}


class V:
    def __init__(self, key):
        self.key = key
        self.fields = {}  # name -> type ("Q" | "list Q" | "string" | "problem_kind")

    def fld(self, node, typ):
        nm = name_of(node)
        if not (nm and nm.startswith("self.")):
            fail(node, "only fields of self may be validated")
        f = nm[5:]
        if self.fields.get(f, typ) != typ:
            fail(node, f"field {f} used at two types")
        self.fields[f] = typ
        return f"({self.key}_{f} c)"

    def num(self, node):
        if isinstance(node, ast.Constant) and type(node.value) in (int, float) and float(node.value) == int(node.value):
            v = int(node.value)
            return f"({v}#1)" if v >= 0 else f"(({v})#1)"
        if isinstance(node, ast.Call) and name_of(node.func) == "len" and len(node.args) == 1:
            return f"(inject_Z (Z.of_nat (List.length {self.fld(node.args[0], 'list Q')})))"
        if isinstance(node, ast.BinOp) and isinstance(node.op, (ast.Add, ast.Sub)):
            return f"({self.num(node.left)} {'+' if isinstance(node.op, ast.Add) else '-'} {self.num(node.right)})"
        if isinstance(node, ast.Name):
            return node.id  # bound variable of a generator expression
        return self.fld(node, "Q")

    def cmp(self, op, a, b):
        t = {ast.Lt: "Qltb' {a} {b}", ast.LtE: "Qle_bool {a} {b}", ast.Gt: "Qltb' {b} {a}", ast.GtE: "Qle_bool {b} {a}",
             ast.Eq: "Qeq_bool {a} {b}", ast.NotEq: "negb (Qeq_bool {a} {b})"}.get(type(op))
        if t is None:
            fail(op, "unsupported comparison")
        return "(" + t.format(a=a, b=b) + ")"

    def cond(self, node):
        if isinstance(node, ast.BoolOp):
            op = "&&" if isinstance(node.op, ast.And) else "||"
            parts = [self.cond(v) for v in node.values]
            out = parts[0]
            for p in parts[1:]:
                out = f"({out} {op} {p})"
            return out
        if isinstance(node, ast.UnaryOp) and isinstance(node.op, ast.Not):
            return f"(negb {self.cond(node.operand)})"
        if isinstance(node, ast.Compare):
            # self.problem is not None
            if len(node.ops) == 1 and isinstance(node.ops[0], ast.IsNot) and name_of(node.left) == "self.problem":
                self.fields["problem"] = "problem_kind"
                return f"(match {self.key}_problem c with PNone => false | _ => true end)"
            # x not in ["a", "b"] / x in [...]
            if len(node.ops) == 1 and isinstance(node.ops[0], (ast.NotIn, ast.In)) and isinstance(node.comparators[0], (ast.List, ast.Tuple)):
                elts = node.comparators[0].elts
                if not all(isinstance(e, ast.Constant) and isinstance(e.value, str) for e in elts):
                    fail(node, "membership test must be against string literals")
                lst = "[" + "; ".join(f'"{e.value}"%string' for e in elts) + "]"
                m = f"(existsb (String.eqb {self.fld(node.left, 'string')}) {lst})"
                return m if isinstance(node.ops[0], ast.In) else f"(negb {m})"
            parts = []
            left = node.left
            for op, right in zip(node.ops, node.comparators):
                parts.append(self.cmp(op, self.num(left), self.num(right)))
                left = right
            out = parts[0]
            for p in parts[1:]:
                out = f"({out} && {p})"
            return out
        if isinstance(node, ast.Call) and name_of(node.func) == "isinstance" and name_of(node.args[0]) == "self.problem" \
                and name_of(node.args[1]) == "ProblemConfig":
            self.fields["problem"] = "problem_kind"
            return f"(match {self.key}_problem c with PConfig => true | _ => false end)"
        if isinstance(node, ast.Call) and name_of(node.func) == "any" and len(node.args) == 1 and isinstance(node.args[0], ast.GeneratorExp):
            g = node.args[0]
            if len(g.generators) != 1 or g.generators[0].ifs or not isinstance(g.generators[0].target, ast.Name):
                fail(node, "unsupported generator")
            var = g.generators[0].target.id
            lst = self.fld(g.generators[0].iter, "list Q")
            return f"(existsb (fun {var} => {self.cond(g.elt)}) {lst})"
        fail(node, "unsupported validator condition")


def translate(repo):
    out = [HEADER]
    spans = []
    for key, fname, cls in CLASSES:
        path = f"{repo}/src/mdpax/{fname}"
        tree, _ = load_module(path)
        fn = find_func(find_class(tree, cls), "__post_init__")
        v = V(key)
        checks = []
        for st in strip_docstring(fn.body):
            if not (isinstance(st, ast.If) and not st.orelse and len(st.body) == 1 and isinstance(st.body[0], ast.Raise)
                    and isinstance(st.body[0].exc, ast.Call) and name_of(st.body[0].exc.func)):
                fail(st, "validators must be a chain of `if <cond>: raise <Error>(...)`")
            checks.append((v.cond(st.test), ERR.get(name_of(st.body[0].exc.func), "VOther")))
        flds = sorted(v.fields.items())
        rec = f"Record {key}_cfg := {{ " + "; ".join(f"{key}_{f} : {t}" for f, t in flds) + " }."
        body = "None"
        for cond, err in reversed(checks):
            body = f"if {cond} then Some {err}\n  else {body}"
        out.append(rec)
        out.append(f"Definition validate_{key} (c : {key}_cfg) : option verr :=\n  {body}.")
        spans.append({"class": cls, "file": path, "lines": [fn.lineno, fn.end_lineno], "checks": len(checks)})
    return "\n".join(out) + "\n", {"spans": spans}
