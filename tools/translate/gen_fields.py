"""solver_state properties and _restore_state_from_checkpoint methods -> coq/gen/GenFields.v (fail-closed):
which runtime fields each solver saves in a checkpoint and which it assigns back on restore."""
import ast

from .pyexpr import TranslateError, fail, find_class, load_module, name_of, strip_docstring

HEADER = """(* GENERATED from solver_state / _restore_state_from_checkpoint of the five solvers -- do not edit *)
From Coq Require Import List.
Import ListNotations.
Inductive field := FValues | FPolicy | FIteration | FGain | FValueHistory | FHistoryIndex | FPeriod | FBatchOrder | FKey.
"""

FIELD = {"values": "FValues", "policy": "FPolicy", "iteration": "FIteration", "gain": "FGain", "value_history": "FValueHistory",
         "history_index": "FHistoryIndex", "period": "FPeriod", "batch_order": "FBatchOrder", "key": "FKey"}

# class -> (file, bases to fall back to, in MRO order)
CLASSES = {
    "vi": ("solvers/value_iteration.py", "ValueIteration", [("core/solver.py", "Solver")]),
    "pi": ("solvers/policy_iteration.py", "PolicyIteration", [("solvers/value_iteration.py", "ValueIteration"), ("core/solver.py", "Solver")]),
    "rvi": ("solvers/relative_value_iteration.py", "RelativeValueIteration", [("solvers/value_iteration.py", "ValueIteration"), ("core/solver.py", "Solver")]),
    "pvi": ("solvers/periodic_value_iteration.py", "PeriodicValueIteration", [("solvers/value_iteration.py", "ValueIteration"), ("core/solver.py", "Solver")]),
    "savi": ("solvers/semi_async_value_iteration.py", "SemiAsyncValueIteration", [("solvers/value_iteration.py", "ValueIteration"), ("core/solver.py", "Solver")]),
}


def find_method(repo, chain, name):
    for fname, cls in chain:
        tree, _ = load_module(f"{repo}/src/mdpax/{fname}")
        c = find_class(tree, cls)
        for n in c.body:
            if isinstance(n, ast.FunctionDef) and n.name == name:
                return n, fname, cls
    raise TranslateError(f"{name} not found in {chain}")


def saved_fields(fn):
    body = strip_docstring(fn.body)
    if len(body) != 1 or not isinstance(body[0], ast.Return) or not isinstance(body[0].value, ast.Call):
        fail(fn, "solver_state must be a single `return <State>(...)`")
    call = body[0].value
    out = []
    for kw in call.keywords:
        if kw.arg in ("values", "policy"):
            if name_of(kw.value) != f"self.{kw.arg}":
                fail(kw.value, f"{kw.arg} must be self.{kw.arg}")
            out.append(kw.arg)
        elif kw.arg == "info":
            if not isinstance(kw.value, ast.Call):
                fail(kw.value, "info must be built in place")
            for k2 in kw.value.keywords:
                if name_of(k2.value) != f"self.{k2.arg}":
                    fail(k2.value, f"info.{k2.arg} must be self.{k2.arg}")
                out.append(k2.arg)
        else:
            fail(kw, "unexpected field of the solver state")
    if call.args:
        fail(call, "positional arguments are not accepted")
    return out


def restored_fields(fn):
    args = [a.arg for a in fn.args.args]
    if len(args) != 2:
        fail(fn, "unexpected signature")
    st = args[1]
    out = []
    for s in strip_docstring(fn.body):
        if not (isinstance(s, ast.Assign) and len(s.targets) == 1 and name_of(s.targets[0]) and name_of(s.targets[0]).startswith("self.")):
            fail(s, "restore must consist of `self.<field> = <state>.<field>` assignments")
        tgt = name_of(s.targets[0])[5:]
        src = ast.unparse(s.value)
        if src not in (f"{st}.{tgt}", f"{st}.info.{tgt}"):
            fail(s, f"self.{tgt} must be restored from the same-named field of the checkpoint state")
        out.append(tgt)
    return out


def translate(repo):
    out = [HEADER]
    spans = []
    for key, (fname, cls, bases) in CLASSES.items():
        chain = [(fname, cls)] + bases
        fs, f1, c1 = find_method(repo, chain, "solver_state")
        fr, f2, c2 = find_method(repo, chain, "_restore_state_from_checkpoint")
        sv, rs = saved_fields(fs), restored_fields(fr)
        for f in sv + rs:
            if f not in FIELD:
                raise TranslateError(f"unknown field {f}")
        out.append(f"Definition {key}_saved : list field := [{'; '.join(FIELD[f] for f in sv)}].")
        out.append(f"Definition {key}_restored : list field := [{'; '.join(FIELD[f] for f in rs)}].")
        spans.append({"solver": key, "solver_state": f"{c1} ({f1}:{fs.lineno}-{fs.end_lineno})", "restore": f"{c2} ({f2}:{fr.lineno}-{fr.end_lineno})"})
    return "\n".join(out) + "\n", {"spans": spans}
