"""Problem.build_transition_and_reward_matrices -> coq/gen/GenMatrices.v (fail-closed).

The method is interpreted symbolically, statement by statement, over TENSORS WITH NAMED AXES: a tensor is a list of axis
sizes (S, A, E, or 1 for a broadcast axis) and a Gallina term in the index variables.  The vmaps' in_axes decide which axis
is which, slices and reductions act on the axes they name, `for x in range(N)` becomes `gen_for N`, the functional
scatter-add `P.at[a, jnp.arange(S), idx].add(p)` becomes `gen_scatter_add`.  Anything else raises TranslateError.
The problem's own functions enter at index level: nxt s a e = state_to_index(transition(...)[0]), rew, prb (section variables)."""
import ast

from .pyexpr import TranslateError, fail, find_class, find_func, load_module, name_of, strip_docstring

HEADER = """(* GENERATED from Problem.build_transition_and_reward_matrices (src/mdpax/core/problem.py) -- do not edit *)
From Coq Require Import QArith Qabs List Arith Bool.
From MdpaxV Require Import Model.QFun.
Import ListNotations.
Open Scope Q_scope.

(* `for i in range(n): x = body(i, x)` *)
Fixpoint gen_for {X : Type} (n : nat) (body : nat -> X -> X) (x : X) : X :=
  match n with O => x | S k => body k (gen_for k body x) end.
(* `P.at[a, jnp.arange(S), idx].add(p)`: for every source state s, entry (a, s, idx s) grows by p s *)
Definition gen_scatter_add (P : nat -> nat -> nat -> Q) (a : nat) (idx : nat -> nat) (p : nat -> Q) : nat -> nat -> nat -> Q :=
  fun a' s s' => if Nat.eqb a' a && Nat.eqb s' (idx s) then P a' s s' + p s else P a' s s'.

Section GenMatrices.
  (* the problem's functions at index level: successor index, reward, probability of (state s, action a, event e) *)
  Variables (nxt : nat -> nat -> nat -> nat) (rew prb : nat -> nat -> nat -> Q).
  Variables (S A E : nat).
"""

SIZES = {"S": "S", "A": "A", "E": "E"}


class T:
    """tensor: axes = list of size names ('S','A','E','1'), fn(idx list of Coq terms) -> Coq term; kind 'Q' or 'nat'"""

    def __init__(self, axes, fn, kind="Q"):
        self.axes, self.fn, self.kind = list(axes), fn, kind


def vmap_levels(node, base_names):
    """vmap(vmap(vmap(f, in_axes=..), in_axes=..), in_axes=..) -> (base function name, [mapped argument per level, outermost first])"""
    levels = []
    while isinstance(node, ast.Call) and ast.unparse(node.func) in ("vmap", "jax.vmap"):
        if len(node.args) != 1 or len(node.keywords) != 1 or node.keywords[0].arg != "in_axes":
            fail(node, "vmap must be vmap(f, in_axes=...)")
        ia = node.keywords[0].value
        if isinstance(ia, ast.Tuple):
            vals = [e.value if isinstance(e, ast.Constant) else "?" for e in ia.elts]
            mapped = [i for i, v in enumerate(vals) if v == 0]
            if len(mapped) != 1 or any(v not in (0, None) for v in vals) or len(vals) != 3:
                fail(ia, "in_axes must map exactly one of three arguments along axis 0")
            levels.append(mapped[0])
        elif isinstance(ia, ast.Constant) and ia.value == 0:
            levels.append("all")
        else:
            fail(ia, "unsupported in_axes")
        node = node.args[0]
    nm = name_of(node)
    if nm not in base_names:
        fail(node, f"vmapped function must be one of {sorted(base_names)}")
    return nm, levels


class Interp:
    def __init__(self):
        self.env = {}      # python name -> T | ('size', name) | ('space', k) | ('vfun', base, levels) | ('fun', FunctionDef)
        self.defs = []     # emitted Coq definitions
        self.n = 0
        self.result = None
        self.raise_info = None

    # ---- emitting
    def define(self, hint, t):
        """bind a tensor to a named Coq definition so later uses stay small"""
        self.n += 1
        name = f"gm_{hint}_{self.n}"
        vs = [f"i{k}" for k in range(len(t.axes))]
        ty = " ".join(f"({v} : nat)" for v in vs)
        self.defs.append(f"  Definition {name} {ty} : {'Q' if t.kind == 'Q' else 'nat'} := {t.fn(vs)}.".replace("  :", " :"))
        return T(t.axes, (lambda idx, name=name: "(" + " ".join([name] + list(idx)) + ")") if vs else (lambda idx, name=name: name), t.kind)

    # ---- expressions
    def size(self, node):
        nm = name_of(node)
        v = self.env.get(nm)
        if not (isinstance(v, tuple) and v[0] == "size"):
            fail(node, "expected one of the sizes S, A, E")
        return v[1]

    def expr(self, node):
        if isinstance(node, ast.Name):
            v = self.env.get(node.id)
            if not isinstance(v, T):
                fail(node, "name is not a tensor")
            return v
        if isinstance(node, ast.Constant) and isinstance(node.value, (int, float)):
            q = {1.0: "1", 0: "0", 0.0: "0", 1: "1"}.get(node.value)
            if q is None:
                fail(node, "only the constants 0 and 1 are accepted")
            return T([], lambda idx, q=q: q)
        if isinstance(node, ast.BinOp) and isinstance(node.op, (ast.Mult, ast.Sub, ast.Div)):
            a, b = self.expr(node.left), self.expr(node.right)
            op = {ast.Mult: "*", ast.Sub: "-", ast.Div: "/"}[type(node.op)]
            axes = self.broadcast(node, a, b)
            return T(axes, lambda idx, a=a, b=b, op=op, axes=axes: f"({self.at(a, axes, idx)} {op} {self.at(b, axes, idx)})")
        if isinstance(node, ast.Compare) and len(node.ops) == 1 and isinstance(node.ops[0], ast.Gt):
            a, b = self.expr(node.left), self.expr(node.comparators[0])
            axes = self.broadcast(node, a, b)
            return T(axes, lambda idx, a=a, b=b, axes=axes: f"(Qltb {self.at(b, axes, idx)} {self.at(a, axes, idx)})", kind="bool")
        if isinstance(node, ast.Call):
            f = ast.unparse(node.func)
            if f == "jnp.abs" and len(node.args) == 1 and not node.keywords:
                a = self.expr(node.args[0])
                return T(a.axes, lambda idx, a=a: f"(Qabs {a.fn(idx)})")
            if f == "jnp.sum" and len(node.args) == 1 and len(node.keywords) == 1 and node.keywords[0].arg == "axis" \
                    and ast.unparse(node.keywords[0].value) == "-1":
                a = self.expr(node.args[0])
                if not a.axes or a.axes[-1] == "1":
                    fail(node, "sum over a missing axis")
                n = a.axes[-1]
                return T(a.axes[:-1], lambda idx, a=a, n=n: f"(fsum (fun k_ => {a.fn(list(idx) + ['k_'])}) {n})")
            if f == "jnp.max" and len(node.args) == 1 and not node.keywords:
                a = self.expr(node.args[0])
                if len(a.axes) != 2 or "1" in a.axes:
                    fail(node, "jnp.max without an axis is accepted on a two-dimensional array only")
                x, y = a.axes
                return T([], lambda idx, a=a, x=x, y=y: f"(fmax (fun i_ => {a.fn([f'(i_ / {y})%nat', f'(i_ mod {y})%nat'])}) ({x} * {y}))")
            if f == "jnp.where" and len(node.args) == 3 and not node.keywords:
                c, x, y = (self.expr(z) for z in node.args)
                if c.kind != "bool":
                    fail(node, "where needs a comparison")
                axes = self.broadcast(node, c, x)
                axes = self.broadcast(node, T(axes, None), y)
                return T(axes, lambda idx, c=c, x=x, y=y, axes=axes: f"(if {self.at(c, axes, idx)} then {self.at(x, axes, idx)} else {self.at(y, axes, idx)})")
            if isinstance(node.func, ast.Attribute) and node.func.attr == "reshape" and not node.keywords:
                a = self.expr(node.func.value)
                want = [("1" if isinstance(z, ast.Constant) and z.value == 1 else self.size(z)) for z in node.args]
                if [x for x in want if x != "1"] != [x for x in a.axes if x != "1"]:
                    fail(node, f"reshape to {want} would reorder the axes {a.axes}")
                keep = [i for i, x in enumerate(want) if x != "1"]
                return T(want, lambda idx, a=a, keep=keep: a.fn([idx[i] for i in keep]), a.kind)
        if isinstance(node, ast.Subscript):
            a = self.expr(node.value)
            sl = node.slice.elts if isinstance(node.slice, ast.Tuple) else [node.slice]
            if len(sl) != len(a.axes):
                fail(node, "subscript must name every axis")
            fixed = {}
            for i, s in enumerate(sl):
                if isinstance(s, ast.Slice) and s.lower is None and s.upper is None and s.step is None:
                    continue
                v = self.env.get(getattr(s, "id", None))
                if not (isinstance(v, tuple) and v[0] == "loopvar"):
                    fail(s, "only full slices and loop variables may index")
                if v[2] != a.axes[i]:
                    fail(s, f"loop variable over {v[2]} indexes an axis of size {a.axes[i]}")
                fixed[i] = v[1]
            axes = [x for i, x in enumerate(a.axes) if i not in fixed]

            def fn(idx, a=a, fixed=fixed):
                it = iter(idx)
                return a.fn([fixed[i] if i in fixed else next(it) for i in range(len(a.axes))])
            return T(axes, fn, a.kind)
        fail(node, "unsupported expression in the matrix builder")

    def broadcast(self, node, a, b):
        if not a.axes:
            return list(b.axes)
        if not b.axes:
            return list(a.axes)
        if len(a.axes) != len(b.axes):
            fail(node, f"ranks differ: {a.axes} vs {b.axes}")
        out = []
        for x, y in zip(a.axes, b.axes):
            if x == y or y == "1":
                out.append(x)
            elif x == "1":
                out.append(y)
            else:
                fail(node, f"axes do not broadcast: {a.axes} vs {b.axes}")
        return out

    def at(self, t, axes, idx):
        if not t.axes:
            return t.fn([])
        return t.fn([i for i, x in zip(idx, t.axes)]) if all(x != "1" for x in t.axes) else t.fn([i for i, x in zip(idx, t.axes)])


def translate(repo):
    path = f"{repo}/src/mdpax/core/problem.py"
    tree, _ = load_module(path)
    fn = find_func(find_class(tree, "Problem"), "build_transition_and_reward_matrices")
    if [a.arg for a in fn.args.args] != ["self", "normalization_tolerance"]:
        fail(fn, "signature must be (self, normalization_tolerance)")
    I = Interp()
    body = strip_docstring(fn.body)
    out = [HEADER]
    spaces = {"self.state_space": 0, "self.action_space": 1, "self.random_event_space": 2}
    sizes = {"self.n_states": "S", "self.n_actions": "A", "self.n_random_events": "E"}
    axis_of_arg = {0: "S", 1: "A", 2: "E"}
    base = {"self.transition": "transition", "self.random_event_probability": "probability", "self.state_to_index": "index"}
    P_final = R_final = None
    i = 0
    while i < len(body):
        st = body[i]
        i += 1
        tgt = val = None
        if isinstance(st, ast.AnnAssign) and st.value is not None and isinstance(st.target, ast.Name):
            tgt, val = st.target.id, st.value
        elif isinstance(st, ast.Assign) and len(st.targets) == 1 and isinstance(st.targets[0], ast.Name):
            tgt, val = st.targets[0].id, st.value
        if tgt is not None:
            nm = name_of(val)
            if nm in spaces:
                I.env[tgt] = ("space", spaces[nm])
                continue
            if nm in sizes:
                I.env[tgt] = ("size", sizes[nm])
                continue
            if isinstance(val, ast.Call) and ast.unparse(val.func) in ("vmap", "jax.vmap"):
                b, levels = vmap_levels(val, base)
                I.env[tgt] = ("vfun", base[b], levels)
                continue
            if isinstance(val, ast.Call) and isinstance(val.func, ast.Name) and isinstance(I.env.get(val.func.id), tuple) and I.env[val.func.id][0] == "vfun":
                _, b, levels = I.env[val.func.id]
                args = [I.env.get(getattr(a, "id", None)) for a in val.args]
                if args != [("space", 0), ("space", 1), ("space", 2)] or val.keywords:
                    fail(val, "the vectorised function must be applied to (states, actions, random_events)")
                if sorted(levels) != [0, 1, 2]:
                    fail(val, "each of the three arguments must be mapped by exactly one vmap level")
                axes = [axis_of_arg[a] for a in levels]        # outermost level = first axis

                def at_sae(idx, levels=levels):
                    pos = {a: idx[k] for k, a in enumerate(levels)}
                    return f"{pos[0]} {pos[1]} {pos[2]}"
                if b == "transition":
                    I.env[tgt] = ("pair", T(axes, lambda idx: f"(nxt {at_sae(idx)})", "nat-state"), T(axes, lambda idx: f"(rew {at_sae(idx)})"))
                elif b == "probability":
                    I.env[tgt] = I.define("probs", T(axes, lambda idx: f"(prb {at_sae(idx)})"))
                else:
                    fail(val, "unexpected vectorised function")
                continue
            if isinstance(val, ast.Call) and isinstance(val.func, ast.Name) and isinstance(I.env.get(val.func.id), tuple) and I.env[val.func.id][0] == "idxfun":
                args = val.args
                if len(args) != 2 or ast.unparse(args[0]) != "self" or not isinstance(I.env.get(getattr(args[1], "id", None)), T) \
                        or I.env[args[1].id].kind != "nat-state":
                    fail(val, "the index conversion must be applied to the successor states")
                t = I.env[args[1].id]
                I.env[tgt] = I.define("ns_indices", T(t.axes, t.fn, "nat"))     # nxt IS the index of the successor (index-level functions)
                continue
            if isinstance(val, ast.Call) and ast.unparse(val.func) == "jnp.zeros" and len(val.args) == 1 and isinstance(val.args[0], ast.Tuple):
                axes = [I.size(z) for z in val.args[0].elts]
                I.env[tgt] = T(axes, lambda idx: "0")
                continue
            # generic tensor expression
            t = I.expr(val)
            I.env[tgt] = I.define(tgt, t) if t.kind in ("Q", "nat") and t.axes else t
            continue
        if isinstance(st, ast.Assign) and len(st.targets) == 1 and isinstance(st.targets[0], ast.Tuple) and isinstance(st.value, ast.Name) \
                and isinstance(I.env.get(st.value.id), tuple) and I.env[st.value.id][0] == "pair":
            names = [e.id for e in st.targets[0].elts]
            if len(names) != 2:
                fail(st, "transition returns (next_state, reward)")
            I.env[names[0]] = I.env[st.value.id][1]
            I.env[names[1]] = I.define("rewards", I.env[st.value.id][2])
            continue
        if isinstance(st, ast.FunctionDef):
            inner = strip_docstring(st.body)
            if len(inner) != 1 or not isinstance(inner[0], ast.Return):
                fail(st, "helper must be a single return")
            r = inner[0].value
            if isinstance(r, ast.Call) and isinstance(r.func, ast.Call) and ast.unparse(r.func.func) in ("vmap", "jax.vmap"):
                b, levels = vmap_levels(r.func, base)
                if base[b] != "index" or levels != ["all", "all", "all"] or [a.arg for a in st.args.args] != ["self", "states"] or ast.unparse(r.args[0]) != "states":
                    fail(st, "index helper must map state_to_index over the three leading axes of its argument")
                I.env[st.name] = ("idxfun",)
                continue
            if (isinstance(r, ast.Call) and isinstance(r.func, ast.Attribute) and r.func.attr == "add" and isinstance(r.func.value, ast.Subscript)
                    and isinstance(r.func.value.value, ast.Attribute) and r.func.value.value.attr == "at"):
                params = [a.arg for a in st.args.args]
                if len(params) != 5 or params[0] != "self":
                    fail(st, "update helper must take (self, P, a, states_idx, probs)")
                _, pP, pa, pidx, pp = params
                sub = r.func.value
                if ast.unparse(sub.value.value) != pP:
                    fail(st, "the update must act on its matrix argument")
                sl = sub.slice.elts if isinstance(sub.slice, ast.Tuple) else [sub.slice]
                if len(sl) != 3 or ast.unparse(sl[0]) != pa or ast.unparse(sl[2]) != pidx or len(r.args) != 1 or ast.unparse(r.args[0]) != pp:
                    fail(st, "the update must be P.at[a, <all source states>, states_idx].add(probs)")
                ar = sl[1]
                if not (isinstance(ar, ast.Call) and ast.unparse(ar.func) == "jnp.arange" and len(ar.args) == 1 and I.size(ar.args[0]) == "S"):
                    fail(st, "the source-state index must be jnp.arange(S)")
                I.env[st.name] = ("updfun",)
                continue
            fail(st, "unsupported helper function")
        if isinstance(st, ast.For):
            I.env["P"] = for_loop(I, st, I.env.get("P"))
            I.env["P"] = I.define("P", I.env["P"])
            continue
        if isinstance(st, ast.If):
            if not (isinstance(st.test, ast.Compare) and len(st.test.ops) == 1 and isinstance(st.test.ops[0], ast.Gt)
                    and name_of(st.test.comparators[0]) == "normalization_tolerance" and not st.orelse and I.raise_info is None):
                fail(st, "the only branch is `if <deviation> > normalization_tolerance`")
            dev = I.expr(st.test.left)
            if dev.axes:
                fail(st, "the deviation compared with the tolerance must be a scalar")
            out_raise = raise_block(I, st.body)
            I.raise_info = (dev.fn([]), out_raise)
            continue
        if isinstance(st, ast.Expr) and isinstance(st.value, ast.Call) and ast.unparse(st.value.func) == "chex.assert_shape":
            continue
        if isinstance(st, ast.Return):
            if ast.unparse(st.value) != "(P, R)" or i != len(body):
                fail(st, "must end with `return P, R`")
            P_final, R_final = I.env.get("P"), I.env.get("R")
            continue
        fail(st, "statement not accepted in the matrix builder")
    if not (isinstance(P_final, T) and isinstance(R_final, T) and P_final.axes == ["A", "S", "S"] and R_final.axes == ["S", "A"] and I.raise_info):
        raise TranslateError("the builder must return P [A,S,S] and R [S,A] and contain the deviation check")
    out += I.defs
    out.append(f"  Definition gen_P_final (a s s' : nat) : Q := {P_final.fn(['a', 's', chr(115) + chr(39)])}.")
    out.append(f"  Definition gen_R_final (s a : nat) : Q := {R_final.fn(['s', 'a'])}.")
    dev, (wa, ws) = I.raise_info
    out.append(f"  Definition gen_max_deviation : Q := {dev}.")
    out.append("  Definition gen_raises (tol : Q) : bool := Qltb tol gen_max_deviation.      (* `max_deviation > normalization_tolerance` *)")
    out.append(f"  Definition gen_worst_pair : nat * nat := ({wa}, {ws}).                    (* (action, state) named by the ValueError *)")
    out.append("End GenMatrices.")
    names = [d.split()[1] for d in I.defs]
    out.append("#[global] Hint Unfold " + " ".join(names) + " gen_P_final gen_R_final gen_max_deviation gen_raises gen_worst_pair : gm.")
    return "\n".join(out) + "\n", {"spans": [{"function": "Problem.build_transition_and_reward_matrices", "file": path, "lines": [fn.lineno, fn.end_lineno]}]}


def for_loop(I, st, P):
    """for v in range(N): [assignments of slices]; (nested for | P = update(self, P, a, idx, p))  ->  gen_for"""
    if not (isinstance(st.target, ast.Name) and isinstance(st.iter, ast.Call) and ast.unparse(st.iter.func) == "range" and len(st.iter.args) == 1 and not st.orelse):
        fail(st, "loops must be `for v in range(N)`")
    if not isinstance(P, T) or P.axes != ["A", "S", "S"]:
        fail(st, "the loop must update the transition matrix P [A,S,S]")
    n = I.size(st.iter.args[0])
    var = f"{st.target.id}_"
    saved = dict(I.env)
    I.env[st.target.id] = ("loopvar", var, n)
    inner = None
    for s in st.body:
        if isinstance(s, ast.Assign) and len(s.targets) == 1 and isinstance(s.targets[0], ast.Name) and s.targets[0].id != "P":
            I.env[s.targets[0].id] = I.expr(s.value)
        elif isinstance(s, ast.For):
            if inner is not None:
                fail(s, "one update per loop body")
            inner = for_loop(I, s, T(P.axes, lambda idx: "(P_ " + " ".join(idx) + ")"))
        elif (isinstance(s, ast.Assign) and len(s.targets) == 1 and name_of(s.targets[0]) == "P" and isinstance(s.value, ast.Call)
              and isinstance(s.value.func, ast.Name) and I.env.get(s.value.func.id) == ("updfun",)):
            if inner is not None:
                fail(s, "one update per loop body")
            a = s.value.args
            if len(a) != 5 or ast.unparse(a[0]) != "self" or ast.unparse(a[1]) != "P":
                fail(s, "update must be called as update(self, P, a, idx, p)")
            av = I.env.get(getattr(a[2], "id", None))
            if not (isinstance(av, tuple) and av[0] == "loopvar" and av[2] == "A"):
                fail(s, "the action passed to the update must be the loop variable over the actions")
            idx, p = I.expr(a[3]), I.expr(a[4])
            if idx.axes != ["S"] or p.axes != ["S"] or idx.kind != "nat":
                fail(s, "the update needs one successor index and one probability per source state")
            inner = T(P.axes, lambda ix, av=av, idx=idx, p=p: "(gen_scatter_add P_ " + av[1] + f" (fun s_ => {idx.fn(['s_'])}) (fun s_ => {p.fn(['s_'])}) " + " ".join(ix) + ")")
        else:
            fail(s, "statement not accepted inside the accumulation loop")
    if inner is None:
        fail(st, "loop without an update")
    I.env = saved
    body = inner.fn(["x_", "y_", "z_"])
    return T(P.axes, lambda ix, n=n, var=var, body=body, P=P: f"(gen_for {n} (fun {var} P_ => fun x_ y_ z_ => {body}) (fun x_ y_ z_ => {P.fn(['x_', 'y_', 'z_'])}) " + " ".join(ix) + ")")


def raise_block(I, stmts):
    """action, state = jnp.unravel_index(jnp.argmax(<2-d tensor>), <that tensor>.shape); raise ValueError(f'... state {state}, action {action} ...')"""
    if len(stmts) != 2 or not isinstance(stmts[1], ast.Raise):
        fail(stmts[0], "the branch must locate the worst pair and raise")
    a = stmts[0]
    if not (isinstance(a, ast.Assign) and isinstance(a.targets[0], ast.Tuple) and [e.id for e in a.targets[0].elts] == ["action", "state"]
            and isinstance(a.value, ast.Call) and ast.unparse(a.value.func) == "jnp.unravel_index" and len(a.value.args) == 2):
        fail(a, "expected `action, state = jnp.unravel_index(jnp.argmax(...), row_sums.shape)`")
    am, shp = a.value.args
    if not (isinstance(am, ast.Call) and ast.unparse(am.func) == "jnp.argmax" and len(am.args) == 1 and not am.keywords):
        fail(am, "expected jnp.argmax(...)")
    t = I.expr(am.args[0])
    shape_of = I.expr(shp.value) if isinstance(shp, ast.Attribute) and shp.attr == "shape" else None
    if t.axes != ["A", "S"] or shape_of is None or shape_of.axes != ["A", "S"]:
        fail(a, "the worst pair must be located in an [A, S] array and unravelled with that array's shape")
    r = stmts[1].exc
    msg = ast.unparse(r)
    if not (isinstance(r, ast.Call) and ast.unparse(r.func) == "ValueError" and "state {state}, action {action}" in msg):
        fail(stmts[1], "must raise ValueError naming `state {state}, action {action}`")
    flat = f"(fargmax (fun i_ => {t.fn(['(i_ / S)%nat', '(i_ mod S)%nat'])}) (A * S))"
    return f"({flat} / S)%nat", f"({flat} mod S)%nat"
