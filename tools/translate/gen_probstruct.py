"""The STRUCTURE of the shipped problems' probability tables -> coq/gen/GenProbStruct.v (fail-closed): what the code does
around the third-party special functions (which stay oracle tables): De Moor's (mean, CoV) -> (shape, rate) conversion, the
points at which the gamma CDF is evaluated, diff + tail folded into the last bin; Mirjalili's negative-binomial success
probability, folding of the demand tail, and the order of the multinomial logits."""
import ast

from .pyexpr import TranslateError, fail, find_class, load_module, strip_docstring

HEADER = """(* GENERATED from the probability-table code of de_moor_single_product.py and mirjalili_platelet.py -- do not edit *)
From Coq Require Import ZArith QArith List.
From MdpaxV Require Import Proofs.C13P.
Import ListNotations.
Open Scope Q_scope.
"""


def norm(src):
    return ast.unparse(ast.parse(src).body[0])


def body_of(cls, name):
    fn = next((n for n in cls.body if isinstance(n, ast.FunctionDef) and n.name == name), None)
    if fn is None:
        raise TranslateError(f"{name} not found")
    return fn, [ast.unparse(s) for s in strip_docstring(fn.body) if not (isinstance(s, ast.Expr) and isinstance(s.value, ast.Constant))]


def translate(repo):
    out, spans = [HEADER], []
    # ---------------- De Moor
    tree, _ = load_module(f"{repo}/src/mdpax/problems/perishable_inventory/de_moor_single_product.py")
    cls = find_class(tree, "DeMoorSingleProductPerishable")
    fn, u = body_of(cls, "_convert_gamma_parameters")
    if [a.arg for a in fn.args.args] != ["self", "mean", "cov"] or u != [norm("alpha = 1 / cov**2"), norm("beta = 1 / (mean * cov**2)"), norm("return alpha, beta")]:
        fail(fn, "expected alpha = 1 / cov**2; beta = 1 / (mean * cov**2); return alpha, beta")
    out.append("Definition gen_convert_gamma_parameters (mean cov : Q) : Q * Q :=\n  let alpha := 1 / (cov * cov) in let beta := 1 / (mean * (cov * cov)) in (alpha, beta).")
    spans.append({"method": f"_convert_gamma_parameters (de_moor_single_product.py:{fn.lineno}-{fn.end_lineno})"})
    fn, u = body_of(cls, "_calculate_demand_probabilities")
    want = [norm("cdf = numpyro.distributions.Gamma(gamma_alpha, gamma_beta).cdf(jnp.hstack([0, jnp.arange(0.5, self.max_demand + 1.5)]))"),
            norm("demand_probabilities = jnp.diff(cdf)"),
            norm("demand_probabilities = demand_probabilities.at[-1].add(1 - demand_probabilities.sum())"),
            norm("return demand_probabilities")]
    if u != want:
        fail(fn, "expected: cdf at hstack([0, arange(0.5, max_demand + 1.5)]); diff; tail added to the last entry")
    out.append("(* the points at which the gamma CDF is evaluated: 0, then 1/2, 3/2, ..., max_demand + 1/2 *)\n"
               "Definition gen_demoor_cdf_points (max_demand : nat) : list Q :=\n  0 :: map (fun k => inject_Z (Z.of_nat k) + (1 # 2)) (seq 0 (max_demand + 1)).\n"
               "Definition gen_demoor_demand_probabilities (cdf : list Q) : list Q :=\n  let demand_probabilities := qdiff cdf in add_last demand_probabilities (1 - qsum demand_probabilities).")
    spans.append({"method": f"_calculate_demand_probabilities (de_moor_single_product.py:{fn.lineno}-{fn.end_lineno})"})
    # ---------------- Mirjalili
    tree, _ = load_module(f"{repo}/src/mdpax/problems/perishable_inventory/mirjalili_platelet.py")
    cls = find_class(tree, "MirjaliliPlateletPerishable")
    fn, u = body_of(cls, "_get_multinomial_logits")
    want = [norm("c_0 = self.useful_life_at_arrival_distribution_c_0"), norm("c_1 = self.useful_life_at_arrival_distribution_c_1"),
            norm("return jnp.hstack([0, c_0 + c_1 * action])[::-1]")]
    if u != want:
        fail(fn, "expected: hstack([0, c_0 + c_1 * action]) reversed")
    out.append("(* logit 0 for remaining life 1, c_0[j] + c_1[j] * order for remaining life j + 2, then reversed (stock lists the longest life first) *)\n"
               "Definition gen_multinomial_logits (c_0 c_1 : list Q) (action : Q) : list Q :=\n  rev (0 :: map (fun cc => fst cc + snd cc * action) (combine c_0 c_1)).")
    spans.append({"method": f"_get_multinomial_logits (mirjalili_platelet.py:{fn.lineno}-{fn.end_lineno})"})
    init = next(n for n in cls.body if isinstance(n, ast.FunctionDef) and n.name == "_setup_before_space_construction")
    ok = any(isinstance(s, ast.Assign) and ast.unparse(s.targets[0]) == "self.weekday_demand_negbin_p"
             and ast.unparse(s.value) == "self.weekday_demand_negbin_n / (self.weekday_demand_negbin_delta + self.weekday_demand_negbin_n)" for s in ast.walk(init))
    if not ok:
        raise TranslateError("weekday_demand_negbin_p must be n / (delta + n)")
    out.append("Definition gen_negbin_p (n delta : Q) : Q := n / (delta + n).")
    fn, u = body_of(cls, "_calculate_demand_probabilities")
    want = [norm("n = self.weekday_demand_negbin_n[weekday]"), norm("p = self.weekday_demand_negbin_p[weekday]"),
            norm("demand_dist = numpyro.distributions.NegativeBinomialProbs(total_count=n, probs=1 - p)"),
            norm("demand_probs = jnp.exp(demand_dist.log_prob(jnp.arange(0, self.max_demand + 1)))"),
            norm("demand_probs = demand_probs.at[self.max_demand].add(1 - jnp.sum(demand_probs))"), norm("return demand_probs")]
    if u != want:
        fail(fn, "expected: NegativeBinomialProbs(total_count=n, probs=1 - p) pmf on 0..max_demand with the tail added to entry max_demand")
    out.append("(* pm = the negative-binomial pmf on 0..max_demand (oracle); the tail is added to the LAST entry (index max_demand) *)\n"
               "Definition gen_mirjalili_demand_probabilities (pm : list Q) : list Q := add_last pm (1 - qsum pm).")
    spans.append({"method": f"_calculate_demand_probabilities (mirjalili_platelet.py:{fn.lineno}-{fn.end_lineno})"})
    return "\n".join(out) + "\n", {"spans": spans}
