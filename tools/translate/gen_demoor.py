"""DeMoorSingleProductPerishable dynamics -> coq/gen/GenDeMoor.v (fail-closed): transition (pipeline, issuing, ageing, the
four cost components), _issue_fifo / _issue_lifo / _issue_one_step, _calculate_single_step_reward, the component lookups
and the choice of the issuing function, translated statement by statement over Model/ProblemOps.v.  Parameters of the
generated functions: lead_time, max_useful_life (nat), fifo (bool), the four cost coefficients in the order of
self.cost_components."""
import ast

from .pyexpr import TranslateError, fail, find_class, load_module

HEADER = """(* GENERATED from src/mdpax/problems/perishable_inventory/de_moor_single_product.py -- do not edit *)
From Coq Require Import ZArith QArith List Bool.
From MdpaxV Require Import Model.Problems Model.ProblemOps.
Import ListNotations.
Open Scope Z_scope.

Section Gen.
  Variables (lead_time max_useful_life : nat) (fifo : bool).
"""
from .invexpr import Fn, lookups  # noqa: E402


def translate(repo):
    path = f"{repo}/src/mdpax/problems/perishable_inventory/de_moor_single_product.py"
    tree, _ = load_module(path)
    cls = find_class(tree, "DeMoorSingleProductPerishable")
    fns = {n.name: n for n in cls.body if isinstance(n, ast.FunctionDef)}
    look = lookups(cls)
    # cost vector and the issuing function are fixed in __init__
    init = fns["__init__"]
    costs, issue_ok = None, False
    for s in ast.walk(init):
        if isinstance(s, ast.Assign) and ast.unparse(s.targets[0]) == "self.cost_components":
            v = s.value
            if not (isinstance(v, ast.Call) and ast.unparse(v.func) == "jnp.array" and isinstance(v.args[0], ast.List)):
                fail(s, "cost_components must be jnp.array([...])")
            costs = [ast.unparse(x) for x in v.args[0].elts]
        if isinstance(s, ast.If) and ast.unparse(s.test) == "self.issue_policy == 'fifo'":
            if [ast.unparse(x) for x in s.body] == ["self._issue_stock = self._issue_fifo"] and [ast.unparse(x) for x in s.orelse] == ["self._issue_stock = self._issue_lifo"]:
                issue_ok = True
    want = ["self.config.variable_order_cost", "self.config.shortage_cost", "self.config.wastage_cost", "self.config.holding_cost"]
    if costs is None or sorted(costs) != sorted(want):
        raise TranslateError(f"cost_components must list the four configured cost coefficients (found {costs})")
    if not issue_ok:
        raise TranslateError("__init__ must choose _issue_fifo for issue_policy == 'fifo' and _issue_lifo otherwise")
    cnames = [c.split(".")[-1] for c in costs]
    out = [HEADER, "  Variables (" + " ".join(cnames) + " : Q).",
           "  Definition cost_components : list Q := [" + "; ".join(cnames) + "].   (* in the source's order *)"]
    sigs = [("_issue_one_step", [("remaining_demand", "Z"), ("stock_element", "Z")], ("Z", "Z")),
            ("_issue_fifo", [("opening_stock", "VZ"), ("demand", "Z")], "VZ"),
            ("_issue_lifo", [("opening_stock", "VZ"), ("demand", "Z")], "VZ"),
            ("_calculate_single_step_reward", [("transition_function_reward_output", "VZ")], "Q"),
            ("transition", [("state", "VZ"), ("action", "VZ"), ("random_event", "VZ")], ("VZ", "Q"))]
    spans = []
    for name, params, rt in sigs:
        node = fns.get(name)
        if node is None:
            raise TranslateError(f"{name} not found")
        have = [a.arg for a in node.args.args][1:]
        if name == "_calculate_single_step_reward":
            if have != ["state", "action", "transition_function_reward_output"]:
                fail(node, "unexpected signature")
        elif have != [p for p, _ in params]:
            fail(node, f"{name}: unexpected signature {have}")
        gname = "_transition" if name == "transition" else name
        out.append(Fn(node, look, params, rt).translate(gname))
        spans.append({"method": f"{name} (problems/perishable_inventory/de_moor_single_product.py:{node.lineno}-{node.end_lineno})"})
    out.append("End Gen.")
    return "\n".join(out) + "\n", {"spans": spans, "cost_order": cnames}
