"""Fail-closed translation of a small subset of Python expressions to Gallina (Z / bool / Q).

Anything outside the accepted subset raises TranslateError; callers treat that as
a broken obligation (the generated file is then not produced).
"""
import ast


class TranslateError(Exception):
    pass


def fail(node, msg):
    line = getattr(node, "lineno", "?")
    raise TranslateError(f"line {line}: {msg}: {ast.dump(node)[:200] if isinstance(node, ast.AST) else node}")


def load_module(path):
    with open(path) as f:
        src = f.read()
    return ast.parse(src), src


def find_class(tree, name):
    for n in tree.body:
        if isinstance(n, ast.ClassDef) and n.name == name:
            return n
    raise TranslateError(f"class {name} not found")


def find_func(node, name):
    for n in node.body:
        if isinstance(n, ast.FunctionDef) and n.name == name:
            return n
    raise TranslateError(f"function {name} not found in {getattr(node, 'name', 'module')}")


def strip_docstring(body):
    if body and isinstance(body[0], ast.Expr) and isinstance(body[0].value, ast.Constant) and isinstance(body[0].value.value, str):
        return body[1:]
    return body


def is_logger_call(stmt):
    """logger.<level>(...) expression statements are dropped by every translator."""
    return (
        isinstance(stmt, ast.Expr)
        and isinstance(stmt.value, ast.Call)
        and isinstance(stmt.value.func, ast.Attribute)
        and isinstance(stmt.value.func.value, ast.Name)
        and stmt.value.func.value.id == "logger"
    )


def name_of(node):
    """'x' for Name x, 'self.x' for Attribute(self, x); None otherwise."""
    if isinstance(node, ast.Name):
        return node.id
    if isinstance(node, ast.Attribute) and isinstance(node.value, ast.Name) and node.value.id == "self":
        return "self." + node.attr
    return None


class ZExpr:
    """Translate integer / boolean expressions. env: python name -> Gallina term (string)."""

    def __init__(self, env, numtype="Z"):
        self.env = env
        self.numtype = numtype
        self.used = []  # python names looked up, in order of first use

    def lookup(self, node):
        nm = name_of(node)
        if nm is None or nm not in self.env:
            fail(node, "unknown name")
        if nm not in self.used:
            self.used.append(nm)
        return self.env[nm]

    def num(self, node):
        if isinstance(node, ast.Constant) and type(node.value) is int:
            v = node.value
            return f"({v})" if v < 0 else str(v)
        if isinstance(node, ast.Constant) and type(node.value) is float and self.numtype == "Q":
            from fractions import Fraction

            fr = Fraction(str(node.value))
            return f"({fr.numerator} # {fr.denominator})"
        if isinstance(node, (ast.Name, ast.Attribute)):
            return self.lookup(node)
        if isinstance(node, ast.UnaryOp) and isinstance(node.op, ast.USub):
            return f"(- {self.num(node.operand)})"
        if isinstance(node, ast.BinOp):
            a, b = self.num(node.left), self.num(node.right)
            if isinstance(node.op, ast.Add):
                return f"({a} + {b})"
            if isinstance(node.op, ast.Sub):
                return f"({a} - {b})"
            if isinstance(node.op, ast.Mult):
                return f"({a} * {b})"
            if isinstance(node.op, ast.FloorDiv) and self.numtype == "Z":
                return f"({a} / {b})"
            if isinstance(node.op, ast.Mod) and self.numtype == "Z":
                return f"({a} mod {b})"
            if isinstance(node.op, ast.Div) and self.numtype == "Q":
                return f"({a} / {b})"
            fail(node, "unsupported binary operator")
        if isinstance(node, ast.Call) and isinstance(node.func, ast.Name) and node.func.id in ("min", "max") and len(node.args) == 2 and not node.keywords:
            f = {"Z": {"min": "Z.min", "max": "Z.max"}, "Q": {"min": "Qmin", "max": "Qmax"}}[self.numtype][node.func.id]
            return f"({f} {self.num(node.args[0])} {self.num(node.args[1])})"
        if isinstance(node, ast.IfExp):
            return f"(if {self.boolean(node.test)} then {self.num(node.body)} else {self.num(node.orelse)})"
        fail(node, "unsupported numeric expression")

    CMP = {
        "Z": {ast.Lt: "{a} <? {b}", ast.LtE: "{a} <=? {b}", ast.Gt: "{a} >? {b}", ast.GtE: "{a} >=? {b}", ast.Eq: "{a} =? {b}", ast.NotEq: "negb ({a} =? {b})"},
        "Q": {ast.Lt: "Qlt_bool {a} {b}", ast.LtE: "Qle_bool {a} {b}", ast.Gt: "Qlt_bool {b} {a}", ast.GtE: "Qle_bool {b} {a}", ast.Eq: "Qeq_bool {a} {b}", ast.NotEq: "negb (Qeq_bool {a} {b})"},
    }

    def boolean(self, node):
        if isinstance(node, ast.Compare):
            parts = []
            left = node.left
            for op, right in zip(node.ops, node.comparators):
                tmpl = self.CMP[self.numtype].get(type(op))
                if tmpl is None:
                    fail(node, "unsupported comparison")
                parts.append("(" + tmpl.format(a=self.num(left), b=self.num(right)) + ")")
                left = right
            out = parts[0]
            for p in parts[1:]:
                out = f"({out} && {p})"
            return out
        if isinstance(node, ast.BoolOp):
            op = "&&" if isinstance(node.op, ast.And) else "||"
            vals = [self.boolean(v) for v in node.values]
            out = vals[0]
            for v in vals[1:]:
                out = f"({out} {op} {v})"
            return out
        if isinstance(node, ast.UnaryOp) and isinstance(node.op, ast.Not):
            return f"(negb {self.boolean(node.operand)})"
        if isinstance(node, ast.Constant) and isinstance(node.value, bool):
            return "true" if node.value else "false"
        fail(node, "unsupported boolean expression")


def assign_chain(stmts, params, prefix, numtype="Z", skip=lambda s: False, identity_ok=()):
    """Translate a straight-line sequence of integer assignments (with if/else that
    assign one common target) into a list of (pyname, coq_def_text).

    params: ordered dict python name -> Gallina parameter name (function arguments).
    Every assigned variable v becomes `Definition <prefix><v> <params> : Z := let ... in expr`,
    where earlier assigned variables it mentions are bound by `let` to their definitions.
    """
    defs = {}  # pyname -> coq ident
    order = []
    out = []
    sig = " ".join(params.values())

    def coqname(pyname):
        return prefix + pyname.replace("self.", "")

    def emit(pyname, build):
        env = dict(params)
        for v in order:
            env[v] = v.replace("self.", "")
        tr = ZExpr(env, numtype)
        body = build(tr)
        lets = "".join(f"  let {v.replace('self.', '')} := {defs[v]} {sig} in\n" for v in order if v in tr.used)
        cn = coqname(pyname)
        out.append((pyname, f"Definition {cn} ({sig} : {numtype}) : {numtype} :=\n{lets}  {body}."))
        # self.x and local x are distinct python names but may alias the same coq let name
        for v in order:
            if v != pyname and v.replace("self.", "") == pyname.replace("self.", ""):
                raise TranslateError(f"name clash between {v} and {pyname}")
        if pyname in defs:
            raise TranslateError(f"{pyname} assigned twice")
        defs[pyname] = cn
        order.append(pyname)

    for st in stmts:
        if skip(st) or is_logger_call(st):
            continue
        if isinstance(st, ast.Assign) and len(st.targets) == 1 and name_of(st.targets[0]):
            tgt = name_of(st.targets[0])
            src = name_of(st.value)
            if tgt in identity_ok and src == identity_ok[tgt]:
                continue
            emit(tgt, lambda tr, v=st.value: tr.num(v))
        elif isinstance(st, ast.AnnAssign) and name_of(st.target) and st.value is not None:
            emit(name_of(st.target), lambda tr, v=st.value: tr.num(v))
        elif isinstance(st, ast.If):
            b = [s for s in st.body if not is_logger_call(s)]
            o = [s for s in st.orelse if not is_logger_call(s)]
            if not (len(b) == 1 and len(o) == 1 and isinstance(b[0], ast.Assign) and isinstance(o[0], ast.Assign)
                    and len(b[0].targets) == 1 and len(o[0].targets) == 1
                    and name_of(b[0].targets[0]) and name_of(b[0].targets[0]) == name_of(o[0].targets[0])):
                fail(st, "if/else must assign one common target in both branches")
            tgt = name_of(b[0].targets[0])
            emit(tgt, lambda tr, st=st, b=b, o=o: f"if {tr.boolean(st.test)} then {tr.num(b[0].value)}\n  else {tr.num(o[0].value)}")
        else:
            fail(st, "unsupported statement")
    return out, defs
