"""Shared fail-closed translation of the perishable-inventory problems' integer-vector code (transition functions, issuing
scans, reward) into Gallina over Model/ProblemOps.v.  Used by gen_demoor.py and gen_mirjalili.py."""
import ast

from .pyexpr import TranslateError, fail, strip_docstring

NATS = {"self.lead_time": "lead_time", "self.max_useful_life": "max_useful_life"}
ZPARAMS = {"self.max_order_quantity": "max_order_quantity"}


def nat_expr(e, alias=None):
    """index arithmetic over the structural parameters (alias: local names of the lookup constructor)"""
    if alias and isinstance(e, ast.Name) and e.id in alias:
        return alias[e.id]
    if isinstance(e, ast.BinOp) and isinstance(e.op, ast.Mult) and isinstance(e.left, ast.Constant) and isinstance(e.left.value, int):
        return f"({e.left.value} * {nat_expr(e.right, alias)})%nat"
    if isinstance(e, ast.Constant) and isinstance(e.value, int) and e.value >= 0:
        return f"{e.value}%nat"
    s = ast.unparse(e)
    if s in NATS:
        return NATS[s]
    if isinstance(e, ast.BinOp) and isinstance(e.op, (ast.Add, ast.Sub)):
        return f"({nat_expr(e.left, alias)} {'+' if isinstance(e.op, ast.Add) else '-'} {nat_expr(e.right, alias)})%nat"
    fail(e, "index expression not accepted")


def lookups(cls):
    out = {}
    for kind in ("state", "action", "random_event"):
        fn = next((n for n in cls.body if isinstance(n, ast.FunctionDef) and n.name == f"_construct_{kind}_component_lookup"), None)
        if fn is None:
            raise TranslateError(f"_construct_{kind}_component_lookup not found")
        body = strip_docstring(fn.body)
        alias = {}
        while len(body) > 1 and isinstance(body[0], ast.Assign) and isinstance(body[0].targets[0], ast.Name) and ast.unparse(body[0].value) in NATS:
            alias[body[0].targets[0].id] = NATS[ast.unparse(body[0].value)]     # e.g. m = self.max_useful_life
            body = body[1:]
        if len(body) != 1 or not isinstance(body[0], ast.Return) or not isinstance(body[0].value, ast.Dict):
            fail(fn, "lookup constructor must return a dict literal")
        d = {}
        for k, v in zip(body[0].value.keys, body[0].value.values):
            if isinstance(v, ast.Constant) and isinstance(v.value, int):
                d[k.value] = ("idx", f"{v.value}%nat")
            elif isinstance(v, ast.Call) and ast.unparse(v.func) == "slice" and len(v.args) == 2:
                d[k.value] = ("slice", nat_expr(v.args[0], alias), nat_expr(v.args[1], alias))
            else:
                fail(v, "lookup entries must be integers or slice(a, b)")
        out[kind] = d
    return out


class Fn:
    def __init__(self, node, look, params, rtype):
        self.node, self.look, self.env, self.rtype = node, look, dict(params), rtype
        self.params = params

    def sub(self, e):
        v, tv = self.expr(e.value)
        if tv != "VZ":
            fail(e, "only integer vectors are indexed")
        sl = e.slice
        if isinstance(sl, ast.Subscript) and isinstance(sl.value, ast.Attribute) and sl.value.attr.endswith("_component_lookup"):
            kind = sl.value.attr[: -len("_component_lookup")]
            key = sl.slice.value
            ent = self.look[kind][key]
            if ent[0] == "idx":
                return f"znth ({v}) {ent[1]}", "Z"
            return f"zslice ({v}) {ent[1]} {ent[2]}", "VZ"
        if isinstance(sl, ast.UnaryOp) and isinstance(sl.op, ast.USub) and ast.unparse(sl.operand) == "1":
            return f"zlastv ({v})", "Z"
        if isinstance(sl, ast.Slice) and sl.step is None and sl.lower is not None and sl.upper is not None:
            return f"zslice ({v}) {nat_expr(sl.lower)} {nat_expr(sl.upper)}", "VZ"
        fail(e, "subscript not accepted")

    def expr(self, e):
        if isinstance(e, ast.Name):
            if e.id not in self.env:
                fail(e, f"unknown name {e.id}")
            return e.id, self.env[e.id]
        if isinstance(e, ast.Constant) and isinstance(e.value, int):
            return str(e.value), "Z"
        if isinstance(e, ast.Subscript):
            return self.sub(e)
        if isinstance(e, ast.BinOp) and isinstance(e.op, (ast.Add, ast.Sub)):
            l, tl = self.expr(e.left)
            r, tr = self.expr(e.right)
            if (tl, tr) == ("VZ", "VZ") and isinstance(e.op, ast.Add):
                return f"vadd ({l}) ({r})", "VZ"
            if (tl, tr) == ("Q", "Q"):
                return f"({l} {'+' if isinstance(e.op, ast.Add) else '-'} {r})%Q", "Q"
            if (tl, tr) != ("Z", "Z"):
                fail(e, "integer arithmetic only")
            return f"({l} {'+' if isinstance(e.op, ast.Add) else '-'} {r})", "Z"
        if isinstance(e, ast.BinOp) and isinstance(e.op, ast.Mod) and isinstance(e.right, ast.Constant) and isinstance(e.right.value, int) and e.right.value > 0:
            l, tl = self.expr(e.left)
            if tl != "Z":
                fail(e, "modulo of an integer only")
            return f"(({l}) mod {e.right.value})", "Z"
        if isinstance(e, ast.Compare) and len(e.ops) == 1 and isinstance(e.ops[0], ast.Gt) and ast.unparse(e.comparators[0]) == "0":
            l, tl = self.expr(e.left)
            if tl != "Z":
                fail(e, "comparison of an integer only")
            return f"(if 0 <? {l} then 1 else 0)", "Z"       # a boolean used as a 0/1 cost component
        if isinstance(e, ast.BinOp) and isinstance(e.op, ast.Mult) and ast.unparse(e.left) == "-1":
            r, tr = self.expr(e.right)
            if tr != "Q":
                fail(e, "-1 * <cost> only")
            return f"(- (1) * {r})%Q", "Q"
        if isinstance(e, ast.Call):
            f = e.func
            fs = ast.unparse(f)
            if isinstance(f, ast.Attribute) and f.attr == "astype" and len(e.args) == 1:
                return self.expr(f.value)
            if isinstance(f, ast.Attribute) and f.attr == "clip" and len(e.args) == 1 and ast.unparse(e.args[0]) == "0" and not e.keywords:
                a, ta = self.expr(f.value)
                if ta != "Z":
                    fail(e, "clip(0) of an integer only")
                return f"Z.max ({a}) 0", "Z"
            if isinstance(f, ast.Attribute) and f.attr == "clip" and len(e.args) == 2 and ast.unparse(e.args[0]) == "0" and ast.unparse(e.args[1]) in ZPARAMS and not e.keywords:
                a, ta = self.expr(f.value)
                if ta != "VZ":
                    fail(e, "clip(0, hi) of a vector only")
                return f"zclipv 0 {ZPARAMS[ast.unparse(e.args[1])]} ({a})", "VZ"
            if fs == "jnp.array" and len(e.args) == 1 and isinstance(e.args[0], ast.List):
                parts = []
                for x in e.args[0].elts:
                    t, ty = self.expr(x)
                    if ty != "Z":
                        fail(x, "jnp.array of integers only")
                    parts.append(t)
                return "[" + "; ".join(parts) + "]", "VZ"
            if fs in getattr(self, "issue_funcs", {}) and len(e.args) == 2:
                a, ta = self.expr(e.args[0])
                b, tb = self.expr(e.args[1])
                if (ta, tb) != ("VZ", "Z"):
                    fail(e, "issuing function applied to (stock vector, demand)")
                return f"{self.issue_funcs[fs]} ({a}) ({b})", "VZ"
            if fs == "jnp.hstack" and len(e.args) == 1 and isinstance(e.args[0], ast.List):
                parts = []
                for x in e.args[0].elts:
                    t, ty = self.expr(x)
                    parts.append(f"[{t}]" if ty == "Z" else f"({t})")
                return "(" + " ++ ".join(parts) + ")", "VZ"
            if fs == "jnp.sum" and len(e.args) == 1:
                a, ta = self.expr(e.args[0])
                if ta != "VZ":
                    fail(e, "sum of a vector only")
                return f"zsum ({a})", "Z"
            if fs == "jnp.max" and len(e.args) == 1 and isinstance(e.args[0], ast.Call) and ast.unparse(e.args[0].func) == "jnp.array" \
                    and isinstance(e.args[0].args[0], ast.List) and len(e.args[0].args[0].elts) == 2:
                a, ta = self.expr(e.args[0].args[0].elts[0])
                b, tb = self.expr(e.args[0].args[0].elts[1])
                if (ta, tb) != ("Z", "Z"):
                    fail(e, "max of two integers only")
                return f"Z.max ({a}) ({b})", "Z"
            if fs == "jnp.dot" and len(e.args) == 2 and ast.unparse(e.args[1]) in getattr(self, "coef_vectors", {}):
                a, ta = self.expr(e.args[0])
                if ta != "VZ":
                    fail(e, "dot(<integer vector>, <coefficient vector>) only")
                return f"dotzq ({a}) {self.coef_vectors[ast.unparse(e.args[1])]}", "Q"
            if fs == "jnp.concatenate" and len(e.args) == 1 and isinstance(e.args[0], ast.List) and [k.arg for k in e.keywords] in ([], ["axis"]):
                parts = []
                for x in e.args[0].elts:
                    t, ty = self.expr(x)
                    if ty != "VZ":
                        fail(x, "concatenate of vectors only")
                    parts.append(f"({t})")
                return "(" + " ++ ".join(parts) + ")", "VZ"
            if fs == "jnp.dot" and len(e.args) == 2 and ast.unparse(e.args[1]) == "self.cost_components":
                a, ta = self.expr(e.args[0])
                if ta != "VZ":
                    fail(e, "dot(<integer vector>, self.cost_components) only")
                return f"dotzq ({a}) cost_components", "Q"
            if fs == "self._issue_stock" and len(e.args) == 2:
                a, ta = self.expr(e.args[0])
                b, tb = self.expr(e.args[1])
                if (ta, tb) != ("VZ", "Z"):
                    fail(e, "_issue_stock(stock vector, demand)")
                return f"(if fifo then gen_issue_fifo ({a}) ({b}) else gen_issue_lifo ({a}) ({b}))", "VZ"
            if fs == "self._calculate_single_step_reward" and len(e.args) == 3:
                if getattr(self, "reward_all_args", False):
                    ps = [self.expr(a) for a in e.args]
                    if [t for _, t in ps] != ["VZ", "VZ", "VZ"]:
                        fail(e, "reward of (state, action, event)")
                    return "gen_calculate_single_step_reward " + " ".join(f"({p})" for p, _ in ps), "Q"
                c, tc = self.expr(e.args[2])
                if tc != "VZ":
                    fail(e, "reward of a component vector")
                return f"gen_calculate_single_step_reward ({c})", "Q"
            if fs == "jax.lax.scan" and ast.unparse(e.args[0]) == "self._issue_one_step" and len(e.args) == 3:
                rev = "false"
                for kw in e.keywords:
                    if kw.arg == "reverse" and isinstance(kw.value, ast.Constant) and isinstance(kw.value.value, bool):
                        rev = "true" if kw.value.value else "false"
                    else:
                        fail(kw, "scan keyword not accepted")
                c, tc = self.expr(e.args[1])
                xs, tx = self.expr(e.args[2])
                if (tc, tx) != ("Z", "VZ"):
                    fail(e, "scan(step, demand, stock)")
                return f"zscan gen_issue_one_step ({c}) ({xs}) {rev}", ("Z", "VZ")
            fail(e, f"call to {fs} not accepted")
        if isinstance(e, ast.Tuple):
            ps = [self.expr(x) for x in e.elts]
            return "(" + ", ".join(p for p, _ in ps) + ")", tuple(t for _, t in ps)
        fail(e, "expression not accepted")

    def translate(self, name):
        lets = []
        body = strip_docstring(self.node.body)
        for s in body[:-1]:
            if not (isinstance(s, ast.Assign) and len(s.targets) == 1):
                fail(s, "only assignments may precede the return")
            t = s.targets[0]
            txt, ty = self.expr(s.value)
            if isinstance(t, ast.Name):
                self.env[t.id] = ty
                lets.append(f"let {t.id} := {txt} in")
            elif isinstance(t, ast.Tuple) and isinstance(ty, tuple) and len(t.elts) == len(ty):
                ns = [x.id for x in t.elts]
                lets.append("let '(" + ", ".join(ns) + f") := {txt} in")
                for n, tt in zip(ns, ty):
                    if n != "_":
                        self.env[n] = tt
            else:
                fail(s, "assignment not accepted")
        r = body[-1]
        if not isinstance(r, ast.Return):
            fail(r, "last statement must be a return")
        txt, ty = self.expr(r.value)
        if ty != self.rtype:
            fail(r, f"{name} returns {ty}, expected {self.rtype}")
        ct = {"Z": "Z", "VZ": "list Z", "Q": "Q"}
        rt = ct[ty] if not isinstance(ty, tuple) else "(" + " * ".join(ct[x] for x in ty) + ")%type"
        ps = " ".join(f"({n} : {ct[t]})" for n, t in self.params)
        return "\n".join([f"  Definition gen{name} {ps} : {rt} :="] + ["    " + x for x in lets] + ["    " + txt + "."])


