"""MirjaliliPlateletPerishable dynamics -> coq/gen/GenMirjalili.v (fail-closed): transition (immediate receipt by age class,
refusal above the per-age limit, oldest-first issuing, the five cost components, the weekday counter), _issue_oufo,
_issue_one_step, _calculate_single_step_reward and the component lookups, translated statement by statement."""
import ast

from .invexpr import Fn, lookups
from .pyexpr import TranslateError, fail, find_class, load_module

HEADER = """(* GENERATED from src/mdpax/problems/perishable_inventory/mirjalili_platelet.py -- do not edit *)
From Coq Require Import ZArith QArith List Bool.
From MdpaxV Require Import Model.ListUtil Model.Problems Model.ProblemOps.
Import ListNotations.
Open Scope Z_scope.

Section Gen.
  Variables (max_useful_life : nat) (max_order_quantity : Z).
"""


def translate(repo):
    path = f"{repo}/src/mdpax/problems/perishable_inventory/mirjalili_platelet.py"
    tree, _ = load_module(path)
    cls = find_class(tree, "MirjaliliPlateletPerishable")
    fns = {n.name: n for n in cls.body if isinstance(n, ast.FunctionDef)}
    look = lookups(cls)
    costs = None
    for s in ast.walk(fns["__init__"]):
        if isinstance(s, ast.Assign) and ast.unparse(s.targets[0]) == "self.cost_components":
            v = s.value
            if not (isinstance(v, ast.Call) and ast.unparse(v.func) == "jnp.array" and isinstance(v.args[0], ast.List)):
                fail(s, "cost_components must be jnp.array([...])")
            costs = [ast.unparse(x) for x in v.args[0].elts]
    want = ["self.config.variable_order_cost", "self.config.fixed_order_cost", "self.config.shortage_cost", "self.config.wastage_cost", "self.config.holding_cost"]
    if costs is None or sorted(costs) != sorted(want):
        raise TranslateError(f"cost_components must list the five configured cost coefficients (found {costs})")
    cnames = [c.split(".")[-1] for c in costs]
    out = [HEADER, "  Variables (" + " ".join(cnames) + " : Q).",
           "  Definition cost_components : list Q := [" + "; ".join(cnames) + "].   (* in the source's order *)"]
    sigs = [("_issue_one_step", [("remaining_demand", "Z"), ("stock_element", "Z")], ("Z", "Z")),
            ("_issue_oufo", [("opening_stock", "VZ"), ("demand", "Z")], "VZ"),
            ("_calculate_single_step_reward", [("transition_function_reward_output", "VZ")], "Q"),
            ("transition", [("state", "VZ"), ("action", "VZ"), ("random_event", "VZ")], ("VZ", "Q"))]
    spans = []
    for name, params, rt in sigs:
        node = fns.get(name)
        if node is None:
            raise TranslateError(f"{name} not found")
        have = [a.arg for a in node.args.args][1:]
        if name == "_calculate_single_step_reward":
            if have != ["state", "action", "transition_function_reward_output"]:
                fail(node, "unexpected signature")
        elif have != [p for p, _ in params]:
            fail(node, f"{name}: unexpected signature {have}")
        f = Fn(node, look, params, rt)
        f.issue_funcs = {"self._issue_oufo": "gen_issue_oufo"}
        out.append(f.translate("_transition" if name == "transition" else name))
        spans.append({"method": f"{name} (problems/perishable_inventory/mirjalili_platelet.py:{node.lineno}-{node.end_lineno})"})
    out.append("End Gen.")
    return "\n".join(out) + "\n", {"spans": spans, "cost_order": cnames}
