"""core/solver.py construction: facts about _setup_config / _initialize_values -> coq/gen/GenRoutes.v."""
import ast

from .pyexpr import TranslateError, fail, find_class, find_func, load_module, name_of, strip_docstring

HEADER = """(* GENERATED from src/mdpax/core/solver.py (_setup_config, _initialize_values) -- do not edit *)
"""


def translate(repo):
    path = f"{repo}/src/mdpax/core/solver.py"
    tree, src = load_module(path)
    cls = find_class(tree, "Solver")
    fn = find_func(cls, "_setup_config")
    # names bound at module level (imports)
    bound = set()
    for n in tree.body:
        if isinstance(n, ast.Import):
            bound |= {(a.asname or a.name).split(".")[0] for a in n.names}
        elif isinstance(n, ast.ImportFrom):
            bound |= {a.asname or a.name for a in n.names}
        elif isinstance(n, (ast.ClassDef, ast.FunctionDef)):
            bound.add(n.name)
    uses_instantiate = any(isinstance(n, ast.Call) and name_of(n.func) == "instantiate" for n in ast.walk(fn))
    if not uses_instantiate:
        fail(fn, "the configuration-only route must build the problem with instantiate(self.config.problem)")
    body = strip_docstring(fn.body)
    # the parameter `problem` may be None on the configuration-only route: nothing after the branch may dereference it
    branch_end = None
    for i, st in enumerate(body):
        if isinstance(st, ast.If) and ast.unparse(st.test).replace(" ", "") == "problemisnotNone":
            branch_end = i
    if branch_end is None:
        fail(fn, "`if problem is not None:` branch not found")
    deref_param = False
    for st in body[branch_end + 1:]:
        for n in ast.walk(st):
            if isinstance(n, ast.Attribute) and isinstance(n.value, ast.Name) and n.value.id == "problem":
                deref_param = True
    # order: x64 switch vs creation of the gamma array
    idx_gamma = next((i for i, st in enumerate(body) if isinstance(st, ast.Assign) and name_of(st.targets[0]) == "self.gamma"), None)
    idx_x64 = next((i for i, st in enumerate(body) if "jax_enable_x64" in ast.unparse(st)), None)
    if idx_gamma is None or idx_x64 is None:
        fail(fn, "self.gamma assignment or jax_enable_x64 switch not found")
    # the switch may read self.config directly or self.jax_double_precision assigned before it
    x64_stmt = body[idx_x64]
    if not (isinstance(x64_stmt, ast.If) and ast.unparse(x64_stmt.test).replace(" ", "") in ("self.jax_double_precision", "self.config.jax_double_precision")):
        fail(x64_stmt, "x64 must be switched on under `if <jax_double_precision>:`")
    fi = find_func(cls, "_initialize_values")
    txt = ast.unparse(fi).replace(" ", "")
    cast = ".astype(" in txt and "jax_double_precision" in txt and "float64" in txt and "float32" in txt
    out = [HEADER,
           f"Definition solver_instantiate_bound : bool := {'true' if 'instantiate' in bound else 'false'}.",
           f"Definition setup_dereferences_problem_argument_after_branch : bool := {'true' if deref_param else 'false'}.",
           f"Definition x64_enabled_before_gamma_array : bool := {'true' if idx_x64 < idx_gamma else 'false'}.",
           f"Definition initial_values_cast_to_requested_precision : bool := {'true' if cast else 'false'}."]
    return "\n".join(out) + "\n", {"source": path, "spans": [{"function": "Solver._setup_config", "lines": [fn.lineno, fn.end_lineno]},
                                                          {"function": "Solver._initialize_values", "lines": [fi.lineno, fi.end_lineno]}]}
