"""ValueIteration's numeric kernels -> coq/gen/GenKernel.v (fail-closed): the Bellman backup of one (state, action),
the maximum / argmax over actions, the per-batch vmaps with their positional carry, the scans over batches, and the two
convergence measures are TRANSLATED statement by statement into Gallina over the array operations of Model/KernelOps.v.
jax.vmap(f, in_axes)(args) with one mapped axis becomes `map`; tuple-valued vmaps are split with map fst / map snd;
jax.lax.scan(f, carry, xs)[1] becomes gscan.  Types are inferred and every call is checked POSITIONALLY against the callee's
signature, so a reordered carry or a swapped argument is a translation (or Coq type) error.  Anything else fails."""
import ast

from .pyexpr import TranslateError, fail, find_class, load_module, strip_docstring

# types: "Q" scalar, "N" index, "LQ" / "LN" arrays, tuples of types, ("list", t)
CARRY = ("LN", "LN", "Q", "LQ")
CARRY5 = ("LN", "LN", "Q", "LQ", "LN")
SIGS = {
    "_get_value_next_state": (["N", "LQ"], "Q"),
    "_calculate_updated_state_action_value": (["N", "N", "LN", "Q", "LQ"], "Q"),
    "_calculate_updated_value": (["N", "LN", "LN", "Q", "LQ"], "Q"),
    "_extract_policy_idx_one_state": (["N", "LN", "LN", "Q", "LQ"], "N"),
    "_calculate_updated_value_state_batch": ([CARRY, "LN"], (CARRY, "LQ")),
    "_extract_policy_idx_state_batch": ([CARRY, "LN"], (CARRY, "LN")),
    "_calculate_updated_value_scan_state_batches": ([CARRY, ("list", "LN")], ("list", "LQ")),
    "_extract_policy_idx_scan_state_batches": ([CARRY, ("list", "LN")], ("list", "LN")),
    "_get_span": (["LQ", "LQ"], "Q"),
    "_get_max_diff": (["LQ", "LQ"], "Q"),
    # PolicyIteration (policy evaluation sweep): carry = (actions, random_events, gamma, values, policy)
    "_calculate_policy_value_state_batch": ([CARRY5, "LN"], (CARRY5, "LQ")),
    "_calculate_policy_values_scan_state_batches": ([CARRY5, ("list", "LN")], ("list", "LQ")),
}
CLASS_OF = {"_calculate_policy_value_state_batch": "pi", "_calculate_policy_values_scan_state_batches": "pi"}
PRIMS = {
    "transition": (["N", "N", "N"], ("N", "Q")),
    "random_event_probability": (["N", "N", "N"], "Q"),
    "state_to_index": (["N"], "N"),
}
ORDER = list(SIGS)


def coq_type(t):
    if t == "Q":
        return "Q"
    if t == "N":
        return "nat"
    if t == "LQ":
        return "list Q"
    if t == "LN":
        return "list nat"
    if isinstance(t, tuple) and t and t[0] == "list":
        return f"list ({coq_type(t[1])})"
    if isinstance(t, tuple):
        return "(" + " * ".join(coq_type(x) for x in t) + ")%type"
    raise TranslateError(f"no Coq type for {t}")


def elem(t):
    if t == "LQ":
        return "Q"
    if t == "LN":
        return "N"
    if isinstance(t, tuple) and t and t[0] == "list":
        return t[1]
    raise TranslateError(f"{t} is not an array type")


def arr(t):
    if t == "Q":
        return "LQ"
    if t == "N":
        return "LN"
    return ("list", t)


class Fn:
    def __init__(self, node, name):
        self.node, self.name = node, name
        self.ptypes, self.rtype = SIGS[name]
        self.env = {}
        self.fresh = 0

    def callee(self, f):
        """(coq head, param types, return type) of self._m / self.problem.m"""
        if isinstance(f, ast.Attribute) and isinstance(f.value, ast.Name) and f.value.id == "self" and f.attr in SIGS:
            pt, rt = SIGS[f.attr]
            return f"gen{f.attr}", pt, rt
        if (isinstance(f, ast.Attribute) and isinstance(f.value, ast.Attribute) and isinstance(f.value.value, ast.Name)
                and f.value.value.id == "self" and f.value.attr == "problem" and f.attr in PRIMS):
            pt, rt = PRIMS[f.attr]
            return f"p_{f.attr} P", pt, rt
        fail(f, "callee is neither a translated method nor a problem primitive")

    def expr(self, e):
        """-> (coq text, type)"""
        if isinstance(e, ast.Name):
            if e.id not in self.env:
                fail(e, f"unknown name {e.id}")
            return e.id, self.env[e.id]
        if isinstance(e, ast.Subscript) and isinstance(e.value, ast.Name):
            a, ta = self.expr(e.value)
            i, ti = self.expr(e.slice)
            if (ta, ti) == ("LQ", "N"):
                return f"qnth {a} ({i})", "Q"
            if (ta, ti) == ("LN", "LN"):
                return f"map (fun i0 => nth i0 {a} 0%nat) ({i})", "LN"     # gather: array[index array]
            fail(e, "only <value array>[<index>] and <index array>[<index array>] are accepted")
        if isinstance(e, ast.BinOp) and isinstance(e.op, (ast.Add, ast.Sub, ast.Mult)):
            l, tl = self.expr(e.left)
            r, tr = self.expr(e.right)
            op = type(e.op)
            if (tl, tr) == ("Q", "Q"):
                return f"({l} {'+' if op is ast.Add else '-' if op is ast.Sub else '*'} {r})", "Q"
            if (tl, tr) == ("LQ", "LQ") and op is ast.Add:
                return f"qvadd ({l}) ({r})", "LQ"
            if (tl, tr) == ("LQ", "LQ") and op is ast.Sub:
                return f"qvsub ({l}) ({r})", "LQ"
            if (tl, tr) == ("Q", "LQ") and op is ast.Mult:
                return f"qsmul ({l}) ({r})", "LQ"
            fail(e, f"arithmetic on {tl} and {tr} is not accepted")
        if isinstance(e, ast.Call):
            f = e.func
            # x.dot(y)
            if isinstance(f, ast.Attribute) and f.attr == "dot" and len(e.args) == 1 and not e.keywords:
                a, ta = self.expr(f.value)
                b, tb = self.expr(e.args[0])
                if (ta, tb) != ("LQ", "LQ"):
                    fail(e, "dot of non-arrays")
                return f"qvdot ({a}) ({b})", "Q"
            # jnp.max / min / argmax / abs
            if isinstance(f, ast.Attribute) and isinstance(f.value, ast.Name) and f.value.id == "jnp" and len(e.args) == 1 and not e.keywords:
                a, ta = self.expr(e.args[0])
                if ta != "LQ":
                    fail(e, f"jnp.{f.attr} of a non-array")
                if f.attr == "max":
                    return f"lmax ({a})", "Q"
                if f.attr == "min":
                    return f"lmin ({a})", "Q"
                if f.attr == "argmax":
                    return f"largmax ({a})", "N"
                if f.attr == "abs":
                    return f"qvabs ({a})", "LQ"
                fail(e, f"jnp.{f.attr} is not accepted")
            # jax.vmap(F, in_axes=(...))(args)
            if isinstance(f, ast.Call) and ast.unparse(f.func) == "jax.vmap":
                if len(f.args) != 1:
                    fail(f, "vmap must be jax.vmap(F[, in_axes=(...)])")
                head, pt, rt = self.callee(f.args[0])
                if not f.keywords:
                    axes = [0] * len(pt)                       # jax's default: every argument mapped along axis 0
                elif len(f.keywords) == 1 and f.keywords[0].arg == "in_axes" and isinstance(f.keywords[0].value, ast.Tuple):
                    axes = [ast.literal_eval(x) for x in f.keywords[0].value.elts]
                else:
                    fail(f, "vmap must be jax.vmap(F[, in_axes=(...)])")
                if len(axes) != len(pt) or len(e.args) != len(pt) or e.keywords:
                    fail(e, "vmap arity differs from the callee's")
                ks = [j for j, a in enumerate(axes) if a is not None]
                if any(axes[j] != 0 for j in ks) or len(ks) not in (1, 2):
                    fail(e, "one or two arguments mapped along axis 0 are accepted")
                parts, mapped = [], []
                for j, a in enumerate(e.args):
                    txt, ty = self.expr(a)
                    if j in ks:
                        if elem(ty) != pt[j]:
                            fail(a, f"mapped argument {j} has type {ty}, callee expects elements of {pt[j]}")
                        parts.append(f"v{len(mapped)}")
                        mapped.append(txt)
                    else:
                        if ty != pt[j]:
                            fail(a, f"argument {j} has type {ty}, callee expects {pt[j]}")
                        parts.append(f"({txt})")
                if len(mapped) == 1:
                    return f"map (fun v0 => {head} {' '.join(parts)}) ({mapped[0]})", arr(rt)
                return f"map2 (fun v0 v1 => {head} {' '.join(parts)}) ({mapped[0]}) ({mapped[1]})", arr(rt)
            # jax.lax.scan(self._f, carry, xs)
            if ast.unparse(f) == "jax.lax.scan" and len(e.args) == 3 and not e.keywords:
                head, pt, rt = self.callee(e.args[0])
                c, tc = self.expr(e.args[1])
                xs, tx = self.expr(e.args[2])
                if len(pt) != 2 or tc != pt[0] or elem(tx) != pt[1] or not (isinstance(rt, tuple) and len(rt) == 2 and rt[0] == tc):
                    fail(e, "scan: the step function must map (carry, x) to (carry, y) with these argument types")
                return f"gscan ({head}) ({c}) ({xs})", (tc, ("list", rt[1]))
            # plain call
            head, pt, rt = self.callee(f)
            if len(e.args) != len(pt) or e.keywords:
                fail(e, "arity differs from the callee's")
            parts = []
            for j, a in enumerate(e.args):
                txt, ty = self.expr(a)
                if ty != pt[j]:
                    fail(a, f"argument {j} has type {ty}, callee expects {pt[j]}")
                parts.append(f"({txt})")
            return f"{head} {' '.join(parts)}", rt
        if isinstance(e, ast.Tuple):
            ps = [self.expr(x) for x in e.elts]
            return "(" + ", ".join(p for p, _ in ps) + ")", tuple(t for _, t in ps)
        fail(e, "expression not accepted in a kernel")

    def translate(self):
        a = self.node.args
        names = [x.arg for x in a.args]
        if names[0] != "self" or len(names) - 1 != len(self.ptypes) or a.vararg or a.kwarg or a.kwonlyargs or a.defaults:
            fail(self.node, f"{self.name}: unexpected signature")
        params = names[1:]
        for n, t in zip(params, self.ptypes):
            self.env[n] = t
        lets = []
        body = strip_docstring(self.node.body)
        for s in body[:-1]:
            if not (isinstance(s, ast.Assign) and len(s.targets) == 1):
                fail(s, "only assignments may precede the return")
            tgt = s.targets[0]
            txt, ty = self.expr(s.value)
            if isinstance(tgt, ast.Name):
                self.env[tgt.id] = ty
                lets.append(f"let {tgt.id} := {txt} in")
            elif isinstance(tgt, ast.Tuple) and all(isinstance(x, ast.Name) for x in tgt.elts):
                ns = [x.id for x in tgt.elts]
                if isinstance(ty, tuple) and ty and ty[0] == "list" and isinstance(ty[1], tuple) and len(ty[1]) == 2 and len(ns) == 2:
                    # a vmapped pair-valued function returns a pair of arrays
                    self.fresh += 1
                    tmp = f"t{self.fresh}"
                    lets.append(f"let {tmp} := {txt} in")
                    lets.append(f"let {ns[0]} := map fst {tmp} in")
                    lets.append(f"let {ns[1]} := map snd {tmp} in")
                    self.env[ns[0]], self.env[ns[1]] = arr(ty[1][0]), arr(ty[1][1])
                elif isinstance(ty, tuple) and (not ty or ty[0] != "list") and len(ty) == len(ns):
                    pat = ", ".join("_" if n == "_" else n for n in ns)
                    lets.append(f"let '({pat}) := {txt} in")
                    for n, t in zip(ns, ty):
                        if n != "_":
                            self.env[n] = t
                else:
                    fail(s, f"cannot unpack a value of type {ty} into {len(ns)} names")
            else:
                fail(s, "assignment target not accepted")
        r = body[-1]
        if not isinstance(r, ast.Return) or r.value is None:
            fail(r, "the last statement must return a value")
        txt, ty = self.expr(r.value)
        if ty != self.rtype:
            fail(r, f"{self.name} returns {ty}, expected {self.rtype}")
        ps = " ".join(f"({n} : {coq_type(t)})" for n, t in zip(params, self.ptypes))
        lines = [f"  Definition gen{self.name} {ps} : {coq_type(self.rtype)} :="] + ["    " + x for x in lets] + ["    " + txt + "."]
        return "\n".join(lines)


HEADER = """(* GENERATED from src/mdpax/solvers/value_iteration.py (numeric kernels and convergence measures) -- do not edit *)
From Coq Require Import QArith Qabs List Arith.
From MdpaxV Require Import Model.ListUtil Model.QFun Model.Kernel Model.KernelOps.
Import ListNotations.
Open Scope Q_scope.

Section Gen.
  Variable P : prims.
"""


def translate(repo):
    srcs = {"vi": ("solvers/value_iteration.py", "ValueIteration"), "pi": ("solvers/policy_iteration.py", "PolicyIteration")}
    fns = {}
    for key, (fname, cname) in srcs.items():
        tree, _ = load_module(f"{repo}/src/mdpax/{fname}")
        cls = find_class(tree, cname)
        fns[key] = {n.name: n for n in cls.body if isinstance(n, ast.FunctionDef)}
    # PolicyIteration must not override the kernels it inherits (the generated PI sweep calls the ValueIteration ones)
    for name in ORDER:
        if CLASS_OF.get(name, "vi") == "vi" and name in fns["pi"]:
            raise TranslateError(f"PolicyIteration overrides {name}")
    out, spans = [HEADER], []
    for name in ORDER:
        key = CLASS_OF.get(name, "vi")
        if name not in fns[key]:
            raise TranslateError(f"{name} not found in {srcs[key][1]}")
        node = fns[key][name]
        out.append(Fn(node, name).translate())
        spans.append({"method": f"{name} ({srcs[key][0]}:{node.lineno}-{node.end_lineno})"})
    out.append("End Gen.")
    return "\n".join(out) + "\n", {"spans": spans}
