"""Convergence thresholds (value_iteration / relative / periodic _setup_convergence_testing) and the
number format derived from them (utils/logging.get_convergence_format) -> coq/gen/GenThreshold.v."""
import ast

from .pyexpr import TranslateError, ZExpr, fail, find_class, find_func, is_logger_call, load_module, name_of, strip_docstring

HEADER = """(* GENERATED from _setup_convergence_testing (value / relative / periodic value iteration)
   and utils/logging.get_convergence_format -- do not edit *)
From Coq Require Import QArith ZArith Bool.
Open Scope Q_scope.
Inductive measure_kind := MKSpan | MKMaxDiff | MKPeriodSpan.
"""

MEASURE = {"self._get_span": "MKSpan", "self._get_max_diff": "MKMaxDiff", "self._get_periodic_span": "MKPeriodSpan"}


def qexpr(node, env):
    """rational expression with `a if cond else b`, comparisons gamma != 1 / gamma == 1"""
    if isinstance(node, ast.IfExp):
        t = node.test
        if not (isinstance(t, ast.Compare) and len(t.ops) == 1 and isinstance(t.ops[0], (ast.NotEq, ast.Eq))):
            fail(node, "unsupported test in threshold expression")
        a, b = qexpr(t.left, env), qexpr(t.comparators[0], env)
        c = f"Qeq_bool {a} {b}"
        if isinstance(t.ops[0], ast.NotEq):
            c = f"negb ({c})"
        return f"(if {c} then {qexpr(node.body, env)} else {qexpr(node.orelse, env)})"
    if isinstance(node, ast.Constant) and type(node.value) in (int, float) and float(node.value) == int(node.value):
        return f"({int(node.value)}#1)" if int(node.value) >= 0 else f"(({int(node.value)})#1)"
    nm = name_of(node)
    if nm in env:
        return env[nm]
    if isinstance(node, ast.BinOp) and type(node.op) in (ast.Add, ast.Sub, ast.Mult, ast.Div):
        op = {ast.Add: "+", ast.Sub: "-", ast.Mult: "*", ast.Div: "/"}[type(node.op)]
        return f"({qexpr(node.left, env)} {op} {qexpr(node.right, env)})"
    fail(node, "unsupported threshold expression")


def translate(repo):
    out = [HEADER]
    spans = []
    # ---- value iteration: dict of (test fn, description, lambda eps, gamma: ...)
    path = f"{repo}/src/mdpax/solvers/value_iteration.py"
    tree, _ = load_module(path)
    fn = find_func(find_class(tree, "ValueIteration"), "_setup_convergence_testing")
    body = strip_docstring(fn.body)
    d = next((s for s in body if isinstance(s, ast.Assign) and name_of(s.targets[0]) == "convergence_tests" and isinstance(s.value, ast.Dict)), None)
    if d is None:
        fail(fn, "convergence_tests dict not found")
    keys = [k.value for k in d.value.keys]
    if sorted(keys) != ["max_diff", "span"]:
        fail(d, "convergence_tests must have exactly the keys 'span' and 'max_diff'")
    for k, v in zip(keys, d.value.values):
        if not (isinstance(v, ast.Tuple) and len(v.elts) == 3 and isinstance(v.elts[2], ast.Lambda)):
            fail(v, "each convergence test must be (fn, description, lambda eps, gamma: ...)")
        fnname = name_of(v.elts[0])
        if fnname not in MEASURE:
            fail(v, "unknown measure function")
        lam = v.elts[2]
        args = [a.arg for a in lam.args.args]
        if len(args) != 2:
            fail(lam, "threshold lambda must take (eps, gamma)")
        env = {args[0]: "eps", args[1]: "gamma"}
        out.append(f"Definition thr_vi_{k} (eps gamma : Q) : Q := {qexpr(lam.body, env)}.")
        out.append(f"Definition test_vi_{k} : measure_kind := {MEASURE[fnname]}.")
    # selection and application: convergence_tests[self.config.convergence_test]; threshold_fn(self.epsilon, self.gamma)
    txt = ast.unparse(fn).replace(" ", "")
    if "convergence_tests[self.config.convergence_test]" not in txt or "self.conv_threshold=threshold_fn(self.epsilon,self.gamma)" not in txt:
        fail(fn, "threshold must be selected by config.convergence_test and applied to (self.epsilon, self.gamma)")
    spans.append({"function": "ValueIteration._setup_convergence_testing", "file": path, "lines": [fn.lineno, fn.end_lineno]})
    # ---- relative / periodic: self.conv_threshold = self.epsilon ; self._convergence_test_fn = ...
    for key, fname, cls in (("rvi", "relative_value_iteration.py", "RelativeValueIteration"), ("pvi", "periodic_value_iteration.py", "PeriodicValueIteration")):
        path = f"{repo}/src/mdpax/solvers/{fname}"
        tree, _ = load_module(path)
        fn = find_func(find_class(tree, cls), "_setup_convergence_testing")
        thr = tfn = None
        for st in strip_docstring(fn.body):
            if isinstance(st, ast.Assign) and name_of(st.targets[0]) == "self.conv_threshold":
                thr = qexpr(st.value, {"self.epsilon": "eps", "self.gamma": "gamma"})
            elif isinstance(st, ast.Assign) and name_of(st.targets[0]) == "self._convergence_test_fn":
                tfn = MEASURE.get(name_of(st.value))
            elif isinstance(st, ast.Assign) and name_of(st.targets[0]) in ("self._convergence_desc", "self.convergence_format"):
                continue
            else:
                fail(st, "unsupported statement in _setup_convergence_testing")
        if thr is None or tfn is None:
            fail(fn, "threshold or test function not set")
        out.append(f"Definition thr_{key} (eps gamma : Q) : Q := {thr}.")
        out.append(f"Definition test_{key} : measure_kind := {tfn}.")
        spans.append({"function": f"{cls}._setup_convergence_testing", "file": path, "lines": [fn.lineno, fn.end_lineno]})
    # ---- number format: decimal places as a function of k = floor(log10(threshold))
    path = f"{repo}/src/mdpax/utils/logging.py"
    tree, _ = load_module(path)
    fn = find_func(tree, "get_convergence_format")
    body = strip_docstring(fn.body)
    nonfinite = None
    assigns = []
    ret = None
    for st in body:
        if isinstance(st, ast.If) and len(st.body) == 1 and isinstance(st.body[0], ast.Raise):
            continue  # argument validation (types, positivity) -- modelled in C20's validator table
        if isinstance(st, ast.If) and ast.unparse(st.test).replace(" ", "") == "notnp.isfinite(epsilon)" and len(st.body) == 1 \
                and isinstance(st.body[0], ast.Return) and isinstance(st.body[0].value, ast.Constant):
            s = st.body[0].value.value
            if not (isinstance(s, str) and s.startswith(".") and s.endswith("f") and s[1:-1].isdigit()):
                fail(st, "non-finite branch must return a literal '.<digits>f'")
            nonfinite = int(s[1:-1])
            continue
        if isinstance(st, ast.Assign) and name_of(st.targets[0]) == "decimal_places":
            assigns.append(st.value)
            continue
        if isinstance(st, ast.Return):
            ret = st.value
            continue
        fail(st, "unsupported statement in get_convergence_format")
    if not assigns or ret is None:
        fail(fn, "decimal_places / return not found")
    if ast.unparse(ret).replace(" ", "") not in ("f'.{decimal_places}f'", 'f".{decimal_places}f"'):
        fail(ret, "must return f'.{decimal_places}f'")

    class KExpr(ZExpr):
        def num(self, node):
            if isinstance(node, ast.Call) and name_of(node.func) == "int" and len(node.args) == 1:
                return self.num(node.args[0])
            if isinstance(node, ast.Call) and ast.unparse(node).replace(" ", "") == "np.floor(np.log10(epsilon))":
                return "k"
            return super().num(node)

    env = {"max_decimals": "max_decimals"}
    cur = None
    for v in assigns:
        e = dict(env)
        if cur is not None:
            e["decimal_places"] = cur
        cur = KExpr(e).num(v)
    out.append("Open Scope Z_scope.")
    out.append(f"Definition fmt_decimals (k max_decimals : Z) : Z := {cur}.")
    out.append(f"Definition fmt_nonfinite_handled : bool := {'true' if nonfinite is not None else 'false'}.")
    out.append(f"Definition fmt_nonfinite_decimals : Z := {nonfinite if nonfinite is not None else 0}.")
    spans.append({"function": "get_convergence_format", "file": path, "lines": [fn.lineno, fn.end_lineno]})
    return "\n".join(out) + "\n", {"spans": spans}
