"""src/mdpax/utils/spaces.py -> coq/gen/GenSpaces.v (fail-closed)."""
import ast

from .pyexpr import TranslateError, ZExpr, fail, find_func, load_module, name_of, strip_docstring

HEADER = """(* GENERATED from src/mdpax/utils/spaces.py -- do not edit *)
From Coq Require Import ZArith List Bool.
From MdpaxV Require Import Model.ListUtil.
Import ListNotations.
Open Scope Z_scope.
"""

ARRAYS = ("mins", "maxs", "vector", "dimensions")


def vexpr(node, scalars=()):
    """pointwise integer-array expression over the names in ARRAYS -> (text, is_array)"""
    nm = name_of(node)
    if nm in ARRAYS:
        return nm, True
    if isinstance(node, ast.Constant) and type(node.value) is int:
        return (f"({node.value})" if node.value < 0 else str(node.value)), False
    if isinstance(node, ast.BinOp) and isinstance(node.op, (ast.Add, ast.Sub)):
        a, aa = vexpr(node.left)
        b, ba = vexpr(node.right)
        op = "add" if isinstance(node.op, ast.Add) else "sub"
        if aa and ba:
            return f"(v{op} {a} {b})", True
        if aa and not ba:
            return f"(v{op}c {a} {b})", True
        if not aa and not ba:
            return f"({a} {'+' if op == 'add' else '-'} {b})", False
        fail(node, "scalar-op-array is not in the accepted subset")
    fail(node, "unsupported array expression")


def translate(repo):
    path = f"{repo}/src/mdpax/utils/spaces.py"
    tree, _ = load_module(path)
    fn = find_func(tree, "create_range_space")
    if [a.arg for a in fn.args.args] != ["mins", "maxs"]:
        fail(fn, "unexpected signature")
    body = strip_docstring(fn.body)
    out = [HEADER]
    seen = set()
    index_fn = None
    for st in body:
        if isinstance(st, ast.Assign) and len(st.targets) == 1 and isinstance(st.targets[0], ast.Name):
            tgt = st.targets[0].id
            v = st.value
            if tgt in ("mins", "maxs"):
                # mins = np.asarray(mins, dtype=np.int32)
                if not (isinstance(v, ast.Call) and ast.unparse(v.func) in ("np.asarray", "np.array", "jnp.asarray", "jnp.array")
                        and v.args and name_of(v.args[0]) == tgt):
                    fail(st, "mins/maxs may only be re-bound to an integer array of themselves")
                continue
            if tgt == "dimensions":
                txt, isarr = vexpr(v)
                if not isarr:
                    fail(st, "dimensions must be an array expression")
                out.append(f"Definition rs_dimensions (mins maxs : list Z) : list Z := {txt}.")
                seen.add("dimensions")
                continue
            if tgt == "ranges":
                # [np.arange(lo, hi) for min_val, max_val in zip(mins, maxs)]
                ok = (isinstance(v, ast.ListComp) and len(v.generators) == 1 and not v.generators[0].ifs
                      and ast.unparse(v.generators[0].iter) == "zip(mins, maxs)"
                      and isinstance(v.generators[0].target, ast.Tuple) and [name_of(e) for e in v.generators[0].target.elts] == ["min_val", "max_val"]
                      and isinstance(v.elt, ast.Call) and ast.unparse(v.elt.func) in ("np.arange", "jnp.arange") and len(v.elt.args) == 2)
                if not ok:
                    fail(st, "ranges must be [np.arange(lo, hi) for min_val, max_val in zip(mins, maxs)]")
                env = {"min_val": "min_val", "max_val": "max_val"}
                out.append(f"Definition rs_range_lo (min_val max_val : Z) : Z := {ZExpr(env).num(v.elt.args[0])}.")
                out.append(f"Definition rs_range_hi (min_val max_val : Z) : Z := {ZExpr(env).num(v.elt.args[1])}.")
                seen.add("ranges")
                continue
            if tgt == "space":
                if ast.unparse(v).replace(" ", "") != "jnp.array(list(itertools.product(*ranges)),dtype=jnp.int32)":
                    fail(st, "space must be jnp.array(list(itertools.product(*ranges)), dtype=jnp.int32)")
                seen.add("space")
                continue
            fail(st, "unexpected assignment")
        elif isinstance(st, ast.FunctionDef) and st.name == "index_fn":
            index_fn = st
        elif isinstance(st, ast.Return):
            if ast.unparse(st.value).replace(" ", "") != "(space,index_fn)":
                fail(st, "must return (space, index_fn)")
        else:
            fail(st, "unsupported statement")
    for need in ("dimensions", "ranges", "space"):
        if need not in seen:
            raise TranslateError(f"{need} not found")
    if index_fn is None:
        raise TranslateError("index_fn not found")
    ib = strip_docstring(index_fn.body)
    if [a.arg for a in index_fn.args.args] != ["vector"] or len(ib) != 1 or not isinstance(ib[0], ast.Return):
        fail(index_fn, "index_fn must be a single return")
    call = ib[0].value
    if not (isinstance(call, ast.Call) and ast.unparse(call.func) == "jnp.ravel_multi_index" and len(call.args) == 2):
        fail(call, "index_fn must return jnp.ravel_multi_index(tuple(<expr>), <dims>, mode=...)")
    kw = {k.arg: k.value for k in call.keywords}
    if set(kw) != {"mode"} or not (isinstance(kw["mode"], ast.Constant) and kw["mode"].value in ("clip",)):
        fail(call, "mode must be 'clip'")
    arg = call.args[0]
    if not (isinstance(arg, ast.Call) and name_of(arg.func) == "tuple" and len(arg.args) == 1):
        fail(arg, "first argument must be tuple(<expr>)")
    atxt, isarr = vexpr(arg.args[0])
    if not isarr:
        fail(arg, "index argument must be an array expression")
    dtxt, isarr = vexpr(call.args[1])
    if not isarr:
        fail(call, "dims argument must be an array expression")
    dtxt = dtxt.replace("dimensions", "(rs_dimensions mins maxs)")
    if "dimensions" in atxt:
        fail(arg, "index argument may not mention dimensions")
    out.append(f"Definition rs_index_arg (vector mins maxs : list Z) : list Z := {atxt}.")
    out.append(f"Definition rs_index_dims (mins maxs : list Z) : list Z := {dtxt}.")
    out.append("Definition rs_index_clip : bool := true.")
    meta = {"source": path, "spans": [{"function": "create_range_space", "lines": [fn.lineno, fn.end_lineno]}]}
    return "\n".join(out) + "\n", meta
