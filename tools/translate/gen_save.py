"""CheckpointMixin.save -> coq/gen/GenSave.v (fail-closed): the crash model (Model/Crash.v) assumes that one call of
the public save(step) is exactly ONE CheckpointManager.save(step, StandardSave(self.solver_state)) and touches the
checkpoint directory in no other way.  Any other statement in the method makes the translation fail."""
import ast

from .pyexpr import TranslateError, fail, find_class, load_module, name_of, strip_docstring

HEADER = """(* GENERATED from CheckpointMixin.save (src/mdpax/utils/checkpointing.py) -- do not edit *)
From Coq Require Import List.
Import ListNotations.
Inductive save_effect := EManagerSave.   (* checkpoint_manager.save(step, args=StandardSave(self.solver_state)) *)
"""


def translate(repo):
    path = f"{repo}/src/mdpax/utils/checkpointing.py"
    tree, _ = load_module(path)
    cls = find_class(tree, "CheckpointMixin")
    fn = next((n for n in cls.body if isinstance(n, ast.FunctionDef) and n.name == "save"), None)
    if fn is None:
        raise TranslateError("CheckpointMixin.save not found")
    if [a.arg for a in fn.args.args] != ["self", "step"]:
        fail(fn, "save must take exactly (self, step)")
    body = strip_docstring(fn.body)
    if not body:
        fail(fn, "empty save")
    g = body[0]
    if not (isinstance(g, ast.If) and ast.unparse(g.test) == "not self.is_checkpointing_enabled" and len(g.body) == 1
            and isinstance(g.body[0], ast.Return) and g.body[0].value is None and not g.orelse):
        fail(g, "save must start with `if not self.is_checkpointing_enabled: return`")
    effects = []
    state_names = {"self.solver_state"}
    for s in body[1:]:
        if isinstance(s, ast.Assign) and len(s.targets) == 1 and isinstance(s.targets[0], ast.Name):
            src = ast.unparse(s.value)
            if src == "self.solver_state":
                state_names.add(s.targets[0].id)
                continue
            if isinstance(s.value, ast.IfExp) and all(isinstance(x, ast.Constant) and isinstance(x.value, str) for x in (s.value.body, s.value.orelse)):
                continue  # status string for the log line
            fail(s, "only `<name> = self.solver_state` and a status string may be assigned in save")
        if isinstance(s, ast.Expr) and isinstance(s.value, ast.Call):
            f = name_of(s.value.func) or ast.unparse(s.value.func)
            if f.startswith("logger."):
                continue
            if f == "self.checkpoint_manager.save":
                c = s.value
                if len(c.args) != 1 or ast.unparse(c.args[0]) != "step":
                    fail(c, "the manager must be given the step argument of save")
                if len(c.keywords) != 1 or c.keywords[0].arg != "args":
                    fail(c, "unexpected arguments of checkpoint_manager.save")
                a = c.keywords[0].value
                if not (isinstance(a, ast.Call) and ast.unparse(a.func) == "checkpoint.args.StandardSave" and len(a.args) == 1 and not a.keywords
                        and ast.unparse(a.args[0]) in state_names):
                    fail(a, "the saved tree must be StandardSave(self.solver_state)")
                effects.append("EManagerSave")
                continue
            fail(s, f"save may not call {f}")
        fail(s, "statement not accepted in save (the crash model knows only one CheckpointManager.save per call)")
    out = [HEADER,
           "Definition save_guarded_by_enabled : bool := true.",
           f"Definition save_effects : list save_effect := [{'; '.join(effects)}]."]
    return "\n".join(out) + "\n", {"spans": [{"method": f"CheckpointMixin.save (utils/checkpointing.py:{fn.lineno}-{fn.end_lineno})"}]}
