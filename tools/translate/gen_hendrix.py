"""HendrixTwoProductPerishable dynamics -> coq/gen/GenHendrix.v (fail-closed): transition (units issued of each product are
the random event; FIFO issuing; ageing; orders received into the youngest class), _issue_fifo, _issue_one_step,
_calculate_single_step_reward (sales revenue minus ordering cost) and the component lookups."""
import ast

from .invexpr import Fn, lookups
from .pyexpr import TranslateError, fail, find_class, load_module

HEADER = """(* GENERATED from src/mdpax/problems/perishable_inventory/hendrix_two_product.py -- do not edit *)
From Coq Require Import ZArith QArith List Bool.
From MdpaxV Require Import Model.ListUtil Model.Problems Model.ProblemOps.
Import ListNotations.
Open Scope Z_scope.

Section Gen.
  Variable max_useful_life : nat.
"""


def coef(init, attr, want):
    for s in ast.walk(init):
        if isinstance(s, ast.Assign) and ast.unparse(s.targets[0]) == f"self.{attr}":
            v = s.value
            if isinstance(v, ast.Call) and ast.unparse(v.func) == "jnp.array" and isinstance(v.args[0], ast.List):
                got = [ast.unparse(x) for x in v.args[0].elts]
                if got != want:
                    raise TranslateError(f"self.{attr} must be jnp.array({want}) in this order (found {got})")
                return [g.split(".")[-1] for g in got]
    raise TranslateError(f"self.{attr} not assigned in __init__")


def translate(repo):
    path = f"{repo}/src/mdpax/problems/perishable_inventory/hendrix_two_product.py"
    tree, _ = load_module(path)
    cls = find_class(tree, "HendrixTwoProductPerishable")
    fns = {n.name: n for n in cls.body if isinstance(n, ast.FunctionDef)}
    look = lookups(cls)
    costs = coef(fns["__init__"], "variable_order_costs", ["self.variable_order_cost_a", "self.variable_order_cost_b"])
    prices = coef(fns["__init__"], "sales_prices", ["self.sales_price_a", "self.sales_price_b"])
    out = [HEADER, "  Variables (" + " ".join(costs + prices) + " : Q).",
           "  Definition variable_order_costs : list Q := [" + "; ".join(costs) + "].",
           "  Definition sales_prices : list Q := [" + "; ".join(prices) + "]."]
    sigs = [("_issue_one_step", [("remaining_demand", "Z"), ("stock_element", "Z")], ("Z", "Z")),
            ("_issue_fifo", [("opening_stock", "VZ"), ("demand", "Z")], "VZ"),
            ("_calculate_single_step_reward", [("state", "VZ"), ("action", "VZ"), ("random_event", "VZ")], "Q"),
            ("transition", [("state", "VZ"), ("action", "VZ"), ("random_event", "VZ")], ("VZ", "Q"))]
    spans = []
    for name, params, rt in sigs:
        node = fns.get(name)
        if node is None:
            raise TranslateError(f"{name} not found")
        if [a.arg for a in node.args.args][1:] != [p for p, _ in params]:
            fail(node, f"{name}: unexpected signature")
        f = Fn(node, look, params, rt)
        f.issue_funcs = {"self._issue_fifo": "gen_issue_fifo"}
        f.reward_all_args = True
        f.coef_vectors = {"self.variable_order_costs": "variable_order_costs", "self.sales_prices": "sales_prices"}
        out.append(f.translate("_transition" if name == "transition" else name))
        spans.append({"method": f"{name} (problems/perishable_inventory/hendrix_two_product.py:{node.lineno}-{node.end_lineno})"})
    out.append("End Gen.")
    return "\n".join(out) + "\n", {"spans": spans}
