"""periodic_value_iteration.py index / exponent / guard expressions -> coq/gen/GenPeriodic.v (fail-closed)."""
import ast

from .pyexpr import TranslateError, ZExpr, fail, find_class, find_func, is_logger_call, load_module, name_of, strip_docstring

HEADER = """(* GENERATED from src/mdpax/solvers/periodic_value_iteration.py -- do not edit *)
From Coq Require Import ZArith Bool.
Open Scope Z_scope.
"""


def find_assign(fn, target):
    hits = []
    for st in ast.walk(fn):
        if isinstance(st, ast.Assign) and len(st.targets) == 1 and name_of(st.targets[0]) == target:
            hits.append(st)
    if len(hits) != 1:
        fail(fn, f"exactly one assignment to {target} expected in {fn.name}")
    return hits[0]


def translate(repo):
    path = f"{repo}/src/mdpax/solvers/periodic_value_iteration.py"
    tree, _ = load_module(path)
    cls = find_class(tree, "PeriodicValueIteration")
    out = [HEADER]
    spans = []

    # --- buffer: np.zeros((self.period + 1, n_states)); history_index = 0; value_history[0] = values
    fn = find_func(cls, "_initialize_solver_state_elements")
    vh = find_assign(fn, "self.value_history")
    if not (isinstance(vh.value, ast.Call) and ast.unparse(vh.value.func) == "np.zeros" and isinstance(vh.value.args[0], ast.Tuple)
            and name_of(vh.value.args[0].elts[1]) is None and ast.unparse(vh.value.args[0].elts[1]) == "self.problem.n_states"):
        fail(vh, "value_history must be np.zeros((<len>, self.problem.n_states))")
    out.append(f"Definition pv_buffer_len (period : Z) : Z := {ZExpr({'self.period': 'period'}).num(vh.value.args[0].elts[0])}.")
    hi = [s for s in ast.walk(fn) if isinstance(s, ast.AnnAssign) and name_of(s.target) == "self.history_index"] + \
         [s for s in ast.walk(fn) if isinstance(s, ast.Assign) and name_of(s.targets[0]) == "self.history_index"]
    if len(hi) != 1:
        fail(fn, "history_index initialisation not found")
    out.append(f"Definition pv_initial_index : Z := {ZExpr({}).num(hi[0].value)}.")
    st0 = [s for s in ast.walk(fn) if isinstance(s, ast.Assign) and isinstance(s.targets[0], ast.Subscript)
           and name_of(s.targets[0].value) == "self.value_history"]
    if len(st0) != 1 or ast.unparse(st0[0].value).replace(" ", "") != "np.array(self.values)":
        fail(fn, "initial values must be stored as self.value_history[<i>] = np.array(self.values)")
    out.append(f"Definition pv_initial_slot : Z := {ZExpr({}).num(st0[0].targets[0].slice)}.")
    spans.append({"function": "_initialize_solver_state_elements", "lines": [fn.lineno, fn.end_lineno]})

    # --- guard and dispatch
    fn = find_func(cls, "_get_periodic_span")
    body = strip_docstring(fn.body)
    if not (len(body) == 2 and isinstance(body[0], ast.If) and not body[0].orelse and len(body[0].body) == 1
            and isinstance(body[0].body[0], ast.Return) and ast.unparse(body[0].body[0].value).replace('"', "'") == "float('inf')"):
        fail(fn, "_get_periodic_span must start with `if <guard>: return float('inf')`")
    out.append(f"Definition pv_guard_inf (iteration period : Z) : bool := {ZExpr({'iteration': 'iteration', 'period': 'period'}).boolean(body[0].test)}.")
    d = body[1]
    if not (isinstance(d, ast.If) and ast.unparse(d.test).replace(" ", "") in ("gamma==1.0", "gamma==1")
            and len(d.body) == 1 and len(d.orelse) == 1 and isinstance(d.body[0], ast.Return) and isinstance(d.orelse[0], ast.Return)
            and ast.unparse(d.body[0].value).replace(" ", "").replace("\n", "") == "self._calculate_period_span_without_discount(new_values,history_index,period,value_history)"
            and ast.unparse(d.orelse[0].value).replace(" ", "").replace("\n", "") == "self._calculate_period_span_with_discount(new_values,history_index,period,value_history,iteration,gamma)"):
        fail(d, "dispatch on gamma == 1.0 with the documented argument order expected")
    spans.append({"function": "_get_periodic_span", "lines": [fn.lineno, fn.end_lineno]})

    # --- undiscounted
    fn = find_func(cls, "_calculate_period_span_without_discount")
    if [a.arg for a in fn.args.args] != ["self", "values", "history_index", "period", "value_history"]:
        fail(fn, "unexpected signature")
    pi_ = find_assign(fn, "prev_index")
    env = {"history_index": "history_index", "period": "period"}
    out.append(f"Definition pv_nodisc_prev_index (history_index period : Z) : Z := {ZExpr(env).num(pi_.value)}.")
    body = [s for s in strip_docstring(fn.body)]
    txt = [ast.unparse(s).replace(" ", "") for s in body]
    if not (len(body) == 3 and txt[1] == "values_prev=jnp.array(value_history[prev_index])" and txt[2] == "returnself._get_span(values,values_prev)"):
        fail(fn, "undiscounted measure must be self._get_span(values, value_history[prev_index])")
    spans.append({"function": "_calculate_period_span_without_discount", "lines": [fn.lineno, fn.end_lineno]})

    # --- discounted
    fn = find_func(cls, "_calculate_period_span_with_discount")
    if [a.arg for a in fn.args.args] != ["self", "values", "history_index", "period", "value_history", "iteration", "gamma"]:
        fail(fn, "unexpected signature")
    body = strip_docstring(fn.body)
    loops = [s for s in body if isinstance(s, ast.For)]
    if len(loops) != 1 or ast.unparse(loops[0].iter) != "range(period)" or name_of(loops[0].target) != "p":
        fail(fn, "exactly one `for p in range(period)` loop expected")
    lp = loops[0]
    env = {"history_index": "history_index", "period": "period", "p": "p", "iteration": "iteration"}
    ci = find_assign(lp, "curr_index")
    out.append(f"Definition pv_disc_curr_index (history_index p period : Z) : Z := {ZExpr(env).num(ci.value)}.")
    pr = find_assign(lp, "prev_index")
    out.append(f"Definition pv_disc_prev_index (curr_index period : Z) : Z := {ZExpr({'curr_index': 'curr_index', 'period': 'period'}).num(pr.value)}.")
    aug = [s for s in lp.body if isinstance(s, ast.AugAssign)]
    if len(aug) != 1 or name_of(aug[0].target) != "period_deltas" or not isinstance(aug[0].op, ast.Add):
        fail(lp, "loop must accumulate into period_deltas with +=")
    v = aug[0].value
    if not (isinstance(v, ast.BinOp) and isinstance(v.op, ast.Div) and ast.unparse(v.left).replace(" ", "") == "values_curr-values_prev"
            and isinstance(v.right, ast.BinOp) and isinstance(v.right.op, ast.Pow) and name_of(v.right.left) == "gamma"):
        fail(v, "term must be (values_curr - values_prev) / gamma ** <exponent>")
    out.append(f"Definition pv_disc_exponent (iteration p : Z) : Z := {ZExpr(env).num(v.right.right)}.")
    t2 = {ast.unparse(s).replace(" ", "") for s in lp.body}
    if not {"values_curr=value_history[curr_index]", "values_prev=value_history[prev_index]"} <= t2:
        fail(lp, "values_curr / values_prev must be read from value_history[curr_index] / [prev_index]")
    tail = [ast.unparse(s).replace(" ", "") for s in body if not isinstance(s, ast.For)]
    if tail != ["period_deltas=np.zeros_like(values)", "period_deltas=jnp.array(period_deltas)", "returnjnp.max(period_deltas)-jnp.min(period_deltas)"]:
        fail(fn, "discounted measure must be max - min of the accumulated deltas")
    spans.append({"function": "_calculate_period_span_with_discount", "lines": [fn.lineno, fn.end_lineno]})

    # --- _iteration_step: index update, store, argument order of the test
    fn = find_func(cls, "_iteration_step")
    up = find_assign(fn, "self.history_index")
    out.append(f"Definition pv_next_index (history_index period : Z) : Z := {ZExpr({'self.history_index': 'history_index', 'self.period': 'period'}).num(up.value)}.")
    body = strip_docstring(fn.body)
    txt = [ast.unparse(s).replace(" ", "").replace("\n", "") for s in body]
    want_store = "self.value_history[self.history_index]=np.array(new_values)"
    want_call = "conv=self._convergence_test_fn(new_values,self.values,self.history_index,self.period,self.value_history,self.iteration,self.gamma)"
    if want_store not in txt or want_call not in txt or txt.index(want_store) < txt.index(ast.unparse(up).replace(" ", "")) or txt.index(want_call) < txt.index(want_store):
        fail(fn, "_iteration_step must update the index, store the new values there, then call the test with the documented argument order")
    if txt[-1] not in ("returnnew_values,conv", "return(new_values,conv)"):
        fail(fn, "_iteration_step must return (new_values, conv)")
    spans.append({"function": "_iteration_step", "lines": [fn.lineno, fn.end_lineno]})
    return "\n".join(out) + "\n", {"source": path, "spans": spans}
