"""PolicyIteration._evaluate_policy -> coq/gen/GenPiEval.v (fail-closed): the choice of the starting vector and the
evaluation loop (budget, sweep, test, break BEFORE the assignment, so that the pre-update iterate is returned when the
test passes).  The sweep, the test function and the threshold enter as parameters."""
import ast

from .pyexpr import TranslateError, fail, find_class, is_logger_call, load_module, strip_docstring

HEADER = """(* GENERATED from PolicyIteration._evaluate_policy -- do not edit *)
From Coq Require Import QArith List Bool.
From MdpaxV Require Import Model.QFun.
Import ListNotations.
Open Scope Q_scope.
"""


def translate(repo):
    path = f"{repo}/src/mdpax/solvers/policy_iteration.py"
    tree, _ = load_module(path)
    cls = find_class(tree, "PolicyIteration")
    fn = next((n for n in cls.body if isinstance(n, ast.FunctionDef) and n.name == "_evaluate_policy"), None)
    if fn is None:
        raise TranslateError("_evaluate_policy not found")
    if [a.arg for a in fn.args.args] != ["self", "policy", "starting_values"]:
        fail(fn, "signature must be (self, policy, starting_values=None)")
    body = strip_docstring(fn.body)
    if len(body) != 3:
        fail(fn, f"expected: start selection, loop, return ({len(body)} statements found)")
    sel, loop, ret = body
    # ---- start selection
    ok = (isinstance(sel, ast.If) and ast.unparse(sel.test) == "starting_values is None" and len(sel.body) == 1 and len(sel.orelse) == 1
          and isinstance(sel.body[0], ast.Assign) and ast.unparse(sel.body[0].targets[0]) == "values" and isinstance(sel.body[0].value, ast.IfExp)
          and ast.unparse(sel.orelse[0]) == "values = starting_values")
    if not ok:
        fail(sel, "start selection must be `if starting_values is None: values = (A if C else B) else: values = starting_values`")
    ife = sel.body[0].value
    if ast.unparse(ife.test) != "self.config.reset_values_for_each_policy_eval":
        fail(ife, "the start is chosen by config.reset_values_for_each_policy_eval")
    names = {"self.initial_values": "initial_values", "self.values": "self_values"}
    a, b = ast.unparse(ife.body), ast.unparse(ife.orelse)
    if a not in names or b not in names:
        fail(ife, "the start must be self.initial_values or self.values")
    # ---- loop
    if not (isinstance(loop, ast.For) and ast.unparse(loop.iter) == "range(self.config.max_eval_iter)" and not loop.orelse):
        fail(loop, "the loop must be `for _ in range(self.config.max_eval_iter)`")
    stmts = [s for s in loop.body if not is_logger_call(s) and not (isinstance(s, ast.If) and ast.unparse(s.test) == "self.verbose" and all(is_logger_call(x) for x in s.body) and not s.orelse)]
    u = [ast.unparse(s) for s in stmts]
    want = ["new_values = self._calculate_policy_values(policy, values)", "conv = self._convergence_test_fn(new_values, values)",
            "if conv < self.conv_threshold:\n    break", "values = new_values"]
    if u != [ast.unparse(ast.parse(w).body[0]) for w in want]:
        fail(loop, "loop body must be: sweep under the policy; test(new, old); `if conv < self.conv_threshold: break`; values = new_values")
    if ast.unparse(ret) != "return values":
        fail(ret, "must return values")
    out = [HEADER,
           "Definition gen_eval_start (reset : bool) (initial_values self_values : list Q) (starting_values : option (list Q)) : list Q :=",
           f"  match starting_values with None => if reset then {names[a]} else {names[b]} | Some v => v end.",
           "(* CALC = self._calculate_policy_values(policy, .); CONV = self._convergence_test_fn; budget = max_eval_iter *)",
           "Fixpoint gen_evaluate_policy (CALC : list Q -> list Q) (CONV : list Q -> list Q -> Q) (conv_threshold : Q) (budget : nat) (values : list Q) : list Q :=",
           "  match budget with",
           "  | O => values",
           "  | S budget' =>",
           "      let new_values := CALC values in",
           "      let conv := CONV new_values values in",
           "      if Qltb conv conv_threshold then values        (* break: the PRE-update iterate is returned *)",
           "      else gen_evaluate_policy CALC CONV conv_threshold budget' new_values",
           "  end."]
    return "\n".join(out) + "\n", {"spans": [{"method": f"PolicyIteration._evaluate_policy (solvers/policy_iteration.py:{fn.lineno}-{fn.end_lineno})"}]}
