"""The five solve() methods -> coq/gen/GenLoops.v: one Skeleton.skel per solver (fail-closed)."""
import ast

from .pyexpr import TranslateError, fail, find_class, find_func, is_logger_call, load_module, name_of, strip_docstring

HEADER = """(* GENERATED from the solve() methods of src/mdpax/solvers/*.py -- do not edit *)
From Coq Require Import List.
From MdpaxV Require Import Model.Skeleton.
Import ListNotations.
"""

SOLVERS = [
    ("vi", "value_iteration.py", "ValueIteration", "new_values", "conv", "self.values"),
    ("rvi", "relative_value_iteration.py", "RelativeValueIteration", "new_values", "conv", "self.values"),
    ("pvi", "periodic_value_iteration.py", "PeriodicValueIteration", "new_values", "conv", "self.values"),
    ("savi", "semi_async_value_iteration.py", "SemiAsyncValueIteration", "new_values", "conv", "self.values"),
    ("pi", "policy_iteration.py", "PolicyIteration", "new_policy", "n_changed", "self.policy"),
]


def thr_name(node):
    nm = name_of(node)
    if nm == "self.conv_threshold":
        return "TConvThreshold"
    if nm == "self.epsilon":
        return "TEpsilon"
    fail(node, "threshold must be self.conv_threshold or self.epsilon")


def cond(node, measure):
    """measure: 'conv' or 'n_changed'"""
    if isinstance(node, ast.Compare) and len(node.ops) == 1 and name_of(node.left) == measure:
        op, rhs = node.ops[0], node.comparators[0]
        if measure == "conv":
            if isinstance(op, ast.Lt):
                return f"(CConvLt {thr_name(rhs)})"
            if isinstance(op, ast.GtE):
                return f"(CConvGe {thr_name(rhs)})"
        else:
            if isinstance(rhs, ast.Constant) and rhs.value == 0:
                if isinstance(op, ast.Eq):
                    return "CNoChange"
                if isinstance(op, ast.Gt):
                    return "CChanged"
        fail(node, "unsupported comparison in a loop condition")
    if name_of(node) == "self.is_checkpointing_enabled":
        return "CCkpt"
    if (isinstance(node, ast.BoolOp) and isinstance(node.op, ast.And) and len(node.values) == 2
            and name_of(node.values[0]) == "self.is_checkpointing_enabled"
            and ast.unparse(node.values[1]).replace(" ", "") == "self.iteration%self.checkpoint_frequency==0"):
        return "CCkptIterModFreq"
    fail(node, "unsupported loop condition")


def only_logging(stmts):
    return all(is_logger_call(s) for s in stmts)


def is_save(st):
    return (isinstance(st, ast.Expr) and isinstance(st.value, ast.Call) and ast.unparse(st.value) == "self.save(self.iteration)")


def stmts_of(body, newname, measure, field, in_loop):
    out = []
    i = 0
    body = [s for s in body if not is_logger_call(s)]
    while i < len(body):
        st = body[i]
        if isinstance(st, ast.AugAssign) and name_of(st.target) == "self.iteration" and isinstance(st.op, ast.Add) \
                and isinstance(st.value, ast.Constant) and st.value.value == 1:
            out.append("SIncrIter")
        elif (isinstance(st, ast.Assign) and len(st.targets) == 1 and isinstance(st.targets[0], ast.Tuple)
              and [name_of(e) for e in st.targets[0].elts] == [newname, measure]
              and ast.unparse(st.value) == "self._iteration_step()"):
            nxt = body[i + 1] if i + 1 < len(body) else None
            if not (isinstance(nxt, ast.Assign) and len(nxt.targets) == 1 and name_of(nxt.targets[0]) == field and name_of(nxt.value) == newname):
                fail(st, f"the result of _iteration_step must be assigned to {field} immediately")
            out.append("SStepAssign")
            i += 1
        elif isinstance(st, ast.If) and not st.orelse:
            inner = [s for s in st.body if not is_logger_call(s)]
            if not inner:
                pass  # logging only: no effect
            elif len(inner) == 1 and isinstance(inner[0], ast.Break) and in_loop:
                out.append(f"SBreakIf {cond(st.test, measure)}")
            elif len(inner) == 1 and is_save(inner[0]):
                out.append(f"SSaveIf {cond(st.test, measure)}")
            elif len(inner) == 1 and isinstance(inner[0], ast.Expr) and ast.unparse(inner[0].value) == "self._clear_value_history()":
                out.append(f"SClearHistoryIf {cond(st.test, measure)}")
            else:
                fail(st, "unsupported if statement in solve()")
        elif isinstance(st, ast.Assign) and name_of(st.targets[0]) == "self.policy" and ast.unparse(st.value) == "self._extract_policy()":
            out.append("SExtractPolicy")
        elif isinstance(st, ast.Return) and not in_loop:
            if ast.unparse(st.value) != "self.solver_state":
                fail(st, "solve() must return self.solver_state")
            if i != len(body) - 1:
                fail(st, "return must be last")
        else:
            fail(st, "unsupported statement in solve()")
        i += 1
    return out


def translate(repo):
    out = [HEADER]
    spans = []
    for key, fname, cls, newname, measure, field in SOLVERS:
        path = f"{repo}/src/mdpax/solvers/{fname}"
        tree, _ = load_module(path)
        fn = find_func(find_class(tree, cls), "solve")
        body = strip_docstring(fn.body)
        loops = [s for s in body if isinstance(s, ast.For)]
        if len(loops) != 1 or body[0] is not loops[0]:
            fail(fn, "solve() must start with exactly one for loop")
        lp = loops[0]
        if not (ast.unparse(lp.iter) == "range(max_iterations)" and not lp.orelse):
            fail(lp, "loop must be `for _ in range(max_iterations)`")
        b = stmts_of(lp.body, newname, measure, field, True)
        p = stmts_of(body[1:], newname, measure, field, False)
        out.append(f"Definition {key}_skel : skel :=\n  {{| sk_body := [{'; '.join(b)}];\n     sk_post := [{'; '.join(p)}] |}}.")
        spans.append({"function": f"{cls}.solve", "file": path, "lines": [fn.lineno, fn.end_lineno]})
    return "\n".join(out) + "\n", {"spans": spans}
