"""RelativeValueIteration._initialize_solver_state_elements and _iteration_step -> coq/gen/GenRviStep.v (fail-closed):
where the gain estimate starts, what is subtracted from the swept values, which vectors the span compares, and which
component becomes the new gain.  The parent's sweep and the span function enter as parameters (they are translated by
GenKernel); attribute reads/writes on `self` become inputs/outputs of the generated step."""
import ast

from .pyexpr import TranslateError, fail, find_class, load_module, strip_docstring

HEADER = """(* GENERATED from RelativeValueIteration._initialize_solver_state_elements / _iteration_step -- do not edit *)
From Coq Require Import QArith List.
Import ListNotations.
Open Scope Q_scope.
"""


def norm(src):
    return ast.unparse(ast.parse(src).body[0])


def translate(repo):
    path = f"{repo}/src/mdpax/solvers/relative_value_iteration.py"
    tree, _ = load_module(path)
    cls = find_class(tree, "RelativeValueIteration")
    fns = {n.name: n for n in cls.body if isinstance(n, ast.FunctionDef)}
    for need in ("_initialize_solver_state_elements", "_iteration_step"):
        if need not in fns:
            raise TranslateError(f"{need} not found")
    # ---- initial gain
    init = strip_docstring(fns["_initialize_solver_state_elements"].body)
    u = [ast.unparse(x) for x in init]
    if len(u) != 2 or u[0] != norm("super()._initialize_solver_state_elements()"):
        fail(fns["_initialize_solver_state_elements"], "expected the parent initialisation followed by one assignment of self.gain")
    a = init[1]
    if not (isinstance(a, ast.Assign) and ast.unparse(a.targets[0]) == "self.gain"):
        fail(a, "second statement must assign self.gain")
    src = ast.unparse(a.value)
    if src in ("float(self.values[-1])", "self.values[-1]"):
        init_gain = "last values 0"
    elif isinstance(a.value, ast.Constant) and isinstance(a.value.value, (int, float)):
        from fractions import Fraction
        fr = Fraction(a.value.value)
        init_gain = f"({fr.numerator} # {fr.denominator})"
    else:
        fail(a, "initial gain must be the last component of the initial values or a constant")
    # ---- the step
    st = strip_docstring(fns["_iteration_step"].body)
    env = {}      # local name -> coq name
    lets, gain_out, vals, span = [], None, None, None
    k = 0

    def fresh(py):
        nonlocal k
        k += 1
        env[py] = f"{py}{k}"
        return env[py]

    def vec(e):
        """array-valued expression over locals and self.values / self.gain"""
        if isinstance(e, ast.Name) and e.id in env:
            return env[e.id]
        if ast.unparse(e) == "self.values":
            return "values"
        if isinstance(e, ast.BinOp) and isinstance(e.op, ast.Sub) and ast.unparse(e.right) == "self.gain":
            return f"map (fun x => x - gain) ({vec(e.left)})"
        fail(e, "array expression not accepted in the RVI step")

    for s in st[:-1]:
        if not (isinstance(s, ast.Assign) and len(s.targets) == 1):
            fail(s, "only assignments may precede the return")
        t = s.targets[0]
        if isinstance(t, ast.Tuple) and len(t.elts) == 2 and ast.unparse(s.value) == "super()._iteration_step()":
            a0, a1 = t.elts
            if not isinstance(a0, ast.Name) or ast.unparse(a1) != "_":
                fail(s, "the parent step must be unpacked as `<values>, _`")
            lets.append(f"let {fresh(a0.id)} := fst (SUPER values) in")
        elif isinstance(t, ast.Name) and isinstance(s.value, ast.Call) and ast.unparse(s.value.func) == "self._get_span" and len(s.value.args) == 2:
            x, y = vec(s.value.args[0]), vec(s.value.args[1])
            lets.append(f"let {fresh(t.id)} := SPAN ({x}) ({y}) in")
        elif isinstance(t, ast.Name):
            v = vec(s.value)
            lets.append(f"let {fresh(t.id)} := {v} in")
        elif ast.unparse(t) == "self.gain":
            if not (isinstance(s.value, ast.Subscript) and ast.unparse(s.value.slice) == "-1"):
                fail(s, "the new gain must be the last component of an array")
            gain_out = f"last ({vec(s.value.value)}) 0"
        else:
            fail(s, "statement not accepted in the RVI step")
    r = st[-1]
    if not (isinstance(r, ast.Return) and isinstance(r.value, ast.Tuple) and len(r.value.elts) == 2):
        fail(r, "the step must return (new values, measure)")
    if gain_out is None:
        fail(r, "the step never assigns self.gain")
    vals, span = vec(r.value.elts[0]), vec(r.value.elts[1]) if not (isinstance(r.value.elts[1], ast.Name)) else env.get(r.value.elts[1].id)
    if span is None:
        fail(r, "unknown measure returned")
    out = [HEADER,
           f"Definition gen_rvi_initial_gain (values : list Q) : Q := {init_gain}.",
           "(* SUPER = ValueIteration._iteration_step as a function of self.values; SPAN = self._get_span *)",
           "Definition gen_rvi_iteration_step (SUPER : list Q -> list Q * Q) (SPAN : list Q -> list Q -> Q) (values : list Q) (gain : Q) : list Q * Q * Q :=",
           *["  " + x for x in lets],
           f"  ({vals}, {span}, {gain_out})."]
    return "\n".join(out) + "\n", {"spans": [{"method": f"RelativeValueIteration._initialize_solver_state_elements / _iteration_step (solvers/relative_value_iteration.py:{fns['_initialize_solver_state_elements'].lineno}-{fns['_iteration_step'].end_lineno})"}]}
