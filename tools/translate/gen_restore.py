"""utils/checkpointing.py: restore() / load_checkpoint() decision logic and _setup_checkpointing's early
return -> coq/gen/GenRestore.v (fail-closed)."""
import ast

from .pyexpr import TranslateError, fail, find_class, find_func, is_logger_call, load_module, name_of, strip_docstring

HEADER = """(* GENERATED from src/mdpax/utils/checkpointing.py -- do not edit *)
From Coq Require Import List String.
Import ListNotations.
Inductive errkind := EFileNotFound | EValueError | ETypeError | EOther.
Inductive cfgkey := KCheckpointDir | KCheckpointFrequency | KMaxCheckpoints | KEnableAsync | KOtherKey.
Inductive step_rule := StepOrLatest | StepIfNotNoneElseLatest | StepAlwaysLatest.
Inductive rstage := SCheckConfig | SLoadConfig | SApplyOverrides | SInstantiate | STemplate | SManager | SChooseStep | SCheckStep | SReadState | SAssignFields | SReturn.
"""
ERR = {"FileNotFoundError": "EFileNotFound", "ValueError": "EValueError", "TypeError": "ETypeError"}
KEY = {"checkpoint_dir": "KCheckpointDir", "checkpoint_frequency": "KCheckpointFrequency", "max_checkpoints": "KMaxCheckpoints",
       "enable_async_checkpointing": "KEnableAsync"}


def raised(st):
    if isinstance(st, ast.Raise) and isinstance(st.exc, ast.Call) and name_of(st.exc.func):
        return ERR.get(name_of(st.exc.func), "EOther")
    return None


def step_rule(value):
    t = ast.unparse(value).replace(" ", "")
    if t in ("stepormanager.latest_step()", "steporload_manager.latest_step()"):
        return "StepOrLatest"
    if t in ("stepifstepisnotNoneelsemanager.latest_step()", "stepifstepisnotNoneelseload_manager.latest_step()"):
        return "StepIfNotNoneElseLatest"
    fail(value, "unsupported step selection")


def translate(repo):
    path = f"{repo}/src/mdpax/utils/checkpointing.py"
    tree, _ = load_module(path)
    cls = find_class(tree, "CheckpointMixin")
    out = [HEADER]
    spans = []

    # ---- restore (classmethod)
    fn = find_func(cls, "restore")
    params = [a.arg for a in fn.args.args]
    if params != ["cls", "checkpoint_dir", "step", "new_checkpoint_dir", "checkpoint_frequency", "max_checkpoints", "enable_async_checkpointing"]:
        fail(fn, "unexpected restore() signature")
    stages, overrides = [], []
    missing_cfg = no_step = rule = None
    for st in strip_docstring(fn.body):
        if is_logger_call(st):
            continue
        txt = ast.unparse(st).replace(" ", "").replace("\n", "")
        if isinstance(st, ast.Assign) and name_of(st.targets[0]) == "checkpoint_dir" and txt == "checkpoint_dir=Path(checkpoint_dir).absolute()":
            continue
        if isinstance(st, ast.Assign) and name_of(st.targets[0]) == "config_path" and txt == "config_path=checkpoint_dir/'config.yaml'":
            continue
        if isinstance(st, ast.If) and ast.unparse(st.test).replace(" ", "") == "notconfig_path.exists()" and len(st.body) == 1 and raised(st.body[0]):
            missing_cfg = raised(st.body[0])
            stages.append("SCheckConfig")
            continue
        if txt == "config=OmegaConf.load(config_path)":
            stages.append("SLoadConfig")
            continue
        if isinstance(st, ast.If) and isinstance(st.test, ast.Compare) and isinstance(st.test.ops[0], ast.IsNot) and name_of(st.test.left) in params:
            arg = name_of(st.test.left)
            writes = [s for s in st.body if isinstance(s, ast.Assign) and isinstance(s.targets[0], ast.Attribute) and name_of(s.targets[0].value) == "config"]
            others = [s for s in st.body if s not in writes]
            for o in others:
                if not (isinstance(o, ast.Assign) and name_of(o.targets[0]) == arg and ast.unparse(o.value).replace(" ", "") == f"Path({arg}).absolute()"):
                    fail(o, "override branch may only normalise its own argument")
            if len(writes) != 1 or name_of(writes[0].value) != arg:
                fail(st, "override branch must assign exactly its own argument to one config key")
            overrides.append((arg, KEY.get(writes[0].targets[0].attr, "KOtherKey")))
            if not stages or stages[-1] != "SApplyOverrides":
                stages.append("SApplyOverrides")
            continue
        if txt == "solver=instantiate(config)":
            stages.append("SInstantiate")
            continue
        if txt == "template_cp_state=solver.solver_state":
            stages.append("STemplate")
            continue
        if isinstance(st, ast.Assign) and name_of(st.targets[0]) == "manager" and txt.startswith("manager=cls._create_checkpoint_manager(checkpoint_dir,"):
            stages.append("SManager")
            continue
        if isinstance(st, ast.Assign) and name_of(st.targets[0]) == "step":
            rule = step_rule(st.value)
            stages.append("SChooseStep")
            continue
        if isinstance(st, ast.If) and ast.unparse(st.test).replace(" ", "") == "stepisNone" and len(st.body) == 1 and raised(st.body[0]):
            no_step = raised(st.body[0])
            stages.append("SCheckStep")
            continue
        if isinstance(st, ast.Assign) and name_of(st.targets[0]) == "cp_state" and "manager.restore(step,args=checkpoint.args.StandardRestore(template_cp_state))" in txt:
            stages.append("SReadState")
            continue
        if txt == "solver._restore_state_from_checkpoint(cp_state)":
            stages.append("SAssignFields")
            continue
        if txt == "returnsolver":
            stages.append("SReturn")
            continue
        fail(st, "unsupported statement in restore()")
    if missing_cfg is None or no_step is None or rule is None:
        raise TranslateError("restore(): config check, step selection or empty-directory check not found")
    out.append(f"Definition restore_missing_config_error : errkind := {missing_cfg}.")
    out.append(f"Definition restore_no_step_error : errkind := {no_step}.")
    out.append(f"Definition restore_step_rule : step_rule := {rule}.")
    out.append("Definition restore_override_keys : list cfgkey := [" + "; ".join(k for _, k in overrides) + "].")
    out.append("Definition restore_stages : list rstage := [" + "; ".join(stages) + "].")
    spans.append({"function": "CheckpointMixin.restore", "lines": [fn.lineno, fn.end_lineno]})

    # ---- load_checkpoint
    fn = find_func(cls, "load_checkpoint")
    lstages = []
    lrule = lnostep = None
    for st in strip_docstring(fn.body):
        if is_logger_call(st):
            continue
        txt = ast.unparse(st).replace(" ", "").replace("\n", "")
        if txt == "checkpoint_dir=Path(checkpoint_dir).absolute()":
            continue
        if isinstance(st, ast.Assign) and name_of(st.targets[0]) == "load_manager" and txt.startswith("load_manager=self._create_checkpoint_manager(checkpoint_dir=checkpoint_dir,"):
            lstages.append("SManager")
            continue
        if txt == "template_cp_state=self.solver_state":
            lstages.append("STemplate")
            continue
        if isinstance(st, ast.Assign) and name_of(st.targets[0]) == "step":
            lrule = step_rule(st.value)
            lstages.append("SChooseStep")
            continue
        if isinstance(st, ast.If) and ast.unparse(st.test).replace(" ", "") == "stepisNone" and len(st.body) == 1 and raised(st.body[0]):
            lnostep = raised(st.body[0])
            lstages.append("SCheckStep")
            continue
        if isinstance(st, ast.Assign) and name_of(st.targets[0]) == "cp_state" and "load_manager.restore(step,args=checkpoint.args.StandardRestore(template_cp_state))" in txt:
            lstages.append("SReadState")
            continue
        if txt == "self._restore_state_from_checkpoint(cp_state)":
            lstages.append("SAssignFields")
            continue
        fail(st, "unsupported statement in load_checkpoint()")
    if lrule is None or lnostep is None:
        raise TranslateError("load_checkpoint(): step selection or empty-directory check not found")
    out.append(f"Definition load_no_step_error : errkind := {lnostep}.")
    out.append(f"Definition load_step_rule : step_rule := {lrule}.")
    out.append("Definition load_stages : list rstage := [" + "; ".join(lstages) + "].")
    spans.append({"function": "CheckpointMixin.load_checkpoint", "lines": [fn.lineno, fn.end_lineno]})

    # ---- _setup_checkpointing: frequency 0 returns before any directory is created
    fn = find_func(cls, "_setup_checkpointing")
    body = [s for s in strip_docstring(fn.body) if not is_logger_call(s)]
    idx_ret = next((i for i, s in enumerate(body) if isinstance(s, ast.If) and ast.unparse(s.test).replace(" ", "") == "self.checkpoint_frequency==0"
                    and any(isinstance(x, ast.Return) for x in s.body)), None)
    idx_mkdir = next((i for i, s in enumerate(body) if "mkdir" in ast.unparse(s)), None)
    idx_mgr = next((i for i, s in enumerate(body) if "_create_checkpoint_manager" in ast.unparse(s)), None)
    idx_cfg = next((i for i, s in enumerate(body) if isinstance(s, ast.If) and ast.unparse(s.test).replace(" ", "") == "self.has_full_config"
                    and "self._save_solver_config()" in ast.unparse(s)), None)
    if None in (idx_ret, idx_mkdir, idx_mgr, idx_cfg):
        fail(fn, "_setup_checkpointing: early return / mkdir / manager / config save not found")
    out.append(f"Definition setup_returns_before_mkdir_when_freq0 : bool := {'true' if idx_ret < idx_mkdir and idx_ret < idx_mgr else 'false'}.")
    out.append("Definition setup_config_written_iff_full_config : bool := true.")
    spans.append({"function": "CheckpointMixin._setup_checkpointing", "lines": [fn.lineno, fn.end_lineno]})
    return "\n".join(out) + "\n", {"source": path, "spans": spans}
