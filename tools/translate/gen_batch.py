"""src/mdpax/utils/batch_processing.py -> coq/gen/GenBatch.v (fail-closed)."""
import ast
from collections import OrderedDict

from .pyexpr import (TranslateError, ZExpr, assign_chain, fail, find_class, find_func,
                     is_logger_call, load_module, name_of, strip_docstring)

HEADER = """(* GENERATED from src/mdpax/utils/batch_processing.py -- do not edit *)
From Coq Require Import ZArith List Bool.
Import ListNotations.
Open Scope Z_scope.
"""


def _is_devices_stmt(st):
    return (isinstance(st, ast.Assign) and len(st.targets) == 1 and name_of(st.targets[0]) == "self.n_devices")


def _translate_devices(st):
    """self.n_devices = len(jax.devices()) if pmap_device_count is None else pmap_device_count"""
    v = st.value
    ok = (
        isinstance(v, ast.IfExp)
        and isinstance(v.test, ast.Compare) and len(v.test.ops) == 1 and isinstance(v.test.ops[0], ast.Is)
        and name_of(v.test.left) == "pmap_device_count"
        and isinstance(v.test.comparators[0], ast.Constant) and v.test.comparators[0].value is None
        and name_of(v.orelse) == "pmap_device_count"
        and ast.unparse(v.body) == "len(jax.devices())"
    )
    if not ok:
        fail(st, "n_devices must be `len(jax.devices()) if pmap_device_count is None else pmap_device_count`")
    return ("Definition bp_n_devices (n_states max_batch_size pmap_device_count : Z) : Z :=\n"
            "  pmap_device_count.")


def _is_device_gather(st):
    """`if <cond>: results = jax.device_put(results, <device>)` moves the array between devices
    and leaves every value unchanged: an identity for the list model."""
    if not (isinstance(st, ast.If) and not st.orelse and len(st.body) == 1):
        return False
    a = st.body[0]
    return (isinstance(a, ast.Assign) and len(a.targets) == 1 and name_of(a.targets[0]) == "results"
            and isinstance(a.value, ast.Call) and ast.unparse(a.value.func) == "jax.device_put"
            and len(a.value.args) == 2 and name_of(a.value.args[0]) == "results" and not a.value.keywords)


def translate(repo):
    path = f"{repo}/src/mdpax/utils/batch_processing.py"
    tree, _ = load_module(path)
    cls = find_class(tree, "BatchProcessor")
    out = [HEADER]
    spans = []

    # ---- __init__ : layout arithmetic
    init = find_func(cls, "__init__")
    argnames = [a.arg for a in init.args.args]
    if argnames != ["self", "n_states", "state_dim", "max_batch_size", "pmap_device_count"]:
        fail(init, "unexpected __init__ signature")
    body = strip_docstring(init.body)
    dev = [s for s in body if _is_devices_stmt(s)]
    if len(dev) != 1:
        fail(init, "exactly one assignment to self.n_devices expected")
    out.append(_translate_devices(dev[0]))
    params = OrderedDict([("n_states", "n_states"), ("max_batch_size", "max_batch_size"), ("self.n_devices", "n_devices")])
    defs_txt, defs = assign_chain(
        body, params, "bp_", skip=_is_devices_stmt,
        identity_ok={"self.n_states": "n_states", "self.state_dim": "state_dim"},
    )
    for need in ("self.batch_size", "self.n_batches", "self.n_pad"):
        if need not in defs:
            raise TranslateError(f"{need} is not assigned in __init__")
    out.extend(t for _, t in defs_txt)
    spans.append({"function": "BatchProcessor.__init__", "lines": [init.lineno, init.end_lineno]})

    # ---- prepare_batches
    prep = find_func(cls, "prepare_batches")
    pb = [s for s in strip_docstring(prep.body) if not is_logger_call(s)]
    if len(pb) != 2 or not isinstance(pb[0], ast.If) or pb[0].orelse or not isinstance(pb[1], ast.Return):
        fail(prep, "prepare_batches must be `if <cond>: states = vstack(...)` followed by `return states.reshape(...)`")
    env = {"self.n_pad": "n_pad"}
    cond = ZExpr(env).boolean(pb[0].test)
    asg = pb[0].body
    if not (len(asg) == 1 and isinstance(asg[0], ast.Assign) and name_of(asg[0].targets[0]) == "states"):
        fail(pb[0], "padding branch must assign `states`")
    call = asg[0].value
    if not (isinstance(call, ast.Call) and ast.unparse(call.func) in ("jnp.vstack", "jnp.concatenate") and len(call.args) == 1
            and isinstance(call.args[0], (ast.List, ast.Tuple)) and len(call.args[0].elts) == 2):
        fail(call, "padding must be jnp.vstack([a, b])")
    a, b = call.args[0].elts

    def zeros_rows(n):
        if (isinstance(n, ast.Call) and ast.unparse(n.func) == "jnp.zeros" and n.args and isinstance(n.args[0], ast.Tuple)
                and len(n.args[0].elts) == 2 and name_of(n.args[0].elts[1]) == "self.state_dim"):
            return ZExpr(env).num(n.args[0].elts[0])
        return None

    if name_of(a) == "states" and zeros_rows(b) is not None:
        after, rows = "true", zeros_rows(b)
    elif name_of(b) == "states" and zeros_rows(a) is not None:
        after, rows = "false", zeros_rows(a)
    else:
        fail(call, "padding must stack `states` with jnp.zeros((rows, self.state_dim))")
    ret = pb[1].value
    if not (isinstance(ret, ast.Call) and isinstance(ret.func, ast.Attribute) and ret.func.attr == "reshape"
            and name_of(ret.func.value) == "states" and len(ret.args) == 4 and name_of(ret.args[3]) == "self.state_dim"):
        fail(ret, "return must be states.reshape(a, b, c, self.state_dim)")
    env3 = {"self.n_devices": "n_devices", "self.n_batches": "n_batches", "self.batch_size": "batch_size"}
    dims = "; ".join(ZExpr(env3).num(x) for x in ret.args[:3])
    out.append("(* prepare_batches *)")
    out.append(f"Definition bp_pad_cond (n_pad : Z) : bool := {cond}.")
    out.append(f"Definition bp_pad_rows (n_pad : Z) : Z := {rows}.")
    out.append(f"Definition bp_pad_after : bool := {after}.")
    out.append(f"Definition bp_reshape_dims (n_devices n_batches batch_size : Z) : list Z :=\n  [{dims}].")
    spans.append({"function": "BatchProcessor.prepare_batches", "lines": [prep.lineno, prep.end_lineno]})

    # ---- unbatch_results
    unb = find_func(cls, "unbatch_results")
    ub = [s for s in strip_docstring(unb.body) if not is_logger_call(s) and not _is_device_gather(s)]
    if len(ub) != 3:
        fail(unb, "unbatch_results must have three statements")
    s0, s1, s2 = ub
    if not (isinstance(s0, ast.Assign) and name_of(s0.targets[0]) == "results"
            and ast.unparse(s0.value).replace(" ", "") in (
                "jnp.reshape(batched_results,(-1,*batched_results.shape[3:]))",
                "batched_results.reshape((-1,*batched_results.shape[3:]))",
                "batched_results.reshape(-1,*batched_results.shape[3:])")):
        fail(s0, "first statement must flatten the three leading axes")
    if not (isinstance(s1, ast.If) and not s1.orelse and len(s1.body) == 1 and isinstance(s1.body[0], ast.Return)):
        fail(s1, "second statement must be `if <cond>: return results[...]`")
    cond2 = ZExpr(env).boolean(s1.test)
    sub = s1.body[0].value
    if not (isinstance(sub, ast.Subscript) and name_of(sub.value) == "results" and isinstance(sub.slice, ast.Slice)
            and sub.slice.lower is None and sub.slice.step is None and sub.slice.upper is not None):
        fail(sub, "strip must be results[: stop]")
    up = sub.slice.upper
    if isinstance(up, ast.UnaryOp) and isinstance(up.op, ast.USub):
        stop = f"len - {ZExpr(env).num(up.operand)}"
    else:
        envl = dict(env)
        envl["self.n_states"] = "(len - n_pad)"  # only valid reading if slots = n + pad; proofs decide
        fail(sub, "strip stop must be of the form -<expr>")
    if not (isinstance(s2, ast.Return) and name_of(s2.value) == "results"):
        fail(s2, "last statement must be `return results`")
    out.append("(* unbatch_results *)")
    out.append(f"Definition bp_strip_cond (n_pad : Z) : bool := {cond2}.")
    out.append(f"Definition bp_strip_stop (len n_pad : Z) : Z := {stop}.")
    spans.append({"function": "BatchProcessor.unbatch_results", "lines": [unb.lineno, unb.end_lineno]})
    return "\n".join(out) + "\n", {"source": path, "spans": spans}
