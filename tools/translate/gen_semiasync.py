"""SemiAsyncValueIteration._calculate_updated_value_scan_state_batches.scan_fn -> coq/gen/GenSemiAsync.v (fail-closed).
Model/SemiAsync.v (sa_batch) is a hand-written transliteration of this scan body; the translator recognises exactly the
statement shapes that transliteration stands for and emits which choice the code makes at each of them.  Any other
statement, any other source of the scatter indices, any other mask polarity makes the translation fail."""
import ast

from .pyexpr import TranslateError, fail, find_class, load_module, strip_docstring

HEADER = """(* GENERATED from SemiAsyncValueIteration._calculate_updated_value_scan_state_batches (scan_fn) -- do not edit *)
From Coq Require Import List.
Import ListNotations.
Inductive carry_slot := CActions | CEvents | CGamma | CValues.
Inductive index_source := IdxStateLookup.          (* self._batch_get_indices(batch): the problem's index of each state row *)
Inductive backup_input := FromCarriedValues.       (* the batch is backed up against the CARRIED (already updated) vector *)
Inductive masked_write := PaddingKeepsCurrent.     (* where(mask, current[idx], new): a padding slot rewrites what is there *)
Inductive output_kind := NewBatchValues.
"""



def norm(src):
    """the canonical unparse of a statement given as source text"""
    return ast.unparse(ast.parse(src).body[0])


def translate(repo):
    path = f"{repo}/src/mdpax/solvers/semi_async_value_iteration.py"
    tree, _ = load_module(path)
    cls = find_class(tree, "SemiAsyncValueIteration")
    outer = next((n for n in cls.body if isinstance(n, ast.FunctionDef) and n.name == "_calculate_updated_value_scan_state_batches"), None)
    if outer is None:
        raise TranslateError("scan method not found")
    body = strip_docstring(outer.body)
    scan = next((n for n in body if isinstance(n, ast.FunctionDef) and n.name == "scan_fn"), None)
    if scan is None:
        fail(outer, "scan_fn not found")
    if [a.arg for a in scan.args.args] != ["carry", "batch_input"]:
        fail(scan, "scan_fn must take (carry, batch_input)")
    st = strip_docstring(scan.body)
    if len(st) != 6:
        fail(scan, f"scan_fn must consist of 6 statements (found {len(st)})")
    u = [ast.unparse(x) for x in st]
    # 1. carry unpacked positionally; the last component is the carried value vector
    s0 = st[0]
    if not (isinstance(s0, ast.Assign) and isinstance(s0.targets[0], ast.Tuple) and ast.unparse(s0.value) == "carry" and len(s0.targets[0].elts) == 4):
        fail(s0, "first statement must unpack the 4-tuple carry")
    names = [e.id for e in s0.targets[0].elts]
    if names[:3] != ["actions", "random_events", "gamma"]:
        fail(s0, "carry must be (actions, random_events, gamma, <values>)")
    cur = names[3]
    # 2. batch and its padding mask
    if u[1] != norm("batch, batch_padding_mask = batch_input"):
        fail(st[1], "second statement must be `batch, batch_padding_mask = batch_input`")
    # 3. backup of the batch against the carried vector
    if u[2] != norm(f"_, new_batch_values = self._calculate_updated_value_state_batch((actions, random_events, gamma, {cur}), batch)"):
        fail(st[2], "the batch must be backed up by _calculate_updated_value_state_batch against the carried values")
    # 4. scatter indices
    if u[3] != norm("batch_indices = self._batch_get_indices(batch)"):
        fail(st[3], "scatter indices must be self._batch_get_indices(batch)")
    # 5. masked scatter
    if u[4] != norm(f"updated_values = {cur}.at[batch_indices].set(jnp.where(batch_padding_mask, {cur}[batch_indices], new_batch_values))"):
        fail(st[4], "the carried vector must be updated by .at[batch_indices].set(where(mask, current[batch_indices], new))")
    # 6. new carry and per-batch output
    if u[5] != norm("return (actions, random_events, gamma, updated_values), new_batch_values"):
        fail(st[5], "scan_fn must return ((actions, random_events, gamma, updated_values), new_batch_values)")
    # the scan itself: over (batched_states, padding_mask), starting from the given carry, result = stacked outputs
    tail = [ast.unparse(x) for x in body if not isinstance(x, ast.FunctionDef)]
    want_tail = [norm(x) for x in ("actions, random_events, gamma, values = carry", "batched_states, padding_mask = batched_input",
                                   "if self.batch_order is not None:\n    batched_states = batched_states[self.batch_order]\n    padding_mask = padding_mask[self.batch_order]",
                                   "_, new_values = jax.lax.scan(scan_fn, carry, (batched_states, padding_mask))", "return new_values")]
    if tail != want_tail:
        fail(outer, "statements around scan_fn differ from: unpack, optional batch_order, lax.scan(scan_fn, carry, (states, mask)), return outputs")
    out = [HEADER,
           "Definition scan_carry : list carry_slot := [CActions; CEvents; CGamma; CValues].",
           "Definition scan_backup_input : backup_input := FromCarriedValues.",
           "Definition scan_index_source : index_source := IdxStateLookup.",
           "Definition scan_masked_write : masked_write := PaddingKeepsCurrent.",
           "Definition scan_output : output_kind := NewBatchValues."]
    return "\n".join(out) + "\n", {"spans": [{"method": f"scan_fn (solvers/semi_async_value_iteration.py:{scan.lineno}-{scan.end_lineno})"}]}
