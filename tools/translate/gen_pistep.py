"""PolicyIteration._iteration_step -> coq/gen/GenPiStep.v (fail-closed): evaluate the current policy, extract the greedy
policy for the NEW values, count the states whose action vector changed.  The count expression is translated operator by
operator (!=, jnp.any / jnp.all along axis 1, .sum()), so `any` and `all` give different Gallina."""
import ast

from .pyexpr import TranslateError, fail, find_class, load_module, strip_docstring

HEADER = """(* GENERATED from PolicyIteration._iteration_step -- do not edit *)
From Coq Require Import ZArith QArith List Bool.
From MdpaxV Require Import Model.PolicyOps.
Import ListNotations.
"""


def count_expr(e):
    """<bool matrix reduced along axis 1>.sum() over new_policy / self.policy"""
    if not (isinstance(e, ast.Call) and isinstance(e.func, ast.Attribute) and e.func.attr == "sum" and not e.args and not e.keywords):
        fail(e, "the count must be <...>.sum()")
    red = e.func.value
    if not (isinstance(red, ast.Call) and ast.unparse(red.func) in ("jnp.any", "jnp.all") and len(red.args) == 1
            and len(red.keywords) == 1 and red.keywords[0].arg == "axis" and ast.unparse(red.keywords[0].value) == "1"):
        fail(red, "the reduction must be jnp.any(..., axis=1) or jnp.all(..., axis=1)")
    cmp_ = red.args[0]
    if not (isinstance(cmp_, ast.Compare) and len(cmp_.ops) == 1 and isinstance(cmp_.ops[0], ast.NotEq)):
        fail(cmp_, "the compared matrix must be `new_policy != self.policy`")
    names = {"new_policy": "new_policy", "self.policy": "policy"}
    l, r = ast.unparse(cmp_.left), ast.unparse(cmp_.comparators[0])
    if l not in names or r not in names or l == r:
        fail(cmp_, "the comparison must be between new_policy and self.policy")
    op = "any_axis1" if ast.unparse(red.func) == "jnp.any" else "all_axis1"
    return f"bsum ({op} (mat_ne {names[l]} {names[r]}))"


def translate(repo):
    path = f"{repo}/src/mdpax/solvers/policy_iteration.py"
    tree, _ = load_module(path)
    cls = find_class(tree, "PolicyIteration")
    fn = next((n for n in cls.body if isinstance(n, ast.FunctionDef) and n.name == "_iteration_step"), None)
    if fn is None:
        raise TranslateError("_iteration_step not found")
    body = strip_docstring(fn.body)
    u = [ast.unparse(s) for s in body]
    if len(body) != 4 or u[0] != "self.values = self._evaluate_policy(self.policy)" or u[1] != "new_policy = self._extract_policy()" \
            or u[3] != ast.unparse(ast.parse("return new_policy, n_changed").body[0]):
        fail(fn, "expected: self.values = self._evaluate_policy(self.policy); new_policy = self._extract_policy(); n_changed = ...; return new_policy, n_changed")
    a = body[2]
    if not (isinstance(a, ast.Assign) and ast.unparse(a.targets[0]) == "n_changed"):
        fail(a, "third statement must assign n_changed")
    cnt = count_expr(a.value)
    out = [HEADER,
           "Definition gen_pi_n_changed (new_policy policy : list (list Z)) : nat :=",
           f"  {cnt}.",
           "(* EVAL = self._evaluate_policy; EXTRACT = self._extract_policy as a function of the values just assigned *)",
           "Definition gen_pi_iteration_step {V} (EVAL : list (list Z) -> V) (EXTRACT : V -> list (list Z)) (policy : list (list Z)) : V * list (list Z) * nat :=",
           "  let values := EVAL policy in",
           "  let new_policy := EXTRACT values in",
           "  let n_changed := gen_pi_n_changed new_policy policy in",
           "  (values, new_policy, n_changed)."]
    return "\n".join(out) + "\n", {"spans": [{"method": f"PolicyIteration._iteration_step (solvers/policy_iteration.py:{fn.lineno}-{fn.end_lineno})"}]}
