"""Forest.transition -> coq/gen/GenForest.v (fail-closed): jnp.where as if-then-else, integer comparisons as booleans,
float literals as rationals, jnp.minimum, one-element state vector."""
import ast
from fractions import Fraction

from .pyexpr import TranslateError, fail, find_class, load_module, strip_docstring

HEADER = """(* GENERATED from src/mdpax/problems/forest.py (Forest.transition) -- do not edit *)
From Coq Require Import ZArith QArith List Bool.
From MdpaxV Require Import Model.Problems Model.ProblemOps.
Import ListNotations.
Open Scope Z_scope.
"""
ZP = {"self.S": "S"}
QP = {"self.r1": "r1", "self.r2": "r2"}


class Tr:
    def __init__(self):
        self.env = {"state": "VZ", "action": "VZ", "random_event": "VZ"}

    def expr(self, e):
        s = ast.unparse(e)
        if s in ZP:
            return ZP[s], "Z"
        if s in QP:
            return QP[s], "Q"
        if isinstance(e, ast.Name):
            if e.id not in self.env:
                fail(e, f"unknown name {e.id}")
            return e.id, self.env[e.id]
        if isinstance(e, ast.Constant) and isinstance(e.value, bool):
            fail(e, "boolean literal not accepted")
        if isinstance(e, ast.Constant) and isinstance(e.value, int):
            return str(e.value), "Z"
        if isinstance(e, ast.Constant) and isinstance(e.value, float):
            fr = Fraction(e.value)
            return f"({fr.numerator} # {fr.denominator})%Q", "Q"
        if isinstance(e, ast.Subscript) and isinstance(e.slice, ast.Constant) and isinstance(e.slice.value, int) and e.slice.value >= 0:
            v, tv = self.expr(e.value)
            if tv != "VZ":
                fail(e, "indexing of a vector only")
            return f"znth ({v}) {e.slice.value}%nat", "Z"
        if isinstance(e, ast.BinOp) and isinstance(e.op, (ast.Add, ast.Sub)):
            l, tl = self.expr(e.left)
            r, tr = self.expr(e.right)
            if (tl, tr) != ("Z", "Z"):
                fail(e, "integer arithmetic only")
            return f"({l} {'+' if isinstance(e.op, ast.Add) else '-'} {r})", "Z"
        if isinstance(e, ast.BinOp) and isinstance(e.op, ast.BitOr):
            l, tl = self.expr(e.left)
            r, tr = self.expr(e.right)
            if (tl, tr) != ("B", "B"):
                fail(e, "| of booleans only")
            return f"({l} || {r})", "B"
        if isinstance(e, ast.Compare) and len(e.ops) == 1 and isinstance(e.ops[0], ast.Eq):
            l, tl = self.expr(e.left)
            r, tr = self.expr(e.comparators[0])
            if (tl, tr) != ("Z", "Z"):
                fail(e, "== of integers only")
            return f"({l} =? {r})", "B"
        if isinstance(e, ast.Call):
            fs = ast.unparse(e.func)
            if isinstance(e.func, ast.Attribute) and e.func.attr == "astype":
                return self.expr(e.func.value)
            if fs == "jnp.where" and len(e.args) == 3:
                c, tc = self.expr(e.args[0])
                a, ta = self.expr(e.args[1])
                b, tb = self.expr(e.args[2])
                if tc != "B":
                    fail(e, "where: the condition must be boolean")
                if ta != tb:
                    # an integer literal next to a rational one is promoted (0 next to 1.0)
                    if {ta, tb} == {"Z", "Q"}:
                        a = a if ta == "Q" else f"(inject_Z {a})"
                        b = b if tb == "Q" else f"(inject_Z {b})"
                        ta = "Q"
                    else:
                        fail(e, f"where: branches of types {ta} / {tb}")
                return f"(if {c} then {a} else {b})", ta
            if fs == "jnp.minimum" and len(e.args) == 2:
                a, ta = self.expr(e.args[0])
                b, tb = self.expr(e.args[1])
                if (ta, tb) != ("Z", "Z"):
                    fail(e, "minimum of integers only")
                return f"Z.min ({a}) ({b})", "Z"
            if fs == "jnp.array" and len(e.args) == 1 and isinstance(e.args[0], ast.List):
                ps = [self.expr(x) for x in e.args[0].elts]
                if any(t != "Z" for _, t in ps):
                    fail(e, "array of integers only")
                return "[" + "; ".join(p for p, _ in ps) + "]", "VZ"
            fail(e, f"call to {fs} not accepted")
        if isinstance(e, ast.Tuple):
            ps = [self.expr(x) for x in e.elts]
            return "(" + ", ".join(p for p, _ in ps) + ")", tuple(t for _, t in ps)
        fail(e, "expression not accepted")


def translate(repo):
    path = f"{repo}/src/mdpax/problems/forest.py"
    tree, _ = load_module(path)
    cls = find_class(tree, "Forest")
    fn = next((n for n in cls.body if isinstance(n, ast.FunctionDef) and n.name == "transition"), None)
    if fn is None:
        raise TranslateError("Forest.transition not found")
    if [a.arg for a in fn.args.args] != ["self", "state", "action", "random_event"]:
        fail(fn, "unexpected signature")
    tr = Tr()
    lets = []
    body = strip_docstring(fn.body)
    for s in body[:-1]:
        if not (isinstance(s, ast.Assign) and len(s.targets) == 1 and isinstance(s.targets[0], ast.Name)):
            fail(s, "only simple assignments may precede the return")
        txt, ty = tr.expr(s.value)
        tr.env[s.targets[0].id] = ty
        lets.append(f"let {s.targets[0].id} := {txt} in")
    r = body[-1]
    if not isinstance(r, ast.Return):
        fail(r, "last statement must be a return")
    txt, ty = tr.expr(r.value)
    if ty != ("VZ", "Q"):
        fail(r, f"transition returns {ty}, expected (state vector, reward)")
    out = [HEADER, "Definition gen_forest_transition (S : Z) (r1 r2 : Q) (state action random_event : list Z) : (list Z * Q)%type :="]
    out += ["  " + x for x in lets] + ["  " + txt + "."]
    return "\n".join(out) + "\n", {"spans": [{"method": f"Forest.transition (problems/forest.py:{fn.lineno}-{fn.end_lineno})"}]}
