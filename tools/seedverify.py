#!/usr/bin/env python3
"""usage: tools/seedverify.py [seeded-id ...]
The prescribed procedure for every stored seeded change: `git -C /repo apply <patch>`, run the quick checks named in its
meta.json against /repo itself, `git -C /repo checkout -- .` straight afterwards.  Results (the check's summary line and
exit status) are written back to meta.json under `verified_on_repo`.  Refuses to run if /repo is not clean."""
import json, pathlib, re, subprocess, sys

SEEDED = pathlib.Path("/verif/seeded")


def clean():
    return subprocess.run(["git", "-C", "/repo", "status", "--porcelain"], capture_output=True, text=True).stdout.strip() == ""


def main():
    import signal

    def bail(signum, frame):       # a stopped run must not leave the patch applied
        subprocess.run(["git", "-C", "/repo", "checkout", "--", "."])
        sys.exit(3)
    signal.signal(signal.SIGTERM, bail)
    signal.signal(signal.SIGINT, bail)
    ids = sys.argv[1:] or sorted(p.name for p in SEEDED.iterdir() if (p / "patch.diff").exists())
    for sid in ids:
        d = SEEDED / sid
        meta = json.loads((d / "meta.json").read_text())
        props = [k for k in meta.get("checks", {}) if re.fullmatch(r"C\d\d", k)]
        if not clean():
            print("/repo has uncommitted changes: refusing")
            sys.exit(2)
        ap = subprocess.run(["git", "-C", "/repo", "apply", str(d / "patch.diff")], capture_output=True, text=True)
        if ap.returncode != 0:
            print(sid, "PATCH DOES NOT APPLY:", ap.stderr[:200])
            meta["verified_on_repo"] = {"error": "patch does not apply to /repo HEAD"}
            (d / "meta.json").write_text(json.dumps(meta, indent=1) + "\n")
            continue
        res = {}
        try:
            for p in props:
                r = subprocess.run(["./check", p, "--tier", "quick"], cwd="/verif", capture_output=True, text=True)
                lines = [ln for ln in r.stdout.splitlines() if ln.startswith("VIOLATION") or ln.startswith(p + " tier")]
                viol = next((ln for ln in lines if ln.startswith("VIOLATION")), None)
                kind = "none" if viol is None else ("no-failing-input-found" if viol.rstrip().endswith("no-failing-input-found") else "concrete")
                res[p] = {"exit": r.returncode, "violation": kind, "summary": next((ln for ln in lines if ln.startswith(p + " tier")), "")}
                print(sid, p, "exit", r.returncode, kind, flush=True)
        finally:
            subprocess.run(["git", "-C", "/repo", "checkout", "--", "."], check=True)
            subprocess.run(["git", "-C", "/repo", "clean", "-fdq", "src"], check=True)
        meta["verified_on_repo"] = {"procedure": "git -C /repo apply patch.diff; ./check <prop> --tier quick (seed 0); git -C /repo checkout -- .", "results": res}
        (d / "meta.json").write_text(json.dumps(meta, indent=1) + "\n")
    print("repo clean afterwards:", clean())


if __name__ == "__main__":
    main()
