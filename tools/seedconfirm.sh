#!/bin/bash
# usage: tools/seedconfirm.sh <worktree> <demo.py> <out.log>
# confirms a seeded change: the repository's pinned test suite passes on the changed worktree, the demonstration
# fails there and passes on /repo.
wt="$1"; demo="$2"; log="$3"
{
  echo "== tests on $wt"
  (cd "$wt" && PYTHONPATH="$wt/src" JAX_PLATFORMS=cpu /venv/bin/python -m pytest -q -p no:cacheprovider --timeout=2400 --continue-on-collection-errors 2>&1 | tail -4)
  echo "== demo on $wt"
  PYTHONPATH="$wt/src" JAX_PLATFORMS=cpu /venv/bin/python "$demo" "$wt" 2>&1 | tail -5; echo "exit=${PIPESTATUS[0]}"
  echo "== demo on /repo"
  PYTHONPATH=/repo/src JAX_PLATFORMS=cpu /venv/bin/python "$demo" /repo 2>&1 | tail -3; echo "exit=${PIPESTATUS[0]}"
} > "$log" 2>&1
