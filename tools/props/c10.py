"""C10 - restore()/load_checkpoint() reproduce the saved solver exactly and completely."""
import concurrent.futures as cf
import itertools
import os
import random
import shutil
from fractions import Fraction as F

from tools.vlib import cases, core, mdpgen, runs, solverun
from tools.props.c09 import SHIPPED

KNOWN_POLICY = "vi-family-restore-drops-stored-policy"
RUNTIME = ("values", "dtype", "values_shape", "iteration", "gain", "history", "hidx", "period", "batch_order")
IMPORTS = "From Coq Require Import QArith List Arith Bool.\nFrom MdpaxV Require Import Model.Restore Model.CorrSolve.\nFrom MdpaxGen Require Import GenRestore.\nImport ListNotations.\n"


def solver_cfg(solver, rng):
    cfg = {"gamma": 1.0 if solver == "rvi" else 0.875, "epsilon": 2.0 ** -30, "max_batch_size": rng.choice([8, 1024])}
    if solver in ("vi", "pi", "savi"):
        cfg["convergence_test"] = rng.choice(["span", "max_diff"])
    if solver == "pvi":
        cfg["period"] = rng.choice([2, 3])
        cfg["clear_value_history_on_convergence"] = False
    if solver == "savi":
        cfg["shuffle_states"] = False
        cfg["random_seed"] = rng.randrange(100)
    if solver == "pi":
        cfg["max_eval_iter"] = rng.choice([3, 7])
    return cfg


def gen(ctx):
    quick = ctx.tier == "quick"
    out = []
    combos = list(itertools.product(["vi", "pi", "rvi", "pvi", "savi"], range(len(SHIPPED))))
    ctx.rng.shuffle(combos)
    if quick:
        # one problem per solver, every problem at least once
        seen_s, seen_p, pick = set(), set(), []
        for s, p in combos:
            if s not in seen_s or p not in seen_p:
                pick.append((s, p))
                seen_s.add(s)
                seen_p.add(p)
            if len(pick) >= 6:
                break
        combos = pick
    for s, p in combos:
        sub = ctx.rng.randrange(10 ** 9)
        rng = random.Random(sub)
        out.append({"seed": sub, "solver": s, "problem": SHIPPED[p], "config": solver_cfg(s, rng), "k": rng.choice([3, 4]),
                    "two_calls": s != "pi" and rng.random() < 0.5, "async": rng.random() < 0.5})
    # directed: retained step numbers that straddle a power of ten (9, 10, 11) - "latest" must be numeric, not lexicographic
    for s, p in [("vi", 0), (ctx.rng.choice(["rvi", "pvi", "savi"]), ctx.rng.choice([0, 1]))]:
        sub = ctx.rng.randrange(10 ** 9)
        rng = random.Random(sub)
        out.append({"seed": sub, "solver": s, "problem": SHIPPED[p], "config": solver_cfg(s, rng), "k": 11, "two_calls": False, "async": rng.random() < 0.5,
                    "straddles_power_of_ten": True})
    # directed: the run CONVERGES inside its budget with the periodic solver's default clear_value_history_on_convergence=True.
    # The checkpoint of the converged step must hold the history the solver had at that iteration (what an identical run that
    # keeps its history holds there) - it is written before the history is released
    for p in ([1] if quick else [0, 1, 3]):
        sub = ctx.rng.randrange(10 ** 9)
        rng = random.Random(sub)
        cfg = {"gamma": 0.875, "epsilon": 2.0 ** 20, "max_batch_size": rng.choice([8, 1024]), "period": rng.choice([2, 3])}
        out.append({"seed": sub, "solver": "pvi", "problem": SHIPPED[p], "config": cfg, "k": 8, "two_calls": False, "async": rng.random() < 0.5, "converges_with_history_cleared": True})
    return out


def canon_cfg(x):
    if isinstance(x, dict):
        return {k: canon_cfg(v) for k, v in x.items() if k not in ("checkpoint_dir",)}
    if isinstance(x, (list, tuple)):
        return [canon_cfg(v) for v in x]
    return x


def compare_state(got, want, skip_policy_none=False):
    for key in RUNTIME:
        if key in want and got.get(key) != want.get(key):
            return f"{key} differs (restored {str(got.get(key))[:80]} vs saved {str(want.get(key))[:80]})"
    if got.get("policy_vectors") != want.get("policy_vectors"):
        return "policy"
    return None


def experiment(ctx, c, idx):
    base = ctx.scratch / f"c10_{idx}"
    d = str(base / "src")
    cfg = dict(c["config"], checkpoint_dir=d, checkpoint_frequency=1, max_checkpoints=3, enable_async_checkpointing=c["async"])
    ops = [["solve", 2], ["solve", c["k"]]] if c["two_calls"] else [["solve", c["k"]]]
    a = core.run_worker(ctx, [{"kind": "ckpt_run", "problem": c["problem"], "solver": c["solver"], "config": cfg, "ops": ops}])[0]
    e = {"A": a, "dir": d}
    if "error" in a:
        return e
    if c.get("converges_with_history_cleared"):
        # the identical run that keeps its history: its state at the final save is what the checkpoint must hold
        e["A_twin"] = core.run_worker(ctx, [{"kind": "ckpt_run", "problem": c["problem"], "solver": c["solver"], "ops": ops,
                                              "config": dict(cfg, checkpoint_dir=d + "_twin", clear_value_history_on_convergence=False)}])[0]
    steps = a["dir"]["steps"]
    jobs = {"default": {"kind": "ckpt_restore", "solver": c["solver"], "dir": d}}
    if len(steps) > 1:
        jobs["explicit"] = {"kind": "ckpt_restore", "solver": c["solver"], "dir": d, "step": steps[0]}
    ov_sets = [{"new_checkpoint_dir": str(base / "new1"), "checkpoint_frequency": 2, "max_checkpoints": 5, "enable_async_checkpointing": not c["async"]},
               {"new_checkpoint_dir": str(base / "new2")}, {"checkpoint_frequency": 3},
               {"new_checkpoint_dir": str(base / "new3"), "checkpoint_frequency": 0}]   # 0 is a value, not "no override"
    if ctx.tier == "thorough":
        keys = [("new_checkpoint_dir", None), ("checkpoint_frequency", 2), ("max_checkpoints", 4), ("enable_async_checkpointing", not c["async"])]
        ov_sets = []
        for mask in range(16):
            ov = {}
            for bit, (k, v) in enumerate(keys):
                if mask >> bit & 1:
                    ov[k] = str(base / f"new_{mask}") if k == "new_checkpoint_dir" else v
            ov_sets.append(ov)
    for i, ov in enumerate(ov_sets):
        # continue (and therefore save) only when later saves go to a NEW directory; otherwise the source would grow
        jobs[f"override{i}"] = {"kind": "ckpt_restore", "solver": c["solver"], "dir": d, "overrides": ov,
                                "ops": [["solve", 1]] if "new_checkpoint_dir" in ov else []}
    jobs["load_route"] = {"kind": "ckpt_restore", "solver": c["solver"], "dir": d, "route": "load", "problem": c["problem"],
                          "config": dict(c["config"], checkpoint_dir=str(base / "load_target"), checkpoint_frequency=1)}
    # malformed directories
    nocfg, nostep, onlytmp = base / "nocfg", base / "nostep", base / "onlytmp"
    shutil.copytree(d, nocfg)
    os.remove(nocfg / "config.yaml")
    for p in (nostep, onlytmp):
        os.makedirs(p)
        shutil.copy(os.path.join(d, "config.yaml"), p / "config.yaml")
    os.makedirs(onlytmp / "7.orbax-checkpoint-tmp")
    jobs["err_nocfg"] = {"kind": "ckpt_restore", "solver": c["solver"], "dir": str(nocfg)}
    jobs["err_nostep"] = {"kind": "ckpt_restore", "solver": c["solver"], "dir": str(nostep)}
    jobs["err_onlytmp"] = {"kind": "ckpt_restore", "solver": c["solver"], "dir": str(onlytmp)}
    # run sequentially those that may write into the source directory, so digests are comparable
    for name in sorted(jobs):
        e[name] = core.run_worker(ctx, [jobs[name]])[0]
    e["jobs"] = {k: {kk: vv for kk, vv in v.items() if kk in ("step", "overrides", "route")} for k, v in jobs.items()}
    return e


def oracle(c, e):
    """returns list of (key, message)"""
    out = []
    a = e["A"]
    if "error" in a:
        return [(f"run:{c['seed']}", f"checkpointed run raised {a['error']}: {a.get('message', '')[:200]}")]
    snaps = {}
    for s in a["saves"]:
        snaps.setdefault(s["step"], s["state"])
    steps = a["dir"]["steps"]
    if c.get("converges_with_history_cleared"):
        tw = e.get("A_twin", {})
        if "error" in tw or tw.get("dir", {}).get("steps") != steps or tw["obs"][-1]["iteration"] != a["obs"][-1]["iteration"] or a["obs"][-1]["iteration"] >= c["k"]:
            return [(f"run:{c['seed']}", f"directed converging run: the run and its history-keeping twin disagree or did not converge ({str(tw)[:200]})")]
        for s in tw["saves"]:
            if s["step"] == steps[-1]:
                snaps[s["step"]] = dict(s["state"])      # expectation for the converged step: the twin's state at its final save

    def check_restored(name, r, step):
        if "error" in r:
            return out.append((f"{name}:{c['seed']}", f"{name}: raised {r['error']}: {r.get('message', '')[:200]}"))
        if r.get("raised"):
            return out.append((f"{name}:{c['seed']}", f"{name}: {r['raised']}: {r.get('message', '')[:200]}"))
        diff = compare_state(r["obs"][0], snaps[step])
        if diff == "policy":
            want = snaps[step]
            if c["solver"] != "pi" and want.get("policy_vectors") is not None and r["obs"][0].get("policy_vectors") is None:
                out.append((KNOWN_POLICY, f"{name}: checkpoint of step {step} holds the policy the solver had, restored solver has policy None"))
            else:
                out.append((f"{name}:{c['seed']}", f"{name}: stored policy differs after restore"))
        elif diff:
            out.append((f"{name}:{c['seed']}", f"{name} (step {step}): {diff}"))
        if canon_cfg(r.get("config")) != canon_cfg(a["config"]) and name in ("default", "explicit"):
            out.append((f"config:{c['seed']}", f"{name}: restored configuration differs from the original: {canon_cfg(r.get('config'))} vs {canon_cfg(a['config'])}"))

    check_restored("default", e["default"], steps[-1])
    if "explicit" in e:
        check_restored("explicit", e["explicit"], steps[0])
    check_restored("load_route", e["load_route"], steps[-1])
    for name in [k for k in e if k.startswith("override")]:
        r = e[name]
        ov = e["jobs"][name]["overrides"]
        check_restored(name, r, steps[-1])
        if "error" in r or r.get("raised"):
            continue
        ck = r["obs"][0]["ckpt"]
        if "checkpoint_frequency" in ov and ck["frequency"] != ov["checkpoint_frequency"]:
            out.append((f"{name}:{c['seed']}", "checkpoint_frequency override not in effect"))
        if "max_checkpoints" in ov and ck["max"] != ov["max_checkpoints"]:
            out.append((f"{name}:{c['seed']}", "max_checkpoints override not in effect"))
        if "enable_async_checkpointing" in ov and ck["async"] != ov["enable_async_checkpointing"]:
            out.append((f"{name}:{c['seed']}", "enable_async_checkpointing override not in effect"))
        if "new_checkpoint_dir" in ov:
            if r["dir_before"]["digest"] != r["dir_after"]["digest"]:
                out.append((f"{name}:{c['seed']}", "restore with a new directory altered the original directory"))
            if ov.get("checkpoint_frequency") == 0:
                if r["new_dir"] and r["new_dir"]["exists"]:
                    out.append((f"{name}:{c['seed']}", "restore with checkpoint_frequency=0 created / wrote the new directory"))
            elif not (r["new_dir"] and r["new_dir"]["exists"] and r["new_dir"]["steps"]):
                out.append((f"{name}:{c['seed']}", "later saves did not go to the new directory"))
        else:
            if r["dir_before"]["steps"] != r["dir_after_restore"]["steps"]:
                out.append((f"{name}:{c['seed']}", "restore changed the set of checkpoints before any new save"))
    for name, want in (("err_nocfg", "FileNotFoundError"), ("err_nostep", "ValueError"), ("err_onlytmp", "ValueError")):
        r = e[name]
        got = r.get("raised") or r.get("error")
        if got != want:
            out.append((f"{name}:{c['seed']}", f"{name}: expected {want}, got {got or 'a solver'}"))
    return out


def coq_items(c, e, k0):
    """the model's decision procedure on the same abstract directories"""
    a = e["A"]
    steps = a["dir"]["steps"]
    lst = "[" + "; ".join(f"{s}%nat" for s in steps) + "]"
    items = []

    def outcome(r):
        if r.get("raised") == "FileNotFoundError":
            return "Fail EFileNotFound"
        if r.get("raised") == "ValueError":
            return "Fail EValueError"
        if r.get("raised") or "error" in r:
            return "Fail EOther"
        return f"Restored {r['obs'][0]['iteration']}%nat"

    def eqb(dec, r):
        want = outcome(r)
        return f"(match {dec}, {want} with Fail EFileNotFound, Fail EFileNotFound => true | Fail EValueError, Fail EValueError => true | Restored x, Restored y => Nat.eqb x y | _, _ => false end)"
    items.append(("", eqb(f"restore_decide {{| d_config := true; d_steps := {lst} |}} None", e["default"])))
    if "explicit" in e:
        items.append(("", eqb(f"restore_decide {{| d_config := true; d_steps := {lst} |}} (Some {steps[0]}%nat)", e["explicit"])))
    items.append(("", eqb(f"load_decide {{| d_config := true; d_steps := {lst} |}} None", e["load_route"])))
    items.append(("", eqb(f"restore_decide {{| d_config := false; d_steps := {lst} |}} None", e["err_nocfg"])))
    items.append(("", eqb("restore_decide {| d_config := true; d_steps := [] |} None", e["err_nostep"])))
    items.append(("", eqb("restore_decide {| d_config := true; d_steps := [] |} None", e["err_onlytmp"])))
    return items


def follow_experiments(ctx, cs, count):
    """a hand-built solver that loads from ITS OWN checkpoint directory while another solver keeps writing there:
    'latest' must be what is on disk now, not what was there when the loading solver was constructed"""
    out = []
    for i, c in enumerate([c for c in cs if c["solver"] in ("vi", "rvi", "pvi", "savi")][:count]):
        d = str(ctx.scratch / f"c10f_{i}" / "ck")
        cfg = dict(c["config"], checkpoint_dir=d, checkpoint_frequency=1, max_checkpoints=4, enable_async_checkpointing=False)
        job = {"kind": "ckpt_follow", "problem": c["problem"], "solver": c["solver"], "config": cfg, "k1": 2, "k2": 2}
        out.append((c, job, core.run_worker(ctx, [job])[0]))
    return out


def reconfigure_experiments(ctx, cs, count):
    """a second, hand-built solver with a DIFFERENT configuration (tolerance, cadence, retention) is pointed at a directory that
    already holds a run, loads it and continues saving there; restore(directory) afterwards must rebuild THAT solver - the one
    whose checkpoints are the latest in the directory - configuration included"""
    out = []
    for i, c in enumerate([c for c in cs if c["solver"] in ("vi", "rvi", "pvi", "savi")][:count]):
        d = str(ctx.scratch / f"c10c_{i}" / "ck")
        cfg_a = dict(c["config"], checkpoint_dir=d, checkpoint_frequency=1, max_checkpoints=1, enable_async_checkpointing=False)
        cfg_b = dict(c["config"], checkpoint_dir=d, checkpoint_frequency=2, max_checkpoints=3, enable_async_checkpointing=False, epsilon=c["config"]["epsilon"] / 4)
        a = core.run_worker(ctx, [{"kind": "ckpt_run", "problem": c["problem"], "solver": c["solver"], "config": cfg_a, "ops": [["solve", 2]]}])[0]
        if "error" in a:
            out.append((c, {"error": a["error"], "message": a.get("message")}, None, None))
            continue
        b = core.run_worker(ctx, [{"kind": "ckpt_restore", "solver": c["solver"], "dir": d, "route": "load", "problem": c["problem"], "config": cfg_b, "ops": [["solve", 4]]}])[0]
        r = core.run_worker(ctx, [{"kind": "ckpt_restore", "solver": c["solver"], "dir": d}])[0]
        out.append((c, b, r, {"cfg_a": cfg_a, "cfg_b": cfg_b}))
    return out


def reconfigure_oracle(c, b, r):
    for x, who in ((b, "second solver"), (r, "restore")):
        if x is None or "error" in x or x.get("raised"):
            return f"{who} failed: {(x or {}).get('error') or (x or {}).get('raised')}: {(x or {}).get('message', '')[:200]}"
    if canon_cfg(r.get("config")) != canon_cfg(b.get("config")):
        diff = {k: (canon_cfg(r["config"]).get(k), canon_cfg(b["config"]).get(k)) for k in canon_cfg(b["config"]) if canon_cfg(r["config"]).get(k) != canon_cfg(b["config"]).get(k)}
        return f"restore(directory) rebuilt a solver whose configuration is not that of the solver that wrote the latest checkpoints: {str(diff)[:300]}"
    why = compare_state(r["obs"][0], b["obs"][-1])
    if why and why != "policy":
        return f"restore(directory) after a reconfigured continuation: {why}"
    return None


def follow_oracle(c, r):
    if "error" in r or r.get("raised"):
        return f"following a directory that another solver writes to failed: {r.get('error') or r.get('raised')}: {r.get('message', '')[:200]}"
    w = r["writer"][-1]
    for who in ("second", "fresh"):
        got = r[who]
        for key in RUNTIME:
            if key in w and got.get(key) != w.get(key):
                return (f"load_checkpoint(latest) by the {'solver that was built on this directory before the last saves' if who == 'second' else 'freshly built solver'} "
                        f"restored {key} of iteration {got.get('iteration')} while the latest completed step is {max(r['steps'])} (iteration {w.get('iteration')})")
    return None


def run(ctx, build):
    cs = gen(ctx)
    with cf.ThreadPoolExecutor(max_workers=6) as ex:
        exps = list(ex.map(lambda ic: experiment(ctx, ic[1], ic[0]), enumerate(cs)))
    corr, viols, items, meta = [], [], [], []
    n_restores = 0
    n_follow = 0
    n_reconf = 0
    for c, b, r, cfgs in reconfigure_experiments(ctx, cs, 1 if ctx.tier == "quick" else 8):
        n_reconf += 1
        why = reconfigure_oracle(c, b, r)
        if why:
            viols.append({"key": f"reconfigure:{c['seed']}", "what": why, "input": {"case": c, "reconfigure": cfgs}})
    for c, job, r in follow_experiments(ctx, cs, 2 if ctx.tier == "quick" else 12):
        n_follow += 1
        why = follow_oracle(c, r)
        if why:
            viols.append({"key": f"follow:{c['seed']}", "what": why, "input": {"case": c, "follow_job": job}})
    for c, e in zip(cs, exps):
        for key, msg in oracle(c, e):
            viols.append({"key": key, "what": msg, "input": {"case": c}})
        n_restores += sum(1 for k in e if k not in ("A", "dir", "jobs"))
        if "error" not in e["A"]:
            its = coq_items(c, e, len(items))
            items += its
            meta += [c] * len(its)
    if build["model_ok"]:
        failing, errs = cases.coq_bools(ctx, "c10", items, imports=IMPORTS, shard=60)
        for er in errs:
            corr.append({"what": "model evaluation failed", "detail": er})
        for i in failing:
            corr.append({"what": "model decision (error kind / chosen step) and implementation disagree", "seed": meta[i]["seed"], "input": {"case": meta[i]}})
    cov = {
        "evaluations": n_restores + n_follow + n_reconf, "reconfigured_continuation_experiments": n_reconf, "follow_while_another_solver_writes_experiments": n_follow, "distinct_nontrivial": len({(c["solver"], c["problem"]["kind"], c["seed"]) for c in cs}) * 2,
        "rule": "solver x shipped problem (small parameterisations incl. Mirjalili's tuple-valued parameters, non-default seeds/period): fresh process saves with frequency 1 / retention 3, "
                "then fresh processes restore by restore() default step, explicit older step, override combinations, load_checkpoint(), and from malformed directories; "
                "runtime fields compared bit for bit (dtype and shape included) with what the saving process held at that save call; non-trivial = every restore that reads a real checkpoint",
        "samples": [{"solver": c["solver"], "problem": c["problem"]["kind"], "two_solve_calls": c["two_calls"], "async": c["async"], "steps": e["A"].get("dir", {}).get("steps")} for c, e in list(zip(cs, exps))[:6]],
        "traces_validated_against_impl": len(items),
    }
    return {"coverage": cov, "corr_failures": corr, "impl_violations": viols,
            "assumptions": ["Hydra/OmegaConf serialisation and Orbax decoding against a template are third-party contracts: validated here by execution, modelled (Model/Restore.v orbax_restore_leaf), not proved"]}


def search(ctx, build, res, time_budget=60):
    return []


def replay(ctx, build, data):
    inp = data.get("violation", {}).get("input")
    if not inp:
        return {"fails": False, "note": "no concrete input"}
    c = inp["case"]
    if "reconfigure" in inp:
        for cc, b, r, _ in reconfigure_experiments(ctx, [c], 1):
            why = reconfigure_oracle(cc, b, r)
            return {"fails": bool(why), "why": why}
    if "follow_job" in inp:
        why = follow_oracle(c, core.run_worker(ctx, [inp["follow_job"]])[0])
        return {"fails": bool(why), "why": why}
    e = experiment(ctx, c, 998)
    msgs = oracle(c, e)
    return {"fails": bool(msgs), "why": msgs[:3]}
