"""C17 - explicit matrices describe the same MDP as the functional description."""
import random
import time
from fractions import Fraction as F

from tools.vlib import cases, core, mdpgen, solverun
from tools.vlib.cases import coq_mdp
from tools.vlib.core import natlit, qlist, qlit

IMPORTS = ("From Coq Require Import QArith List Arith Bool ZArith.\n"
           "From MdpaxV Require Import Model.ListUtil Model.QFun Model.MDP Model.Bellman Model.Matrices Model.CorrSolve.\nImport ListNotations.\n")


def gen(ctx, count):
    out = []
    for _ in range(count):
        sub = ctx.rng.randrange(10 ** 9)
        rng = random.Random(sub)
        fam = rng.choice(["tab", "tab", "dim", "ties", "absorb", "det"])
        nE = rng.choice([1, 2, 3, 4])
        nS = rng.randint(1, 5)
        spec = mdpgen.gen_mdp(rng, family=fam, nS=nS, nE=nE)
        # force several events into the same successor somewhere
        if nE >= 2:
            s, a = rng.randrange(nS), rng.randrange(spec["nA"])
            spec["nxt"][s][a] = [spec["nxt"][s][a][0]] * nE
            if fam == "ties":
                for a2 in range(spec["nA"]):
                    if spec["actions"][a2] == spec["actions"][a]:
                        spec["nxt"][s][a2] = list(spec["nxt"][s][a])
        kind = rng.choice(["ok", "ok", "ok", "big_dev", "small_dev"])
        tol = rng.choice([F(1, 2 ** 13), F(1, 2 ** 13), F(0), F(0), F(1, 2), F(1, 2 ** 30)])
        tol_as_int = tol == 0 and rng.random() < 0.5
        if kind != "ok":
            s, a = rng.randrange(nS), rng.randrange(spec["nA"])
            delta = F(1, 8) if kind == "big_dev" else F(1, 2 ** 20)
            sign = rng.choice([1, -1])
            rows = [a2 for a2 in range(spec["nA"]) if spec["actions"][a2] == spec["actions"][a]]
            p0 = F(spec["prb"][s][a][0])
            if p0 + sign * delta < 0:
                sign = 1
            for a2 in rows:
                spec["prb"][s][a2][0] = str(F(spec["prb"][s][a2][0]) + sign * delta)
        # a third of the cases: the same problem object was already asked for its matrices with LOOSER tolerances (1, then 1/2)
        out.append({"seed": sub, "spec": spec, "tol": str(tol), "tol_as_int": tol_as_int, "kind": kind, "pre_tols": [1.0, 0.5] if rng.random() < 0.34 else []})
    return out


def gen_large(ctx, count):
    """more than a thousand states (1025 .. 2100, never a multiple of 1024), exact rows: any block-wise / chunked construction has a
    last partial block.  Only the non-zero entries are compared (sparse), against the same independent accumulation"""
    out = []
    for i in range(count):
        sub = ctx.rng.randrange(10 ** 9)
        rng = random.Random(sub)
        nS = rng.choice([1025, 1030 + rng.randrange(60), 1500 + rng.randrange(40), 2049 + rng.randrange(50)]) if i else 1025 + rng.randrange(1, 40)
        spec = mdpgen.gen_mdp(rng, family="tab", nS=nS, nA=2, nE=rng.choice([1, 2, 3]), denom=4, dims=(2, 1, 1))
        out.append({"seed": sub, "spec": spec, "tol": str(F(1, 2 ** 13)), "tol_as_int": False, "kind": "ok", "pre_tols": [], "large": True})
    return out


def oracle_large(c, r):
    if "error" in r:
        return f"builder raised {r['error']}: {r.get('message', '')[:200]}"
    if r.get("error_kind"):
        return f"ValueError raised although every row sums to one exactly: {r.get('message')}"
    spec = c["spec"]
    nS, nA, nE = spec["nS"], spec["nA"], spec["nE"]
    if r["pshape"] != [nA, nS, nS] or r["rshape"] != [nS, nA]:
        return f"matrix shapes are {r['pshape']} / {r['rshape']} for {nS} states and {nA} actions"
    want = {}
    for s in range(nS):
        for a in range(nA):
            for e in range(nE):
                p = F(spec["prb"][s][a][e])
                if p:
                    k = (a, s, spec["nxt"][s][a][e])
                    want[k] = want.get(k, F(0)) + p
    got = {tuple(k): v for k, v in zip(r["nz"], solverun.fracs(r["nzv"]))}
    if got != want:
        bad = sorted(set(got.items()) ^ set(want.items()))[:1]
        (a, s, j), _ = bad[0]
        return (f"{nS} states: transition entry (action {a}, state {s}, successor {j}) is {got.get((a, s, j), 0)}, the events leading there have total probability "
                f"{want.get((a, s, j), 0)} ({len(set(got.items()) ^ set(want.items()))} entries differ)")
    for s in range(nS):
        for a in range(nA):
            if F(r["R"][s][a]) != sum(F(spec["prb"][s][a][e]) * F(spec["rew"][s][a][e]) for e in range(nE)):
                return f"{nS} states: reward entry (state {s}, action {a}) differs from the expected immediate reward"
    return None


def expected(c):
    """independent accumulation in Fractions (the property's own definition)"""
    spec = c["spec"]
    nS, nA, nE = spec["nS"], spec["nA"], spec["nE"]
    P = [[[F(0)] * nS for _ in range(nS)] for _ in range(nA)]
    R = [[F(0)] * nA for _ in range(nS)]
    for s in range(nS):
        for a in range(nA):
            for e in range(nE):
                p = F(spec["prb"][s][a][e])
                P[a][s][spec["nxt"][s][a][e]] += p
                R[s][a] += p * F(spec["rew"][s][a][e])
    dev = [(abs(sum(P[a][s]) - 1), a, s) for a in range(nA) for s in range(nS)]
    worst = max(d[0] for d in dev)
    if worst > F(c["tol"]):
        first = next((a, s) for d, a, s in dev if d == worst)
        return {"error": first, "worst": worst}
    for a in range(nA):
        for s in range(nS):
            rs = sum(P[a][s])
            P[a][s] = [x / (rs if rs > 0 else 1) for x in P[a][s]]
    return {"P": P, "R": R}


def oracle(c, r):
    if "error" in r:
        return f"builder raised {r['error']}: {r.get('message', '')[:200]}"
    want = expected(c)
    if "error" in want:
        if r.get("error_kind") != "ValueError":
            return f"row deviates from one by {want['worst']} > tolerance but no ValueError was raised"
        if (r.get("action"), r.get("state")) != want["error"]:
            return f"ValueError names (action {r.get('action')}, state {r.get('state')}), the worst pair is (action, state) = {want['error']}"
        return None
    if r.get("error_kind"):
        return f"ValueError raised although every row is within the tolerance: {r.get('message')}"
    P = [[solverun.fracs(row) for row in Pa] for Pa in r["P"]]
    R = [solverun.fracs(row) for row in r["R"]]
    spec = c["spec"]
    if r["pshape"] != [spec["nA"], spec["nS"], spec["nS"]] or r["rshape"] != [spec["nS"], spec["nA"]]:
        return "matrix shapes are wrong"
    exact_rows = all(sum(F(x) for x in spec["prb"][s][a]) == 1 for s in range(spec["nS"]) for a in range(spec["nA"]))
    if exact_rows:
        if P != want["P"]:
            return "transition entries differ from the total probability of the events leading to each successor"
        if R != want["R"]:
            return "reward entries differ from the expected immediate reward"
    else:
        for a in range(spec["nA"]):
            for s in range(spec["nS"]):
                if abs(sum(P[a][s]) - 1) > F(1, 10 ** 9):
                    return f"returned row (action {a}, state {s}) does not sum to one"
    return None


def coq_item(c, r, k):
    pre = f"Definition M{k} := {coq_mdp(c['spec'])}.\n"
    tol = qlit(c["tol"])
    if r.get("error_kind"):
        t = f"(match build M{k} {tol} with BuildError a s => Nat.eqb a {natlit(r['action'])} && Nat.eqb s {natlit(r['state'])} | _ => false end)"
    else:
        exact_rows = all(sum(F(x) for x in c["spec"]["prb"][s][a]) == 1 for s in range(c["spec"]["nS"]) for a in range(c["spec"]["nA"]))
        if not exact_rows:
            # division by a non-dyadic row sum is rounded in floating point: compare the decision only
            t = f"(match build M{k} {tol} with BuildOk _ _ => true | _ => false end)"
        else:
            P = "[" + "; ".join("[" + "; ".join(qlist(row) for row in Pa) + "]" for Pa in r["P"]) + "]"
            R = "[" + "; ".join(qlist(row) for row in r["R"]) + "]"
            t = (f"(match build M{k} {tol} with BuildOk P R => "
                 f"forallb (fun ab => qll_eqb (fst ab) (snd ab)) (combine P {P}) && Nat.eqb (length P) {natlit(len(r['P']))} && qll_eqb R {R} | _ => false end)")
    return pre, t


def run(ctx, build):
    cs = gen(ctx, 60 if ctx.tier == "quick" else 1200)
    res = core.run_workers(ctx, [{"kind": "build_matrices", "problem": c["spec"], "tol": (0 if c.get("tol_as_int") else solverun.fl(c["tol"])), "pre_tols": c.get("pre_tols", [])} for c in cs])
    corr, viols, items, meta = [], [], [], []
    kinds = {}
    for c, r in zip(cs, res):
        kinds[c["kind"]] = kinds.get(c["kind"], 0) + 1
        why = oracle(c, r)
        if why:
            viols.append({"key": f"matrix:{c['seed']}", "what": why, "input": {"case": c}})
        if "error" not in r:
            items.append(coq_item(c, r, len(items)))
            meta.append(c)
    large = gen_large(ctx, 2 if ctx.tier == "quick" else 12)
    lres = core.run_workers(ctx, [{"kind": "build_matrices", "problem": c["spec"], "tol": solverun.fl(c["tol"]), "sparse": True} for c in large])
    for c, r in zip(large, lres):
        why = oracle_large(c, r)
        if why:
            viols.append({"key": f"matrix-large:{c['seed']}", "what": why, "input": {"case": c}})
    if build["model_ok"]:
        failing, errs = cases.coq_bools(ctx, "c17", items, imports=IMPORTS, shard=20)
        for e in errs:
            corr.append({"what": "model evaluation failed", "detail": e})
        for i in failing:
            corr.append({"what": "model and build_transition_and_reward_matrices disagree", "seed": meta[i]["seed"], "input": {"case": meta[i]}})
    nontriv = {solverun.case_id([c["spec"]["nxt"], c["spec"]["rew"], c["spec"]["prb"], c["tol"]]) for c in cs
               if any(len(set(row)) < len(row) for rs in c["spec"]["nxt"] for row in rs)}
    cov = {
        "evaluations": len(cs) + len(large), "problems_with_more_than_1024_states": [c["spec"]["nS"] for c in large], "distinct_nontrivial": len(nontriv), "kinds": kinds,
        "rule": "generated tabular problems (1-3 dimensional vectors, duplicated action rows, single-event problems, scalar / 1-element-array probabilities) with colliding successors; "
                "rows exact, off by 1/8 (> tolerance) or by 2^-20 (< tolerance 2^-13); non-trivial = at least two events of one (s,a) lead to the same successor",
        "samples": [{"seed": c["seed"], "kind": c["kind"], "nS": c["spec"]["nS"], "nA": c["spec"]["nA"], "nE": c["spec"]["nE"], "prob_as_array": c["spec"]["prob_as_array"]} for c in cs[:6]],
        "traces_validated_against_impl": len(items),
    }
    return {"coverage": cov, "corr_failures": corr, "impl_violations": viols,
            "assumptions": ["x64 enabled before building (the builder computes in the default float precision); renormalisation by a non-dyadic row sum is compared as a decision, not bitwise"]}


def search(ctx, build, res, time_budget=60):
    cs = gen(ctx, 40)
    rr = core.run_workers(ctx, [{"kind": "build_matrices", "problem": c["spec"], "tol": (0 if c.get("tol_as_int") else solverun.fl(c["tol"])), "pre_tols": c.get("pre_tols", [])} for c in cs])
    for c, r in zip(cs, rr):
        why = oracle(c, r)
        if why:
            return [{"key": f"matrix:{c['seed']}", "what": why, "input": {"case": c}}]
    return []


def replay(ctx, build, data):
    inp = data.get("violation", {}).get("input")
    if not inp:
        return {"fails": False, "note": "no concrete input"}
    c = inp["case"]
    if c.get("large"):
        r = core.run_workers(ctx, [{"kind": "build_matrices", "problem": c["spec"], "tol": solverun.fl(c["tol"]), "sparse": True}])[0]
        why = oracle_large(c, r)
        return {"fails": bool(why), "why": why}
    r = core.run_workers(ctx, [{"kind": "build_matrices", "problem": c["spec"], "tol": (0 if c.get("tol_as_int") else solverun.fl(c["tol"])), "pre_tols": c.get("pre_tols", [])}])[0]
    why = oracle(c, r)
    return {"fails": bool(why), "why": why}
