"""C08 - stopping rule, iteration accounting and composability of solve()."""
import time
from fractions import Fraction as F

from tools.vlib import cases, core, mdpgen, refsolve, runs, solverun

KNOWN_PVI_CLEAR = "pvi-solve-after-history-cleared"
KS = [[2, 3], [1, 1, 4], [3, 2, 2], [5, 5], [1, 6], [4], [2, 2, 2, 2], [9]]


def gen(ctx, per):
    cs = []
    for solver in ("vi", "rvi", "pvi", "savi", "pi"):
        for i in range(per):
            got = runs.generate(ctx, solver, 1, ks=KS[(i + len(cs)) % len(KS)])
            cs += got
        if per >= 4:
            cs += runs.directed(ctx, solver, per <= 4)
    # always in the stream: the history of the open known finding (periodic VI with the default clear_value_history_on_convergence,
    # a call that converges, then another call) - so the finding is re-established, or found repaired, on every run
    cs += runs.generate(ctx, "pvi", 1, ks=[8, 2], clear=True, eps=F(2 ** 12), family="det", max_tries=60,
                        accept=lambda c, r: r[0]["converged"])
    return cs


def oracle(c, r, refout, single=None):
    """property predicate on the implementation alone (reference iteration written independently)"""
    if "error" in r:
        if (c["solver"] == "pvi" and c.get("clear") and r["error"] == "TypeError" and "NoneType" in r.get("message", "")
                and any(x["converged"] for x in refout[:-1])):
            return ("KNOWN:" + KNOWN_PVI_CLEAR)
        return f"{c['solver']} raised {r['error']}: {r.get('message', '')[:200]}"
    obs = r["obs"]
    prev = 0
    for j, (k, o) in enumerate(zip(c["ks"], obs[1:])):
        if not (prev <= o["iteration"] <= prev + k):
            return f"solve call {j + 1} (limit {k}) moved the iteration count from {prev} to {o['iteration']}"
        if o.get("returned_iteration") != o["iteration"] or not o.get("returned_values_equal_attr", True):
            return f"solve call {j + 1}: returned state differs from the solver's attributes"
        prev = o["iteration"]
    diff = runs.compare_with_reference(c, r, refout)
    if diff:
        return diff
    if single is not None and "error" not in single:
        # composability: the sequence equals one solve(sum k) provided no earlier call converged
        if not any(x["converged"] for x in refout[:-1]):
            a, b = obs[-1], single["obs"][-1]
            for key in ("values", "iteration", "policy", "gain", "history", "hidx"):
                if a.get(key) != b.get(key):
                    return f"solve({'+'.join(map(str, c['ks']))}) as a sequence differs from a single call in {key}"
    return None


def run(ctx, build):
    per = 4 if ctx.tier == "quick" else 200
    cs = gen(ctx, per)
    singles = []
    for c in cs:
        s = dict(c)
        s["ks"] = [sum(c["ks"])]
        singles.append(s)
    res = core.run_workers(ctx, [runs.job_of(c) for c in cs] + [runs.job_of(s) for s in singles])
    res_seq, res_single = res[:len(cs)], res[len(cs):]
    corr, viols, items, meta = [], [], [], []
    after_conv = 0
    for c, r, rs in zip(cs, res_seq, res_single):
        perms = None
        if "error" not in r and c["solver"] == "savi":
            perms = r["obs"][-1].get("perms")
            if c.get("shuffle") and perms is None:
                continue
        refout, guard = runs.reference(c, perms=perms)
        if not guard["ok"]:
            continue
        if any(x["converged"] for x in refout[:-1]):
            after_conv += 1
        # shuffled runs too: the permutation stream is a function of random_seed and the sweep number only, so the sequence of
        # calls and the single call (two fresh processes, same seed) must agree
        single = rs
        why = oracle(c, r, refout, single)
        if why and why.startswith("KNOWN:"):
            viols.append({"key": why[6:], "what": "PeriodicValueIteration.solve() raises TypeError when called again after a converged call cleared the value history", "input": {"case": c}})
        elif why:
            viols.append({"key": f"history:{c['solver']}:{c['seed']}", "what": why, "input": {"case": c}})
        if "error" not in r:
            items.append(runs.coq_item(c, r, len(items), perms=perms))
            meta.append(c)
    if build["model_ok"]:
        failing, errs = cases.coq_bools(ctx, "c08", items, shard=8)
        for e in errs:
            corr.append({"what": "model evaluation failed", "detail": e})
        for i in failing:
            corr.append({"what": "model and implementation disagree on a history of solve() calls", "solver": meta[i]["solver"], "seed": meta[i]["seed"],
                         "input": {"case": meta[i]}})
    nontriv = {solverun.case_id([c["spec"]["nxt"], c["spec"]["rew"], c["spec"]["prb"], c["solver"], c["ks"], c["g"], c["eps"]]) for c in cs if len(c["ks"]) > 1}
    cov = {
        "evaluations": len(cs) + len(singles), "distinct_nontrivial": len(nontriv),
        "rule": "generated MDP x solver (VI, RVI, periodic, semi-async, PI) x history of solve(k_i) calls; each history also run as one solve(sum k); "
                "non-trivial = at least two calls; distinct by hash of tables + solver + history + gamma + epsilon",
        "histories_continuing_after_convergence": after_conv,
        "samples": [{"solver": c["solver"], "seed": c["seed"], "ks": c["ks"], "gamma": c["g"], "eps": c["eps"], "family": c["spec"]["family"]} for c in cs[:6]],
        "traces_validated_against_impl": len(items),
    }
    return {"coverage": cov, "corr_failures": corr, "impl_violations": viols,
            "assumptions": ["positive limits only (solve(0) is outside the property)"]}


def search(ctx, build, res, time_budget=60):
    t0 = time.time()
    while time.time() - t0 < time_budget:
        cs = gen(ctx, 2)
        singles = [dict(c, ks=[sum(c["ks"])]) for c in cs]
        rr = core.run_workers(ctx, [runs.job_of(c) for c in cs + singles])
        for c, r, rs in zip(cs, rr[:len(cs)], rr[len(cs):]):
            perms = r["obs"][-1].get("perms") if ("error" not in r and c["solver"] == "savi") else None
            if c["solver"] == "savi" and c.get("shuffle") and perms is None:
                continue
            refout, guard = runs.reference(c, perms=perms)
            if not guard["ok"]:
                continue
            why = oracle(c, r, refout, rs)
            if why and not why.startswith("KNOWN:"):
                return [{"key": f"history:{c['solver']}:{c['seed']}", "what": why, "input": {"case": c}}]
    return []


def replay(ctx, build, data):
    inp = data.get("violation", {}).get("input")
    if not inp:
        return {"fails": False, "note": "no concrete input"}
    c = inp["case"]
    s = dict(c, ks=[sum(c["ks"])])
    r, rs = core.run_workers(ctx, [runs.job_of(c), runs.job_of(s)])
    perms = r["obs"][-1].get("perms") if ("error" not in r and c["solver"] == "savi") else None
    refout, _ = runs.reference(c, perms=perms)
    why = oracle(c, r, refout, rs)
    return {"fails": bool(why), "why": why}
