"""C07 - periodic value iteration: plain VI iterates with the documented period-span stop."""
import random
import time
from fractions import Fraction as F

from tools.vlib import cases, core, mdpgen, refsolve, runs, solverun


def gen(ctx):
    quick = ctx.tier == "quick"
    n = 5 if quick else 400
    cs = []
    # gamma = 1: periodic chains (period d) and unichain models; long runs on deterministic models wrap the buffer many times
    for period in (2, 3, 4):
        cs += runs.generate(ctx, "pvi", max(1, n // 3), g=F(1), family="periodic", nS=period, period=period, ks=[4 * period + 3], clear=False, eps=F(1, 4), init="zero")
    cs += runs.generate(ctx, "pvi", n, g=F(1), family="det", ks=[25], clear=False)
    cs += runs.generate(ctx, "pvi", n, g=F(1), family="unichain", ks=[8], clear=False)
    # discounted: division by gamma^k is exact for powers of two
    cs += runs.generate(ctx, "pvi", n, gammas=[F(1, 2), F(1, 4)], ks=[9], clear=False)
    cs += runs.generate(ctx, "pvi", n, gammas=[F(1, 2)], family="det", ks=[20], clear=False)
    # history clearing on, several calls
    cs += runs.generate(ctx, "pvi", n, gammas=[F(1, 2), F(1)], ks=[9], clear=True)
    # several calls with clearing on, where no call but the last converges (solve() after a cleared history is C08's finding)
    cs += runs.generate(ctx, "pvi", max(1, n // 2), gammas=[F(1, 2), F(1)], ks=[2, 5], clear=True, accept=lambda c, r: not r[0]["converged"])
    cs += near_one_cases(ctx, 2 if quick else 12)
    return cs


def near_one_cases(ctx, count):
    """gamma within 1e-5 of one is NOT one: the documented measure divides by gamma^(j-1).  period = 1, two sweeps, epsilon placed
    between span(V2 - V1) and span(V2 - V1)/gamma (they differ by 7.6e-6 relative, far above the exactness margin): the documented
    rule does not stop at sweep 2, an undiscounted measure would - visible through the cleared history"""
    out = []
    g = runs.NEAR_ONE
    tries = 0
    while len(out) < count and tries < count * 60:
        tries += 1
        sub = ctx.rng.randrange(10 ** 9)
        rng = random.Random(sub)
        c = runs.gen_run_case(rng, "pvi", family="det", g=g, period=1, ks=[2], clear=True, rscale=0, init="zero", eps=F(1))
        ref = mdpgen.Ref(c["spec"])
        v0 = runs.init_values(c["spec"])
        v1 = ref.sweep(v0, g)
        v2 = ref.sweep(v1, g)
        d1 = [a - b for a, b in zip(v1, v0)]
        d2 = [a - b for a, b in zip(v2, v1)]
        s1, plain2 = max(d1) - min(d1), max(d2) - min(d2)
        doc2 = plain2 / g
        if plain2 <= 0:
            continue
        eps = F(float((plain2 + doc2) / 2))
        if not (plain2 < eps < doc2 and s1 > eps * F(1001, 1000)):
            continue
        c["eps"] = str(eps)
        c["seed"] = sub
        try:
            refout, guard = runs.reference(c)
        except (ZeroDivisionError, OverflowError):
            continue
        if guard["ok"] and not refout[-1]["converged"]:
            c["guard"] = guard
            out.append(c)
    return out


def oracle(c, r, refout):
    if "error" in r:
        return f"PeriodicValueIteration raised {r['error']}: {r.get('message', '')[:200]}"
    diff = runs.compare_with_reference(c, r, refout)  # reference keeps ALL iterates (no circular buffer)
    if diff:
        return diff
    spec = c["spec"]
    ref = mdpgen.Ref(spec)
    g, eps = F(c["g"]), F(c["eps"])
    last = r["obs"][-1]
    vals = solverun.fracs(last["values"])
    for s, a in enumerate(last["policy"]):
        qs = [ref.q(vals, s, b, g) for b in range(spec["nA"])]
        if qs[a] != max(qs):
            return f"returned policy is not greedy for the returned values at state {s}"
    if refout[-1]["converged"] and last["iteration"] < c["period"]:
        return "stopped before a full period had elapsed"
    if refout[-1]["converged"] and g == 1 and last.get("history") is not None:
        # average reward bound against the exact optimal gain (unichain models only)
        try:
            gstar, _, _ = ref.optimal_gain()
        except ZeroDivisionError:
            return None
        hist = [solverun.fracs(h) for h in last["history"]]
        p = c["period"]
        old = hist[(last["hidx"] + 1) % (p + 1)]
        for a, b in zip(vals, old):
            if not abs((a - b) / p - gstar) < eps / p:
                return f"(V_n - V_(n-p))/p = {(a - b) / p} is not within eps/p of the optimal average reward {gstar}"
    return None


def run(ctx, build):
    cs = gen(ctx)
    res = core.run_workers(ctx, [runs.job_of(c) for c in cs])
    corr, viols, items, meta = [], [], [], []
    wraps = 0
    n_conv = 0
    for c, r in zip(cs, res):
        refout, guard = runs.reference(c)
        why = oracle(c, r, refout)
        if why:
            viols.append({"key": f"pvi:{c['seed']}", "what": why, "input": {"case": c}})
        if refout[-1]["converged"]:
            n_conv += 1
        if refout[-1]["iteration"] >= 5 * (c["period"] + 1):
            wraps += 1
        if "error" not in r:
            items.append(runs.coq_item(c, r, len(items)))
            meta.append(c)
    if build["model_ok"]:
        failing, errs = cases.coq_bools(ctx, "c07", items, shard=6)
        for e in errs:
            corr.append({"what": "model evaluation failed", "detail": e})
        for i in failing:
            corr.append({"what": "model and PeriodicValueIteration disagree", "seed": meta[i]["seed"], "input": {"case": meta[i]}})
    nontriv = {solverun.case_id([c["spec"]["nxt"], c["spec"]["rew"], c["spec"]["prb"], c["period"], c["g"], c["eps"], c["ks"]]) for c in cs if c["spec"]["nS"] >= 2}
    cov = {
        "evaluations": len(cs), "distinct_nontrivial": len(nontriv), "converged_runs": n_conv, "runs_wrapping_buffer_5_times": wraps,
        "rule": "generated MDPs x period 1..5 (>= 2 when gamma = 1) x gamma in {1, 1/2, 1/4} x history clearing; periodic cycles of length = period; "
                "values, policy, iteration, history_index and the whole value_history buffer compared exactly; non-trivial = at least 2 states",
        "samples": [{"seed": c["seed"], "family": c["spec"]["family"], "period": c["period"], "gamma": c["g"], "eps": c["eps"], "ks": c["ks"], "clear": c.get("clear")} for c in cs[:6]],
        "traces_validated_against_impl": len(items),
    }
    return {"coverage": cov, "corr_failures": corr, "impl_violations": viols,
            "assumptions": ["gamma other than powers of two make the division by gamma^k inexact in floating point: outside the exact regime, not compared",
                            "the suite's only periodic-VI test needs ~117 GB and never runs in this sandbox"]}


def search(ctx, build, res, time_budget=60):
    cs = runs.generate(ctx, "pvi", 6, g=F(1), family="det", ks=[30], clear=False) + runs.generate(ctx, "pvi", 6, gammas=[F(1, 2)], ks=[10], clear=False)
    rr = core.run_workers(ctx, [runs.job_of(c) for c in cs])
    for c, r in zip(cs, rr):
        refout, _ = runs.reference(c)
        why = oracle(c, r, refout)
        if why:
            return [{"key": f"pvi:{c['seed']}", "what": why, "input": {"case": c}}]
    return []


def replay(ctx, build, data):
    inp = data.get("violation", {}).get("input")
    if not inp:
        return {"fails": False, "note": "no concrete input"}
    c = inp["case"]
    r = core.run_workers(ctx, [runs.job_of(c)])[0]
    refout, _ = runs.reference(c)
    why = oracle(c, r, refout)
    return {"fails": bool(why), "why": why}
