"""C18 - batching places every state exactly once and round-trips losslessly."""
import itertools
import time

from tools.vlib import core
from tools.vlib.core import zlit, zlist

IMPORTS = "From Coq Require Import List ZArith Bool.\nFrom MdpaxV Require Import Model.ListUtil Model.Batching Model.CorrC18.\nImport ListNotations.\n"
PRIMES = [2, 3, 5, 7, 11, 13, 17, 19, 23, 29, 31, 37, 41, 43, 47, 53, 59, 61, 67, 71, 73, 79, 83, 89, 97, 101, 127, 131, 193, 197, 199]


def box(ctx):
    N, MB, D = 200, 70, 8
    extra_mb = [128, 1024, 5000]
    full = [(n, mb, d) for n in range(1, N + 1) for mb in list(range(1, MB + 1)) + extra_mb for d in range(1, D + 1)]
    # far outside the box (layout arithmetic only; the model computes in Z): a layout rule that changes with the size of the problem
    big = [(n, mb, d) for n in (1000, 4097, 65536, 65537, 100003, 1048577, 16777217) for mb in (1, 64, 1000, 1024, 4096, 65536, 10 ** 6) for d in (1, 2, 3, 8)]
    if ctx.tier == "thorough":
        return full + big, True
    corner = set()
    for n, mb, d in full:
        if n < d or mb == 1 or n in PRIMES and mb in (1, 2, 3, 64, 65) or n == d * min(mb, 64) or n == d * 64 or mb in extra_mb and n % 50 == 0:
            corner.add((n, mb, d))
    sample = set(ctx.rng.sample(full, len(full) // 20))
    return sorted(corner | sample | set(big)), False


def array_cases(ctx):
    trailings = [[], [3], [2, 3]]
    cases = []
    pool = [(n, mb, d) for n in (1, 2, 3, 5, 7, 8, 9, 16, 17, 63, 64, 65, 127, 128, 129, 130, 192, 193) for mb in (1, 2, 3, 5, 64, 65, 100, 1024) for d in (1, 2, 3, 4, 8)]
    k = 60 if ctx.tier == "quick" else 400
    for i, c in enumerate(ctx.rng.sample(pool, min(k, len(pool)))):
        cases.append(list(c) + [trailings[i % 3]])
    # thousands of states: several full batches on every device
    cases += [[5003, 1000, 3, [3]], [20011, 4096, 2, []], [8192, 1024, 8, [2, 3]]]
    return cases


def oracle_attr(n, mb, d, a):
    """The property's own predicate on the implementation's reported layout."""
    bs, nb, pad, dev, shape = a
    ok = 1 <= bs <= mb and nb >= 1 and pad >= 0 and d * nb * bs == n + pad and dev == d and shape == [dev, nb, bs]
    return ok


def oracle_array(n, mb, d, trailing, a, attr):
    bs, nb, pad, dev, _ = attr
    if "error" in a:
        return False
    want_first = list(range(1, n + 1)) + [0] * pad
    ok = a["pshape"] == [d, nb, bs, 2] and a["first"] == want_first and a["second"] == [7 * x for x in want_first]
    tcount = 1
    for t in trailing:
        tcount *= t
    ok = ok and a["ushape"] == [n] + list(trailing)
    ok = ok and a["unb"] == [[(i + 1) * (t + 1) for t in range(tcount)] for i in range(n)]
    return ok


def run(ctx, build):
    cases, exhaustive = box(ctx)
    acases = array_cases(ctx)
    # implementation
    chunks = [cases[i::8] for i in range(8)]
    jobs = [{"kind": "c18_layout", "cases": ch, "array_cases": acases if i == 0 else []} for i, ch in enumerate(chunks)]
    outs = core.run_workers(ctx, jobs, nproc=8)
    corr, viols = [], []
    attrs = {}
    for ch, o in zip(chunks, outs):
        if "error" in o:
            corr.append({"what": "implementation raised", "detail": o})
            continue
        for c, a in zip(ch, o["attrs"]):
            attrs[tuple(c)] = a
    arrays = outs[0].get("arrays", []) if "error" not in outs[0] else []
    # oracle on the implementation alone
    for c, a in attrs.items():
        if not oracle_attr(*c, a):
            viols.append({"key": f"layout:{c}", "what": "layout attributes violate C18", "input": {"n_states": c[0], "max_batch_size": c[1], "n_devices": c[2]},
                          "observed": {"batch_size": a[0], "n_batches": a[1], "n_pad": a[2], "n_devices": a[3], "batch_shape": a[4]}})
    arr_attr = {}
    if arrays:
        o2 = core.run_worker(ctx, [{"kind": "c18_layout", "cases": [c[:3] for c in acases]}])[0]
        for c, a in zip(acases, o2.get("attrs", [])):
            arr_attr[tuple(c[:3])] = a
    for c, a in zip(acases, arrays):
        at = arr_attr.get(tuple(c[:3]))
        if at is None or not oracle_array(c[0], c[1], c[2], c[3], a, at):
            viols.append({"key": f"array:{c}", "what": "prepare/unbatch violate C18", "input": {"n_states": c[0], "max_batch_size": c[1], "n_devices": c[2], "trailing": c[3]},
                          "observed": {k: (v if len(str(v)) < 400 else str(v)[:400]) for k, v in a.items()}})
    # model (kernel-evaluated) vs implementation
    keys = sorted(attrs)
    terms = [f"(({zlit(n)},{zlit(mb)},{zlit(d)}),({zlit(attrs[(n, mb, d)][0])},{zlit(attrs[(n, mb, d)][1])},{zlit(attrs[(n, mb, d)][2])},{zlit(attrs[(n, mb, d)][3])}))" for (n, mb, d) in keys]
    if build["model_ok"]:
        failing, errs = core.coq_failing(ctx, "c18attr", IMPORTS, "(Z * Z * Z) * (Z * Z * Z * Z)", "c18_attr_ok", terms, shard=4000)
        for e in errs:
            corr.append({"what": "model evaluation failed", "detail": e})
        for i in failing:
            corr.append({"what": "model and BatchProcessor disagree on layout", "input": keys[i], "impl": attrs[keys[i]]})
        aterms = []
        for c, a in zip(acases, arrays):
            if "error" in a:
                aterms.append("((0%Z,0%Z,0%Z),[],[],[1%Z])")
                continue
            unb0 = [row[0] for row in a["unb"]]
            aterms.append(f"(({zlit(c[0])},{zlit(c[1])},{zlit(c[2])}),{zlist(a['pshape'][:3])},{zlist(a['first'])},{zlist(unb0)})")
        failing, errs = core.coq_failing(ctx, "c18arr", IMPORTS, "(Z * Z * Z) * list Z * list Z * list Z", "c18_array_ok", aterms, shard=100)
        for e in errs:
            corr.append({"what": "model evaluation failed", "detail": e})
        for i in failing:
            corr.append({"what": "model and prepare_batches/unbatch_results disagree", "input": acases[i]})
    nontrivial = {k for k in keys if attrs[k][2] > 0 and (attrs[k][1] > 1 or k[2] > 1)}
    cov = {
        "evaluations": len(keys) + len(arrays),
        "distinct_nontrivial": len(nontrivial),
        "rule": "cases are distinct (n_states, max_batch_size, n_devices) triples from the box n<=200, mb<=70 (+128,1024,5000), d<=8, plus 196 triples with n up to 2^24+1 and array round trips on up to 20011 states "
                "(thorough: all; quick: all corner lines + seeded 5% sample); non-trivial = padding > 0 and (several batches or several devices)",
        "exhaustive": bool(exhaustive),
        "samples": [{"input": list(k), "impl": attrs[k]} for k in keys[:: max(1, len(keys) // 6)]][:6] + [{"array_case": acases[0], "impl": {"pshape": arrays[0].get("pshape"), "ushape": arrays[0].get("ushape")}}] if arrays else [],
        "traces_validated_against_impl": len(keys) + len(arrays),
        "array_cases": len(arrays),
        "trusted_base_extra": ["device count passed through pmap_device_count (pure arithmetic; jax.devices() is not modelled)"],
    }
    return {"coverage": cov, "corr_failures": corr, "impl_violations": viols,
            "assumptions": ["n_states, max_batch_size, n_devices >= 1 (theorems hold for all such integers; box is only the correspondence range)"]}


def search(ctx, build, res, time_budget=60):
    """Directed search on the implementation alone: wider box, slot-level predicate."""
    t0 = time.time()
    viols = []
    cases = [(n, mb, d) for n in list(range(1, 300)) + [1000, 1023, 1024, 1025, 4097] for mb in (1, 2, 3, 7, 63, 64, 65, 128, 1024) for d in (1, 2, 3, 4, 5, 6, 7, 8)]
    out = core.run_worker(ctx, [{"kind": "c18_layout", "cases": cases}])[0]
    if "error" in out:
        return []
    for c, a in zip(cases, out["attrs"]):
        if not oracle_attr(*c, a):
            viols.append({"key": f"layout:{c}", "what": "layout attributes violate C18", "input": {"n_states": c[0], "max_batch_size": c[1], "n_devices": c[2]}, "observed": a})
            break
    if not viols and time.time() - t0 < time_budget:
        ac = [[n, mb, d, []] for (n, mb, d) in itertools.product((1, 2, 5, 64, 65, 129, 130), (1, 3, 64, 1024), (1, 2, 3))]
        out = core.run_worker(ctx, [{"kind": "c18_layout", "cases": [c[:3] for c in ac], "array_cases": ac}])[0]
        if "error" not in out:
            for c, at, a in zip(ac, out["attrs"], out["arrays"]):
                if not oracle_array(c[0], c[1], c[2], c[3], a, at):
                    viols.append({"key": f"array:{c}", "what": "prepare/unbatch violate C18", "input": c, "observed": str(a)[:600]})
                    break
    return viols


def replay(ctx, build, data):
    v = data.get("violation", {})
    inp = v.get("input")
    if isinstance(inp, dict):
        c = (inp["n_states"], inp["max_batch_size"], inp["n_devices"])
        tr = inp.get("trailing")
    else:
        return {"fails": False, "note": "nothing to replay (no concrete input in the file)"}
    job = {"kind": "c18_layout", "cases": [c]}
    if tr is not None:
        job["array_cases"] = [list(c) + [tr]]
    out = core.run_worker(ctx, [job])[0]
    if "error" in out:
        return {"fails": True, "observed": out}
    bad = not oracle_attr(*c, out["attrs"][0])
    if tr is not None:
        bad = bad or not oracle_array(*c, tr, out["arrays"][0], out["attrs"][0])
    return {"fails": bad, "observed": out["attrs"][0]}
