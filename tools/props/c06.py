"""C06 - the semi-asynchronous sweep is block Gauss-Seidel in the documented order."""
import random
import time
from fractions import Fraction as F

from tools.vlib import cases, core, mdpgen, refsolve, runs, solverun
from tools.vlib.cases import coq_mdp
from tools.vlib.core import natlist, natlit, qlist, qlit, zlit

EPS = F(1, 2 ** 40)


def gen(ctx, count, directed=False):
    """directed: several batches PER DEVICE (small max_batch_size, >= 7 states) and mostly the fixed order - the
    configuration in which a device-local batch position differs from the global one"""
    out = []
    tries = 0
    while len(out) < count and tries < count * 30:
        tries += 1
        sub = ctx.rng.randrange(10 ** 9)
        rng = random.Random(sub)
        fam = rng.choice(["tab", "tab", "dim", "det", "absorb", "ties"])
        nS = rng.choice([2, 3, 4, 5, 6, 7, 7, 9, 11])
        spec = mdpgen.gen_mdp(rng, family=fam, nS=nS, nA=rng.randint(1, 3), nE=rng.randint(1, 3), denom=rng.choice([2, 4]), init=rng.choice(["zero", "random"]))
        g = rng.choice([F(1, 2), F(1, 4), F(1)])
        mb = rng.choice([1, 2, 3, 4, 5, nS, nS + 2])
        sweeps = 3
        shuffle = rng.random() < 0.6
        if directed:
            if nS < 7:
                continue
            mb = rng.choice([1, 1, 2])
            shuffle = rng.random() < 0.3
        # boundary seeds (0 is falsy in Python; 2^31-1 / 2^32-1 are the integer limits of PRNGKey) appear as often as ordinary ones
        rseed = rng.choice([0, 0, 1, 2 ** 31 - 1, 2 ** 32 - 1]) if rng.random() < 0.3 else rng.randrange(100)
        c = {"seed": sub, "spec": spec, "g": str(g), "mb": mb, "shuffle": shuffle, "random_seed": rseed, "sweeps": sweeps}
        # exactness guard on the fixed-order reference (permutation unknown before the run)
        ref = mdpgen.Ref(spec)
        V = runs.init_values(spec)
        bs, nb, _ = refsolve.layout(nS, mb, 1)
        for _ in range(sweeps):
            V = refsolve.gs_sweep(ref, g, V, list(range(nS)), bs, nb, 1)
        if ref.max_bits > solverun.BIT_BUDGET - 6:
            continue
        out.append(c)
    return out


def job_of(c, seed_override=None):
    return {"kind": "savi_sweeps", "problem": c["spec"], "sweeps": c["sweeps"], "schedule": c.get("schedule"),
            "config": {"gamma": solverun.fl(c["g"]), "epsilon": solverun.fl(EPS), "max_batch_size": c["mb"], "shuffle_states": c["shuffle"],
                       "random_seed": c["random_seed"] if seed_override is None else seed_override, "convergence_test": "max_diff"}}


def oracle(c, r, devices):
    """independent Fraction block Gauss-Seidel driven by the OBSERVED partition and permutation"""
    if "error" in r:
        return f"SemiAsyncValueIteration raised {r['error']}: {r.get('message', '')[:200]}"
    spec = c["spec"]
    n = spec["nS"]
    ref = mdpgen.Ref(spec)
    g = F(c["g"])
    perms = r["perms"]
    if perms is None:
        perms = r["documented_perms"]  # hook off: fall back to the documented key splitting
    if len(perms) != c["sweeps"]:
        return f"{len(perms)} permutations recorded for {c['sweeps']} sweeps"
    bs, nb, pad = refsolve.layout(n, c["mb"], devices)
    if (r["batch_size"], r["n_batches"], r["n_pad"]) != (bs, nb, pad):
        return "layout differs from the documented rule"
    for k in range(c["sweeps"]):
        p = perms[k]
        ref.max_bits = 0
        if (c["schedule"][k] if c.get("schedule") else c["shuffle"]):
            if p is None or sorted(p) != list(range(n)):
                return f"sweep {k + 1}: recorded order {p} is not a permutation of all states"
            if r["documented_perms"][k] != p:
                return f"sweep {k + 1}: permutation {p} is not the one drawn from the seeded generator ({r['documented_perms'][k]})"
        elif p is not None:
            return f"sweep {k + 1}: fixed order requested but a permutation was used"
        V = solverun.fracs(r["values"][k])
        want = refsolve.gs_sweep(ref, g, V, p if p is not None else list(range(n)), bs, nb, devices)
        got = solverun.fracs(r["values"][k + 1])
        if ref.max_bits > solverun.BIT_BUDGET:
            return "INEXACT"  # this permutation pushed the sweep outside the exact regime: not comparable bit for bit
        if got != want:
            bad = [i for i in range(n) if got[i] != want[i]][:3]
            return f"sweep {k + 1}: states {bad} are not the block Gauss-Seidel backups for the observed partition/permutation"
        if len(got) != n:
            return "returned vector has the wrong length"
    return None


def coq_item(c, r, k, devices):
    spec = c["spec"]
    n = spec["nS"]
    g = qlit(c["g"])
    perms = r["perms"] if r["perms"] is not None else r["documented_perms"]
    pre = f"Definition M{k} := {coq_mdp(spec)}.\n"
    terms = [f"wf_b M{k}"]
    for j in range(c["sweeps"]):
        p = perms[j]
        ps = "None" if p is None else f"(Some {natlist(p)})"
        for pw in ("true", "false"):
            terms.append(f"qlist_eqb (savi_sweep M{k} {zlit(n)} {zlit(c['mb'])} {zlit(devices)} {natlit(spec['zidx'])} {pw} (7#1) {ps} {g} {qlist(r['values'][j])}) {qlist(r['values'][j + 1])}")
    return pre, "(" + " && ".join(terms) + ")"


def run(ctx, build):
    quick = ctx.tier == "quick"
    cs = gen(ctx, 24 if quick else 400)
    devs = [1, 2] if quick else [1, 2, 3, 4]
    corr, viols = [], []
    total = 0
    inexact = 0
    n_shuffled = 0
    redraw_ok = 0
    directed = gen(ctx, 10 if quick else 60, directed=True)
    # shuffling switched on / off on a LIVE solver between sweeps (every schedule the solver can produce): the sweep compiled for
    # one mode must not be reused for the other
    toggled = []
    for c in gen(ctx, 4 if quick else 24, directed=True):
        sched = [False, False, True, True, False] if len(toggled) % 2 == 0 else [True, False, True, False, True]
        toggled.append(dict(c, shuffle=sched[0], schedule=sched, sweeps=len(sched), mb=ctx.rng.choice([2, 3])))
    cs = cs + toggled
    n_multibatch_per_device = 0
    for dv in devs:
        sub = cs if dv == 1 else directed + cs[: max(6, len(cs) // 4)]
        if dv > 1:
            n_multibatch_per_device += sum(1 for c in sub if not c["shuffle"] and refsolve.layout(c["spec"]["nS"], c["mb"], dv)[1] >= 2)
        res = core.run_workers(ctx, [job_of(c) for c in sub], devices=dv)
        items, meta = [], []
        for c, r in zip(sub, res):
            total += 1
            why = oracle(c, r, dv)
            if why == "INEXACT":
                inexact += 1
                continue
            if why:
                viols.append({"key": f"sweep:{c['seed']}:{dv}", "what": why, "input": {"case": c, "devices": dv}})
            if "error" in r:
                continue
            if c["shuffle"]:
                n_shuffled += 1
                ps = r["perms"] or r["documented_perms"]
                if c["spec"]["nS"] >= 5 and len({tuple(p) for p in ps if p is not None}) > 1:
                    redraw_ok += 1
            items.append(coq_item(c, r, len(items), dv))
            meta.append(c)
        if build["model_ok"]:
            failing, errs = cases.coq_bools(ctx, f"c06_d{dv}", items, shard=8)
            for e in errs:
                corr.append({"what": "model evaluation failed", "detail": e})
            for i in failing:
                corr.append({"what": "model sweep (both scatter resolutions) and implementation disagree", "seed": meta[i]["seed"], "devices": dv, "input": {"case": meta[i], "devices": dv}})
    # reproducibility: same seed -> identical sequence; different seed -> a different permutation sequence
    shuf = [c for c in cs if c["shuffle"] and c["spec"]["nS"] >= 5][:6]
    if shuf:
        shuf.append(dict(shuf[0], random_seed=0))   # seed 0 is always among the reproducibility cases
    again = core.run_workers(ctx, [job_of(c) for c in shuf] + [job_of(c, seed_override=c["random_seed"] + 1) for c in shuf])
    first = core.run_workers(ctx, [job_of(c) for c in shuf])
    for i, c in enumerate(shuf):
        a, b, d = first[i], again[i], again[len(shuf) + i]
        if "error" in a or "error" in b or "error" in d:
            continue
        if a["values"] != b["values"] or a["perms"] != b["perms"]:
            viols.append({"key": f"repro:{c['seed']}", "what": "two solvers built with the same random_seed produced different sweeps", "input": {"case": c, "devices": 1}})
        if (a["perms"] or a["documented_perms"]) == (d["perms"] or d["documented_perms"]):
            viols.append({"key": f"seed:{c['seed']}", "what": "a different random_seed produced the same permutation sequence", "input": {"case": c, "devices": 1}})
    hook_on = any(("error" not in r and r.get("perms") is not None) for r in first) if shuf else None
    nontriv = {solverun.case_id([c["spec"]["nxt"], c["spec"]["rew"], c["spec"]["prb"], c["mb"], c["shuffle"], c["random_seed"], c["g"]])
               for c in cs if refsolve.layout(c["spec"]["nS"], c["mb"], 1)[1] >= 2}
    cov = {
        "evaluations": total, "distinct_nontrivial": len(nontriv), "sweeps_compared": total * 3, "shuffled_cases": n_shuffled, "cases_with_shuffling_toggled_between_sweeps": len(toggled),
        "fixed_order_multi_device_cases_with_several_batches_per_device": n_multibatch_per_device,
        "shuffled_cases_with_distinct_permutations_across_sweeps": redraw_ok, "hook_recorded_permutations": hook_on,
        "rule": "generated MDPs x max_batch_size x device count x fixed/shuffled order x random_seed, 3 sweeps each; every sweep compared with the model under BOTH scatter resolutions "
                "and with an independent block Gauss-Seidel driven by the observed partition and permutation; non-trivial = at least two batches per device",
        "samples": [{"seed": c["seed"], "nS": c["spec"]["nS"], "mb": c["mb"], "shuffle": c["shuffle"], "random_seed": c["random_seed"], "gamma": c["g"], "zero_is_state": c["spec"]["zero_is_state"], "zidx": c["spec"]["zidx"]} for c in cs[:6]],
        "traces_validated_against_impl": total - inexact, "cases_outside_exact_regime_skipped": inexact, "device_counts": devs,
    }
    return {"coverage": cov, "corr_failures": corr, "impl_violations": viols,
            "assumptions": ["jax.random.permutation / key splitting is an oracle: the model takes the permutation as an input; that it is THE documented draw is checked by recomputation",
                            "duplicate scatter indices: JAX leaves the order unspecified; the model is evaluated under both orders and the theorem covers every order"]}


def search(ctx, build, res, time_budget=60):
    cs = gen(ctx, 16)
    rr = core.run_workers(ctx, [job_of(c) for c in cs])
    for c, r in zip(cs, rr):
        why = oracle(c, r, 1)
        if why and why != "INEXACT":
            return [{"key": f"sweep:{c['seed']}:1", "what": why, "input": {"case": c, "devices": 1}}]
    return []


def replay(ctx, build, data):
    inp = data.get("violation", {}).get("input")
    if not inp:
        return {"fails": False, "note": "no concrete input"}
    r = core.run_workers(ctx, [job_of(inp["case"])], devices=inp.get("devices", 1))[0]
    why = oracle(inp["case"], r, inp.get("devices", 1))
    return {"fails": bool(why) and why != "INEXACT", "why": why}
