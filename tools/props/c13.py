"""C13 - shipped problems define a probability distribution for every state-action pair."""
import numpy as np

from tools.vlib import cases, core, problems_ref as PR, shipped
from tools.vlib.core import qlist

KNOWN_HENDRIX = "hendrix-demand-truncation-loses-mass"
TOL = 1e-4
IMPORTS = "From Coq Require Import QArith Qabs List Bool.\nFrom MdpaxV Require Import Model.QFun Model.Hendrix Proofs.C13P Model.CorrSolve.\nImport ListNotations.\n"


def check(p, t):
    """property predicate on the complete table; returns list of (key, message)"""
    kind, P = p["kind"], PR.params_of(p["kind"], p["params"])
    pr = t["prob"]
    out = []
    if not np.all(np.isfinite(pr)):
        return [(f"nonfinite:{kind}:{core.case_hash(p)[:10]}", "some event probability is not finite")]
    if np.any(pr < 0):
        s, a, e = [int(x[0]) for x in np.nonzero(pr < 0)]
        return [(f"negative:{kind}:{core.case_hash(p)[:10]}", f"negative probability {pr[s, a, e]} at state {t['states'][s].tolist()}, action {t['actions'][a].tolist()}, event {t['events'][e].tolist()}")]
    sums = pr.sum(axis=2)
    bad = ~(np.abs(sums - 1.0) <= TOL)
    if bad.any():
        if kind == "hendrix":
            # known finding: the deficit must be EXACTLY the closed-form truncation loss, anything else is new
            m = P["max_useful_life"]
            cache = {}
            for si, ai in zip(*np.nonzero(bad)):
                s = t["states"][si].tolist()
                key = (sum(s[:m]), sum(s[m:]))
                if key not in cache:
                    cache[key] = PR.hendrix_lost_mass(P, *key)
                lost = cache[key]
                if not (abs((1.0 - sums[si, ai]) - lost) <= 1e-6):
                    return [(f"rowsum:{kind}:{core.case_hash(p)[:10]}", f"row of state {s}, action {t['actions'][ai].tolist()} sums to {sums[si, ai]:.6f}; the demand-truncation closed form explains a deficit of {lost:.6f} only")]
            si, ai = [int(x[0]) for x in np.nonzero(bad)]
            out.append((KNOWN_HENDRIX, f"Hendrix row sums down to {sums.min():.4f} (e.g. state {t['states'][si].tolist()}): mass lost to the demand truncation point, equal to the closed form"))
        else:
            si, ai = [int(x[0]) for x in np.nonzero(bad)]
            out.append((f"rowsum:{kind}:{core.case_hash(p)[:10]}", f"event probabilities of state {t['states'][si].tolist()}, action {t['actions'][ai].tolist()} sum to {sums[si, ai]:.6f}"))
    return out


def hendrix_items(P, t, max_states=4):
    """Model/Hendrix.hx_prob (the function the mass theorems are about) evaluated in the kernel on this configuration's demand
    tables (scipy Poisson / binomial values rounded to multiples of 2^-44), against EVERY event probability of a few states"""
    from fractions import Fraction as F
    from scipy.stats import binom, poisson
    from tools.vlib.core import qlit
    m = P["max_useful_life"]
    D = m * (max(P["max_order_quantity_a"], P["max_order_quantity_b"]) + 2)
    if D > 8:
        return []
    A, B = m * P["max_order_quantity_a"], m * P["max_order_quantity_b"]
    rnd = lambda x: F(round(float(x) * 2 ** 44), 2 ** 44)  # noqa: E731
    pa = [rnd(poisson.pmf(k, P["demand_poisson_mean_a"])) for k in range(D + 2)]
    pb = [rnd(poisson.pmf(k, P["demand_poisson_mean_b"])) for k in range(D + 2)]
    rho = P["substitution_probability"]
    bn = [[rnd(binom.pmf(u, x, rho)) if u <= x else F(0) for u in range(D + 1)] for x in range(D + 1)]
    ql = lambda l: "[" + "; ".join(qlit(x) for x in l) + "]"  # noqa: E731
    pre = (f"Definition PA := {ql(pa)}.\nDefinition PB := {ql(pb)}.\nDefinition BN := [" + "; ".join(ql(r) for r in bn) + "].\n"
           "Definition pa (k : nat) := qnth PA k.\nDefinition pb (k : nat) := qnth PB k.\nDefinition bn (u x : nat) := qnth (nth x BN []) u.\n")
    S, E = t["states"].tolist(), t["events"].tolist()
    seen, out = set(), []
    for si, s in enumerate(S):
        key = (sum(s[:m]), sum(s[m:]))
        if key in seen:
            continue
        seen.add(key)
        if len(seen) > max_states and key not in ((A, B), (0, 0)):
            continue
        terms = []
        for ei, e in enumerate(E):
            v = float(t["prob"][si, 0, ei])
            if not np.isfinite(v):
                terms.append("false")
                continue
            terms.append(f"Qle_bool (Qabs (hx_prob pa pb bn {D} {key[0]} {key[1]} {e[0]} {e[1]} - {qlit(F(v))})) (1 # 100000000)")
        out.append(("", "(" + " && ".join(terms) + ")"))
    return pre, out


def run(ctx, build):
    probs = shipped.grid(ctx)
    tabs = shipped.tables(ctx, probs)
    corr, viols = [], []
    total = 0
    n_hendrix_states = 0
    worst = {}
    for p, r, t in tabs:
        if t is None:
            viols.append({"key": f"raise:{p['kind']}:{sorted(p['params'].items())}", "what": f"{p['kind']} raised {r.get('error')}: {r.get('message', '')[:200]}", "input": {"problem": p}})
            continue
        total += int(t["prob"].shape[0] * t["prob"].shape[1])
        dev = float(np.abs(t["prob"].sum(axis=2) - 1).max())
        worst[p["kind"]] = max(worst.get(p["kind"], 0.0), dev)
        for key, msg in check(p, t):
            viols.append({"key": key, "what": msg, "input": {"problem": p}})
    # kernel-evaluated model of the De Moor construction on rational cdf tables (any cdf): structure check
    items = []
    if build["model_ok"]:
        import random
        from fractions import Fraction as F
        rng = random.Random(ctx.seed)
        for _ in range(20):
            n = rng.randint(2, 9)
            pts = sorted(F(rng.randint(0, 64), 64) for _ in range(n))
            items.append(("", f"(Qeq_bool (qsum (censored_pmf {qlist(pts)})) 1 && forallb (fun x => Qle_bool 0 x) (censored_pmf {qlist(pts)}))"))
        failing, errs = cases.coq_bools(ctx, "c13", items, imports=IMPORTS, shard=40)
        for e in errs:
            corr.append({"what": "model evaluation failed", "detail": e})
        for i in failing:
            corr.append({"what": "censored_pmf model violates its own theorem on a rational table", "index": i})
        # the Hendrix model against the implementation, one generated file per configuration (its own tables)
        for j, (p, r, t) in enumerate(tabs):
            if p["kind"] != "hendrix" or t is None:
                continue
            got = hendrix_items(PR.params_of("hendrix", p["params"]), t)
            if not got:
                continue
            pre, hitems = got
            n_hendrix_states += len(hitems)
            failing, errs = cases.coq_bools(ctx, f"c13h{j}", [(pre if k == 0 else "", term) for k, (_, term) in enumerate(hitems)], imports=IMPORTS, shard=40)
            for e in errs:
                corr.append({"what": "Hendrix model evaluation failed", "detail": e, "input": {"problem": p}})
            for i in failing:
                corr.append({"what": "Model/Hendrix.hx_prob and random_event_probability disagree on some event of a state (1e-8)", "input": {"problem": p}})
    cov = {
        "evaluations": total, "distinct_nontrivial": len({core.case_hash(p) for p, r, t in tabs if t is not None}), "problems": len(tabs),
        "worst_row_sum_deviation": worst,
        "rule": "parameter grid of the four shipped problems (useful life 1-3, lead time 1-3, small order/demand limits, CoV 0.3/0.5/2, Poisson means 0.5-8, substitution 0/0.25/0.5/1, "
                "logit coefficients of both signs, fire probability 0/0.1/0.25/1); the COMPLETE state x action x event table of random_event_probability: finite, non-negative, "
                "row sums within 1e-4; evaluations = (state, action) rows checked",
        "samples": [{"problem": p["kind"], "params": {k: v for k, v in list(p["params"].items())[:5]}, "rows": int(r.get("nS", 0)) * int(r.get("nA", 0))} for p, r, t in tabs[:8]],
        "traces_validated_against_impl": len(tabs),
        "hendrix_states_whose_every_event_probability_was_compared_with_the_model": n_hendrix_states,
    }
    return {"coverage": cov, "corr_failures": corr, "impl_violations": viols,
            "assumptions": ["gamma CDF, Poisson, negative binomial, softmax and multinomial values are floating-point outputs of numpyro / jax.scipy / scipy: oracle tables for the theorems"]}


def search(ctx, build, res, time_budget=60):
    return []


def replay(ctx, build, data):
    inp = data.get("violation", {}).get("input")
    if not inp or "problem" not in inp:
        return {"fails": False, "note": "no concrete input"}
    p, r, t = shipped.tables(ctx, [inp["problem"]])[0]
    if t is None:
        return {"fails": True, "why": str(r)[:300]}
    msgs = check(p, t)
    return {"fails": bool(msgs), "why": msgs[:2]}
