"""C02 - one sweep is the exact Bellman optimality backup; the policy is greedy."""
import random
from fractions import Fraction as F

from tools.vlib import cases, core, mdpgen, solverun
from tools.vlib.cases import coq_mdp
from tools.vlib.core import natlist, qlist, qlit, zlit
from tools.vlib.solverun import fl, fracs

EPS = F(1, 2 ** 40)


def gen_cases(ctx, count, gammas):
    out = []
    tries = 0
    while len(out) < count and tries < count * 20:
        tries += 1
        sub = ctx.rng.randrange(10 ** 9)
        rng = random.Random(sub)
        fam = rng.choice(solverun.FAMILIES)
        spec = mdpgen.gen_mdp(rng, family=fam, rscale=rng.choice([0, 0, 0, -3, 4, 10]), init=rng.choice(["zero", "random"]))
        g = rng.choice(gammas)
        V = solverun.rand_values(rng, spec["nS"])
        ref = mdpgen.Ref(spec)
        tv = ref.sweep(V, g)
        ref.greedy(tv, g)
        if ref.max_bits > solverun.BIT_BUDGET:
            continue
        mb = solverun.pick_mb(rng, spec["nS"])
        # half of the cases: the solver is BUILT (and its kernels traced by a first sweep) with another discount
        # factor, then the public gamma attribute is set to g before the measured sweep
        g0 = rng.choice([x for x in gammas if x != g] or [g]) if rng.random() < 0.5 else g
        out.append({"seed": sub, "spec": spec, "g": str(g), "g0": str(g0), "V": [str(x) for x in V], "mb": mb, "bits": ref.max_bits})
    return out


def _mant_bits(x):
    n = abs(x.numerator)
    if n == 0:
        return 0
    while n % 2 == 0:
        n //= 2
    return n.bit_length()


def _exact_everywhere(spec, vec, g, budget=50):
    import itertools
    for s in range(spec["nS"]):
        for a in range(spec["nA"]):
            inner = [F(spec["rew"][s][a][e]) + g * vec[spec["nxt"][s][a][e]] for e in range(spec["nE"])]
            terms = [F(spec["prb"][s][a][e]) * inner[e] for e in range(spec["nE"])]
            gv = [g * vec[spec["nxt"][s][a][e]] for e in range(spec["nE"])]
            subs = [sum(c, F(0)) for k in range(2, len(terms) + 1) for c in itertools.combinations(terms, k)]
            if any(_mant_bits(x) > budget or x.denominator & (x.denominator - 1) for x in inner + terms + gv + subs):
                return False
    return True


def gen_rare_events(ctx, count, gammas):
    """an event of probability 2^-28 or 2^-30 (far below any 'close to zero' tolerance) whose reward, or whose successor's value,
    is large enough for its term to matter: the expectation uses the problem's probabilities, however small"""
    out = []
    tries = 0
    while len(out) < count and tries < count * 40:
        tries += 1
        sub = ctx.rng.randrange(10 ** 9)
        rng = random.Random(sub)
        spec = mdpgen.gen_mdp(rng, family="tab", nS=rng.randint(2, 5), nA=rng.randint(2, 3), nE=rng.randint(2, 3), denom=2, rscale=0, rmax=2, init="zero")
        g = rng.choice([x for x in gammas if x > 0] or gammas)
        V = [F(rng.randint(-4, 4)) for _ in range(spec["nS"])]
        tiny = F(1, 2 ** rng.choice([28, 30]))
        s, a = rng.randrange(spec["nS"]), rng.randrange(spec["nA"])
        pr = [F(x) for x in spec["prb"][s][a]]
        big = max(range(len(pr)), key=lambda e: pr[e])
        e = rng.choice([x for x in range(len(pr)) if x != big])
        pr[big] += pr[e] - tiny
        pr[e] = tiny
        if pr[big] <= 0:
            continue
        spec["prb"][s][a] = [str(x) for x in pr]
        sign = rng.choice([1, -1])
        if rng.random() < 0.6:
            spec["rew"][s][a][e] = str(sign * 8 / tiny)                 # the rare event's own reward: contributes +-8
        else:
            V[spec["nxt"][s][a][e]] = sign * 8 / tiny   # or its successor's value
        ref = mdpgen.Ref(spec)
        tv = ref.sweep(V, g)
        # exactness in binary64, term by term (the general budget adds the largest magnitude to the finest denominator of ANY term,
        # which is far too pessimistic here: 2^33-sized terms are only ever multiplied by the one-bit factor 2^-30): every
        # r + gamma v', every p (r + gamma v') and every partial sum of those products in any order needs at most 50 bits
        if not all(_exact_everywhere(spec, vec, g) for vec in (V, tv)):
            continue
        # the rare term must DECIDE something: dropping it changes an action value of s by about 8
        out.append({"seed": sub, "spec": spec, "g": str(g), "g0": str(g), "V": [str(x) for x in V], "mb": solverun.pick_mb(rng, spec["nS"]), "bits": ref.max_bits, "rare": True})
    return out


def gen_large(ctx, count):
    """one sweep on tens of thousands of states (many full batches; a kernel that changes method with the size of the problem)"""
    out = []
    for _ in range(count):
        sub = ctx.rng.randrange(10 ** 9)
        rng = random.Random(sub)
        nS = (30000 if ctx.tier == "quick" else rng.choice([30000, 45000, 66000])) + rng.randrange(1, 300)
        spec = mdpgen.gen_mdp(rng, family="tab", nS=nS, nA=2, nE=2, denom=4, rscale=0, rmax=8, dims=(2, 1, 1), init="zero")
        g = rng.choice([F(1, 2), F(3, 4), F(1)])
        V = [F(rng.randint(-16, 16), 4) for _ in range(nS)]
        out.append({"seed": sub, "spec": spec, "g": str(g), "g0": str(g), "V": [str(x) for x in V], "mb": rng.choice([1024, 4096, 100000]), "bits": 16, "large": True})
    return out


def gen_single_precision(ctx, count):
    """jax_double_precision=False in a process where 64-bit mode was never enabled: value vectors with a LARGE common level and
    small gaps between action values (1024 + j/64: 16 bits, exact in float32 through one backup at gamma = 1/2)"""
    out = []
    tries = 0
    while len(out) < count and tries < count * 30:
        tries += 1
        sub = ctx.rng.randrange(10 ** 9)
        rng = random.Random(sub)
        spec = mdpgen.gen_mdp(rng, family=rng.choice(["tab", "det", "ties"]), nS=rng.randint(2, 5), nA=rng.randint(2, 3), nE=rng.randint(1, 2), denom=2, rscale=0, rmax=rng.choice([0, 0, 1]), init="zero")
        g = F(1, 2)
        V = [F(1024) + F(rng.randrange(8), 64) for _ in range(spec["nS"])]
        ref = mdpgen.Ref(spec)
        tv = ref.sweep(V, g)
        ref.greedy(tv, g)
        if ref.max_bits > 20:
            continue
        # the greedy action must be decided by a gap that is SMALL relative to the level (otherwise nothing is exercised)
        decisive = False
        for vec in (V, tv):
            for s_ in range(spec["nS"]):
                qs = [ref.q(vec, s_, b, g) for b in range(spec["nA"])]
                best = max(qs)
                near = [b for b in range(spec["nA"]) if qs[b] >= best - F(1, 16)]
                if qs.index(best) != near[0]:
                    decisive = True       # an earlier action is within 1/16 of the maximum but is NOT a maximiser
        if not decisive:
            continue
        out.append({"seed": sub, "spec": spec, "g": str(g), "g0": str(g), "V": [str(x) for x in V], "mb": solverun.pick_mb(rng, spec["nS"]), "bits": ref.max_bits, "f32": True})
    return out


def job_of(c):
    g0 = c.get("g0", c["g"])
    pre = [["solve", 1], ["set_gamma", fl(c["g"])]] if g0 != c["g"] else []
    extra = {"jax_double_precision": False} if c.get("f32") else {}
    return {"kind": "solve_ops", "problem": c["spec"], "solver": "vi", "x64_first": not c.get("f32"),
            "config": dict({"gamma": fl(g0), "epsilon": fl(EPS), "max_batch_size": c["mb"]}, **extra),
            "ops": pre + [["set_values", c["V"]], ["extract_policy"], ["solve", 1]]}


def oracle(c, r):
    """The property's predicate on the implementation alone (independent Fraction backup)."""
    if "error" in r:
        return f"implementation raised {r['error']}: {r.get('message', '')[:300]}"
    ref = mdpgen.Ref(c["spec"])
    g = F(c["g"])
    V = fracs(c["V"])
    o = r["obs"][-1]
    if c.get("f32") and o.get("dtype") != "float32":
        return f"single precision requested but the values are {o.get('dtype')}"
    tv = fracs(o["values"])
    want = ref.sweep(V, g)
    if tv != want:
        bad = [i for i, (a, b) in enumerate(zip(tv, want)) if a != b][:3]
        return f"sweep differs from the Bellman backup at states {bad}: got {[str(tv[i]) for i in bad]}, expected {[str(want[i]) for i in bad]}"
    if len(tv) != c["spec"]["nS"]:
        return "returned vector has the wrong length"
    for label, pol, vec in (("policy after sweep", o["policy"], tv), ("policy extracted from injected values", r["obs"][-2].get("policy"), V)):
        if pol is None:
            continue
        for s, a in enumerate(pol):
            if not (0 <= a < c["spec"]["nA"]):
                return f"{label}: action of state {s} is not a row of the action space"
            qs = [ref.q(vec, s, b, g) for b in range(c["spec"]["nA"])]
            if qs[a] != max(qs):
                return f"{label}: state {s} action {a} has value {qs[a]} < max {max(qs)}"
    want_it = 2 if c.get("g0", c["g"]) != c["g"] else 1
    if o["iteration"] != want_it:
        return f"iteration is {o['iteration']} after {want_it} sweep(s)"
    return None


def coq_item(c, r, k, devices):
    o = r["obs"][-1]
    ext = r["obs"][-2].get("policy")
    n = c["spec"]["nS"]
    pre = (f"Definition M{k} := {coq_mdp(c['spec'])}.\n"
           f"Definition V{k} := {qlist(c['V'])}.\nDefinition TV{k} := {qlist(o['values'])}.\n")
    g = qlit(c["g"])
    t = [f"wf_b M{k}",
         f"qlist_eqb (sweep M{k} {g} V{k}) TV{k}",
         f"natlist_eqb (policy_of M{k} {g} TV{k}) {natlist(o['policy'])}",
         f"qlist_eqb (kernel_sweep M{k} {zlit(n)} {zlit(c['mb'])} {zlit(devices)} (7#1) {g} V{k}) TV{k}",
         f"natlist_eqb (kernel_policy M{k} {zlit(n)} {zlit(c['mb'])} {zlit(devices)} 0%nat {g} TV{k}) {natlist(o['policy'])}"]
    if ext is not None:
        t.append(f"natlist_eqb (policy_of M{k} {g} V{k}) {natlist(ext)}")
    return pre, "(" + " && ".join(t) + ")"


def run(ctx, build, gammas=None, devices_list=None):
    gammas = gammas or [F(1, 4), F(1, 2), F(3, 4), F(1), F(0)]
    count = 80 if ctx.tier == "quick" else 1500
    cs = gen_cases(ctx, count, gammas) + gen_rare_events(ctx, 8 if ctx.tier == "quick" else 80, gammas) + gen_single_precision(ctx, 6 if ctx.tier == "quick" else 60)
    devices_list = devices_list or ([1, 2] if ctx.tier == "quick" else [1, 2, 3])
    corr, viols = [], []
    total = 0
    skipped_extract = 0
    for dv in devices_list:
        sub = cs if dv == 1 else cs[: max(16, len(cs) // 6)]
        if dv > 1:
            # several batches PER DEVICE (the layout in which the order of the device and batch axes matters)
            sub = [dict(c, mb=1 + (i % 2)) if i % 2 == 0 else c for i, c in enumerate(sub)]
        # single-precision cases in processes of their own, and all of them in ONE process: 64-bit mode is process-global and the
        # double-precision jobs switch it on
        plain = [c for c in sub if not c.get("f32")]
        f32 = [c for c in sub if c.get("f32")]
        rmap = {id(c): r for c, r in zip(plain, core.run_workers(ctx, [job_of(c) for c in plain], devices=dv))}
        if f32:
            rmap.update({id(c): r for c, r in zip(f32, core.run_worker(ctx, [job_of(c) for c in f32], devices=dv))})
        res = [rmap[id(c)] for c in sub]
        items, idx = [], []
        for k, (c, r) in enumerate(zip(sub, res)):
            total += 1
            why = oracle(c, r)
            if why:
                viols.append({"key": f"sweep:{c['seed']}:{dv}", "what": why, "input": {"case": c, "devices": dv}})
            if "error" in r:
                continue
            if r["obs"][-2].get("skipped"):
                skipped_extract += 1
            items.append(coq_item(c, r, k, dv))
            idx.append(k)
        if build["model_ok"]:
            failing, errs = cases.coq_bools(ctx, f"c02_d{dv}", items)
            for e in errs:
                corr.append({"what": "model evaluation failed", "detail": e})
            for i in failing:
                corr.append({"what": "model and implementation disagree on one sweep", "seed": sub[idx[i]]["seed"], "devices": dv,
                             "input": {"case": sub[idx[i]], "devices": dv}})
    lg = gen_large(ctx, 1 if ctx.tier == "quick" else 4)
    for dv in (devices_list[:1] if ctx.tier == "quick" else devices_list):
        for c, r in zip(lg, core.run_workers(ctx, [job_of(c) for c in lg], devices=dv)):
            total += 1
            why = oracle(c, r)
            if why:
                viols.append({"key": f"sweep-large:{c['seed']}:{dv}", "what": f"{c['spec']['nS']} states: {why}", "input": {"case": c, "devices": dv}})
    nontriv = {solverun.case_id([c["spec"]["nxt"], c["spec"]["rew"], c["spec"]["prb"], c["V"], c["g"]]) for c in cs if solverun.nontrivial_mdp(c["spec"])}
    fam = {}
    for c in cs:
        fam[c["spec"]["family"]] = fam.get(c["spec"]["family"], 0) + 1
    cov = {
        "evaluations": total, "sweeps_on_tens_of_thousands_of_states": [c["spec"]["nS"] for c in lg],
        "distinct_nontrivial": len(nontriv),
        "rule": "seeded generated MDPs (families tab/dim/ties/absorb/unreach/det/chain, 1-3 dimensional state/action/event vectors, "
                "probabilities as scalars or 1-element arrays) x injected value vector x gamma x max_batch_size in the exact-dyadic regime "
                f"(<= {solverun.BIT_BUDGET} bits); distinct by hash of tables+V+gamma; non-trivial = some (s,a) has >= 2 positive-probability events "
                "and some state has >= 2 actions with different rows",
        "samples": [{"seed": c["seed"], "family": c["spec"]["family"], "nS": c["spec"]["nS"], "nA": c["spec"]["nA"], "nE": c["spec"]["nE"],
                     "gamma": c["g"], "V": c["V"], "max_batch_size": c["mb"], "bits": c["bits"]} for c in cs[:5]],
        "traces_validated_against_impl": total,
        "families": fam, "gammas": sorted({c["g"] for c in cs}), "device_counts": devices_list,
        "single_precision_cases_large_level_small_gaps": sum(1 for c in cs if c.get("f32")),
        "cases_with_gamma_reassigned_after_first_trace": sum(1 for c in cs if c.get("g0", c["g"]) != c["g"]),
        "multi_device_cases_with_several_batches_per_device": sum(1 for i, c in enumerate(cs[: max(16, len(cs) // 6)]) if i % 2 == 0 and c["spec"]["nS"] > 2 * len(devices_list[1:2] or [1]) * (1 + (i % 2))),
        "padded_last_batch_cases": sum(1 for c in cs if c["spec"]["nS"] % min(c["mb"], c["spec"]["nS"]) != 0),
        "private_extract_route_skipped": skipped_extract,
        "trusted_base_extra": ["values injected through the public attribute solver.values; greedy(V) for arbitrary V observed through the private _extract_policy when it exists"],
    }
    return {"coverage": cov, "corr_failures": corr, "impl_violations": viols,
            "assumptions": ["exact arithmetic model; implementation runs restricted to inputs on which every float64 operation is exact"]}


def search(ctx, build, res, time_budget=60):
    import time
    t0 = time.time()
    viols = []
    while time.time() - t0 < time_budget and not viols:
        cs = gen_cases(ctx, 24, [F(1, 2), F(1), F(3, 4)])
        rs = core.run_workers(ctx, [job_of(c) for c in cs])
        for c, r in zip(cs, rs):
            why = oracle(c, r)
            if why:
                viols.append({"key": f"sweep:{c['seed']}:1", "what": why, "input": {"case": c, "devices": 1}})
                break
    return viols


def replay(ctx, build, data):
    inp = data.get("violation", {}).get("input")
    if not inp:
        return {"fails": False, "note": "no concrete input"}
    r = core.run_worker(ctx, [job_of(inp["case"])], devices=inp.get("devices", 1))[0]
    why = oracle(inp["case"], r)
    return {"fails": bool(why), "why": why}
