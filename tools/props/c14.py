"""C14 - shipped problems are closed and their state index is consistent."""
import numpy as np

from tools.vlib import cases, core, problems_ref as PR, shipped
from tools.vlib.core import zlist, zlit

IMPORTS = ("From Coq Require Import ZArith List Bool.\nFrom MdpaxV Require Import Model.ListUtil Model.Spaces Model.CorrC18 Model.CorrC19 Model.CorrSolve.\nImport ListNotations.\n")


def check(p, t):
    kind, P = p["kind"], PR.params_of(p["kind"], p["params"])
    S, A, E = PR.spaces(kind, P)
    st = t["states"]
    if st.tolist() != S or t["actions"].tolist() != A or t["events"].tolist() != E:
        return "state / action / event space differs from the documented size or content", 0
    for name, arr in (("state", st), ("action", t["actions"]), ("event", t["events"])):
        if len({tuple(r) for r in arr.tolist()}) != len(arr):
            return f"{name} space has duplicate rows", 0
    if t["own"].tolist() != list(range(len(S))):
        bad = int(np.nonzero(t["own"] != np.arange(len(S)))[0][0])
        return f"index function maps listed state {S[bad]} to row {int(t['own'][bad])}, not to its own row {bad}", 0
    pos = t["prob"] > 0
    nxt, idx = t["next"], t["idx"]
    sel = t["sample_idx"] if "sample_idx" in t.files else np.arange(len(S))   # rows of the table = these states
    if idx.min() < 0 or idx.max() >= len(S):
        return "the index function returns a row number outside the state space", 0
    looked_up = st[idx]                       # state_space[state_to_index(successor)]
    mism = np.any(looked_up != nxt, axis=-1) & pos
    n = int(pos.sum())
    if mism.any():
        si, ai, ei = [int(x[0]) for x in np.nonzero(mism)]
        return (f"positive-probability transition from state {S[int(sel[si])]} under action {A[ai]}, event {E[ei]} yields {nxt[si, ai, ei].tolist()}, "
                f"which the index maps to row {int(idx[si, ai, ei])} = {st[idx[si, ai, ei]].tolist()} (out of range and clipped onto a different state)"), n
    return None, n


def coq_item(p, t):
    """C19's model of the index function on this problem's state box: every listed state and every successor"""
    kind, P = p["kind"], PR.params_of(p["kind"], p["params"])
    if kind == "forest" or p.get("sample"):
        return None     # (large spaces: implementation-level predicate only; a 10^5-row enumeration is not evaluated inside Coq)
    st = t["states"]
    maxs = st.max(axis=0).tolist()
    mins = [0] * len(maxs)
    probes = st.tolist()[:200]
    idx = t["own"].tolist()[:200]
    pr = "[" + "; ".join(zlist(v) for v in probes) + "]"
    return ("", f"(zlist_eqb (map (index_fn {zlist(mins)} {zlist(maxs)}) {pr}) {zlist(idx)} && Nat.eqb (length (range_space {zlist(mins)} {zlist(maxs)})) {len(st)}%nat)")


def run(ctx, build):
    probs = shipped.grid(ctx) + shipped.large(ctx)
    tabs = shipped.tables(ctx, probs)
    corr, viols, items, meta = [], [], [], []
    total = 0
    for p, r, t in tabs:
        if t is None:
            viols.append({"key": f"raise:{p['kind']}:{sorted(p['params'].items())}", "what": f"{p['kind']} raised {r.get('error')}: {r.get('message', '')[:200]}", "input": {"problem": p}})
            continue
        why, n = check(p, t)
        total += n
        if why:
            viols.append({"key": f"closure:{p['kind']}:{core.case_hash(p)[:10]}", "what": why, "input": {"problem": p}})
        it = coq_item(p, t)
        if it:
            items.append(it)
            meta.append(p)
    if build["model_ok"]:
        failing, errs = cases.coq_bools(ctx, "c14", items, imports=IMPORTS, shard=6)
        for e in errs:
            corr.append({"what": "model evaluation failed", "detail": e})
        for i in failing:
            corr.append({"what": "model index function / enumeration and the problem's state space disagree", "input": {"problem": meta[i]}})
    cov = {
        "evaluations": total, "distinct_nontrivial": len({core.case_hash(p) for p, r, t in tabs if t is not None}), "problems": len(tabs), "state_space_sizes_above_65535": [int(r.get("nS", 0)) for p, r, t in tabs if p.get("sample")],
        "rule": "parameter grid of the four shipped problems; spaces compared with the documented sizes/content, no duplicate rows, index(state_i) = i for every listed state, "
                "and state_space[state_to_index(successor)] == successor for EVERY positive-probability (state, action, event) of the complete table",
        "samples": [{"problem": p["kind"], "nS": int(r.get("nS", 0)), "nA": int(r.get("nA", 0)), "nE": int(r.get("nE", 0))} for p, r, t in tabs[:8]],
        "traces_validated_against_impl": len(items),
    }
    return {"coverage": cov, "corr_failures": corr, "impl_violations": viols, "assumptions": []}


def search(ctx, build, res, time_budget=60):
    return []


def replay(ctx, build, data):
    inp = data.get("violation", {}).get("input")
    if not inp or "problem" not in inp:
        return {"fails": False, "note": "no concrete input"}
    p, r, t = shipped.tables(ctx, [inp["problem"]])[0]
    if t is None:
        return {"fails": True, "why": str(r)[:300]}
    why, _ = check(p, t)
    return {"fails": bool(why), "why": why}
