"""C11 - a crash at any moment leaves a restorable, untorn, correctly labelled checkpoint."""
import concurrent.futures as cf
import random
import time
from fractions import Fraction as F

from tools.vlib import cases, core, crashdrv, mdpgen, refsolve, runs, solverun

FIELDS = ("values", "iteration", "gain", "history", "hidx", "period")
TOTAL = 120


def gen_case(rng, solver):
    """exact regime with arbitrarily long trajectories: gamma = 1 (or 1/2 for PI), integer data, deterministic cycle"""
    nS = rng.choice([3, 5, 7])
    spec = mdpgen.gen_mdp(rng, family="periodic", nS=nS, nA=2, nE=1, denom=1, dims=(1, 1, 1), init="zero")
    for s in range(nS):
        for a in range(2):
            spec["rew"][s][a] = [str(rng.randint(-3, 5) + (3 * s if a == 0 else 0))]
    c = {"solver": solver, "spec": spec, "g": "1", "eps": str(F(1, 2 ** 20)), "mb": rng.choice([2, 1024]), "ks": [TOTAL], "seed": rng.randrange(10 ** 9)}
    if solver in ("vi", "savi"):
        c["test"] = "span"
    if solver == "savi":
        c["shuffle"], c["random_seed"] = False, 1
    if solver == "pvi":
        c["period"], c["clear"] = 2, False
    if solver == "pi":
        c["g"], c["test"], c["max_eval"], c["reset"] = "1/2", "max_diff", 2, False
    return c


def plan(ctx):
    quick = ctx.tier == "quick"
    n = 24 if quick else 600
    out = []
    modes = [("time", None), ("marker", (r"^SAVE-BEGIN", None)), ("marker", (r"^SAVE-END", None)),
             ("inotify", (r"CREATE,ISDIR .*/\d+\.orbax-checkpoint-tmp$", None)),
             ("inotify", (r"MOVED_TO,ISDIR .*/\d+$", None)),
             ("inotify", (r"DELETE .*/\d+/", None)),
             ("inotify", (r"CREATE .*orbax-checkpoint-tmp/", None))]
    for i in range(n):
        sub = ctx.rng.randrange(10 ** 9)
        rng = random.Random(sub)
        solver = ["vi", "rvi", "pvi", "savi", "pi"][i % 5]
        c = gen_case(rng, solver)
        mode, param = modes[i % len(modes)]
        if mode == "time":
            param = rng.uniform(0.05, 1.6)
        else:
            param = (param[0], rng.randint(1, 12))
        out.append({"case": c, "mode": mode, "param": param, "f": rng.choice([1, 1, 2, 3]), "m": rng.choice([1, 2, 3]), "async": rng.random() < 0.7,
                    "rounds": rng.choice([1, 1, 2, 3]) if not quick else rng.choice([1, 1, 2]), "seed": sub})
    # directed: the solve ends ON ITS ITERATION LIMIT at a multiple of the frequency, so the unconditional final save
    # repeats a step that is already committed; retention is larger than the number of saves, so no deletion is ever
    # legitimate - the child is killed at the first deletion inside a committed step directory (never, on a tree
    # that leaves completed checkpoints alone)
    for i in range(6 if quick else 60):
        sub = ctx.rng.randrange(10 ** 9)
        rng = random.Random(sub)
        c = gen_case(rng, ["vi", "rvi", "pvi", "savi"][i % 4])
        f = rng.choice([1, 2, 3])
        trig = (r"DELETE,ISDIR .*/ck/\d+$", 1) if i % 4 < 2 else (r"DELETE.* .*/ck/\d+/", rng.randint(1, 10))
        out.append({"case": c, "mode": "inotify", "param": trig, "f": f, "m": 8, "async": i % 2 == 0, "rounds": 1, "seed": sub,
                    "total": f * rng.choice([1, 2]), "directed": "final-save-repeats-committed-step"})
    # directed: a write that lands in the FINAL step directory.  Orbax's protocol writes into <step>.orbax-checkpoint-tmp and
    # renames; a directory <step> that is CREATED (not moved into place), or a file created inside a step directory, means the
    # writer is filling the final name in place, where a reader in rename mode takes it for a finished checkpoint.  The child is
    # killed at that moment (never, on a tree that only renames finished directories into place); synchronous and asynchronous
    for i in range(6 if quick else 60):
        sub = ctx.rng.randrange(10 ** 9)
        rng = random.Random(sub)
        c = gen_case(rng, ["vi", "rvi", "pvi", "savi", "pi"][i % 5])
        trig = (r"CREATE,ISDIR .*/ck/\d+$", rng.randint(2, 5)) if i % 3 == 0 else (r"CREATE .*/ck/\d+/", rng.randint(1, 8) + 12 * rng.randint(0, 2))
        out.append({"case": c, "mode": "inotify", "param": trig, "f": 1, "m": rng.choice([1, 2, 3]), "async": i % 3 == 2, "rounds": 1, "seed": sub,
                    "directed": "write-lands-in-final-step-directory"})
    # directed: synchronous runs that END ON THEIR LIMIT at an iteration that is NOT a multiple of the frequency (the final save is
    # the only one at such a step); the child is left to finish, or is killed right after that last save() has returned
    for i in range(4 if quick else 24):
        sub = ctx.rng.randrange(10 ** 9)
        rng = random.Random(sub)
        c = gen_case(rng, ["vi", "rvi", "pvi", "savi", "pi"][i % 5])
        f = rng.choice([2, 3, 4])
        total = f * rng.choice([1, 2, 3]) + rng.randint(1, f - 1)
        n_saves = total // f + 1
        out.append({"case": c, "mode": "marker", "param": (r"^SAVE-END", n_saves if i % 2 == 0 else n_saves + 5), "f": f, "m": rng.choice([2, 3]), "async": False, "rounds": 1, "seed": sub,
                    "total": total, "directed": "final-save-at-a-step-that-is-not-a-multiple-of-the-frequency"})
    return out


def one_experiment(ctx, p, idx):
    c = p["case"]
    d = str(ctx.scratch / f"c11_{idx}" / "ck")
    cfg = runs.config_of(c)
    cfg.update({"checkpoint_dir": d, "checkpoint_frequency": p["f"], "max_checkpoints": p["m"], "enable_async_checkpointing": p["async"]})
    total = p.get("total", TOTAL)
    job = {"problem": c["spec"], "solver": c["solver"], "config": cfg, "total": total}
    rng = random.Random(p["seed"])
    rounds = []
    restore_from = None
    for r in range(p["rounds"]):
        j = dict(job)
        if restore_from:
            j["restore_from"] = restore_from
        mode, param = (p["mode"], p["param"]) if r == 0 else ("time", rng.uniform(0.05, 1.2))
        info = crashdrv.run_and_kill(ctx, j, mode, param)
        # what does a fresh process restore?
        rr = core.run_worker(ctx, [{"kind": "ckpt_restore", "solver": c["solver"], "dir": d, "route": "load", "problem": c["spec"], "config": dict(cfg, checkpoint_dir=d + "_unused", checkpoint_frequency=0)}])[0]
        info["saves_returned"] = [int(ln.split()[1]) for ln in info["lines"] if ln.startswith("SAVE-END ")]
        rounds.append({"info": {k: v for k, v in info.items() if k != "lines"}, "markers": info["lines"][-6:], "restored": rr})
        restore_from = d
        if info.get("finished_normally"):
            break
    # final: restore and continue to the end without being killed
    fin = core.run_worker(ctx, [{"kind": "ckpt_restore", "solver": c["solver"], "dir": d, "route": "load", "problem": c["spec"],
                                 "config": dict(cfg, checkpoint_dir=d + "_cont", checkpoint_frequency=0), "ops": [["solve_until", total]]}])[0]
    return {"rounds": rounds, "final": fin, "dir": d}


def trajectory(c, upto):
    cc = dict(c, ks=[1] * upto)
    refout, guard = runs.reference(cc)
    return refout, guard


def oracle(p, e):
    c = p["case"]
    TOTAL = p.get("total", globals()["TOTAL"])
    traj, guard = trajectory(c, TOTAL)
    if not guard["ok"]:
        return None  # outside the exact regime (cannot happen for these families; guard for safety)
    conv_at = next((i + 1 for i, r in enumerate(traj) if r["converged"]), None)

    def state_at(k):
        return traj[k - 1]
    for ri, rd in enumerate(e["rounds"]):
        rr, info = rd["restored"], rd["info"]
        seen = max(info["commits_seen_before_kill"], default=None)
        if "error" in rr:
            return f"round {ri + 1}: restoring raised {rr['error']}: {rr.get('message', '')[:200]}"
        if rr.get("raised"):
            if rr["raised"] == "ValueError" and "No checkpoints found" in rr.get("message", "") and seen is None:
                continue  # failed cleanly: nothing had been completed
            return f"round {ri + 1}: restore failed with {rr['raised']}: {rr.get('message', '')[:200]} (commits seen before the kill: {info['commits_seen_before_kill'][-3:]})"
        got = rr["obs"][0]
        label = got["iteration"]
        if not (1 <= label <= TOTAL):
            return f"round {ri + 1}: restored iteration {label} is out of range"
        want = state_at(label)
        d = runs.decode_obs(got)
        for key in FIELDS:
            if key in want and key in d and d[key] != want[key]:
                return (f"round {ri + 1}: restored checkpoint labelled {label} does not hold the solver's {key} of iteration {label} "
                        f"(kill mode {info['mode']} {info['param']}, async={p['async']})")
        if seen is not None and label < seen:
            return f"round {ri + 1}: restored iteration {label} is older than step {seen} whose commit was observed before the kill"
        # synchronous mode: a save() call that has RETURNED has completed
        ret = max(info.get("saves_returned") or [0])
        if not p["async"] and label < ret:
            return (f"round {ri + 1}: synchronous save({ret}) had returned before the process ended, but restore gives iteration {label} "
                    f"(nothing was written for step {ret})")
    fin = e["final"]
    if "error" in fin or fin.get("raised"):
        if fin.get("raised") == "ValueError" and all(r["restored"].get("raised") for r in e["rounds"]):
            return None
        return f"continuing after the crashes failed: {fin.get('error') or fin.get('raised')}: {fin.get('message', '')[:200]}"
    last = fin["obs"][-1]
    end = conv_at or TOTAL
    want = state_at(min(end, TOTAL))
    d = runs.decode_obs(last)
    if fin["obs"][0]["iteration"] < end:
        for key in FIELDS + ("policy",):
            if key in want and key in d and d[key] != want[key]:
                return f"continuing from the restored checkpoint does not reach the uninterrupted final {key}"
    return None


def run(ctx, build):
    ps = plan(ctx)
    with cf.ThreadPoolExecutor(max_workers=8) as ex:
        exps = list(ex.map(lambda ip: one_experiment(ctx, ip[1], ip[0]), enumerate(ps)))
    corr, viols = [], []
    kills = sum(1 for e in exps for r in e["rounds"] if r["info"]["killed"])
    during_save = 0
    fired = {}
    items, meta = [], []
    for p, e in zip(ps, exps):
        why = oracle(p, e)
        if why:
            viols.append({"key": f"crash:{p['case']['solver']}:{p['seed']}", "what": why,
                          "input": {"plan": p, "rounds": [{"info": r["info"], "markers": r["markers"], "restored_iteration": (r["restored"].get("obs") or [{}])[0].get("iteration")} for r in e["rounds"]]}})
        for r in e["rounds"]:
            if r["info"]["killed"]:
                fired[r["info"]["mode"]] = fired.get(r["info"]["mode"], 0) + 1
                if r["markers"] and r["markers"][-1].startswith("SAVE-BEGIN"):
                    during_save += 1
        # model: the restored state of the LAST round equals the model's state at that label
        rr = e["rounds"][-1]["restored"]
        if rr.get("obs"):
            lab = rr["obs"][0]["iteration"]
            c = dict(p["case"], ks=[lab])
            fake = {"obs": [rr["obs"][0], dict(rr["obs"][0], policy=None)]}
            if c["solver"] != "pi" and lab <= 60:
                items.append(_model_item(c, rr["obs"][0], len(items)))
                meta.append(p)
    if build["model_ok"] and items:
        failing, errs = cases.coq_bools(ctx, "c11", items, shard=6)
        for er in errs:
            corr.append({"what": "model evaluation failed", "detail": er})
        for i in failing:
            corr.append({"what": "restored state differs from the model's state at the checkpoint's label", "seed": meta[i]["seed"], "input": {"plan": meta[i]}})
    cov = {
        "evaluations": sum(len(e["rounds"]) for e in exps), "distinct_nontrivial": kills, "kills_delivered": kills, "kills_while_inside_save_call": during_save,
        "kills_by_trigger": fired,
        "rule": "child process solves with checkpointing (VI, RVI, periodic, semi-async, PI; sync and async; frequency 1-3; retention 1-3) on exact integer/dyadic problems; "
                "the parent sends SIGKILL at seeded random times, at SAVE-BEGIN/SAVE-END markers, or when inotify reports creation of a *.orbax-checkpoint-tmp directory, "
                "a file inside it, the rename to <step>, or a deletion inside an old step; 1-3 crash-restore-continue rounds; a fresh process restores and the state is compared "
                "with the independently recomputed trajectory at the restored label; non-trivial = a kill was actually delivered before the child finished",
        "samples": [{"solver": p["case"]["solver"], "mode": p["mode"], "param": p["param"], "f": p["f"], "m": p["m"], "async": p["async"], "rounds": len(e["rounds"]),
                     "restored_iterations": [(r["restored"].get("obs") or [{}])[0].get("iteration") for r in e["rounds"]],
                     "commits_seen": [r["info"]["commits_seen_before_kill"][-2:] for r in e["rounds"]]} for p, e in list(zip(ps, exps))[:8]],
        "traces_validated_against_impl": len(items),
    }
    return {"coverage": cov, "corr_failures": corr, "impl_violations": viols,
            "assumptions": ["Orbax's protocol, POSIX rename atomicity, the filesystem and SIGKILL semantics are modelled (Model/Crash.v), not verified; the real writer thread's interleavings are SAMPLED by these kills, not enumerated",
                            "wall-clock kills are not perfectly reproducible: a replay re-runs the same seeded plan"]}


def _model_item(c, o, k):
    from tools.vlib.cases import coq_mdp, ctest, oqll
    from tools.vlib.core import natlit, qlist, qlit
    spec = c["spec"]
    g, eps = qlit(c["g"]), qlit(c["eps"])
    lab = c["ks"][0]
    pre = f"Definition M{k} := {coq_mdp(spec)}.\nDefinition V0_{k} := {qlist(runs.init_values(spec))}.\n"
    s = c["solver"]
    if s == "vi":
        t = f"(let '(st, _, _) := S_vi_solve M{k} {g} {eps} {ctest(c['test'])} false 1%nat {natlit(lab)} (vi_init V0_{k}) in qlist_eqb (v_vals st) {qlist(o['values'])} && Nat.eqb (v_iter st) {natlit(lab)})"
    elif s == "rvi":
        t = (f"(let '(st, _, _) := S_rvi_solve M{k} {g} {eps} false 1%nat {natlit(lab)} (rvi_init V0_{k}) in qlist_eqb (r_vals st) {qlist(o['values'])} && "
             f"Qeq_bool (r_gain st) {qlit(o['gain'])})")
    elif s == "pvi":
        t = (f"(let '(st, _, _) := S_pvi_solve M{k} {g} {eps} false false 1%nat {natlit(lab)} (pvi_init {natlit(c['period'])} V0_{k}) in qlist_eqb (p_vals st) {qlist(o['values'])} && "
             f"oqll_eqb (p_hist st) {oqll(o['history'])} && Nat.eqb (p_hidx st) {natlit(o['hidx'])})")
    else:
        t = (f"(let '(st, _, _) := S_savi_solve M{k} {g} {eps} {spec['nS']}%Z {c['mb']}%Z 1%Z {natlit(spec['zidx'])} true (7#1) (fun _ => None) {ctest(c['test'])} false 1%nat {natlit(lab)} (savi_init V0_{k}) in "
             f"qlist_eqb (s_vals st) {qlist(o['values'])})")
    return pre, t


def search(ctx, build, res, time_budget=60):
    return []


def replay(ctx, build, data):
    inp = data.get("violation", {}).get("input")
    if not inp or "plan" not in inp:
        return {"fails": False, "note": "no concrete input"}
    p = inp["plan"]
    e = one_experiment(ctx, p, 997)
    why = oracle(p, e)
    return {"fails": bool(why), "why": why, "note": "wall-clock kills are not perfectly reproducible; the same seeded plan was re-run"}
