"""C01 - discounted solvers return near-optimal policies (and values) on convergence."""
import json
import random
import time
from fractions import Fraction as F
from pathlib import Path

from tools.vlib import cases, core, mdpgen, refsolve, runs, solverun

KNOWN_KEY_PI = "pi-stable-policy-with-exhausted-evaluation-budget"


def bound_check(case, o, refo, devices=1):
    """The property's own predicate, evaluated on what the implementation returned, with exact
    rational policy evaluation and exact V* (independent of the Gallina model).
    Returns (message or None, key)."""
    spec = case["spec"]
    ref = mdpgen.Ref(spec)
    g, eps = F(case["g"]), F(case["eps"])
    vals = solverun.fracs(o["values"])
    pol = o["policy"]
    vstar, _ = ref.optimal_value(g)
    vpi = ref.policy_value(pol, g)
    gap = max(a - b for a, b in zip(vstar, vpi))
    if min(a - b for a, b in zip(vstar, vpi)) < 0:
        return "policy value exceeds the optimal value (reference inconsistency)", "inconsistent"
    s, t = case["solver"], case.get("test")
    msg = None
    if s == "vi":
        if t == "span" and not gap < eps:
            msg = f"VI/span: V* - v_pi = {gap} >= epsilon = {eps}"
        if t == "max_diff":
            err = max(abs(a - b) for a, b in zip(vals, vstar))
            if not err < eps:
                msg = f"VI/max_diff: |values - V*| = {err} >= epsilon = {eps}"
            elif not gap < 2 * eps:
                msg = f"VI/max_diff: V* - v_pi = {gap} >= 2 epsilon"
    elif s == "pi":
        if t == "span" and not gap < eps / g:
            msg = f"PI/span: V* - v_pi = {gap} >= epsilon/gamma = {eps / g}"
        if t == "max_diff":
            err = max(abs(a - b) for a, b in zip(vals, vpi))
            if not gap < 2 * eps / g:
                msg = f"PI/max_diff: V* - v_pi = {gap} >= 2 epsilon/gamma = {2 * eps / g}"
            elif refo.get("last_eval_converged") and not err < eps / g:
                msg = f"PI/max_diff: |values - v_pi| = {err} >= epsilon/gamma although the evaluation converged"
        if msg and not refo.get("last_eval_converged"):
            return msg + " (the last policy evaluation ran out of max_eval_iter)", KNOWN_KEY_PI
    elif s == "savi" and t == "max_diff":
        err = max(abs(a - b) for a, b in zip(vals, vstar))
        if not err < eps:
            msg = f"SAVI/max_diff: |values - V*| = {err} >= epsilon = {eps}"
        elif not gap < 2 * g * eps / (1 - g):
            msg = f"SAVI/max_diff: V* - v_pi = {gap} >= 2 gamma epsilon/(1-gamma)"
    return msg, f"bound:{s}:{t}:{case['seed']}"


def corpus_cases():
    out = []
    d = core.VERIF / "corpus" / "C01"
    for p in sorted(d.glob("*.json")):
        out.append(json.loads(p.read_text()))
    return out


def gen(ctx):
    quick = ctx.tier == "quick"
    n = 14 if quick else 800
    conv = lambda c, r: r[-1]["converged"]  # noqa: E731
    cs = list(corpus_cases())
    for solver in ("vi", "pi", "savi"):
        cs += runs.generate(ctx, solver, n, accept=conv, ks=[40], gammas=[F(1, 2), F(1, 4), F(3, 4)], eps=None)
        cs += runs.generate(ctx, solver, max(2, n // 4))
    for solver in ("vi", "pi", "savi"):
        cs += runs.directed(ctx, solver, quick)
    # PI with tiny evaluation budgets: where the forced hypothesis bites
    cs += runs.generate(ctx, "pi", 6 if quick else 250, accept=conv, ks=[40], max_eval=1, gammas=[F(1, 2), F(3, 4)])
    return cs


def run(ctx, build, devices=1):
    cs = gen(ctx)
    res = core.run_workers(ctx, [runs.job_of(c) for c in cs], devices=devices)
    corr, viols = [], []
    items, meta = [], []
    n_conv = 0
    hit_limit = 0
    for c, r in zip(cs, res):
        if "error" in r:
            viols.append({"key": f"raise:{c['solver']}:{c['seed']}", "what": f"{c['solver']} raised {r['error']}: {r.get('message', '')[:200]}", "input": {"case": c}})
            continue
        obs = r["obs"]
        perms = obs[-1].get("perms") if c["solver"] == "savi" else None
        if c["solver"] == "savi" and c.get("shuffle") and perms is None:
            ctx.notes.append("hook off: shuffled semi-async run not compared")
            continue
        refout, guard = runs.reference(c, perms=perms, devices=devices)
        if not guard["ok"]:
            continue  # shuffled order pushed the run outside the exactness budget
        diff = runs.compare_with_reference(c, r, refout)
        if diff:
            viols.append({"key": f"trajectory:{c['solver']}:{c['seed']}", "what": diff, "input": {"case": c}})
        items.append(runs.coq_item(c, r, len(items), devices=devices, perms=perms))
        meta.append(c)
        last, lastref = obs[-1], refout[-1]
        if lastref["converged"] and not diff:
            n_conv += 1
            msg, key = bound_check(c, last, lastref, devices)
            if msg:
                viols.append({"key": key, "what": msg, "input": {"case": c}})
        elif not lastref["converged"]:
            hit_limit += 1
    if build["model_ok"]:
        failing, errs = cases.coq_bools(ctx, "c01", items, shard=10)
        for e in errs:
            corr.append({"what": "model evaluation failed", "detail": e})
        for i in failing:
            corr.append({"what": "model and implementation disagree on a run", "solver": meta[i]["solver"], "seed": meta[i]["seed"], "input": {"case": meta[i]}})
    dist = {}
    for c in cs:
        k = f"{c['solver']}/{c.get('test')}/{c['spec']['family']}"
        dist[k] = dist.get(k, 0) + 1
    nontriv = {solverun.case_id([c["spec"]["nxt"], c["spec"]["rew"], c["spec"]["prb"], c["solver"], c.get("test"), c["g"], c["eps"]]) for c in cs if solverun.nontrivial_mdp(c["spec"])}
    cov = {
        "evaluations": len(cs), "distinct_nontrivial": len(nontriv),
        "rule": "seeded generated MDPs x solver (VI, PI, SAVI fixed/shuffled) x test x gamma x epsilon x initial values/policy x max_batch_size, "
                "exact-dyadic regime with decision-margin guard; bounds checked with exact rational V* and exact policy evaluation; "
                "non-trivial = >= 2 positive-probability events somewhere and >= 2 distinct action rows somewhere",
        "converged_runs": n_conv, "runs_stopped_at_limit": hit_limit, "distribution": dist,
        "samples": [{"solver": c["solver"], "seed": c["seed"], "family": c["spec"]["family"], "gamma": c["g"], "eps": c["eps"], "test": c.get("test"),
                     "ks": c["ks"], "mb": c["mb"], "guard": c.get("guard")} for c in cs[:6]],
        "traces_validated_against_impl": len(items),
    }
    return {"coverage": cov, "corr_failures": corr, "impl_violations": viols,
            "assumptions": ["existence of V* and v_pi is not proved in Coq (the bounds hold for every solution; uniqueness is proved); the harness exhibits them exactly for every tested instance",
                            "floating-point rounding is outside the model: bounds hold exactly in the dyadic regime, 'up to rounding' otherwise"]}


def search(ctx, build, res, time_budget=60):
    t0 = time.time()
    viols = []
    conv = lambda c, r: r[-1]["converged"]  # noqa: E731
    while time.time() - t0 < time_budget and not viols:
        cs = []
        for solver in ("vi", "pi", "savi"):
            cs += runs.generate(ctx, solver, 6, accept=conv, ks=[40], family="chain", gammas=[F(3, 4), F(7, 8)])
            cs += runs.generate(ctx, solver, 4, accept=conv, ks=[40], family="ties")
        rs = core.run_workers(ctx, [runs.job_of(c) for c in cs])
        for c, r in zip(cs, rs):
            if "error" in r:
                continue
            perms = r["obs"][-1].get("perms") if c["solver"] == "savi" else None
            if c["solver"] == "savi" and c.get("shuffle") and perms is None:
                continue
            refout, guard = runs.reference(c, perms=perms)
            if not guard["ok"] or not refout[-1]["converged"]:
                continue
            msg, key = bound_check(c, r["obs"][-1], refout[-1])
            if msg and key != KNOWN_KEY_PI:
                viols.append({"key": key, "what": msg, "input": {"case": c}})
                break
    return viols


def replay(ctx, build, data):
    inp = data.get("violation", {}).get("input")
    if not inp:
        return {"fails": False, "note": "no concrete input"}
    c = inp["case"]
    r = core.run_workers(ctx, [runs.job_of(c)])[0]
    if "error" in r:
        return {"fails": True, "why": r["error"]}
    perms = r["obs"][-1].get("perms") if c["solver"] == "savi" else None
    refout, _ = runs.reference(c, perms=perms)
    diff = runs.compare_with_reference(c, r, refout)
    msg, key = bound_check(c, r["obs"][-1], refout[-1]) if refout[-1]["converged"] else (None, None)
    return {"fails": bool(diff or msg), "why": diff or msg, "key": key}
