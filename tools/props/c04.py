"""C04 - relative value iteration reports the optimal average reward within epsilon."""
import random
import time
from fractions import Fraction as F

from tools.vlib import cases, core, mdpgen, refsolve, runs, solverun


def directed_cases(ctx, count):
    """initial values with a non-zero reference component on models where the very first sweep already passes the test"""
    out = []
    for i in range(count):
        sub = ctx.rng.randrange(10 ** 9)
        rng = random.Random(sub)
        spec = mdpgen.gen_mdp(rng, family="unichain", nS=rng.randint(2, 4), nA=rng.randint(1, 2), nE=2, denom=2)
        r = str(rng.randint(-3, 3))
        for s in range(spec["nS"]):
            for a in range(spec["nA"]):
                spec["rew"][s][a] = [r] * spec["nE"]
        c0 = str(rng.choice([5, -3, 2, 7]))
        spec["init_values"] = [c0] * spec["nS"]
        out.append({"solver": "rvi", "spec": spec, "g": "1", "eps": "1/4", "mb": solverun.pick_mb(rng, spec["nS"]), "ks": [10], "seed": sub, "directed": True})
    return out


def gen(ctx):
    quick = ctx.tier == "quick"
    conv = lambda c, r: r[-1]["converged"]  # noqa: E731
    n = 14 if quick else 200
    cs = runs.generate(ctx, "rvi", n, accept=conv, ks=[40], eps=None)
    cs += runs.generate(ctx, "rvi", max(3, n // 4), init="random")
    cs += runs.generate(ctx, "rvi", max(3, n // 4), accept=conv, ks=[40], init="random", family="unichain")
    cs += directed_cases(ctx, 3 if quick else 20)
    # histories of several solve() calls: the early calls stop at their limit, a later one reports convergence
    # (and the greedy policy still changes between the first call and the converged one, so a stale policy would show)
    last_conv = lambda c, r: r[-1]["converged"] and not any(x["converged"] for x in r[:-1]) and r[0]["policy"] != r[-1]["policy"]  # noqa: E731
    for ks in ([1, 40], [2, 1, 40]):
        cs += runs.generate(ctx, "rvi", max(2, n // 6), accept=last_conv, max_tries=600, ks=ks, eps=None, init="random")
    return cs


def oracle(c, r, refout):
    if "error" in r:
        return f"RelativeValueIteration raised {r['error']}: {r.get('message', '')[:200]}", "raise"
    diff = runs.compare_with_reference(c, r, refout) if not c.get("directed") else None
    if diff:
        return diff, f"trajectory:{c['seed']}"
    last = r["obs"][-1]
    limit = sum(c["ks"])
    converged = refout[-1]["converged"] if not c.get("directed") else last["iteration"] < limit
    spec = c["spec"]
    ref = mdpgen.Ref(spec)
    eps = F(c["eps"])
    try:
        gstar, hstar, _ = ref.optimal_gain()
    except ZeroDivisionError:
        return None, None  # not unichain for the exact solver: outside the property
    # boundedness, converged or not (theorem rvi_no_drift): every observed state stays within w = span(v0 - h*) of the bias
    v0 = solverun.fracs(r["obs"][0]["values"]) if "values" in r["obs"][0] else None
    if v0 is not None and len(r["obs"]) > 1:
        dd = [a - b for a, b in zip(v0, hstar)]
        w = max(dd) - min(dd)
        for o in r["obs"][1:]:
            if o["iteration"] < 1:
                continue
            gj, vj = F(o["gain"]), solverun.fracs(o["values"])
            worst = max(abs((vj[s] - gj) - (hstar[s] - hstar[-1])) for s in range(len(vj)))
            if worst > w or abs(gj - gstar) > w:
                return (f"after {o['iteration']} iterations the relative values are {worst} away from the bias differences and the gain estimate {abs(gj - gstar)} "
                        f"away from the optimal gain; both are bounded by span(v0 - h*) = {w} for every number of iterations"), f"drift:{c['seed']}"
    if not converged:
        return None, None
    try:
        gpol, _ = ref.policy_gain(last["policy"])
    except ZeroDivisionError:
        return None, None
    gain = F(last["gain"])
    vals = solverun.fracs(last["values"])
    if not abs(gain - gstar) < eps:
        return f"reported gain {gain} is not within epsilon = {eps} of the optimal average reward {gstar} (converged at iteration {last['iteration']}, initial values {spec.get('init_values')})", \
            f"gain:{c['seed']}"
    if not (gstar - eps < gpol <= gstar):
        return f"returned policy has average reward {gpol}, optimal {gstar}, epsilon {eps}", f"policygain:{c['seed']}"
    tv = ref.sweep(vals, F(1))
    res = max(abs(a - b - gain) for a, b in zip(tv, vals))
    if not res < eps:
        return f"optimality-equation residual {res} >= epsilon", f"residual:{c['seed']}"
    return None, None


def resumed_runs(ctx, cs, count):
    """the property also covers a run that reports convergence AFTER an interruption: checkpoint every sweep, stop one sweep
    before the uninterrupted run converges, rebuild in a fresh process (load_checkpoint), continue; same predicate"""
    out = []
    picked = 0
    for i, c in enumerate(cs):
        if picked >= count or c.get("directed"):
            continue
        refout, guard = runs.reference(c)
        n = refout[-1]["iteration"]
        if not (guard["ok"] and refout[-1]["converged"] and n >= 2):
            continue
        picked += 1
        d = str(ctx.scratch / f"c04r_{i}" / "ck")
        ck = dict(runs.config_of(c), checkpoint_dir=d, checkpoint_frequency=1, max_checkpoints=2, enable_async_checkpointing=False)
        a = core.run_worker(ctx, [{"kind": "ckpt_run", "problem": c["spec"], "solver": "rvi", "config": ck, "ops": [["solve", n - 1]]}])[0]
        if "error" in a:
            out.append((c, a, n))
            continue
        b = core.run_worker(ctx, [{"kind": "ckpt_restore", "solver": "rvi", "dir": d, "route": "load", "problem": c["spec"], "config": ck,
                                   "ops": [["solve", sum(c["ks"]) - (n - 1)]]}])[0]
        out.append((c, b, n))
    return out


def run(ctx, build):
    cs = gen(ctx)
    res = core.run_workers(ctx, [runs.job_of(c) for c in cs])
    corr, viols, items, meta = [], [], [], []
    n_conv = 0
    n_resumed = 0
    for c, b, n in resumed_runs(ctx, cs, 3 if ctx.tier == "quick" else 30):
        n_resumed += 1
        if "error" in b or b.get("raised"):
            viols.append({"key": f"resumed-raise:{c['seed']}", "what": f"checkpointed/resumed run failed: {b.get('error') or b.get('raised')}: {b.get('message', '')[:200]}", "input": {"case": c, "resumed_at": n - 1}})
            continue
        why, key = oracle(dict(c, directed=True), {"obs": b["obs"]}, None)
        if why:
            viols.append({"key": f"resumed:{c['seed']}", "what": f"after an interruption at sweep {n - 1} and a restore: {why}", "input": {"case": c, "resumed_at": n - 1}})
    for c, r in zip(cs, res):
        refout, guard = runs.reference(c)
        why, key = oracle(c, r, refout)
        if why:
            viols.append({"key": key, "what": why, "input": {"case": c}})
        if refout[-1]["converged"]:
            n_conv += 1
        if "error" not in r and guard["ok"]:
            items.append(runs.coq_item(c, r, len(items)))
            meta.append(c)
    if build["model_ok"]:
        failing, errs = cases.coq_bools(ctx, "c04", items, shard=8)
        for e in errs:
            corr.append({"what": "model evaluation failed", "detail": e})
        for i in failing:
            corr.append({"what": "model and RelativeValueIteration disagree", "seed": meta[i]["seed"], "input": {"case": meta[i]}})
    nontriv = {solverun.case_id([c["spec"]["nxt"], c["spec"]["rew"], c["spec"]["prb"], c["spec"].get("init_values"), c["eps"]]) for c in cs if solverun.nontrivial_mdp(c["spec"])}
    cov = {
        "evaluations": len(cs) + n_resumed, "distinct_nontrivial": len(nontriv), "converged_runs": n_conv,
        "runs_converging_after_interrupt_and_restore": n_resumed,
        "rule": "generated unichain (state 0 reachable from everywhere, self-loop) and deterministic MDPs, gamma = 1, dyadic probabilities, zero and random initial values, "
                "plus directed cases (constant rewards, constant non-zero initial values: the first sweep passes the test); exact optimal gain by rational policy iteration, "
                "exact gain of the returned policy by rational elimination; non-trivial as in C01",
        "samples": [{"seed": c["seed"], "family": c["spec"]["family"], "nS": c["spec"]["nS"], "eps": c["eps"], "init_values": c["spec"].get("init_values"), "ks": c["ks"]} for c in cs[:5] + cs[-2:]],
        "traces_validated_against_impl": len(items),
    }
    return {"coverage": cov, "corr_failures": corr, "impl_violations": viols,
            "assumptions": ["unichain enters as 'for every solution (g*, h*) of the optimality equation'; existence is exhibited exactly by the harness for every tested instance",
                            "aperiodicity is what makes RVI converge at all; the theorems are conditional on convergence being reported"]}


def search(ctx, build, res, time_budget=60):
    cs = directed_cases(ctx, 6) + runs.generate(ctx, "rvi", 6, accept=lambda c, r: r[-1]["converged"], ks=[40], init="random")
    rr = core.run_workers(ctx, [runs.job_of(c) for c in cs])
    for c, r in zip(cs, rr):
        refout, _ = runs.reference(c)
        why, key = oracle(c, r, refout)
        if why:
            return [{"key": key, "what": why, "input": {"case": c}}]
    return []


def replay(ctx, build, data):
    inp = data.get("violation", {}).get("input")
    if not inp:
        return {"fails": False, "note": "no concrete input"}
    c = inp["case"]
    if "resumed_at" in inp:
        for cc, b, n in resumed_runs(ctx, [c], 1):
            if "error" in b or b.get("raised"):
                return {"fails": True, "why": str(b)[:300]}
            why, _ = oracle(dict(cc, directed=True), {"obs": b["obs"]}, None)
            return {"fails": bool(why), "why": why}
        return {"fails": False, "note": "case no longer converges"}
    r = core.run_workers(ctx, [runs.job_of(c)])[0]
    refout, _ = runs.reference(c)
    why, _ = oracle(c, r, refout)
    return {"fails": bool(why), "why": why}
