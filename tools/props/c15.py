"""C15 - shipped problems' transitions and rewards match the documented dynamics."""
import random
from fractions import Fraction as F

import numpy as np

from tools.vlib import cases, core, problems_ref as PR, shipped, solverun
from tools.vlib.core import qlit, zlist, zlit

IMPORTS = ("From Coq Require Import ZArith QArith List Bool.\nFrom MdpaxV Require Import Model.ListUtil Model.Problems Model.CorrC18 Model.CorrSolve.\nImport ListNotations.\n")


def full_table_check(p, t):
    """complete (s, a, e) table against the independent scalar reference; returns (message, n_checked)"""
    kind, P = p["kind"], PR.params_of(p["kind"], p["params"])
    S, A, E = PR.spaces(kind, P)
    if t["states"].tolist() != S:
        return f"state space differs from the documented one ({len(t['states'])} vs {len(S)} rows)", 0
    if t["actions"].tolist() != A:
        return "action space differs from the documented one", 0
    if t["events"].tolist() != E:
        return "random event space differs from the documented one", 0
    nxt, rew = t["next"], t["reward"]
    n = 0
    for si, s in enumerate(S):
        for ai, a in enumerate(A):
            for ei, e in enumerate(E):
                want_s, want_r = PR.transition(kind, P, s, a, e)
                n += 1
                if nxt[si, ai, ei].tolist() != want_s:
                    return f"successor of state {s}, action {a}, event {e} is {nxt[si, ai, ei].tolist()}, documented dynamics give {want_s}", n
                if not (abs(float(rew[si, ai, ei]) - want_r) <= 1e-9 * max(1.0, abs(want_r))):
                    return f"reward of state {s}, action {a}, event {e} is {float(rew[si, ai, ei])}, documented dynamics give {want_r}", n
    return None, n


def coq_sample(p, t, rng, k, count=60):
    """Gallina terms comparing the model's transition / reward with the implementation on a seeded sample of triples"""
    kind, P = p["kind"], PR.params_of(p["kind"], p["params"])
    S, A, E = t["states"], t["actions"], t["events"]
    terms = []
    for _ in range(count):
        si, ai, ei = rng.randrange(len(S)), rng.randrange(len(A)), rng.randrange(len(E))
        s, a, e = S[si].tolist(), A[ai].tolist(), E[ei].tolist()
        nx = t["next"][si, ai, ei].tolist()
        rw = F(float(t["reward"][si, ai, ei]))
        if kind == "forest":
            cut, fire = ("true" if a[0] == 1 else "false"), ("true" if e[0] == 1 else "false")
            terms.append(f"(Z.eqb (forest_next {zlit(P['S'])} {zlit(s[0])} {cut} {fire}) {zlit(nx[0])} && "
                         f"Qeq_bool (forest_reward {zlit(P['S'])} {qlit(F(P['r1']))} {qlit(F(P['r2']))} {zlit(s[0])} {cut}) {qlit(rw)})")
        elif kind == "de_moor":
            fifo = "true" if P["issue_policy"] == "fifo" else "false"
            L, m = P["lead_time"], P["max_useful_life"]
            cs = " ".join(qlit(F(P[c])) for c in ("variable_order_cost", "shortage_cost", "wastage_cost", "holding_cost"))
            terms.append(f"(zlist_eqb (dm_next {L}%nat {m}%nat {fifo} {zlist(s)} {zlit(a[0])} {zlit(e[0])}) {zlist(nx)} && "
                         f"Qeq_bool (dm_reward {L}%nat {m}%nat {fifo} {cs} {zlist(s)} {zlit(a[0])} {zlit(e[0])}) {qlit(rw)})")
        elif kind == "hendrix":
            m = P["max_useful_life"]
            cs = " ".join(qlit(F(P[c])) for c in ("variable_order_cost_a", "variable_order_cost_b", "sales_price_a", "sales_price_b"))
            terms.append(f"(zlist_eqb (hx_next {m}%nat {zlist(s)} {zlit(a[0])} {zlit(a[1])} {zlit(e[0])} {zlit(e[1])}) {zlist(nx)} && "
                         f"Qeq_bool (hx_reward {cs} {zlit(a[0])} {zlit(a[1])} {zlit(e[0])} {zlit(e[1])}) {qlit(rw)})")
        else:
            m = P["max_useful_life"]
            cs = " ".join(qlit(F(P[c])) for c in ("variable_order_cost", "fixed_order_cost", "shortage_cost", "wastage_cost", "holding_cost"))
            terms.append(f"(zlist_eqb (mj_next {m}%nat {zlit(P['max_order_quantity'])} {zlist(s)} {zlit(e[0])} {zlist(e[1:])}) {zlist(nx)} && "
                         f"Qeq_bool (mj_reward {zlit(P['max_order_quantity'])} {cs} {zlist(s)} {zlit(a[0])} {zlit(e[0])} {zlist(e[1:])}) {qlit(rw)})")
    return ("", "(" + " && ".join(terms) + ")")


def run(ctx, build):
    probs = shipped.grid(ctx)
    tabs = shipped.tables(ctx, probs)
    corr, viols, items, meta = [], [], [], []
    total = 0
    rng = random.Random(f"{ctx.seed}-c15")
    for p, r, t in tabs:
        if t is None:
            viols.append({"key": f"raise:{p['kind']}:{sorted(p['params'].items())}", "what": f"{p['kind']} raised {r.get('error')}: {r.get('message', '')[:200]}", "input": {"problem": p}})
            continue
        why, n = full_table_check(p, t)
        total += n
        if why:
            viols.append({"key": f"dynamics:{p['kind']}:{core.case_hash(p)[:10]}", "what": why, "input": {"problem": p}})
        items.append(coq_sample(p, t, rng, len(items)))
        meta.append(p)
    if build["model_ok"]:
        failing, errs = cases.coq_bools(ctx, "c15", items, imports=IMPORTS, shard=4)
        for e in errs:
            corr.append({"what": "model evaluation failed", "detail": e})
        for i in failing:
            corr.append({"what": "Gallina transition/reward model and implementation disagree on a sampled triple", "input": {"problem": meta[i]}})
    cov = {
        "evaluations": total, "distinct_nontrivial": len({core.case_hash(p) for p, r, t in tabs if t is not None}), "problems": len(tabs),
        "rule": "parameter grid of the four shipped problems (useful life 1-3 (1-5 thorough), lead time 1-3 (1-4), both issuing policies, dyadic cost coefficients so rewards compare exactly); "
                "COMPLETE state x action x event tables of transition() compared with an independent scalar reference of the documented dynamics; 60 seeded triples per parameterisation "
                "compared with the Gallina model in the kernel; distinct = distinct parameterisations",
        "exhaustive": False, "complete_tables_per_parameterisation": True,
        "samples": [{"problem": p["kind"], "params": {k: v for k, v in list(p["params"].items())[:6]}, "nS": int(r.get("nS", 0)), "nA": int(r.get("nA", 0)), "nE": int(r.get("nE", 0))} for p, r, t in tabs[:8]],
        "traces_validated_against_impl": len(items) * 60,
    }
    return {"coverage": cov, "corr_failures": corr, "impl_violations": viols,
            "assumptions": ["Forest: waiting in the oldest state earns r1 whether or not the fire event is drawn (the suite's pymdptoolbox matrices require it; the docstring's 'no reward on fire' refers to younger states)"]}


def search(ctx, build, res, time_budget=60):
    return []


def replay(ctx, build, data):
    inp = data.get("violation", {}).get("input")
    if not inp or "problem" not in inp:
        return {"fails": False, "note": "no concrete input"}
    p, r, t = shipped.tables(ctx, [inp["problem"]])[0]
    if t is None:
        return {"fails": True, "why": str(r)[:300]}
    why, _ = full_table_check(p, t)
    return {"fails": bool(why), "why": why}
