"""C03 - results are independent of batch size, device count and padding."""
import random
from fractions import Fraction as F

from tools.vlib import cases, core, mdpgen, refsolve, runs, solverun


def gen(ctx):
    quick = ctx.tier == "quick"
    per = 3 if quick else 14
    out = []
    for solver in ("vi", "rvi", "pvi", "pi", "savi"):
        kw = {"ks": [4]} if solver != "pi" else {"ks": [3]}
        out += runs.generate(ctx, solver, per, **kw)
        # layouts without padding on several devices need n = d * nb * bs: n = 128 / 192 with batch 64
        big = runs.generate(ctx, solver, 1 if quick else 3, nS=128, nA=2, nE=2, family="tab", mb=64, init="zero", max_tries=200,
                            **({"ks": [3]} if solver != "pi" else {"ks": [2], "max_eval": 3}))
        out += big
    # thousands of states (several full batches per device at every batch size): layouts compared with each other on the
    # implementation alone (exact dyadic data, so every layout must agree to the bit); not evaluated inside Coq
    for solver in (("vi", "pi") if quick else ("vi", "pi", "rvi", "pvi", "vi", "pi")):
        lg = runs.generate(ctx, solver, 1, nS=ctx.rng.choice([2100, 3333, 5000]) + ctx.rng.randrange(50), nA=2, nE=2, family="tab" if solver != "rvi" else "unichain",
                           denom=2, init="zero", max_tries=20, **({"ks": [3]} if solver != "pi" else {"ks": [2], "max_eval": 3}), **({"g": F(1, 2)} if solver != "rvi" else {}))
        for c in lg:
            c["large"] = True
        out += lg
    return out


def variants(case, tier):
    n = case["spec"]["nS"]
    if case.get("large"):
        return [(1024, 1), (64, 1), (1000, 2), (4096, 2), (4096, 3), (100, 3)] if tier == "quick" else [(1024, 1), (64, 1), (1000, 2), (4096, 2), (4096, 3), (100, 3), (n, 1), (777, 4), (8192, 8)]
    mbs = sorted({1, 2, 3, 5, 7, 64, 65, n, n + 3} if n <= 10 else {64, 65, 33, n, n + 3})
    devs = [1, 2, 3] if tier == "quick" else [1, 2, 3, 4, 8]
    rng = random.Random(case["seed"])
    picks = []
    for d in devs:
        for mb in rng.sample(mbs, 2 if tier == "quick" else min(4, len(mbs))):
            picks.append((mb, d))
    if n >= 128:
        picks += [(64, 2)]
    return sorted(set(picks))


def run(ctx, build):
    cs = gen(ctx)
    corr, viols = [], []
    by_dev = {}
    for ci, c in enumerate(cs):
        for (mb, d) in variants(c, ctx.tier):
            v = dict(c)
            v["mb"] = mb
            by_dev.setdefault(d, []).append((ci, v))
    results = {}
    for d, lst in sorted(by_dev.items()):
        res = core.run_workers(ctx, [runs.job_of(v) for _, v in lst], devices=d)
        for (ci, v), r in zip(lst, res):
            results[(ci, v["mb"], d)] = (v, r)
    # property oracle on the implementation alone: all layouts of one case agree (fixed-order solvers), nothing raises,
    # every returned vector has n_states entries
    total = 0
    skipped_inexact = 0
    items, meta = [], []
    for ci, c in enumerate(cs):
        base = None
        for (cj, mb, d), (v, r) in sorted(results.items()):
            if cj != ci:
                continue
            total += 1
            key = f"layout:{c['seed']}:{c['solver']}:mb={mb}:d={d}"
            if "error" in r:
                viols.append({"key": "npad0-multidevice" if _is_npad0(c, mb, d) else key,
                              "what": f"{c['solver']} raised {r['error']} on layout max_batch_size={mb}, devices={d}: {r.get('message', '')[:200]}",
                              "input": {"case": v, "devices": d}})
                continue
            obs = r["obs"][1:]
            if any(o["len_values"] != c["spec"]["nS"] for o in obs):
                viols.append({"key": key, "what": "returned value vector does not have n_states entries", "input": {"case": v, "devices": d}})
            if c["solver"] != "savi":
                sig = [(o["values"], o["iteration"], o["policy"], o.get("gain"), o.get("history"), o.get("hidx")) for o in obs]
                if base is None:
                    base = (sig, mb, d)
                elif sig != base[0]:
                    viols.append({"key": key, "what": f"{c['solver']} results differ between layout (mb={base[1]}, d={base[2]}) and (mb={mb}, d={d})",
                                  "input": {"case": v, "devices": d, "other": {"mb": base[1], "devices": base[2]}}})
            if c.get("large"):
                continue
            perms = obs[-1].get("perms") if c["solver"] == "savi" else None
            if c["solver"] == "savi" and c.get("shuffle") and perms is None:
                continue  # hook off: permutation unknown, model cannot be driven
            if c["solver"] == "savi":
                # exactness guard re-evaluated for the partition / permutation actually used
                try:
                    _, guard = runs.reference(v, perms=perms, devices=d)
                except (ZeroDivisionError, OverflowError):
                    continue
                if not guard["ok"]:
                    skipped_inexact += 1
                    continue
            items.append(runs.coq_item(v, r, len(items), devices=d, perms=perms))
            meta.append((v, d))
    if build["model_ok"]:
        failing, errs = cases.coq_bools(ctx, "c03", items, shard=12)
        for e in errs:
            corr.append({"what": "model evaluation failed", "detail": e})
        for i in failing:
            v, d = meta[i]
            corr.append({"what": "model and implementation disagree on a run", "solver": v["solver"], "seed": v["seed"], "mb": v["mb"], "devices": d,
                         "input": {"case": v, "devices": d}})
    nontriv = {(ci, mb, d) for (ci, mb, d), (v, r) in results.items() if d > 1 or refsolve.layout(v["spec"]["nS"], mb, d)[2] > 0}
    cov = {
        "evaluations": total, "cases_with_thousands_of_states": [c["spec"]["nS"] for c in cs if c.get("large")],
        "distinct_nontrivial": len(nontriv),
        "rule": "distinct (generated MDP, solver, max_batch_size, device count) runs; XLA_FLAGS=--xla_force_host_platform_device_count=d emulated devices; "
                "non-trivial = more than one device or a padded last batch",
        "samples": [{"solver": v["solver"], "seed": v["seed"], "nS": v["spec"]["nS"], "mb": mb, "devices": d, "layout(bs,nb,pad)": refsolve.layout(v["spec"]["nS"], mb, d),
                     "zero_is_state": v["spec"]["zero_is_state"]} for (ci, mb, d), (v, r) in list(sorted(results.items()))[:: max(1, len(results) // 6)]][:8],
        "traces_validated_against_impl": len(items), "semi_async_runs_outside_exact_regime_skipped": skipped_inexact,
        "device_counts": sorted(by_dev), "no_padding_multi_device_cases": sum(1 for (ci, mb, d), (v, r) in results.items() if _is_npad0(v, mb, d)),
    }
    return {"coverage": cov, "corr_failures": corr, "impl_violations": viols,
            "assumptions": ["device counts emulated on the host CPU", "semi-asynchronous runs compared per partition (their sweep legitimately depends on it); error bound for every partition is C01/C06"]}


def _is_npad0(c, mb, d):
    return d > 1 and refsolve.layout(c["spec"]["nS"], mb, d)[2] == 0


def search(ctx, build, res, time_budget=60):
    return []


def replay(ctx, build, data):
    inp = data.get("violation", {}).get("input")
    if not inp:
        return {"fails": False, "note": "no concrete input"}
    r = core.run_workers(ctx, [runs.job_of(inp["case"])], devices=inp.get("devices", 1))[0]
    if "error" in r:
        return {"fails": True, "why": r["error"] + ": " + r.get("message", "")[:300]}
    if inp.get("other"):
        v2 = dict(inp["case"])
        v2["mb"] = inp["other"]["mb"]
        r2 = core.run_workers(ctx, [runs.job_of(v2)], devices=inp["other"]["devices"])[0]
        same = [o["values"] for o in r["obs"][1:]] == [o["values"] for o in r2["obs"][1:]]
        return {"fails": not same}
    return {"fails": False}
