"""C16 - shipped problems' event probabilities equal the documented distributions."""
import numpy as np

from tools.vlib import cases, core, problems_ref as PR, shipped

TOL = 1e-6
IMPORTS = "From Coq Require Import QArith Qabs List Bool.\nFrom MdpaxV Require Import Proofs.C13P Proofs.MultinomP Model.CorrSolve.\nImport ListNotations.\n"


def expected_table(kind, P, t):
    """independently computed probability of every (state, action, event); None where not defined"""
    S, A, E = t["states"].tolist(), t["actions"].tolist(), t["events"].tolist()
    out = np.zeros((len(S), len(A), len(E)))
    if kind == "forest":
        for ai, a in enumerate(A):
            row = [1 - P["p"], P["p"]] if a[0] == 0 else [1.0, 0.0]
            out[:, ai, :] = row
        return out, 0.0
    if kind == "de_moor":
        pm = PR.demoor_pmf(P)
        out[:, :, :] = pm
        return out, 0.0
    if kind == "mirjalili":
        dem = [PR.mirjalili_demand_pmf(P, w) for w in range(7)]
        for ai, a in enumerate(A):
            rec = [PR.mirjalili_received_prob(P, a[0], e[1:]) for e in E]
            for si, s in enumerate(S):
                out[si, ai, :] = [dem[s[0]][e[0]] * r for e, r in zip(E, rec)]
        return out, 0.0
    # hendrix: brute-force joint law of (issued_a, issued_b), demands truncated at the model's maximum
    from scipy.stats import binom
    m = P["max_useful_life"]
    Dmax, pa, pb = PR.hendrix_tables(P)
    rho = P["substitution_probability"]
    cache = {}
    slack = 0.0
    for si, s in enumerate(S):
        sa, sb = sum(s[:m]), sum(s[m:])
        if (sa, sb) not in cache:
            law = {}
            for db in range(Dmax + 1):
                ib = min(db, sb)
                exc = max(db - sb, 0)
                for u in range(exc + 1):
                    pu = binom.pmf(u, exc, rho) if exc > 0 else (1.0 if u == 0 else 0.0)
                    if pu == 0:
                        continue
                    for da in range(Dmax + 1):
                        ia = min(da + u, sa)
                        law[(ia, ib)] = law.get((ia, ib), 0.0) + pa[da] * pb[db] * pu
            cache[(sa, sb)] = law
        law = cache[(sa, sb)]
        row = [law.get((e[0], e[1]), 0.0) for e in E]
        out[si, :, :] = row
        slack = max(slack, abs(PR.hendrix_lost_mass(P, sa, sb)) + (1 - sum(pa)) + (1 - sum(pb)))
    return out, slack


def check(p, t):
    kind, P = p["kind"], PR.params_of(p["kind"], p["params"])
    want, slack = expected_table(kind, P, t)
    got = t["prob"]
    diff = np.abs(got - want)
    tol = TOL + slack
    if not (diff <= tol).all():     # NaN-safe: a non-finite probability is a difference
        si, ai, ei = [int(x[0]) for x in np.nonzero(~(diff <= tol))]
        return (f"probability of event {t['events'][ei].tolist()} in state {t['states'][si].tolist()} under action {t['actions'][ai].tolist()} is {got[si, ai, ei]:.8f}, "
                f"the documented distribution gives {want[si, ai, ei]:.8f} (tolerance {tol:.2e})")
    # initial values: zero, except Hendrix = expected one-step sales revenue under that distribution
    if kind == "hendrix":
        rev = np.array([P["sales_price_a"] * e[0] + P["sales_price_b"] * e[1] for e in t["events"].tolist()])
        want_iv = (got[:, 0, :] * rev).sum(axis=1)
        if not (np.abs(t["init"] - want_iv).max() <= 1e-6):
            return "Hendrix initial value is not the expected one-step sales revenue"
    elif not (np.abs(t["init"]).max() == 0):
        return "initial value estimates are not zero"
    return None


def multinomial_items(P, t, per_action=4):
    """the PROVED multinomial law (Proofs/MultinomP.mprob, Pascal-row coefficients) evaluated in the kernel on the age-class
    probabilities of this configuration, against the implementation's received-units probability (its event probabilities
    summed over the demand component)"""
    import math
    from fractions import Fraction as F
    from tools.vlib.core import qlit
    E = t["events"].tolist()
    A = t["actions"].tolist()
    pos = {tuple(e): i for i, e in enumerate(E)}
    m, D = P["max_useful_life"], P["max_demand"]
    c0, c1 = P["useful_life_at_arrival_distribution_c_0"], P["useful_life_at_arrival_distribution_c_1"]
    out = []
    for ai, a in enumerate(A):
        q = a[0]
        if q == 0:
            continue
        logits = ([0.0] + [c0[j] + c1[j] * q for j in range(m - 1)])[::-1]
        mx = max(logits)
        w = [math.exp(x - mx) for x in logits]
        probs = [F(x / sum(w)) for x in w]
        recs = sorted({tuple(e[1:]) for e in E if sum(e[1:]) == q})
        step = max(1, len(recs) // per_action)
        for rec in recs[::step][:per_action]:
            impl = sum(float(t["prob"][0, ai, pos[(d,) + rec]]) for d in range(D + 1))
            if not math.isfinite(impl):
                out.append(("", "false"))
                continue
            plist = "[" + "; ".join(qlit(x) for x in probs) + "]"
            rlist = "[" + "; ".join(str(int(x)) for x in rec) + "]%nat"
            out.append(("", f"(Qle_bool (Qabs (mprob {plist} {rlist} - {qlit(F(impl))})) (1 # 100000))"))
    return out


def run(ctx, build):
    n_multi = [0]
    probs = shipped.grid(ctx)
    tabs = shipped.tables(ctx, probs)
    corr, viols = [], []
    total = 0
    for p, r, t in tabs:
        if t is None:
            viols.append({"key": f"raise:{p['kind']}:{sorted(p['params'].items())}", "what": f"{p['kind']} raised {r.get('error')}: {r.get('message', '')[:200]}", "input": {"problem": p}})
            continue
        total += int(np.prod(t["prob"].shape))
        why = check(p, t)
        if why:
            viols.append({"key": f"distribution:{p['kind']}:{core.case_hash(p)[:10]}", "what": why, "input": {"problem": p}})
    items = []
    if build["model_ok"]:
        # the proved conversions, evaluated on this run's parameters (kernel): shape/rate and success probability
        from fractions import Fraction as F
        from tools.vlib.core import qlit
        for p, r, t in tabs:
            P = PR.params_of(p["kind"], p["params"])
            if p["kind"] == "de_moor":
                mean, cov = F(P["demand_gamma_mean"]), F(P["demand_gamma_cov"])
                items.append(("", f"(let alpha := 1 / ({qlit(cov)} * {qlit(cov)}) in let beta := 1 / ({qlit(mean)} * ({qlit(cov)} * {qlit(cov)})) in Qeq_bool (alpha / beta) {qlit(mean)})"))
            if p["kind"] == "mirjalili":
                n, dl = F(P["weekday_demand_negbin_n"][0]), F(P["weekday_demand_negbin_delta"][0])
                items.append(("", f"(let p := {qlit(n)} / ({qlit(dl)} + {qlit(n)}) in Qeq_bool ({qlit(n)} * (1 - p) / p) {qlit(dl)})"))
                if t is not None and P["max_useful_life"] >= 2:
                    items += multinomial_items(P, t)
                    n_multi[0] += 1
        failing, errs = cases.coq_bools(ctx, "c16", items, imports=IMPORTS, shard=60)
        for e in errs:
            corr.append({"what": "model evaluation failed", "detail": e})
        for i in failing:
            corr.append({"what": "parameter conversion identity fails on this run's parameters", "index": i})
    cov = {
        "evaluations": total, "distinct_nontrivial": len({core.case_hash(p) for p, r, t in tabs if t is not None}), "problems": len(tabs),
        "rule": "parameter grid of the four shipped problems; every entry of the COMPLETE probability table compared (1e-6, plus the truncation slack for Hendrix) with the documented "
                "distribution computed independently: scipy gamma CDF bins with the tail folded (De Moor), scipy negative binomial x exact multinomial coefficients and softmax of the "
                "reversed logits (Mirjalili), brute-force joint law of units issued under Poisson demands and binomial substitution (Hendrix), fire table (Forest); initial values",
        "samples": [{"problem": p["kind"], "params": {k: v for k, v in list(p["params"].items())[:5]}, "entries": int(np.prod(t["prob"].shape)) if t is not None else 0} for p, r, t in tabs[:8]],
        "traces_validated_against_impl": len(tabs),
        "mirjalili_configurations_whose_received_law_was_compared_with_the_proved_multinomial": n_multi[0],
    }
    return {"coverage": cov, "corr_failures": corr, "impl_violations": viols,
            "assumptions": ["that numpyro's Gamma.cdf / negative-binomial / multinomial log-probs and jax.scipy's Poisson ARE those distributions is differential testing against scipy/math, not a theorem"]}


def search(ctx, build, res, time_budget=60):
    return []


def replay(ctx, build, data):
    inp = data.get("violation", {}).get("input")
    if not inp or "problem" not in inp:
        return {"fails": False, "note": "no concrete input"}
    p, r, t = shipped.tables(ctx, [inp["problem"]])[0]
    if t is None:
        return {"fails": True, "why": str(r)[:300]}
    why = check(p, t)
    return {"fails": bool(why), "why": why}
