"""C09 - interrupt-and-resume at any iteration equals an uninterrupted run."""
import concurrent.futures as cf
import random
import time
from fractions import Fraction as F

from tools.vlib import cases, core, mdpgen, refsolve, runs, solverun

SHIPPED = [
    {"kind": "forest", "params": {"S": 6, "p": 0.25}},
    {"kind": "de_moor", "params": {"max_demand": 6, "max_useful_life": 2, "lead_time": 1, "max_order_quantity": 3}},
    {"kind": "hendrix", "params": {"max_useful_life": 2, "max_order_quantity_a": 2, "max_order_quantity_b": 2}},
    {"kind": "mirjalili", "params": {"max_demand": 3, "max_useful_life": 2, "max_order_quantity": 2,
                                     "useful_life_at_arrival_distribution_c_0": [1.0], "useful_life_at_arrival_distribution_c_1": [0.5]}},
]
FIELDS = ("values", "iteration", "policy", "gain", "history", "hidx", "period")


def gen(ctx):
    quick = ctx.tier == "quick"
    out = []
    n = 8 if quick else 60
    for i in range(n):
        sub = ctx.rng.randrange(10 ** 9)
        rng = random.Random(sub)
        solver = ["vi", "pi", "rvi", "pvi", "savi"][i % 5]
        total = rng.choice([6, 7, 8])
        kw = {"family": "det"} if solver == "rvi" else {"family": rng.choice(["det", "tab"])}
        cs = runs.generate(ctx, solver, 1, ks=[total], eps=F(1, 2 ** 20), **kw, **({"shuffle": False} if solver == "savi" else {}), **({"clear": False} if solver == "pvi" else {}),
                           accept=lambda c, r: not r[-1]["converged"] or r[-1]["iteration"] >= 3)
        if not cs:
            continue
        c = cs[0]
        refout, _ = runs.reference(c)
        last = refout[-1]["iteration"] if refout[-1]["converged"] else total
        cuts = sorted(rng.sample(range(1, last), min(rng.choice([1, 1, 2]), last - 1))) if last > 1 else []
        if not cuts:
            continue
        c.update({"cuts": cuts, "total": total, "f": rng.choice([1, 2, 3]), "m": rng.choice([1, 2, 5]), "async": rng.random() < 0.5, "route": "load", "tabular": True})
        out.append(c)
    # directed: the uninterrupted run CONVERGES (at iteration >= 5) and the interruption lies before that point, so state that
    # only feeds the convergence test (history, discount scaling, gain) decides where the resumed run stops
    for i, solver in enumerate(["pvi", "pvi", "vi", "rvi", "savi"] if quick else ["pvi", "vi", "rvi", "savi"] * 8):
        kw = {"family": "tab", "denom": 2, "eps": F(1, 8) if i % 2 else F(1, 64), "ks": [16]}
        if solver != "rvi":
            kw["g"] = F(1, 2)
        if solver == "pvi":
            kw["clear"] = False
        if solver == "savi":
            kw["shuffle"] = False
        cs = runs.generate(ctx, solver, 1, max_tries=60, accept=lambda c, r: r[-1]["converged"] and r[-1]["iteration"] >= 5, **kw)
        if not cs:
            continue
        c = cs[0]
        rng = random.Random(c["seed"])
        conv = runs.reference(c)[0][-1]["iteration"]
        cuts = sorted(rng.sample(range(2, conv), min(rng.choice([1, 2]), conv - 2)))
        c.update({"cuts": cuts, "total": 16, "f": rng.choice([1, 2, 3]), "m": rng.choice([1, 2, 5]), "async": rng.random() < 0.5, "route": "load", "tabular": True,
                  "converges_after_the_interruption_at": conv})
        out.append(c)
    # shipped problems through the class-level restore() route (configuration reloaded from YAML)
    for j, prob in enumerate(SHIPPED if not quick else SHIPPED[:2] + [SHIPPED[3]]):
        sub = ctx.rng.randrange(10 ** 9)
        rng = random.Random(sub)
        solver = ["vi", "pvi", "rvi", "pi", "savi"][j % 5]
        if prob["kind"] != "hendrix" and solver == "rvi":
            solver = "vi"
        c = {"solver": solver, "spec": prob, "g": "1" if solver == "rvi" else "7/8", "eps": str(F(1, 2 ** 30)), "mb": rng.choice([16, 1024]), "ks": [5], "seed": sub,
             "cuts": [rng.choice([1, 2, 3])], "total": 5, "f": rng.choice([1, 2]), "m": rng.choice([1, 3]), "async": rng.random() < 0.5, "route": "restore", "tabular": False}
        if solver in ("vi", "pi", "savi"):
            c["test"] = "span"
        if solver == "pvi":
            c["period"], c["clear"] = 2, False
        if solver == "savi":
            c["shuffle"], c["random_seed"] = False, 3
        if solver == "pi":
            c["max_eval"], c["reset"] = 5, False
        out.append(c)
        # the same experiment in the USUAL order of a fresh process: the problem is built before 64-bit mode is switched on (its
        # tables are single precision), in the interrupted run, in every restoring process and in the uninterrupted run alike
        if prob["kind"] != "forest":
            out.append(dict(c, x64_first=False, seed=sub + 1, cuts=[rng.choice([1, 2, 3])], route=rng.choice(["restore", "restore", "load"])))
    return out


def experiment(ctx, c, idx):
    """A (checkpointed, interrupted) -> B... (restore + continue) ; C (uninterrupted, no checkpointing)"""
    d = str(ctx.scratch / f"c09_{idx}" / "ck")
    cfg = runs.config_of(c)
    ck = dict(cfg, checkpoint_dir=d, checkpoint_frequency=c["f"], max_checkpoints=c["m"], enable_async_checkpointing=c["async"])
    legs = [c["cuts"][0]] + [b - a for a, b in zip(c["cuts"], c["cuts"][1:])] + [c["total"] - c["cuts"][-1]]
    out = {"legs": legs}
    xf = {"x64_first": c.get("x64_first", True)}
    a = core.run_worker(ctx, [dict({"kind": "ckpt_run", "problem": c["spec"], "solver": c["solver"], "config": ck, "ops": [["solve", legs[0]]]}, **xf)])[0]
    out["A"] = a
    if "error" in a:
        return out
    bs = []
    for leg in legs[1:]:
        job = dict({"kind": "ckpt_restore", "solver": c["solver"], "dir": d, "route": c["route"], "ops": [["solve", leg]]}, **xf)
        if c["route"] == "load":
            job.update({"problem": c["spec"], "config": ck})
        b = core.run_worker(ctx, [job])[0]
        bs.append(b)
        if "error" in b or b.get("raised"):
            break
    out["B"] = bs
    out["C"] = core.run_worker(ctx, [dict({"kind": "solve_ops", "problem": c["spec"], "solver": c["solver"], "config": cfg, "ops": [["solve", c["total"]]]}, **xf)])[0]
    return out


def oracle(c, e):
    a = e["A"]
    if "error" in a:
        return f"checkpointed run raised {a['error']}: {a.get('message', '')[:200]}"
    for b in e.get("B", []):
        if "error" in b:
            return f"resuming raised {b['error']}: {b.get('message', '')[:200]}"
        if b.get("raised"):
            return f"restore raised {b['raised']}: {b.get('message', '')[:200]}"
    cres = e["C"]
    if "error" in cres:
        return f"uninterrupted run raised {cres['error']}"
    # the property is about interruptions BEFORE convergence: when the uninterrupted run has already stopped at or before the
    # (last) interruption point, "continuing" performs sweeps the uninterrupted run never made (solve() always sweeps at least once)
    if cres["obs"][-1]["iteration"] <= c["cuts"][-1]:
        return "SKIP"
    # restored state == state at the interruption
    got0, want0 = e["B"][0]["obs"][0], a["obs"][-1]
    for key in FIELDS:
        if key == "policy":
            continue  # C10: a stored policy is not re-read by the VI family (known finding there); it never influences the continuation
        if key in want0 and got0.get(key) != want0.get(key):
            return f"restored {key} differs from what the interrupted solver held at iteration {want0['iteration']}"
    fin_b, fin_c = e["B"][-1]["obs"][-1], cres["obs"][-1]
    for key in FIELDS:
        if key in fin_c and fin_b.get(key) != fin_c.get(key):
            return f"resumed run differs from the uninterrupted run in {key} (interruptions at {c['cuts']})"
    # checkpointing itself changed nothing: A's state at the cut equals a plain run to the cut?  (covered by C == B and by the model)
    return None


def run(ctx, build):
    cs = gen(ctx)
    with cf.ThreadPoolExecutor(max_workers=8) as ex:
        exps = list(ex.map(lambda ic: experiment(ctx, ic[1], ic[0]), enumerate(cs)))
    corr, viols, items, meta = [], [], [], []
    n_after_convergence = 0
    for c, e in zip(cs, exps):
        why = oracle(c, e)
        if why == "SKIP":
            n_after_convergence += 1
            why = None
        if why:
            viols.append({"key": f"resume:{c['solver']}:{c['seed']}", "what": why, "input": {"case": {k: v for k, v in c.items() if k != 'guard'}}})
        if c["tabular"] and "error" not in e["A"] and e.get("B") and "error" not in e["B"][-1] and not e["B"][-1].get("raised"):
            # model: ONE uninterrupted model run must equal the resumed implementation run
            fake = {"obs": [e["A"]["obs"][0], e["B"][-1]["obs"][-1]]}
            items.append(runs.coq_item(dict(c, ks=[c["total"]]), fake, len(items)))
            meta.append(c)
    if build["model_ok"]:
        failing, errs = cases.coq_bools(ctx, "c09", items, shard=6)
        for e in errs:
            corr.append({"what": "model evaluation failed", "detail": e})
        for i in failing:
            corr.append({"what": "uninterrupted model run and resumed implementation run disagree", "solver": meta[i]["solver"], "seed": meta[i]["seed"], "input": {"case": meta[i]}})
    nontriv = {(c["solver"], c["seed"], tuple(c["cuts"])) for c in cs}
    cov = {
        "evaluations": len(cs), "distinct_nontrivial": len(nontriv), "processes": sum(2 + len(e.get("B", [])) for e in exps),
        "rule": "each case = fresh process A (checkpointed, stops at the first cut) -> fresh process(es) B (restore() or load_checkpoint(), continue) vs fresh process C "
                "(uninterrupted, no checkpointing); all five solvers, frequency 1-3, retention 1/2/5, sync/async, 1-2 interruptions strictly before convergence; "
                "tabular dyadic problems (load_checkpoint route, compared with the model) and shipped problems (restore() route through YAML); every case is non-trivial",
        "samples": [{"solver": c["solver"], "problem": c["spec"].get("kind", "tabular"), "cuts": c["cuts"], "total": c["total"], "f": c["f"], "m": c["m"], "async": c["async"], "route": c["route"]} for c in cs[:8]],
        "traces_validated_against_impl": len(items),
        "experiments_skipped_because_the_uninterrupted_run_stops_at_or_before_the_interruption": n_after_convergence,
    }
    return {"coverage": cov, "corr_failures": corr, "impl_violations": viols,
            "assumptions": ["Orbax encoding/decoding and Hydra/OmegaConf configuration round trip are contracts validated by these fresh-process runs, not proved",
                            "shuffled semi-asynchronous runs are excluded (the PRNG key is not saved: Props/C09.v savi_key_not_saved); their bound is C01/C06"]}


def search(ctx, build, res, time_budget=60):
    return []


def replay(ctx, build, data):
    inp = data.get("violation", {}).get("input")
    if not inp:
        return {"fails": False, "note": "no concrete input"}
    c = inp["case"]
    e = experiment(ctx, c, 999)
    why = oracle(c, e)
    if why == "SKIP":
        return {"fails": False, "note": "the uninterrupted run stops at or before the interruption point: outside the property"}
    return {"fails": bool(why), "why": why}
