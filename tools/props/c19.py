"""C19 - range spaces enumerate the integer box and the index function inverts them."""
import itertools
import time

from tools.vlib import core
from tools.vlib.core import zlist

IMPORTS = "From Coq Require Import List ZArith Bool.\nFrom MdpaxV Require Import Model.ListUtil Model.Spaces Model.CorrC19.\nImport ListNotations.\n"
LO, HI = -3, 3


def boxes(ctx):
    pairs = [(a, b) for a in range(LO, HI + 1) for b in range(a, HI + 1)]
    all_by_dim = {k: list(itertools.product(pairs, repeat=k)) for k in (1, 2, 3)}
    cases = []
    exhaustive_dims = []
    for k in (1, 2):
        cases += all_by_dim[k]
        exhaustive_dims.append(k)
    if ctx.tier == "thorough":
        cases += all_by_dim[3]
        exhaustive_dims.append(3)
        n4 = 600
    else:
        cases += ctx.rng.sample(all_by_dim[3], 250)
        n4 = 40
    for _ in range(n4):
        cases.append(tuple(ctx.rng.choice(pairs) for _ in range(4)))
    out = []
    for c in cases:
        mins = [p[0] for p in c]
        maxs = [p[1] for p in c]
        out.append((mins, maxs))
    return out, exhaustive_dims


def oracle(mins, maxs, r):
    """C19's own predicate on what the implementation returned (no model involved)."""
    if "error" in r:
        return f"raised {r['error']}: {r.get('message')}"
    want = [list(v) for v in itertools.product(*[range(lo, hi + 1) for lo, hi in zip(mins, maxs)])]
    if r["space"] != want:
        return "space is not the row-major enumeration of the box"
    pos = {tuple(v): i for i, v in enumerate(want)}
    for p, i in zip(r["probes"], r["idx"]):
        near = tuple(min(max(x, lo), hi) for x, lo, hi in zip(p, mins, maxs))
        if i != pos[near]:
            kind = "listed vector" if tuple(p) in pos else "outside vector"
            return f"index_fn({p}) = {i}, expected {pos[near]} ({kind}; nearest box point {list(near)})"
    return None


def big_boxes(ctx):
    """boxes with 2^16 rows and more (a construction that switches method with the size of the space is only exercised there)"""
    out = [([-2, 0, 3, 0], [13, 15, 18, 15]), ([0, -7], [299, 292]), ([5], [70004])]
    if ctx.tier != "quick":
        out += [([0] * 16, [1] * 16), ([-1, 0, 0], [62, 63, 31]), ([0, 0, 0, 0, 0], [9, 9, 9, 9, 10]), ([0, 1, 2], [127, 128, 129])]
    return out


def big_oracle(mins, maxs, r):
    import numpy as np
    if "error" in r:
        return f"raised {r['error']}: {r.get('message')}"
    t = np.load(r["file"])
    dims = [hi - lo + 1 for lo, hi in zip(mins, maxs)]
    n = int(np.prod(dims))
    rows = np.arange(n)
    want = np.empty((n, len(dims)), dtype=np.int64)
    stride = n
    for j, d in enumerate(dims):           # row-major: the FIRST coordinate varies slowest
        stride //= d
        want[:, j] = mins[j] + (rows // stride) % d
    sp = t["space"]
    if sp.shape != want.shape or not np.array_equal(sp, want):
        bad = int(np.nonzero(np.any(sp != want, axis=1))[0][0]) if sp.shape == want.shape else None
        return f"{n}-row space is not the row-major enumeration of the box" + (f" (row {bad} is {sp[bad].tolist()}, expected {want[bad].tolist()})" if bad is not None else f" (shape {sp.shape})")
    if not np.array_equal(t["own"], rows):
        bad = int(np.nonzero(t["own"] != rows)[0][0])
        return f"index_fn(space[{bad}]) = {int(t['own'][bad])}"
    near = np.clip(t["probes"].astype(np.int64), np.array(mins), np.array(maxs)) - np.array(mins)
    wi = np.zeros(len(near), dtype=np.int64)
    for j, d in enumerate(dims):
        wi = wi * d + near[:, j]
    if not np.array_equal(t["idx"], wi):
        bad = int(np.nonzero(t["idx"] != wi)[0][0])
        return f"index_fn({t['probes'][bad].tolist()}) = {int(t['idx'][bad])}, expected {int(wi[bad])} (nearest box point)"
    return None


def run(ctx, build):
    cases, exhaustive_dims = boxes(ctx)
    nproc = 8
    chunks = [cases[i::nproc] for i in range(nproc)]
    outs = core.run_workers(ctx, [{"kind": "c19_spaces", "cases": ch} for ch in chunks], nproc=nproc)
    results = {}
    corr, viols = [], []
    for ch, o in zip(chunks, outs):
        if isinstance(o, dict) and "error" in o:
            corr.append({"what": "worker failed", "detail": o})
            continue
        for c, r in zip(ch, o):
            results[(tuple(c[0]), tuple(c[1]))] = r
    keys = sorted(results)
    for k in keys:
        why = oracle(list(k[0]), list(k[1]), results[k])
        if why:
            viols.append({"key": f"box:{list(k[0])}:{list(k[1])}", "what": why, "input": {"mins": list(k[0]), "maxs": list(k[1])}})
    bigs = big_boxes(ctx)
    bres = core.run_workers(ctx, [{"kind": "c19_big", "cases": [b], "seed": ctx.seed, "out": str(ctx.scratch / f"c19big_{i}")} for i, b in enumerate(bigs)], nproc=4)
    for (mins, maxs), o in zip(bigs, bres):
        r = o[0] if isinstance(o, list) else o
        why = big_oracle(mins, maxs, r)
        if why:
            viols.append({"key": f"bigbox:{mins}:{maxs}", "what": why, "input": {"mins": mins, "maxs": maxs, "big": True}})
    if build["model_ok"]:
        terms, tkeys = [], []
        for k in keys:
            r = results[k]
            if "error" in r:
                continue
            sp = "[" + "; ".join(zlist(v) for v in r["space"]) + "]"
            pr = "[" + "; ".join(zlist(v) for v in r["probes"]) + "]"
            terms.append(f"({zlist(k[0])}, {zlist(k[1])}, {sp}, {pr}, {zlist(r['idx'])})")
            tkeys.append(k)
        failing, errs = core.coq_failing(ctx, "c19", IMPORTS, "list Z * list Z * list (list Z) * list (list Z) * list Z", "c19_ok", terms, shard=60)
        for e in errs:
            corr.append({"what": "model evaluation failed", "detail": e})
        for i in failing:
            corr.append({"what": "model and create_range_space disagree", "input": {"mins": list(tkeys[i][0]), "maxs": list(tkeys[i][1])}})
    nontrivial = {k for k in keys if any(m != 0 for m in k[0]) and len(results[k].get("space", [])) > 1}
    cov = {
        "evaluations": len(keys) + len(bigs), "boxes_with_at_least_65536_rows": len(bigs),
        "distinct_nontrivial": len(nontrivial),
        "probe_vectors": sum(len(r.get("probes", [])) for r in results.values()),
        "rule": f"distinct (mins, maxs) boxes with bounds in [{LO},{HI}]: all boxes of dimension {exhaustive_dims}, seeded samples of the remaining dimensions up to 4; "
                "each box probed on every vector of the box enlarged by 2 per coordinate; non-trivial = some lower bound != 0 and more than one point",
        "exhaustive": False,
        "exhaustive_dims": exhaustive_dims,
        "samples": [{"mins": list(k[0]), "maxs": list(k[1]), "n_points": len(results[k].get("space", [])), "first_indices": results[k].get("idx", [])[:8]} for k in keys[:: max(1, len(keys) // 5)]][:6],
        "traces_validated_against_impl": len(keys),
    }
    return {"coverage": cov, "corr_failures": corr, "impl_violations": viols,
            "assumptions": ["integers are unbounded in the model; int32 overflow of ravel_multi_index is out of scope (DESIGN 3.1)"]}


def search(ctx, build, res, time_budget=60):
    cases = [([1], [2]), ([-1], [1]), ([1, -1], [2, 1]), ([0, 0], [1, 2]), ([2, 0, -2], [2, 3, 0]), ([0], [0]), ([-3, -3, -3, -3], [-2, -2, -2, -2])]
    out = core.run_worker(ctx, [{"kind": "c19_spaces", "cases": cases}])[0]
    viols = []
    if isinstance(out, dict):
        return []
    for c, r in zip(cases, out):
        why = oracle(c[0], c[1], r)
        if why:
            viols.append({"key": f"box:{c[0]}:{c[1]}", "what": why, "input": {"mins": c[0], "maxs": c[1]}})
            break
    return viols


def replay(ctx, build, data):
    inp = data.get("violation", {}).get("input")
    if not isinstance(inp, dict):
        return {"fails": False, "note": "no concrete input in the replay file"}
    if inp.get("big"):
        o = core.run_worker(ctx, [{"kind": "c19_big", "cases": [(inp["mins"], inp["maxs"])], "seed": ctx.seed, "out": str(ctx.scratch / "c19big_replay")}])[0]
        why = big_oracle(inp["mins"], inp["maxs"], o[0] if isinstance(o, list) else o)
        return {"fails": bool(why), "why": why}
    out = core.run_worker(ctx, [{"kind": "c19_spaces", "cases": [(inp["mins"], inp["maxs"])]}])[0]
    why = oracle(inp["mins"], inp["maxs"], out[0]) if isinstance(out, list) else str(out)
    return {"fails": bool(why), "why": why}
