"""C12 - checkpoint cadence and retention follow frequency and max_checkpoints."""
import random
import time
from fractions import Fraction as F

from tools.vlib import cases, core, mdpgen, refsolve, runs, solverun
from tools.vlib.cases import coq_mdp, ctest, onatlist
from tools.vlib.core import blit, natlist, natlit, qlist, qlit


def expected_dir(f, m, calls, start=0):
    """The property's set-builder, written directly: calls = [(first_iter, last_iter, converged)] per solve() call."""
    attempts = []
    for (a, b, conv) in calls:
        for i in range(a + 1, b + 1):
            if i % f == 0 and not (conv and i == b):
                attempts.append(i)
        attempts.append(b)
    accepted = []
    for i in attempts:
        if not accepted or i > accepted[-1]:
            accepted.append(i)
    return attempts, accepted, accepted[-m:]


def gen(ctx):
    quick = ctx.tier == "quick"
    grid = []
    fs = [1, 2, 3, 5, 50]
    ms = [1, 2, 3, 10]
    n = 14 if quick else 120
    for _ in range(n):
        sub = ctx.rng.randrange(10 ** 9)
        rng = random.Random(sub)
        solver = rng.choice(["vi", "vi", "rvi", "pi", "savi", "pvi"])
        ks = rng.choice([[7], [4, 3], [2, 2, 5], [6], [3, 9], [10], [12]])
        kw = {"family": rng.choice(["det", "det", "tab"])} if solver != "rvi" else {"family": "det"}
        if rng.random() < 0.7:
            kw["eps"] = F(1, 2 ** 20)
        cs = runs.generate(ctx, solver, 1, ks=ks, **kw, **({"shuffle": False} if solver == "savi" else {}), **({"clear": False} if solver == "pvi" else {}))
        if not cs:
            continue
        c = cs[0]
        c["f"], c["m"], c["async"] = rng.choice(fs), rng.choice(ms), rng.random() < 0.5
        grid.append(c)
    # a problem object that carries a configuration WITHOUT a class path: solver and problem are not reconstructible from
    # configuration, so no config.yaml may be written (and the solver must say so)
    for solver in (("vi",) if quick else ("vi", "pi", "pvi")):
        cs = runs.generate(ctx, solver, 1, ks=[4], family="det", **({"clear": False} if solver == "pvi" else {}))
        if cs:
            c = cs[0]
            c["spec"] = dict(c["spec"], config_kind="no_target")
            c["f"], c["m"], c["async"] = 2, 2, False
            grid.append(c)
    # frequency 0: nothing may be written, no directory created
    for solver in ("vi", "pi"):
        cs = runs.generate(ctx, solver, 1, ks=[3])
        if cs:
            c = cs[0]
            c["f"], c["m"], c["async"] = 0, 1, True
            grid.append(c)
    return grid


def job_of(c, d):
    cfg = runs.config_of(c)
    cfg.update({"checkpoint_dir": d, "checkpoint_frequency": c["f"], "max_checkpoints": c["m"], "enable_async_checkpointing": c["async"]})
    return {"kind": "ckpt_run", "problem": c["spec"], "solver": c["solver"], "config": cfg, "ops": [["solve", k] for k in c["ks"]]}


def oracle(c, r, restored):
    if "error" in r:
        return f"{c['solver']} raised {r['error']}: {r.get('message', '')[:200]}"
    d = r["dir"]
    if c["f"] == 0:
        if d["exists"]:
            return "checkpoint_frequency = 0 but a directory was created"
        if r["saves"] and any(s["enabled"] for s in r["saves"]):
            return "checkpoint_frequency = 0 but a save was attempted"
        return None
    # calls from the observed iteration counts; convergence from the reference run
    refout, _ = runs.reference(c)
    calls, prev = [], 0
    for o, ro in zip(r["obs"][1:], refout):
        calls.append((prev, o["iteration"], ro["converged"]))
        prev = o["iteration"]
    attempts, accepted, retained = expected_dir(c["f"], c["m"], calls)
    if [s["step"] for s in r["saves"]] != attempts:
        return f"save() was called for {[s['step'] for s in r['saves']]}, the documented cadence gives {attempts}"
    if d["steps"] != retained:
        return f"directory holds steps {d['steps']}, expected the {c['m']} most recent of {accepted} = {retained}"
    if d["tmp"]:
        return f"temporary directories left behind: {d['tmp']}"
    # generated problems are hand-built objects (no configuration, or one without a class path): never reconstructible
    if r["has_full_config"]:
        return "the solver claims that solver and problem are reconstructible from configuration although the problem has no class path"
    if d["config"]:
        return "config.yaml was written although solver and problem are not reconstructible from configuration"
    # each retained step holds the state of that iteration
    first_snap = {}
    for s in r["saves"]:
        first_snap.setdefault(s["step"], s["state"])
    for step, rr in restored.items():
        if rr.get("raised"):
            return f"restoring retained step {step} raised {rr['raised']}: {rr.get('message')}"
        got, want = rr["obs"][0], first_snap[step]
        for key in ("values", "iteration", "gain", "history", "hidx"):
            if key in want and got.get(key) != want.get(key):
                return f"retained step {step}: {key} differs from the solver state at the save call"
    return None


def coq_item(c, r, k):
    """model: run the same history with checkpointing on, fold the save events into the store, compare labels"""
    spec = c["spec"]
    s = c["solver"]
    g, eps = qlit(c["g"]), qlit(c["eps"])
    pre = f"Definition M{k} := {coq_mdp(spec)}.\nDefinition V0_{k} := {qlist(runs.init_values(spec))}.\n"
    f, m = natlit(max(1, c["f"])), natlit(c["m"])
    on = blit(c["f"] > 0)
    init = {"vi": f"(vi_init V0_{k})", "rvi": f"(rvi_init V0_{k})", "pvi": f"(pvi_init {natlit(c.get('period', 1))} V0_{k})",
            "savi": f"(savi_init V0_{k})",
            "pi": f"(S_pi_init M{k} {g} {'None' if spec.get('init_policy') is None else '(Some ' + natlist(spec['init_policy']) + ')'} V0_{k})"}[s]
    def call(kk, st):
        if s == "vi":
            return f"S_vi_solve M{k} {g} {eps} {ctest(c['test'])} {on} {f} {natlit(kk)} {st}"
        if s == "rvi":
            return f"S_rvi_solve M{k} {g} {eps} {on} {f} {natlit(kk)} {st}"
        if s == "pvi":
            return f"S_pvi_solve M{k} {g} {eps} false {on} {f} {natlit(kk)} {st}"
        if s == "savi":
            return (f"S_savi_solve M{k} {g} {eps} {spec['nS']}%Z {c['mb']}%Z 1%Z {natlit(spec['zidx'])} true (7#1) (fun _ => None) {ctest(c['test'])} {on} {f} {natlit(kk)} {st}")
        return f"S_pi_solve M{k} {g} {eps} {ctest(c['test'])} {natlit(c['max_eval'])} {blit(c['reset'])} V0_{k} {on} {f} {natlit(kk)} {st}"
    term = f"natlist_eqb (map fst (st_apply _ {m} [] (" + " ++ ".join(f"sv{j + 1}" for j in range(len(c["ks"]))) + f"))) {natlist(r['dir']['steps'])}"
    labels = f"natlist_eqb (map fst (" + " ++ ".join(f"sv{j + 1}" for j in range(len(c["ks"]))) + f")) {natlist([x['step'] for x in r['saves']])}"
    body = f"({term} && {labels})"
    for j in reversed(range(len(c["ks"]))):
        body = f"(let '(st{j + 1}, _, sv{j + 1}) := {call(c['ks'][j], f'st{j}')} in {body})"
    return pre, f"(let st0 := {init} in {body})"


IMPORTS = cases.SOLVE_IMPORTS.replace("Model.CorrSolve.", "Model.CorrSolve Model.Store.")


def restore_sequences(ctx):
    """restores into the same or a new directory with overrides (class-level restore(), shipped problem): frequency 0 writes
    nothing and creates no directory; a new frequency / retention applies from the restored iteration on"""
    from tools.props.c09 import SHIPPED
    out = []
    n = 0
    for pi, solver in ((0, "vi"), (1, "vi")) if ctx.tier == "quick" else ((0, "vi"), (1, "vi"), (0, "pvi"), (1, "savi"), (2, "rvi")):
        base = ctx.scratch / f"c12r_{pi}_{solver}"
        d = str(base / "src")
        cfg = {"gamma": 1.0 if solver == "rvi" else 0.875, "epsilon": 2.0 ** -40, "checkpoint_dir": d, "checkpoint_frequency": 2, "max_checkpoints": 2, "enable_async_checkpointing": False}
        if solver == "pvi":
            cfg["period"] = 2
        a = core.run_worker(ctx, [{"kind": "ckpt_run", "problem": SHIPPED[pi], "solver": solver, "config": cfg, "ops": [["solve", 5]]}])[0]
        if "error" in a:
            out.append((f"restore-seq:{solver}:{pi}", f"checkpointed run raised {a['error']}", None))
            continue
        if a["dir"]["steps"] != [4, 5]:
            out.append((f"restore-seq:{solver}:{pi}", f"frequency 2, retention 2, solve(5): directory holds {a['dir']['steps']}, expected [4, 5]", None))
            continue
        plans = [("f0-new", {"new_checkpoint_dir": str(base / "n0"), "checkpoint_frequency": 0}, 3, [4, 5], None),
                 ("keep-new", {"new_checkpoint_dir": str(base / "n1")}, 3, [4, 5], [6, 8]),
                 ("f3m3-new", {"new_checkpoint_dir": str(base / "n2"), "checkpoint_frequency": 3, "max_checkpoints": 3}, 5, [4, 5], [6, 9, 10]),
                 ("f0-inplace", {"checkpoint_frequency": 0}, 3, [4, 5], None),
                 ("f3-inplace", {"checkpoint_frequency": 3}, 4, [6, 9], None)]   # in place LAST: it rewrites the source
        for name, ov, k, want_src, want_new in plans:
            n += 1
            job = {"kind": "ckpt_restore", "solver": solver, "dir": d, "overrides": ov, "ops": [["solve", k]]}
            r = core.run_worker(ctx, [job])[0]
            key = f"restore-seq:{name}:{solver}:{pi}"
            inp = {"first": {"problem": SHIPPED[pi], "solver": solver, "config": cfg}, "restore": job}
            if "error" in r or r.get("raised"):
                out.append((key, f"restore with overrides {ov} failed: {r.get('error') or r.get('raised')}: {r.get('message', '')[:200]}", inp))
                continue
            if r["dir_after"]["steps"] != want_src:
                out.append((key, f"after restore({ov}) + solve({k}) the source directory holds {r['dir_after']['steps']}, expected {want_src}", inp))
            nd = r.get("new_dir")
            if "new_checkpoint_dir" in ov:
                if want_new is None and nd and nd["exists"]:
                    out.append((key, f"restore with checkpoint_frequency=0: the new directory was created and holds {nd['steps']}", inp))
                if want_new is not None and (not nd or nd["steps"] != want_new):
                    out.append((key, f"after restore({ov}) + solve({k}) the new directory holds {nd and nd['steps']}, expected {want_new}", inp))
    # ONE process, two solver objects on the same directory with different retention: the run, then (a) restore() in place with
    # another max_checkpoints, (b) a hand-built solver with another max_checkpoints that loads and continues
    for pi, solver in ((1, "vi"),) if ctx.tier == "quick" else ((1, "vi"), (0, "vi"), (1, "pvi"), (2, "rvi"), (1, "savi")):
        for name, f, m1, k1, m2, k2, route in (("same-process-restore", 2, 1, 5, 3, 6, "restore"), ("same-process-load", 3, 2, 7, 4, 6, "load")):
            n += 1
            base = ctx.scratch / f"c12s_{pi}_{solver}_{name}"
            d = str(base / "src")
            cfg = {"gamma": 1.0 if solver == "rvi" else 0.875, "epsilon": 2.0 ** -40, "checkpoint_dir": d, "checkpoint_frequency": f, "max_checkpoints": m1, "enable_async_checkpointing": False}
            if solver == "pvi":
                cfg["period"] = 2
            first = {"kind": "ckpt_run", "problem": SHIPPED[pi], "solver": solver, "config": cfg, "ops": [["solve", k1]]}
            if route == "restore":
                second = {"kind": "ckpt_restore", "solver": solver, "dir": d, "overrides": {"max_checkpoints": m2}, "ops": [["solve", k2]]}
            else:
                second = {"kind": "ckpt_restore", "solver": solver, "dir": d, "route": "load", "problem": SHIPPED[pi], "config": dict(cfg, max_checkpoints=m2), "ops": [["solve", k2]]}
            key = f"restore-seq:{name}:{solver}:{pi}"
            inp = {"same_process": [first, second]}
            rr = core.run_worker(ctx, [first, second])
            a, r = rr[0], rr[1]
            if "error" in a or "error" in r or r.get("raised"):
                out.append((key, f"same-process sequence failed: {a.get('error') or r.get('error') or r.get('raised')}: {(r.get('message') or a.get('message') or '')[:200]}", inp))
                continue
            # iteration counts as observed (a run that converges inside its budget stops early and makes no periodic save there)
            it1, it2 = a["obs"][-1]["iteration"], r["obs"][-1]["iteration"]
            if r["obs"][0]["iteration"] != it1 or not (0 < it1 <= k1) or not (it1 <= it2 <= it1 + k2):
                out.append((key, f"same-process sequence: iteration counts {it1} -> restored {r['obs'][0]['iteration']} -> {it2} are inconsistent with solve({k1}), restore, solve({k2})", inp))
                continue
            _, acc1, ret1 = expected_dir(f, m1, [(0, it1, it1 < k1)])
            _, acc2, _ = expected_dir(f, m2, [(it1, it2, it2 - it1 < k2)])
            want = (ret1 + [x for x in acc2 if x > ret1[-1]])[-m2:]
            if a["dir"]["steps"] != ret1:
                out.append((key, f"frequency {f}, retention {m1}, solve({k1}): directory holds {a['dir']['steps']}, expected {ret1}", inp))
            elif r["dir_after"]["steps"] != want:
                out.append((key, f"second solver object on the same directory IN THE SAME PROCESS with max_checkpoints={m2} (the first had {m1}): after solve({k2}) the directory holds "
                                 f"{r['dir_after']['steps']}, expected the {m2} most recent = {want}", inp))
    return out, n


def run(ctx, build):
    grid = gen(ctx)
    dirs = [str(ctx.scratch / f"ck{i}" / "run") for i in range(len(grid))]
    # one fresh process per experiment
    import concurrent.futures as cf
    with cf.ThreadPoolExecutor(max_workers=8) as ex:
        res = list(ex.map(lambda cd: core.run_worker(ctx, [job_of(*cd)])[0], zip(grid, dirs)))
    # restore retained steps (latest + oldest) in fresh processes
    rjobs = []
    for i, (c, r) in enumerate(zip(grid, res)):
        if "error" in r or c["f"] == 0 or not r["dir"]["steps"]:
            continue
        for step in sorted({r["dir"]["steps"][0], r["dir"]["steps"][-1]}):
            cfg = runs.config_of(c)
            rjobs.append((i, step, {"kind": "ckpt_restore", "solver": c["solver"], "dir": dirs[i], "route": "load", "step": step, "problem": c["spec"], "config": cfg}))
    with cf.ThreadPoolExecutor(max_workers=8) as ex:
        rres = list(ex.map(lambda j: core.run_worker(ctx, [j[2]])[0], rjobs))
    restored = {}
    for (i, step, _), rr in zip(rjobs, rres):
        restored.setdefault(i, {})[step] = rr if "error" not in rr else {"raised": rr["error"], "message": rr.get("message")}
    corr, viols, items, meta = [], [], [], []
    for i, (c, r) in enumerate(zip(grid, res)):
        why = oracle(c, r, restored.get(i, {}))
        if why:
            viols.append({"key": f"cadence:{c['solver']}:{c['seed']}:f={c['f']}:m={c['m']}", "what": why, "input": {"case": c}})
        if "error" not in r and c["f"] > 0:
            items.append(coq_item(c, r, len(items)))
            meta.append(c)
    if build["model_ok"]:
        failing, errs = cases.coq_bools(ctx, "c12", items, imports=IMPORTS, shard=6)
        for e in errs:
            corr.append({"what": "model evaluation failed", "detail": e})
        for i in failing:
            corr.append({"what": "model store and checkpoint directory disagree", "seed": meta[i]["seed"], "input": {"case": meta[i]}})
    rs_viols, n_rs = restore_sequences(ctx)
    for key, msg, inp in rs_viols:
        viols.append({"key": key, "what": msg, "input": {"restore_sequence": inp}})
    nontriv = {(c["solver"], c["seed"], c["f"], c["m"]) for c, r in zip(grid, res) if "error" not in r and c["f"] > 0 and len(r["saves"]) > c["m"]}
    cov = {
        "evaluations": len(grid) + n_rs, "restore_with_override_sequences": n_rs, "distinct_nontrivial": len(nontriv), "restores_of_retained_steps": len(rjobs),
        "rule": "fresh process per experiment: solver x frequency in {0,1,2,3,5,50} x max_checkpoints in {1,2,3,10} x sync/async x 1-3 solve() calls; directory listed after "
                "wait_until_finished, oldest and newest retained step restored in further fresh processes; non-trivial = more save calls than max_checkpoints",
        "samples": [{"solver": c["solver"], "f": c["f"], "m": c["m"], "async": c["async"], "ks": c["ks"], "save_calls": [s["step"] for s in r.get("saves", [])],
                     "dir": r.get("dir", {}).get("steps")} for c, r in list(zip(grid, res))[:6]],
        "traces_validated_against_impl": len(items),
    }
    return {"coverage": cov, "corr_failures": corr, "impl_violations": viols,
            "assumptions": ["Orbax CheckpointManager (skip when latest_step >= step, max_to_keep retention, commit by rename) is a CONTRACT modelled by Model/Store.v and validated by these runs"]}


def search(ctx, build, res, time_budget=60):
    return []


def replay(ctx, build, data):
    inp = data.get("violation", {}).get("input")
    if not inp:
        return {"fails": False, "note": "no concrete input"}
    if "restore_sequence" in inp:
        got, _ = restore_sequences(ctx)
        return {"fails": bool(got), "why": [g[1] for g in got][:3]}
    c = inp["case"]
    d = str(ctx.scratch / "replay" / "run")
    r = core.run_worker(ctx, [job_of(c, d)])[0]
    why = oracle(c, r, {})
    return {"fails": bool(why), "why": why}
