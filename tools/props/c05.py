"""C05 - policy iteration: evaluation is accurate and termination means policy stability."""
import random
import time
from fractions import Fraction as F

from tools.vlib import cases, core, mdpgen, refsolve, runs, solverun


def gen(ctx):
    quick = ctx.tier == "quick"
    cs = []
    # (i) evaluation of INJECTED policies: the problem supplies the policy, one improvement step
    n1 = 10 if quick else 600
    tries = 0
    while len([c for c in cs if c.get("inject")]) < n1 and tries < n1 * 30:
        tries += 1
        sub = ctx.rng.randrange(10 ** 9)
        rng = random.Random(sub)
        c = runs.gen_run_case(rng, "pi", ks=[1], max_eval=rng.choice([1, 3, 100]))
        spec = c["spec"]
        uniq = len({tuple(a) for a in spec["actions"]})
        first = {}
        for i, a in enumerate(spec["actions"]):
            first.setdefault(tuple(a), i)
        spec["init_policy"] = [first[tuple(spec["actions"][rng.randrange(spec["nA"])])] for _ in range(spec["nS"])]
        c["seed"] = sub
        c["inject"] = True
        try:
            _, guard = runs.reference(c)
        except (ZeroDivisionError, OverflowError):
            continue
        if guard["ok"]:
            c["guard"] = guard
            cs.append(c)
    # (ii) whole runs: both tests, reset on/off, budgets
    n2 = 10 if quick else 600
    for me in (1, 3, 100):
        cs += runs.generate(ctx, "pi", max(2, n2 // 3), max_eval=me, ks=[30])
    return cs


def oracle(c, r, refout):
    if "error" in r:
        return f"PolicyIteration raised {r['error']}: {r.get('message', '')[:200]}"
    spec = c["spec"]
    ref = mdpgen.Ref(spec)
    g, eps = F(c["g"]), F(c["eps"])
    obs = r["obs"]
    # first evaluated policy
    want0 = spec["init_policy"] if spec.get("init_policy") is not None else ref.greedy([F(0)] * spec["nS"], g)
    if obs[0]["policy"] != want0:
        return f"first policy is {obs[0]['policy']}, expected {want0} ({'problem initial policy' if spec.get('init_policy') is not None else 'argmax of expected immediate reward'})"
    diff = runs.compare_with_reference(c, r, refout)
    if diff:
        return diff
    last = obs[-1]
    vals = solverun.fracs(last["values"])
    # returned policy greedy for returned values (any maximiser is acceptable to the property)
    for s, a in enumerate(last["policy"]):
        qs = [ref.q(vals, s, b, g) for b in range(spec["nA"])]
        if qs[a] != max(qs):
            return f"returned policy is not greedy for the returned values at state {s}"
    # stop before the limit only with a stable policy
    limit = sum(c["ks"])
    if last["iteration"] < limit and not refout[-1]["converged"]:
        return "stopped before the iteration limit although the reference improvement step still changed the policy"
    # evaluation accuracy (max_diff, converged within budget) for the single-step injected cases
    if c.get("inject") and c["test"] == "max_diff" and refout[-1].get("last_eval_converged"):
        vpi = ref.policy_value(want0, g)
        err = max(abs(a - b) for a, b in zip(vals, vpi))
        if not err < eps / g:
            return f"evaluation of the injected policy is off by {err} >= epsilon/gamma = {eps / g}"
    return None


def gen_multi_device(ctx):
    """more than 64 states, so that with 2+ devices (64-slot minimum batch) devices other than the first hold REAL states:
    injected policies whose rows differ from state to state, one improvement step"""
    out = []
    n = 3 if ctx.tier == "quick" else 24
    tries = 0
    while len(out) < n and tries < n * 20:
        tries += 1
        sub = ctx.rng.randrange(10 ** 9)
        rng = random.Random(sub)
        c = runs.gen_run_case(rng, "pi", ks=[1], max_eval=rng.choice([1, 3]), nS=rng.choice([66, 70, 97, 130]), nA=rng.choice([2, 3]), nE=2, mb=rng.choice([1024, 64, 16]))
        spec = c["spec"]
        first = {}
        for i, a in enumerate(spec["actions"]):
            first.setdefault(tuple(a), i)
        spec["init_policy"] = [first[tuple(spec["actions"][rng.randrange(spec["nA"])])] for _ in range(spec["nS"])]
        c["seed"], c["inject"] = sub, True
        try:
            _, guard = runs.reference(c)
        except (ZeroDivisionError, OverflowError):
            continue
        if guard["ok"]:
            c["guard"] = guard
            out.append(c)
    return out


def gen_large(ctx):
    """tens of thousands of states of which ONE changes its action per improvement step: almost every state keeps its action for
    ever (both actions identical), a short chain c_1 -> ... -> c_k -> G learns to walk towards the rewarding absorbing state G one
    link per iteration.  'No state changed' is a count of zero - not a vanishing FRACTION of the states"""
    out = []
    for i in range(1 if ctx.tier == "quick" else 6):
        sub = ctx.rng.randrange(10 ** 9)
        rng = random.Random(sub)
        nS = rng.choice([20480, 24000, 33000]) + rng.randrange(1, 200)
        k = rng.choice([3, 4, 5])
        c = runs.gen_run_case(rng, "pi", family="det", nS=nS, nA=2, nE=1, g=F(1, 2), eps=F(1, 2 ** 20), ks=[12], max_eval=3, rscale=0, init="zero", mb=rng.choice([1024, 8192]))
        spec = c["spec"]
        spec["init_policy"] = None
        spec["actions"] = [[0], [1]] if len(spec["actions"][0]) == 1 else [[0] * len(spec["actions"][0]), [1] + [0] * (len(spec["actions"][0]) - 1)]
        spec["nxt"] = [[[s], [s]] for s in range(nS)]
        spec["rew"] = [[["0"], ["0"]] for _ in range(nS)]
        spec["prb"] = [[["1"], ["1"]] for _ in range(nS)]
        chain = rng.sample(range(nS), k + 1)
        G = chain[-1]
        spec["rew"][G] = [["4"], ["4"]]
        for a, b in zip(chain, chain[1:]):
            spec["nxt"][a][1] = [b]
        c.update({"seed": sub, "large": True, "chain": chain, "reset": rng.random() < 0.5})
        try:
            refout, guard = runs.reference(c)
        except (ZeroDivisionError, OverflowError):
            continue
        if guard["ok"] and refout[-1]["converged"] and refout[-1]["iteration"] >= k:
            c["guard"] = guard
            out.append(c)
    return out


def run(ctx, build):
    cs = gen(ctx)
    res = core.run_workers(ctx, [runs.job_of(c) for c in cs])
    md = gen_multi_device(ctx)
    md_runs = []
    for dv in ([2] if ctx.tier == "quick" else [2, 3]):
        for c, r in zip(md, core.run_workers(ctx, [runs.job_of(c) for c in md], devices=dv)):
            md_runs.append((dict(c, devices=dv), r))
    corr, viols, items, meta = [], [], [], []
    lg = gen_large(ctx)
    for c, r in zip(lg, core.run_workers(ctx, [runs.job_of(c) for c in lg])):
        refout, guard = runs.reference(c)
        why = oracle(c, r, refout)
        if why:
            viols.append({"key": f"pi-large:{c['seed']}", "what": f"{c['spec']['nS']} states, one action change per improvement step: {why}", "input": {"case": c}})
    for c, r in md_runs:
        refout, guard = runs.reference(c)
        why = oracle(c, r, refout)
        if why:
            viols.append({"key": f"pi-multi-device:{c['seed']}:{c['devices']}", "what": f"{c['devices']} devices: {why}", "input": {"case": c, "devices": c["devices"]}})
    for c, r in zip(cs, res):
        refout, guard = runs.reference(c)
        why = oracle(c, r, refout)
        if why:
            viols.append({"key": f"pi:{c['seed']}", "what": why, "input": {"case": c}})
        if "error" not in r:
            items.append(runs.coq_item(c, r, len(items)))
            meta.append(c)
    if build["model_ok"]:
        failing, errs = cases.coq_bools(ctx, "c05", items, shard=8)
        for e in errs:
            corr.append({"what": "model evaluation failed", "detail": e})
        for i in failing:
            corr.append({"what": "model and PolicyIteration disagree", "seed": meta[i]["seed"], "input": {"case": meta[i]}})
    dist = {}
    for c in cs:
        k = f"{c['test']}/reset={c['reset']}/max_eval={c['max_eval']}/adim={len(c['spec']['actions'][0])}/{'inject' if c.get('inject') else 'run'}"
        dist[k] = dist.get(k, 0) + 1
    nontriv = {solverun.case_id([c["spec"]["nxt"], c["spec"]["rew"], c["spec"]["prb"], c["spec"].get("init_policy"), c["test"], c["reset"], c["max_eval"], c["g"], c["eps"]])
               for c in cs if c["spec"]["nA"] >= 2 and solverun.nontrivial_mdp(c["spec"])}
    cov = {
        "evaluations": len(cs) + len(md_runs) + len(lg), "runs_with_more_than_20000_states": [c["spec"]["nS"] for c in lg], "distinct_nontrivial": len(nontriv), "multi_device_runs_with_more_than_64_states": len(md_runs),
        "rule": "generated MDPs x {injected initial policy with one improvement step, whole runs} x test x reset x max_eval_iter in {1,3,100}; "
                "non-trivial = >= 2 actions and >= 2 positive-probability events somewhere",
        "distribution": dist,
        "samples": [{"seed": c["seed"], "inject": bool(c.get("inject")), "init_policy": c["spec"].get("init_policy"), "test": c["test"], "reset": c["reset"],
                     "max_eval": c["max_eval"], "gamma": c["g"], "eps": c["eps"]} for c in cs[:6]],
        "traces_validated_against_impl": len(items),
    }
    return {"coverage": cov, "corr_failures": corr, "impl_violations": viols,
            "assumptions": ["policies are injected through the public route (problem.initial_policy); action vectors are compared as vectors (first row with that vector)"]}


def search(ctx, build, res, time_budget=60):
    t0 = time.time()
    while time.time() - t0 < time_budget:
        cs = runs.generate(ctx, "pi", 10, ks=[20])
        rr = core.run_workers(ctx, [runs.job_of(c) for c in cs])
        for c, r in zip(cs, rr):
            refout, _ = runs.reference(c)
            why = oracle(c, r, refout)
            if why:
                return [{"key": f"pi:{c['seed']}", "what": why, "input": {"case": c}}]
    return []


def replay(ctx, build, data):
    inp = data.get("violation", {}).get("input")
    if not inp:
        return {"fails": False, "note": "no concrete input"}
    c = inp["case"]
    if inp.get("devices"):
        r = core.run_workers(ctx, [runs.job_of(c)], devices=inp["devices"])[0]
        refout, _ = runs.reference(c)
        why = oracle(c, r, refout)
        return {"fails": bool(why), "why": why}
    r = core.run_workers(ctx, [runs.job_of(c)])[0]
    refout, _ = runs.reference(c)
    why = oracle(c, r, refout)
    return {"fails": bool(why), "why": why}
