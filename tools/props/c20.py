"""C20 - configuration contract: valid parameters work by every route, invalid ones are rejected."""
import concurrent.futures as cf
import itertools
import random
from fractions import Fraction as F

from tools.vlib import cases, core, solverun
from tools.vlib.core import qlit

IMPORTS = ("From Coq Require Import QArith List String Bool.\nFrom MdpaxV Require Import Model.CorrSolve.\nFrom MdpaxGen Require Import GenValidators.\n"
           "Import ListNotations.\nOpen Scope Q_scope.\n")
SOLVERS = ["vi", "pi", "rvi", "pvi", "savi"]
SMALL = {"forest": {"S": 4, "p": 0.25}, "de_moor": {"max_demand": 4, "max_useful_life": 2, "lead_time": 1, "max_order_quantity": 2},
         "hendrix": {"max_useful_life": 1, "max_order_quantity_a": 2, "max_order_quantity_b": 2},
         "mirjalili": {"max_demand": 2, "max_useful_life": 2, "max_order_quantity": 2, "useful_life_at_arrival_distribution_c_0": [1.0], "useful_life_at_arrival_distribution_c_1": [0.5]}}


def base_cfg(solver):
    c = {"gamma": 1.0 if solver == "rvi" else 0.5, "epsilon": 0.25}
    if solver == "pvi":
        c["period"] = 2
    return c


def valid_grid(ctx):
    """accepted parameter sets on and around the documented boundaries"""
    quick = ctx.tier == "quick"
    out = []
    gammas = [0.0, 2.0 ** -20, 0.5, 0.9, 0.99, 1 - 2.0 ** -20, 1.0]   # 0.9 / 0.99 / 1-2^-20 are not float32 numbers
    epss = [1e-12, 1e-6, 1e-3, 0.5, 5.0, 50.0, 500.0, 1e6]
    for solver in SOLVERS:
        for g in (gammas if solver != "rvi" else [1.0]):
            c = base_cfg(solver)
            c["gamma"] = g
            if solver == "pvi":
                c["period"] = 2
            out.append((solver, c, "gamma"))
        for e in epss:
            c = base_cfg(solver)
            c["epsilon"] = e
            out.append((solver, c, "epsilon"))
        for extra in ({"max_batch_size": 1}, {"verbose": 0}, {"verbose": 4}, {"max_checkpoints": 0}):
            c = base_cfg(solver)
            c.update(extra)
            out.append((solver, c, "bounds"))
    if quick:
        out = ctx.rng.sample(out, 26)
    # integer spellings of whole-number parameters (the dataclass fields are annotated float; Python and YAML users write 1, 10):
    # always in the grid, one solver each at quick tier
    ints = []
    for solver in SOLVERS:
        for extra in ({"epsilon": 1}, {"epsilon": 10}, {"epsilon": 100}, {"gamma": 1}, {"gamma": 0}):
            if solver == "rvi" and extra.get("gamma") == 0:
                continue
            c = base_cfg(solver)
            c.update(extra)
            ints.append((solver, c, "integer-spelling"))
    if quick:
        ints = [x for i, x in enumerate(ints) if i % len(SOLVERS) == (ctx.seed + i // 5) % len(SOLVERS)] + [x for x in ints if x[0] == "pvi" and "epsilon" in x[1] and isinstance(x[1]["epsilon"], int)][:2]
    # every SOLVER-SPECIFIC parameter at a non-default value (a route that reads a parameter from the wrong place falls back to the
    # class default): always in the grid.  Small batches so that the sweep order of the semi-asynchronous solver matters
    spec = [("savi", {"shuffle_states": True, "random_seed": 7, "max_batch_size": 2}), ("savi", {"shuffle_states": True, "random_seed": 0, "max_batch_size": 3}),
            ("savi", {"convergence_test": "max_diff", "max_batch_size": 2}), ("vi", {"convergence_test": "max_diff"}),
            ("pvi", {"period": 3, "clear_value_history_on_convergence": False}), ("pvi", {"period": 1}),
            ("pi", {"max_eval_iter": 2, "reset_values_for_each_policy_eval": True, "convergence_test": "max_diff"}), ("pi", {"max_eval_iter": 1})]
    specific = []
    for solver, extra in spec:
        c = base_cfg(solver)
        c.update(extra)
        c["epsilon"] = 2.0 ** -30      # no early stop: the routes are compared after the same number of sweeps
        specific.append((solver, c, "solver-specific"))
    return out + ints + specific


def invalid_grid(ctx):
    bad = []
    for solver in SOLVERS:
        b = base_cfg(solver)
        muts = [{"gamma": -2.0 ** -20}, {"gamma": 1 + 2.0 ** -20}, {"epsilon": 0.0}, {"epsilon": -1.0}, {"max_batch_size": 0}, {"max_batch_size": -1},
                {"checkpoint_frequency": -1}, {"max_checkpoints": -1}, {"verbose": -1}, {"verbose": 5}]
        if solver in ("vi", "pi", "savi"):
            muts.append({"convergence_test": "spam"})
        if solver == "rvi":
            muts += [{"gamma": 0.5}, {"gamma": 0.0}]
        if solver == "pvi":
            muts += [{"period": 0}, {"period": -1}, {"gamma": 1.0, "period": 1}]
        if solver == "pi":
            muts += [{"max_eval_iter": 0}]
        for m in muts:
            bad.append((solver, dict(b, **m), m))
    pbad = [("forest", {"S": 0}), ("forest", {"p": -0.1}), ("forest", {"p": 1.5}),
            ("de_moor", {"max_demand": 0}), ("de_moor", {"demand_gamma_mean": 0.0}), ("de_moor", {"demand_gamma_cov": -1.0}), ("de_moor", {"max_useful_life": 0}),
            ("de_moor", {"lead_time": 0}), ("de_moor", {"max_order_quantity": 0}), ("de_moor", {"issue_policy": "random"}),
            ("de_moor", {"issue_policy": "FIFO"}), ("de_moor", {"issue_policy": "Lifo"}), ("de_moor", {"issue_policy": " fifo"}), ("de_moor", {"issue_policy": ""}),
            ("hendrix", {"max_useful_life": 0}), ("hendrix", {"demand_poisson_mean_a": 0.0}), ("hendrix", {"substitution_probability": 1.5}), ("hendrix", {"max_order_quantity_b": 0}),
            ("mirjalili", {"max_demand": 0}), ("mirjalili", {"weekday_demand_negbin_n": [1.0] * 6}), ("mirjalili", {"weekday_demand_negbin_delta": [1.0, 1.0, 1.0, 0.0, 1.0, 1.0, 1.0]}),
            ("mirjalili", {"max_useful_life": 0}), ("mirjalili", {"useful_life_at_arrival_distribution_c_0": [1.0, 2.0, 3.0]}), ("mirjalili", {"max_order_quantity": 0})]
    return bad, pbad


def construct_job(ctx, solver, cfg, route, order, problem="forest", solve=3, tag=""):
    return {"twice": route == "kwargs" and order == "problem_first", "kind": "c20_construct", "solver": solver, "problem": {"kind": problem, "params": SMALL[problem]}, "config": cfg, "route": route, "order": order, "solve": solve,
            "tmpdir": str(ctx.scratch / f"yaml_{tag}")}


def run(ctx, build):
    quick = ctx.tier == "quick"
    jobs, meta = [], []
    vg = valid_grid(ctx)
    for i, (solver, cfg, what) in enumerate(vg):
        prob = ["forest", "de_moor", "hendrix", "mirjalili"][i % 4] if (not quick or i % 5 == 0) else "forest"
        if solver == "rvi" and prob != "hendrix":
            prob = "forest"
        for route in ("kwargs", "config_only", "yaml"):
            jobs.append(construct_job(ctx, solver, cfg, route, "problem_first", prob, tag=f"{i}{route}"))
            meta.append(("valid", i, solver, cfg, route, "problem_first", prob))
        jobs.append(construct_job(ctx, solver, cfg, "kwargs", "solver_first", prob, tag=f"{i}sf"))
        meta.append(("valid", i, solver, cfg, "kwargs", "solver_first", prob))
    bad, pbad = invalid_grid(ctx)
    if quick:
        bad = ctx.rng.sample(bad, 24)
        pbad = ctx.rng.sample(pbad, 10) + [x for x in pbad if x[0] == "de_moor" and "issue_policy" in x[1] and x[1]["issue_policy"] in ("FIFO", "Lifo")]
    for j, (solver, cfg, m) in enumerate(bad):
        route = ["kwargs", "config_only"][j % 2]
        jobs.append(construct_job(ctx, solver, cfg, route, "problem_first", "forest", solve=0, tag=f"b{j}"))
        meta.append(("invalid", j, solver, cfg, route, m))
    for j, (prob, m) in enumerate(pbad):
        jobs.append({"kind": "c20_construct", "solver": "vi", "problem": {"kind": prob, "params": dict(SMALL[prob], **m)}, "config": {}, "route": "kwargs", "problem_only": True})
        meta.append(("pinvalid", j, prob, m))
    with cf.ThreadPoolExecutor(max_workers=10) as ex:
        res = list(ex.map(lambda j: core.run_worker(ctx, [j])[0], jobs))
    viols, corr = [], []
    by_case = {}
    for mt, r in zip(meta, res):
        if mt[0] == "valid":
            by_case.setdefault(mt[1], []).append((mt, r))
        elif mt[0] == "invalid":
            _, j, solver, cfg, route, m = mt
            got = r.get("raised") or r.get("error")
            if route == "config_only" and got == "NameError":
                viols.append({"key": "config-only-route-raises", "what": f"configuration-only route raises NameError ({r.get('message')})", "input": {"solver": solver, "config": cfg}})
            elif got not in ("ValueError", "TypeError"):
                viols.append({"key": f"accepts:{solver}:{sorted(m.items())}", "what": f"{solver} with {m} was not rejected with ValueError/TypeError at construction (got {got or 'a working solver'})",
                              "input": {"solver": solver, "config": cfg, "route": route}})
        else:
            _, j, prob, m = mt
            got = r.get("raised") or r.get("error")
            if got not in ("ValueError", "TypeError"):
                viols.append({"key": f"paccepts:{prob}:{sorted((k, str(v)) for k, v in m.items())}", "what": f"{prob} with {m} was not rejected (got {got or 'a problem instance'})", "input": {"problem": prob, "params": m}})
    n_ok = 0
    n_table_precision = 0
    n_same_object = 0
    for i, lst in by_case.items():
        solver, cfg = lst[0][0][2], lst[0][0][3]
        got_by = {}
        for mt, r in lst:
            route, order = mt[4], mt[5]
            if "error" in r or r.get("raised"):
                kind = r.get("raised") or r.get("error")
                key = "config-only-route-raises" if (route == "config_only" and kind == "NameError") else f"valid-raises:{solver}:{route}:{sorted(cfg.items())}"
                viols.append({"key": key, "what": f"accepted parameters {cfg} fail by route {route} ({order}) at {r.get('stage')}: {kind}: {r.get('message', '')[:160]}",
                              "input": {"solver": solver, "config": cfg, "route": route, "order": order, "problem": mt[6]}})
                continue
            n_ok += 1
            if r.get("gamma_used") is not None and float.fromhex(r["gamma_used"]) != float(cfg["gamma"]):
                viols.append({"key": f"gamma-rounded:{order}", "what": f"double precision requested but the discount factor used is {float.fromhex(r['gamma_used'])!r} instead of {cfg['gamma']!r} "
                              f"({r.get('gamma_dtype')}; {order.replace('_', ' ')}, {route} route)",
                              "input": {"solver": solver, "config": cfg, "route": route, "order": order, "problem": mt[6]}})
            if r.get("dtype") != "float64":
                viols.append({"key": f"float32:{order}", "what": f"double precision requested (default) but values are {r.get('dtype')} when the {order.replace('_', ' ')} ({route} route)",
                              "input": {"solver": solver, "config": cfg, "route": route, "order": order, "problem": mt[6]}})
            got_by[(route, order)] = r
        # Exact comparisons (fresh process each).  D = kwargs route with 64-bit mode already on when the problem is built.
        #  * kwargs and configuration-only in a fresh process build the problem under the same mode: bit-identical;
        #  * the YAML reload happens after a first solver exists (64-bit mode on): bit-identical to D;
        #  * problem-first vs D: bit-identical when the problem's tables are exact in single precision (Forest, p = 1/4);
        #    otherwise the problem object built BEFORE 64-bit mode keeps single-precision tables (problem data, not the
        #    solver's values) and the float64 results differ from D accordingly (amplified by 1/(1-gamma)): counted as an
        #    observation, no verdict - the solver side is isolated by the same-object comparison below.
        A, B, C, D = (got_by.get(k) for k in (("kwargs", "problem_first"), ("config_only", "problem_first"), ("yaml", "problem_first"), ("kwargs", "solver_first")))
        prob = lst[0][0][6]

        def differs(x, y):
            return x is not None and y is not None and (x["iteration"], x["policy"], x["values"]) != (y["iteration"], y["policy"], y["values"])

        for (n1, x), (n2, y) in ((("kwargs", A), ("configuration-only", B)), (("YAML reload", C), ("kwargs after a first solver", D))):
            if differs(x, y):
                viols.append({"key": f"routes-differ:{solver}:{sorted(cfg.items())}", "what": f"routes {n1} and {n2} give different results for the same parameters (same 64-bit mode at problem construction)",
                              "input": {"solver": solver, "config": cfg, "problem": prob}})
        if differs(A, D):
            if prob == "forest":
                viols.append({"key": f"order-differs:{solver}:{sorted(cfg.items())}", "what": "same parameters, same route: results differ between the two construction orders on a problem whose tables are exact in single and double precision",
                              "input": {"solver": solver, "config": cfg, "route": "kwargs", "problem": prob}})
            else:
                n_table_precision += 1      # observation only (problem data built before 64-bit mode; see DESIGN section 14)
        # the solver's OWN precision handling, isolated from the problem's data: first solver of the process vs a second solver on
        # the SAME problem object (64-bit mode certainly on for the second): bit-identical
        if A is not None and "second" in A:
            s2 = A["second"]
            if s2.get("raised"):
                viols.append({"key": f"second-solver-raises:{solver}:{sorted(cfg.items())}", "what": f"a second solver on the same problem object fails: {s2['raised']}: {s2.get('message', '')[:160]}",
                              "input": {"solver": solver, "config": cfg, "route": "kwargs", "problem": prob}})
            elif (A["iteration"], A["policy"], A["values"], A.get("dtype")) != (s2["iteration"], s2["policy"], s2["values"], s2.get("dtype")):
                viols.append({"key": f"first-solver-differs:{solver}:{sorted(cfg.items())}",
                              "what": "the first solver of a process (problem built before 64-bit mode was enabled) and a second solver on the SAME problem object give different results: "
                                      "the solver's precision set-up depends on the construction order",
                              "input": {"solver": solver, "config": cfg, "route": "kwargs", "problem": prob}})
            n_same_object += 1
    # the translated validators vs construction outcomes (model evaluated in the kernel)
    items = []
    if build["model_ok"]:
        for mt, r in zip(meta, res):
            if mt[0] in ("valid", "invalid") and mt[4] == "kwargs":
                solver, cfg = mt[2], mt[3]
                accepted = not (r.get("raised") in ("ValueError", "TypeError") and r.get("stage") == "construct")
                items.append(("", _validator_term(solver, cfg, accepted)))
        failing, errs = cases.coq_bools(ctx, "c20", items, imports=IMPORTS, shard=80)
        for e in errs:
            corr.append({"what": "model evaluation failed", "detail": e})
        for i in failing:
            corr.append({"what": "translated validator and construction outcome disagree", "index": i})
    cov = {
        "evaluations": len(jobs), "distinct_nontrivial": len({(m[2], str(sorted(m[3].items())) if isinstance(m[3], dict) else str(m[3])) for m in meta}),
        "accepted_sets_that_worked": n_ok,
        "route_and_order_comparisons": "bit-exact (kwargs = configuration-only; YAML reload = kwargs after a first solver; both orders on dyadic Forest tables)",
        "cases_where_orders_differ_only_by_single_precision_problem_tables": n_table_precision,
        "first_vs_second_solver_on_the_same_problem_object_compared_bit_for_bit": n_same_object,
        "rule": "FRESH process per construction (64-bit mode is process-global): solver class x route (kwargs + problem instance, configuration object alone, YAML reload) x "
                "construction order x boundary grid (gamma 0, 2^-20, 1/2, 1-2^-20, 1; epsilon 1e-12 .. 1e6 so thresholds straddle 1, 10, 100; integer fields at -1/0/1; bad strings; "
                "problem fields at and around their bounds); accepted sets must solve(3) and agree across routes; every case is a distinct parameter set",
        "samples": [{"kind": m[0], "solver": m[2], "what": (m[3] if m[0] != "pinvalid" else m[3])} for m in meta[:: max(1, len(meta) // 8)]][:8],
        "traces_validated_against_impl": len(items),
    }
    return {"coverage": cov, "corr_failures": corr, "impl_violations": viols,
            "assumptions": ["NaN / infinite parameter values are outside the stated ranges and outside the rational model",
                            "Hydra instantiate / OmegaConf save+load are third-party contracts validated by execution"]}


def _validator_term(solver, cfg, accepted):
    full = {"gamma": 0.99, "epsilon": 1e-3, "max_batch_size": 1024, "checkpoint_frequency": 0, "max_checkpoints": 1, "verbose": 2, "convergence_test": "span", "max_eval_iter": 100, "period": 2}
    if solver == "rvi":
        full["gamma"] = 1.0
    full.update(cfg)
    q = lambda x: qlit(F(x))  # noqa: E731
    f = {"vi": f"{{| vi_checkpoint_frequency := {q(full['checkpoint_frequency'])}; vi_convergence_test := \"{full['convergence_test']}\"%string; vi_epsilon := {q(full['epsilon'])}; vi_gamma := {q(full['gamma'])}; "
               f"vi_max_batch_size := {q(full['max_batch_size'])}; vi_max_checkpoints := {q(full['max_checkpoints'])}; vi_problem := PConfig; vi_verbose := {q(full['verbose'])} |}}",
         "savi": f"{{| savi_checkpoint_frequency := {q(full['checkpoint_frequency'])}; savi_convergence_test := \"{full['convergence_test']}\"%string; savi_epsilon := {q(full['epsilon'])}; savi_gamma := {q(full['gamma'])}; "
                 f"savi_max_batch_size := {q(full['max_batch_size'])}; savi_max_checkpoints := {q(full['max_checkpoints'])}; savi_problem := PConfig; savi_verbose := {q(full['verbose'])} |}}",
         "pi": f"{{| pi_checkpoint_frequency := {q(full['checkpoint_frequency'])}; pi_convergence_test := \"{full['convergence_test']}\"%string; pi_epsilon := {q(full['epsilon'])}; pi_gamma := {q(full['gamma'])}; "
               f"pi_max_batch_size := {q(full['max_batch_size'])}; pi_max_checkpoints := {q(full['max_checkpoints'])}; pi_max_eval_iter := {q(full['max_eval_iter'])}; pi_problem := PConfig; pi_verbose := {q(full['verbose'])} |}}",
         "rvi": f"{{| rvi_checkpoint_frequency := {q(full['checkpoint_frequency'])}; rvi_epsilon := {q(full['epsilon'])}; rvi_gamma := {q(full['gamma'])}; "
                f"rvi_max_batch_size := {q(full['max_batch_size'])}; rvi_max_checkpoints := {q(full['max_checkpoints'])}; rvi_problem := PConfig; rvi_verbose := {q(full['verbose'])} |}}",
         "pvi": f"{{| pvi_checkpoint_frequency := {q(full['checkpoint_frequency'])}; pvi_epsilon := {q(full['epsilon'])}; pvi_gamma := {q(full['gamma'])}; "
                f"pvi_max_batch_size := {q(full['max_batch_size'])}; pvi_max_checkpoints := {q(full['max_checkpoints'])}; pvi_period := {q(full['period'])}; pvi_problem := PConfig; pvi_verbose := {q(full['verbose'])} |}}"}[solver]
    want = "true" if accepted else "false"
    return f"(Bool.eqb (match validate_{solver} {f} with None => true | Some _ => false end) {want})"


def search(ctx, build, res, time_budget=60):
    return []


def replay(ctx, build, data):
    inp = data.get("violation", {}).get("input")
    if not inp or "solver" not in inp:
        return {"fails": False, "note": "no concrete construction in the replay file"}
    j = construct_job(ctx, inp["solver"], inp["config"], inp.get("route", "kwargs"), inp.get("order", "problem_first"), inp.get("problem", "forest"), tag="replay")
    r = core.run_worker(ctx, [j])[0]
    return {"observed": {k: r.get(k) for k in ("raised", "message", "stage", "dtype", "iteration")}, "fails": bool(r.get("raised") or r.get("error") or r.get("dtype") != "float64")}
