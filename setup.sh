#!/bin/bash
# MANIFEST.setup_cmd: build the Coq development from files on disk only (no network).
set -e
cd "$(dirname "$0")"
export PIP_NO_INDEX=1 PYTHONHASHSEED=0
mkdir -p build evidence replays coq/gen
/venv/bin/python - <<'PY'
import os, sys
sys.path.insert(0, '/verif')
from tools.vlib import core
st = core.regen(os.environ.get('VERIF_REPO', '/repo'))
for k, v in st.items():
    print('translator', k, 'ok' if v['ok'] else 'FAILED: ' + v['error'])
PY
cd coq
coq_makefile -f _CoqProject -o Makefile >/dev/null 2>&1
# -k: one broken obligation must not stop the rest of the development from building
timeout 3000 make -k -j16 > ../build/setup-make.log 2>&1 || { echo "setup: some Coq files did not build (see build/setup-make.log); the affected checks will report it"; tail -20 ../build/setup-make.log; }
echo "setup done"
