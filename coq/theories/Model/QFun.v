(* Finite sums, maxima, minima and first-argmax of rational-valued functions on
   an initial segment of nat.  Executable (used by the model) -- no proofs here. *)
From Coq Require Import QArith Qminmax Qabs List Arith.
Import ListNotations.
Open Scope Q_scope.

Fixpoint fsum (f : nat -> Q) (n : nat) : Q :=
  match n with O => 0 | S k => fsum f k + f k end.

(* max_{i<n} f i ; n = 0 gives 0 and never occurs for a well-formed MDP *)
Fixpoint fmax (f : nat -> Q) (n : nat) : Q :=
  match n with
  | O => 0
  | S O => f O
  | S k => Qmax (fmax f k) (f k)
  end.

Fixpoint fmin (f : nat -> Q) (n : nat) : Q :=
  match n with
  | O => 0
  | S O => f O
  | S k => Qmin (fmin f k) (f k)
  end.

Definition Qltb (a b : Q) : bool := negb (Qle_bool b a).

(* least index attaining the maximum: jnp.argmax's tie rule *)
Fixpoint fargmax (f : nat -> Q) (n : nat) : nat :=
  match n with
  | O => O
  | S O => O
  | S k => let i := fargmax f k in if Qltb (f i) (f k) then k else i
  end.

Definition fspan (f : nat -> Q) (n : nat) : Q := fmax f n - fmin f n.
Definition fmaxabs (f : nat -> Q) (n : nat) : Q := fmax (fun i => Qabs (f i)) n.

Definition qnth (V : list Q) (i : nat) : Q := nth i V 0.
Definition tab (f : nat -> Q) (n : nat) : list Q := map f (seq 0 n).
