(* Models of the four shipped problems' dynamics (transition + reward), over integer vectors.
   Age classes: index 0 = youngest ... last = oldest, as in the source ("oldest units on the right"). *)
From Coq Require Import ZArith QArith List Bool.
From MdpaxV Require Import Model.ListUtil.
Import ListNotations.
Open Scope Z_scope.

Definition zsum (l : list Z) : Z := fold_right Z.add 0 l.
Definition zlast (l : list Z) : Z := last l 0.

(* _issue_one_step(remaining_demand, stock_element) *)
Definition issue_one (rem x : Z) : Z * Z := (Z.max 0 (rem - x), Z.max 0 (x - rem)).
(* jax.lax.scan(_issue_one_step, demand, stock): youngest class first *)
Fixpoint scan_fwd (rem : Z) (l : list Z) : list Z :=
  match l with
  | [] => []
  | x :: t => let '(r', y) := issue_one rem x in y :: scan_fwd r' t
  end.
Definition issue_lifo (stock : list Z) (d : Z) : list Z := scan_fwd d stock.
(* scan(..., reverse=True): oldest class first, outputs in original positions *)
Definition issue_fifo (stock : list Z) (d : Z) : list Z := rev (scan_fwd d (rev stock)).

Definition qz (z : Z) : Q := inject_Z z.

(* ---------------- Forest *)
Definition forest_next (S age : Z) (cut fire : bool) : Z := if cut || fire then 0 else Z.min (age + 1) (S - 1).
Definition forest_reward (S : Z) (r1 r2 : Q) (age : Z) (cut : bool) : Q :=
  if cut then (if age =? S - 1 then r2 else if age =? 0 then 0%Q else 1%Q)
  else (if age =? S - 1 then r1 else 0%Q).

(* ---------------- De Moor: state = in_transit (L-1) ++ stock (m) *)
Section DeMoor.
  Variables (L m : nat) (fifo : bool).
  Definition dm_parts (state : list Z) (q d : Z) :=
    let transit := firstn (L - 1) state in
    let stock := skipn (L - 1) state in
    let in_transit := q :: transit in
    let after := if fifo then issue_fifo stock d else issue_lifo stock d in
    (in_transit, stock, after).
  Definition dm_next (state : list Z) (q d : Z) : list Z :=
    let '(in_transit, stock, after) := dm_parts state q d in
    firstn (L - 1) in_transit ++ (zlast in_transit :: firstn (m - 1) after).
  (* (ordered, shortage, expired, held at the end of the period excluding units that expire) *)
  Definition dm_components (state : list Z) (q d : Z) : Z * Z * Z * Z :=
    let '(in_transit, stock, after) := dm_parts state q d in
    (q, Z.max (d - zsum stock) 0, zlast after, zsum (firstn (m - 1) after)).
  Definition dm_reward (c_order c_short c_waste c_hold : Q) (state : list Z) (q d : Z) : Q :=
    let '(o, sh, ex, ho) := dm_components state q d in
    (- (c_order * qz o + c_short * qz sh + c_waste * qz ex + c_hold * qz ho))%Q.
End DeMoor.

(* ---------------- Hendrix: state = stock_a (m) ++ stock_b (m); event = units issued of A, of B *)
Section Hendrix.
  Variable m : nat.
  Definition hx_next (state : list Z) (qa qb ia ib : Z) : list Z :=
    let sa := firstn m state in let sb := skipn m state in
    (qa :: firstn (m - 1) (issue_fifo sa ia)) ++ (qb :: firstn (m - 1) (issue_fifo sb ib)).
  Definition hx_reward (ca cb pa pb : Q) (qa qb ia ib : Z) : Q :=
    ((pa * qz ia + pb * qz ib) - (ca * qz qa + cb * qz qb))%Q.
End Hendrix.

(* ---------------- Mirjalili: state = weekday :: stock (m-1); event = demand :: received by age (m) *)
Section Mirjalili.
  Variables (m : nat) (Qmax : Z).
  Definition clipz0 (x : Z) : Z := Z.max 0 (Z.min x Qmax).
  Definition mj_opening (state rec : list Z) : list Z := map2 (fun x r => clipz0 (x + r)) (0 :: tl state) rec.
  Definition mj_next (state : list Z) (d : Z) (rec : list Z) : list Z :=
    let after := issue_fifo (mj_opening state rec) d in
    ((hd 0 state + 1) mod 7) :: firstn (m - 1) after.
  (* (ordered, order placed?, shortage, expired, held INCLUDING the units about to expire) *)
  Definition mj_components (state : list Z) (q d : Z) (rec : list Z) : Z * Z * Z * Z * Z :=
    let opening := mj_opening state rec in
    let after := issue_fifo opening d in
    (q, (if 0 <? q then 1 else 0), Z.max (d - zsum opening) 0, zlast after, zsum after).
  Definition mj_reward (c_var c_fix c_short c_waste c_hold : Q) (state : list Z) (q d : Z) (rec : list Z) : Q :=
    let '(o, f, sh, ex, ho) := mj_components state q d rec in
    (- (c_var * qz o + c_fix * qz f + c_short * qz sh + c_waste * qz ex + c_hold * qz ho))%Q.
End Mirjalili.
