(* Semi-asynchronous sweep of SemiAsyncValueIteration: per device a scan over batches
   whose carried value vector is updated after every batch by a masked scatter;
   optional permutation of the states before batching, undone with argsort afterwards. *)
From Coq Require Import QArith Qminmax Qreduction List Arith ZArith Bool.
From MdpaxV Require Import Model.ListUtil Model.QFun Model.MDP Model.Bellman Model.Batching Model.Kernel.
Import ListNotations.
Open Scope Q_scope.

Fixpoint list_set (l : list Q) (i : nat) (x : Q) : list Q :=
  match l, i with
  | [], _ => []
  | _ :: t, O => x :: t
  | h :: t, S i' => h :: list_set t i' x
  end.

(* sequential writes; later writes win *)
Definition scatter (cur : list Q) (writes : list (nat * Q)) : list Q :=
  fold_left (fun acc w => list_set acc (fst w) (snd w)) writes cur.

Fixpoint pos_of (i : nat) (sigma : list nat) : nat :=
  match sigma with
  | [] => O
  | x :: t => if Nat.eqb x i then O else S (pos_of i t)
  end.

Section SA.
  Variable M : mdp.
  Variables (n mb d : Z).
  Variable zidx : nat.        (* state_to_index of the all-zero padding row *)
  Variable pad_wins : bool.   (* resolution of duplicate scatter indices: do padded writes land last? *)
  Variable padval : Q.        (* whatever the kernel computes for a padding row *)

  (* scan_fn: one batch *)
  Definition sa_batch (g : Q) (cur : list Q) (batch : list (option nat)) : list Q * list Q :=
    let c : carry := (seq 0 (nA M), seq 0 (nE M), g, cur) in
    let new_batch_values :=
      map (fun slot => match slot with
                       | Some st => k_updated_value M st (seq 0 (nA M)) (seq 0 (nE M)) g cur
                       | None => padval end) batch in
    let real_writes := flat_map (fun sv => match fst sv with Some st => [(st, snd sv)] | None => [] end)
                                (combine batch new_batch_values) in
    let pad_writes := flat_map (fun slot => match slot with Some _ => [] | None => [(zidx, qnth cur zidx)] end) batch in
    let updated := if pad_wins then scatter cur (real_writes ++ pad_writes)
                   else scatter cur (pad_writes ++ real_writes) in
    (updated, new_batch_values).

  Fixpoint sa_device (g : Q) (cur : list Q) (batches : list (list (option nat))) : list (list Q) :=
    match batches with
    | [] => []
    | b :: rest => let '(cur', ys) := sa_batch g cur b in ys :: sa_device g cur' rest
    end.

  (* _update_values; sigma = None for the fixed order *)
  Definition savi_sweep (sigma : option (list nat)) (g : Q) (V : list Q) : list Q :=
    let order := match sigma with Some s => s | None => seq 0 (nS M) end in
    let sl := slots n mb d order in
    let flat := unbatch n mb d (map (sa_device g V) sl) in
    match sigma with
    | Some s => map (fun i => qnth flat (pos_of i s)) (seq 0 (nS M))   (* values[argsort(sigma)] *)
    | None => flat
    end.
End SA.
