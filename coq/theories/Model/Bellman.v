(* Specification operators (Bellman optimality / policy backups) on functions nat -> Q,
   and their executable list versions (normalised with Qred so denominators stay small). *)
From Coq Require Import QArith Qreduction List Arith.
From MdpaxV Require Import Model.QFun Model.MDP.
Import ListNotations.
Open Scope Q_scope.

Section Ops.
  Variable M : mdp.
  Variable g : Q.   (* discount factor *)

  (* expected one-step value of (s, a) under value function v *)
  Definition Qsa (v : nat -> Q) (s a : nat) : Q :=
    fsum (fun e => prb M s a e * (rew M s a e + g * v (nxt M s a e))) (nE M).
  Definition T (v : nat -> Q) (s : nat) : Q := fmax (Qsa v s) (nA M).
  Definition Tpi (pi : nat -> nat) (v : nat -> Q) (s : nat) : Q := Qsa v s (pi s).
  Definition greedy (v : nat -> Q) (s : nat) : nat := fargmax (Qsa v s) (nA M).
  Fixpoint Titer (n : nat) (v : nat -> Q) : nat -> Q :=
    match n with O => v | S k => T (Titer k v) end.

  (* executable, on value vectors *)
  Definition q_sa (V : list Q) (s a : nat) : Q := Qred (Qsa (qnth V) s a).
  Definition backup (V : list Q) (s : nat) : Q := fmax (q_sa V s) (nA M).
  Definition sweep (V : list Q) : list Q := tab (backup V) (nS M).
  Definition greedy_l (V : list Q) (s : nat) : nat := fargmax (q_sa V s) (nA M).
  Definition policy_of (V : list Q) : list nat := map (greedy_l V) (seq 0 (nS M)).
  Definition sweep_pi (P : list nat) (V : list Q) : list Q :=
    tab (fun s => q_sa V s (nth s P 0%nat)) (nS M).
End Ops.

(* convergence measures on vectors of equal length n *)
Definition vdiff (U V : list Q) : nat -> Q := fun i => qnth U i - qnth V i.
Definition span_diff (U V : list Q) : Q := Qred (fspan (vdiff U V) (length U)).
Definition maxabs_diff (U V : list Q) : Q := Qred (fmaxabs (vdiff U V) (length U)).
