(* Model of mdpax.utils.spaces.create_range_space.  The dimension expression, the
   per-dimension ranges and the argument of ravel_multi_index come from the
   GENERATED file gen/GenSpaces.v. *)
From Coq Require Import List ZArith Bool.
From MdpaxV Require Import Model.ListUtil.
From MdpaxGen Require Import GenSpaces.
Import ListNotations.
Open Scope Z_scope.

(* jnp.ravel_multi_index(idx, dims, mode="clip"): each index clipped to [0, d-1], row-major *)
Definition clipz (i d : Z) : Z := Z.max 0 (Z.min i (d - 1)).
Fixpoint ravel_clip (idx dims : list Z) (acc : Z) : Z :=
  match idx, dims with
  | i :: idx', d :: dims' => ravel_clip idx' dims' (acc * d + clipz i d)
  | _, _ => acc
  end.

Definition range_space (mins maxs : list Z) : list (list Z) :=
  cart (map2 (fun lo hi => zrange (rs_range_lo lo hi) (rs_range_hi lo hi)) mins maxs).

Definition index_fn (mins maxs : list Z) (v : list Z) : Z :=
  ravel_clip (rs_index_arg v mins maxs) (rs_index_dims mins maxs) 0.

(* ---- specification-side notions (hand written, independent of the generated file) *)
Fixpoint zprod (l : list Z) : Z := match l with [] => 1 | x :: t => x * zprod t end.
Definition box_dims (mins maxs : list Z) : list Z := map2 (fun lo hi => hi - lo + 1) mins maxs.
(* row-major rank of v inside the box *)
Fixpoint rank (v mins dims : list Z) : Z :=
  match v, mins, dims with
  | x :: v', lo :: mins', d :: dims' => (x - lo) * zprod dims' + rank v' mins' dims'
  | _, _, _ => 0
  end.
Fixpoint in_box (v mins maxs : list Z) : Prop :=
  match v, mins, maxs with
  | [], [], [] => True
  | x :: v', lo :: mins', hi :: maxs' => lo <= x <= hi /\ in_box v' mins' maxs'
  | _, _, _ => False
  end.
Definition nearest (v mins maxs : list Z) : list Z :=
  map2 (fun x lh => Z.max (fst lh) (Z.min x (snd lh))) v (combine mins maxs).
