(* Decision logic of CheckpointMixin.restore / load_checkpoint over an abstract directory.
   Error kinds, step rule, override keys and stage order are GENERATED (gen/GenRestore.v). *)
From Coq Require Import List Arith Bool.
From MdpaxGen Require Import GenRestore GenFields.
Import ListNotations.

Record dirstate := { d_config : bool; d_steps : list nat (* committed steps, ascending *) }.
Inductive outcome := Fail (e : errkind) | Restored (step : nat).

Definition latest_step (d : dirstate) : option nat := match rev (d_steps d) with [] => None | k :: _ => Some k end.

(* Python's `step or latest`: None and 0 are both falsy *)
Definition choose_step (rule : step_rule) (req latest : option nat) : option nat :=
  match rule with
  | StepOrLatest => match req with Some (S k) => Some (S k) | _ => latest end
  | StepIfNotNoneElseLatest => match req with Some k => Some k | None => latest end
  | StepAlwaysLatest => latest
  end.

Definition restore_decide (d : dirstate) (req : option nat) : outcome :=
  if negb (d_config d) then Fail restore_missing_config_error
  else match choose_step restore_step_rule req (latest_step d) with
       | None => Fail restore_no_step_error
       | Some s => Restored s
       end.

Definition load_decide (d : dirstate) (req : option nat) : outcome :=
  match choose_step load_step_rule req (latest_step d) with
  | None => Fail load_no_step_error
  | Some s => Restored s
  end.

Definition stage_index (s : rstage) (l : list rstage) : option nat :=
  let fix go i l := match l with [] => None | x :: t => if (match x, s with
      | SCheckConfig, SCheckConfig | SLoadConfig, SLoadConfig | SApplyOverrides, SApplyOverrides | SInstantiate, SInstantiate
      | STemplate, STemplate | SManager, SManager | SChooseStep, SChooseStep | SCheckStep, SCheckStep | SReadState, SReadState
      | SAssignFields, SAssignFields | SReturn, SReturn => true | _, _ => false end) then Some i else go (S i) t end in go 0 l.
Definition before (a b : rstage) (l : list rstage) : bool :=
  match stage_index a l, stage_index b l with Some i, Some j => Nat.ltb i j | _, _ => false end.

(* Orbax StandardRestore reads the stored tree INTO a template: a leaf that is None in the template is
   not read (contract, observed; see DESIGN.md C10) *)
Definition orbax_restore_leaf {T} (template stored : option T) : option T :=
  match template with None => None | Some _ => stored end.
