(* The code-shaped synchronous sweep of ValueIteration:
     pmap(devices) . scan(batches) . vmap(batch slots) . max/argmax(vmap(actions)) . dot(vmap(events))
   with the padded last batch and the four-slot carry tuple (actions, events, gamma, values).
   Parameter order of every function is the CALLEE's order in the source. *)
From Coq Require Import QArith Qminmax Qreduction List Arith ZArith.
From MdpaxV Require Import Model.ListUtil Model.QFun Model.MDP Model.Bellman Model.Batching.
Import ListNotations.
Open Scope Q_scope.

Fixpoint qdot (xs ys : list Q) : Q :=
  match xs, ys with
  | x :: xs', y :: ys' => x * y + qdot xs' ys'
  | _, _ => 0
  end.
Definition lmax (l : list Q) : Q := match l with [] => 0 | x :: t => fold_left Qmax t x end.
(* first index of the maximum of a non-empty list (jnp.argmax): left-to-right scan keeping
   (best value, its index, next index); a later element wins only if strictly greater *)
Definition amax_step (st : Q * nat * nat) (x : Q) : Q * nat * nat :=
  let '(best, bi, i) := st in if Qltb best x then (x, i, S i) else (best, bi, S i).
Definition largmax (l : list Q) : nat :=
  match l with [] => O | x :: t => snd (fst (fold_left amax_step t (x, O, 1%nat))) end.

Section K.
  Variable M : mdp.

  (* _calculate_updated_state_action_value(state, action, random_events, gamma, values) *)
  Definition k_state_action_value (st a : nat) (events : list nat) (g : Q) (V : list Q) : Q :=
    let next_state_values := map (fun e => qnth V (nxt M st a e)) events in
    let rewards := map (fun e => rew M st a e) events in
    let probs := map (fun e => prb M st a e) events in
    Qred (qdot (map2 (fun r v => r + g * v) rewards next_state_values) probs).

  (* _calculate_updated_value(state, actions, random_events, gamma, values) *)
  Definition k_updated_value (st : nat) (actions events : list nat) (g : Q) (V : list Q) : Q :=
    lmax (map (fun a => k_state_action_value st a events g V) actions).

  (* _extract_policy_idx_one_state(state, actions, random_events, gamma, values) *)
  Definition k_policy_idx (st : nat) (actions events : list nat) (g : Q) (V : list Q) : nat :=
    largmax (map (fun a => k_state_action_value st a events g V) actions).

  Definition carry := (list nat * list nat * Q * list Q)%type.

  (* _calculate_updated_value_state_batch: the carry is unpacked into local names in a
     DIFFERENT order than it was packed and passed on positionally, as in the source *)
  Definition k_value_state_batch (padval : Q) (c : carry) (batch : list (option nat)) : carry * list Q :=
    let '(values, gamma, action_space, random_event_space) := c in
    (c, map (fun slot => match slot with
                         | Some st => k_updated_value st values gamma action_space random_event_space
                         | None => padval end) batch).

  (* _extract_policy_idx_state_batch *)
  Definition k_policy_state_batch (padidx : nat) (c : carry) (batch : list (option nat)) : carry * list nat :=
    let '(actions, random_events, gamma, values) := c in
    (c, map (fun slot => match slot with
                         | Some st => k_policy_idx st actions random_events gamma values
                         | None => padidx end) batch).

  (* jax.lax.scan over the batches of one device *)
  Fixpoint k_scan {Y} (f : carry -> list (option nat) -> carry * list Y) (c : carry)
           (batches : list (list (option nat))) : list (list Y) :=
    match batches with
    | [] => []
    | b :: rest => let '(c', ys) := f c b in ys :: k_scan f c' rest
    end.

  Section Layout.
    Variables (n mb d : Z).
    Definition slots (order : list nat) : list (list (list (option nat))) :=
      prepare n mb d None (map Some order).

    (* _update_values: pmap over devices (carry broadcast), unbatch *)
    Definition kernel_sweep (padval : Q) (g : Q) (V : list Q) : list Q :=
      let c : carry := (seq 0 (nA M), seq 0 (nE M), g, V) in
      unbatch n mb d (map (k_scan (k_value_state_batch padval) c) (slots (seq 0 (nS M)))).

    (* _extract_policy (indices; the action vectors are a table lookup done by the harness) *)
    Definition kernel_policy (padidx : nat) (g : Q) (V : list Q) : list nat :=
      let c : carry := (seq 0 (nA M), seq 0 (nE M), g, V) in
      unbatch n mb d (map (k_scan (k_policy_state_batch padidx) c) (slots (seq 0 (nS M)))).

    (* PolicyIteration._calculate_policy_values: per-state policy action looked up by state index;
       for a padded row the lookup goes through the index of the all-zero vector (zidx) *)
    Definition kernel_eval (zidx : nat) (padval : Q) (g : Q) (P : list nat) (V : list Q) : list Q :=
      let events := seq 0 (nE M) in
      unbatch n mb d
        (map (map (map (fun slot => match slot with
                                     | Some st => k_state_action_value st (nth st P 0%nat) events g V
                                     | None => padval end)))
             (slots (seq 0 (nS M)))).
  End Layout.
End K.
