(* Executable comparators for the C19 correspondence. *)
From Coq Require Import List ZArith Bool.
From MdpaxV Require Import Model.ListUtil Model.Spaces Model.CorrC18.
Import ListNotations.
Open Scope Z_scope.

Fixpoint zll_eqb (a b : list (list Z)) : bool :=
  match a, b with
  | [], [] => true
  | x :: a', y :: b' => zlist_eqb x y && zll_eqb a' b'
  | _, _ => false
  end.

(* (mins, maxs, space as listed by the implementation, probe vectors, their indices) *)
Definition c19_ok (c : list Z * list Z * list (list Z) * list (list Z) * list Z) : bool :=
  let '(mins, maxs, space, probes, idxs) := c in
  zll_eqb (range_space mins maxs) space &&
  zlist_eqb (map (index_fn mins maxs) probes) idxs.
