(* Model of Problem.build_transition_and_reward_matrices. *)
From Coq Require Import QArith Qminmax Qabs Qreduction List Arith Bool.
From MdpaxV Require Import Model.QFun Model.MDP Model.Bellman.
Import ListNotations.
Open Scope Q_scope.

Section Mat.
  Variable M : mdp.

  (* P[a, s, s'] before normalisation: scatter-ADD of every event's probability into its successor column *)
  Definition Praw (a s s' : nat) : Q :=
    fsum (fun e => if Nat.eqb (nxt M s a e) s' then prb M s a e else 0) (nE M).
  (* R[s, a] = sum_e prb * rew *)
  Definition Rexp (s a : nat) : Q := fsum (fun e => prb M s a e * rew M s a e) (nE M).
  Definition rowsum (a s : nat) : Q := fsum (Praw a s) (nS M).
  Definition deviation (a s : nat) : Q := Qabs (rowsum a s - 1).

  (* row_sums has shape [A, S]; argmax / unravel_index are row-major over (action, state) *)
  Definition dev_flat (i : nat) : Q := deviation (i / nS M) (i mod nS M).
  Definition max_deviation : Q := fmax dev_flat (nA M * nS M).
  Definition worst_pair : nat * nat :=
    let i := fargmax dev_flat (nA M * nS M) in (i / nS M, i mod nS M)%nat.   (* (action, state) *)

  Inductive build_result :=
  | BuildError (action state : nat)
  | BuildOk (P : list (list (list Q))) (R : list (list Q)).

  Definition Pnorm (a s s' : nat) : Q :=
    let rs := rowsum a s in Qred (Praw a s s' / (if Qltb 0 rs then rs else 1)).

  Definition build (tol : Q) : build_result :=
    if Qltb tol max_deviation then let '(a, s) := worst_pair in BuildError a s
    else BuildOk
      (map (fun a => map (fun s => map (fun s' => Pnorm a s s') (seq 0 (nS M))) (seq 0 (nS M))) (seq 0 (nA M)))
      (map (fun s => map (fun a => Qred (Rexp s a)) (seq 0 (nA M))) (seq 0 (nS M))).

  (* Bellman backup computed from the explicit matrices *)
  Definition Qsa_matrix (P : nat -> nat -> nat -> Q) (R : nat -> nat -> Q) (g : Q) (v : nat -> Q) (s a : nat) : Q :=
    R s a + g * fsum (fun s' => P a s s' * v s') (nS M).
End Mat.
