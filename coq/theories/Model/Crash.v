(* Small-step model of a checkpointed solve under crashes.  Solver thread || writer/finalizer
   thread || crash, over a directory.  The protocol is the Orbax contract read from the installed
   source (CheckpointManager.save / _finalize, atomicity.py): a save call is skipped when
   latest >= step; otherwise it waits for the previous save, takes the SNAPSHOT NOW, and the writer
   creates <step>.orbax-checkpoint-tmp, writes leaf by leaf, renames atomically to <step>, and
   only then deletes the steps beyond max_to_keep, file by file. *)
From Coq Require Import List Arith Bool.
Import ListNotations.

Section Crash.
  Variable Snap : Type.
  Variable nleaves : nat.                 (* leaves (files) per checkpoint; >= 1 *)

  Record entry := { e_step : nat; e_snap : Snap; e_files : nat (* files still present, nleaves = intact *) }.
  Record disk := { committed : list entry;                       (* ascending by step *)
                   tmp : option (nat * Snap * nat) }.            (* (step, snapshot being written, leaves written so far) *)

  Inductive writer :=
  | WIdle
  | WStart (k : nat) (s : Snap)
  | WWrite (k : nat) (s : Snap) (written : nat)
  | WRetain
  | WDelete (victim : nat).              (* step currently being deleted *)

  Record config := { todo : list (nat * Snap);   (* save calls the solver will still make, in order *)
                     wr : writer; dk : disk; crashed : bool;
                     last_committed : option nat (* ghost: label of the last rename that executed *) }.

  Definition latest (d : disk) : option nat :=
    match rev (committed d) with [] => None | e :: _ => Some (e_step e) end.
  Definition skip_save (d : disk) (k : nat) : bool :=
    match latest d with Some l => Nat.leb k l | None => false end.

  Variable m : nat.                       (* max_to_keep >= 1 *)
  Variable async : bool.

  Definition drop_step (k : nat) (l : list entry) : list entry := filter (fun e => negb (Nat.eqb (e_step e) k)) l.
  Fixpoint damage (k : nat) (l : list entry) : list entry :=
    match l with
    | [] => []
    | e :: t => if Nat.eqb (e_step e) k then {| e_step := e_step e; e_snap := e_snap e; e_files := pred (e_files e) |} :: t else e :: damage k t
    end.
  Definition files_of (k : nat) (l : list entry) : nat :=
    match find (fun e => Nat.eqb (e_step e) k) l with Some e => e_files e | None => 0 end.

  Inductive step : config -> config -> Prop :=
  (* solver thread *)
  | SSkip k s rest w d lc : skip_save d k = true ->
      step {| todo := (k, s) :: rest; wr := w; dk := d; crashed := false; last_committed := lc |}
           {| todo := rest; wr := w; dk := d; crashed := false; last_committed := lc |}
  | SHandoff k s rest d lc : skip_save d k = false ->        (* waits until the writer is idle; snapshot taken NOW *)
      step {| todo := (k, s) :: rest; wr := WIdle; dk := d; crashed := false; last_committed := lc |}
           {| todo := rest; wr := WStart k s; dk := d; crashed := false; last_committed := lc |}
  (* writer / finalizer thread *)
  | WMkTmp k s td d lc :                                    (* a stale tmp of a crashed run is removed first *)
      step {| todo := td; wr := WStart k s; dk := d; crashed := false; last_committed := lc |}
           {| todo := td; wr := WWrite k s 0; dk := {| committed := committed d; tmp := Some (k, s, 0) |}; crashed := false; last_committed := lc |}
  | WLeaf k s n td d lc : n < nleaves ->
      step {| todo := td; wr := WWrite k s n; dk := d; crashed := false; last_committed := lc |}
           {| todo := td; wr := WWrite k s (S n); dk := {| committed := committed d; tmp := Some (k, s, S n) |}; crashed := false; last_committed := lc |}
  | WCommit k s td d lc :                                   (* atomic rename tmp -> step *)
      step {| todo := td; wr := WWrite k s nleaves; dk := d; crashed := false; last_committed := lc |}
           {| todo := td; wr := WRetain;
              dk := {| committed := committed d ++ [{| e_step := k; e_snap := s; e_files := nleaves |}]; tmp := None |};
              crashed := false; last_committed := Some k |}
  | WPickVictim td d lc e rest : committed d = e :: rest -> m < length (committed d) ->
      step {| todo := td; wr := WRetain; dk := d; crashed := false; last_committed := lc |}
           {| todo := td; wr := WDelete (e_step e); dk := d; crashed := false; last_committed := lc |}
  | WRetainDone td d lc : length (committed d) <= m ->
      step {| todo := td; wr := WRetain; dk := d; crashed := false; last_committed := lc |}
           {| todo := td; wr := WIdle; dk := d; crashed := false; last_committed := lc |}
  | WDeleteFile v td d lc : 0 < files_of v (committed d) ->
      step {| todo := td; wr := WDelete v; dk := d; crashed := false; last_committed := lc |}
           {| todo := td; wr := WDelete v; dk := {| committed := damage v (committed d); tmp := tmp d |}; crashed := false; last_committed := lc |}
  | WDeleteDir v td d lc : files_of v (committed d) = 0 ->
      step {| todo := td; wr := WDelete v; dk := d; crashed := false; last_committed := lc |}
           {| todo := td; wr := WRetain; dk := {| committed := drop_step v (committed d); tmp := tmp d |}; crashed := false; last_committed := lc |}
  (* the process is killed: thread states vanish, the directory stays exactly as it is *)
  | Crash td w d lc :
      step {| todo := td; wr := w; dk := d; crashed := false; last_committed := lc |}
           {| todo := []; wr := WIdle; dk := d; crashed := true; last_committed := lc |}.

  Inductive reach (c0 : config) : config -> Prop :=
  | reach_refl : reach c0 c0
  | reach_step c c' : reach c0 c -> step c c' -> reach c0 c'.

  (* what restore() sees: the largest step directory that exists (it cannot know about deletions in progress) *)
  Definition restore_latest (d : disk) : option entry :=
    match rev (committed d) with [] => None | e :: _ => Some e end.
End Crash.
