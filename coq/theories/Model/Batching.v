(* Model of mdpax.utils.batch_processing.BatchProcessor over lists.
   The arithmetic and the pad/strip/reshape decisions come from the
   GENERATED file gen/GenBatch.v (translated from the source on every run). *)
From Coq Require Import List Arith ZArith Bool.
From MdpaxV Require Import Model.ListUtil.
From MdpaxGen Require Import GenBatch.
Import ListNotations.
Open Scope Z_scope.

Section Batching.
  Variables (n mb d : Z).   (* n_states, max_batch_size, n_devices *)

  Definition L_bs := bp_batch_size n mb d.
  Definition L_nb := bp_n_batches n mb d.
  Definition L_pad := bp_n_pad n mb d.

  Definition pad_list {T} (padrow : T) (xs : list T) : list T :=
    if bp_pad_cond L_pad then
      (if bp_pad_after then xs ++ repeat padrow (Z.to_nat (bp_pad_rows L_pad))
       else repeat padrow (Z.to_nat (bp_pad_rows L_pad)) ++ xs)
    else xs.

  Definition prepare {T} (padrow : T) (xs : list T) : list (list (list T)) :=
    match bp_reshape_dims d L_nb L_bs with
    | [a; b; c] => reshape3 (Z.to_nat a) (Z.to_nat b) (Z.to_nat c) (pad_list padrow xs)
    | _ => []
    end.

  Definition unbatch {T} (r : list (list (list T))) : list T :=
    let flat := flatten3 r in
    if bp_strip_cond L_pad
    then firstn (Z.to_nat (bp_strip_stop (Z.of_nat (length flat)) L_pad)) flat
    else flat.
End Batching.
