(* Integer-vector operations that the GENERATED problem dynamics (gen/GenDeMoor.v, translated from the shipped problem's
   transition code) are expressed in. *)
From Coq Require Import ZArith QArith List.
From MdpaxV Require Import Model.Problems.
Import ListNotations.
Open Scope Z_scope.

Definition zslice (l : list Z) (a b : nat) : list Z := firstn (b - a) (skipn a l).     (* l[a:b], 0 <= a <= b *)
Definition zlastv (l : list Z) : Z := last l 0.                                        (* l[-1] *)
Definition znth (l : list Z) (i : nat) : Z := nth i l 0.                               (* l[i] *)

(* jax.lax.scan(f, init, xs[, reverse=True]) for a step on integers: (final carry, outputs in the positions of xs) *)
Fixpoint zscan_fwd (f : Z -> Z -> Z * Z) (c : Z) (xs : list Z) : Z * list Z :=
  match xs with
  | [] => (c, [])
  | x :: t => let '(c', y) := f c x in let '(cf, ys) := zscan_fwd f c' t in (cf, y :: ys)
  end.
Definition zscan (f : Z -> Z -> Z * Z) (c : Z) (xs : list Z) (reverse : bool) : Z * list Z :=
  if reverse then let '(cf, ys) := zscan_fwd f c (rev xs) in (cf, rev ys) else zscan_fwd f c xs.

(* jnp.dot(integer vector, cost vector) *)
Fixpoint dotzq (v : list Z) (c : list Q) : Q :=
  match v, c with
  | x :: v', y :: c' => (qz x * y + dotzq v' c')%Q
  | _, _ => 0%Q
  end.

(* numpy's v.clip(lo, hi) = minimum(hi, maximum(v, lo)), elementwise *)
Definition zclipv (lo hi : Z) (v : list Z) : list Z := map (fun x => Z.min hi (Z.max x lo)) v.
