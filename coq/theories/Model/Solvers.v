(* Executable state machines of the five solvers.  One `step` = one pass through the
   body of the solve() loop up to and including the convergence test; `solve` adds the
   periodic / final saves and the policy extraction.  Save events carry a snapshot. *)
From Coq Require Import QArith Qminmax Qreduction Qabs List Arith ZArith Bool.
From MdpaxV Require Import Model.ListUtil Model.QFun Model.MDP Model.Bellman Model.Batching Model.Kernel Model.SemiAsync.
From MdpaxGen Require Import GenThreshold GenPeriodic.
Import ListNotations.
Open Scope Q_scope.

Inductive ctest := Span | MaxDiff.
(* which measure function and which threshold formula a configured test selects comes from the
   GENERATED file gen/GenThreshold.v (value_iteration._setup_convergence_testing) *)
Definition measure_of_kind (k : measure_kind) (new old : list Q) : Q :=
  match k with MKSpan => span_diff new old | MKMaxDiff => maxabs_diff new old | MKPeriodSpan => span_diff new old end.
Definition measure (t : ctest) (new old : list Q) : Q :=
  measure_of_kind (match t with Span => test_vi_span | MaxDiff => test_vi_max_diff end) new old.
Definition vi_threshold (t : ctest) (g eps : Q) : Q :=
  Qred (match t with Span => thr_vi_span eps g | MaxDiff => thr_vi_max_diff eps g end).
Definition rvi_threshold (eps : Q) : Q := Qred (thr_rvi eps 1).
Definition pvi_threshold (g eps : Q) : Q := Qred (thr_pvi eps g).

(* ------------------------------------------------------------------ generic loop *)
Section Loop.
  Variable St : Type.
  Variable step : St -> St * bool.       (* (state after the iteration, convergence test passed?) *)
  Variable iter_of : St -> nat.
  Variable ckpt : bool.                   (* is_checkpointing_enabled *)
  Variable freq : nat.                    (* checkpoint_frequency (> 0 when ckpt) *)

  Fixpoint loop (k : nat) (st : St) (saves : list (nat * St)) : St * bool * list (nat * St) :=
    match k with
    | O => (st, false, saves)
    | S k' =>
        let '(st', stop) := step st in
        if stop then (st', true, saves)
        else
          let saves' := if ckpt && (Nat.eqb (iter_of st' mod freq) 0) then saves ++ [(iter_of st', st')] else saves in
          loop k' st' saves'
    end.

  (* solve(max_iterations = k), k >= 1 *)
  Definition solve_gen (finish : bool -> St -> St) (k : nat) (st : St) : St * bool * list (nat * St) :=
    let '(st', conv, saves) := loop k st [] in
    let saves' := if ckpt then saves ++ [(iter_of st', st')] else saves in
    (finish conv st', conv, saves').
End Loop.

(* The solvers are written over three abstract kernels (sweep, greedy policy extraction,
   policy backup) so that the SAME definitions can be instantiated with the specification
   operators (Bellman.v) and with the code-shaped, layout-dependent kernels (Kernel.v). *)
Section Solvers.
  Variable M : mdp.
  Variable g : Q.
  Variable eps : Q.
  Variable SW : list Q -> list Q.                 (* one synchronous sweep *)
  Variable POL : list Q -> list nat.              (* greedy policy extraction *)
  Variable EV : list nat -> list Q -> list Q.     (* one policy backup *)

  (* ---------------------------------------------------------------- value iteration *)
  Record vist := { v_vals : list Q; v_iter : nat; v_pol : option (list nat) }.
  Definition vi_init (V0 : list Q) : vist := {| v_vals := V0; v_iter := 0; v_pol := None |}.
  Definition vi_incr (st : vist) : vist := {| v_vals := v_vals st; v_iter := S (v_iter st); v_pol := v_pol st |}.
  (* new_values, conv = self._iteration_step(); self.values = new_values *)
  Definition vi_sweep_step (t : ctest) (st : vist) : vist * bool :=
    let new := SW (v_vals st) in
    ({| v_vals := new; v_iter := v_iter st; v_pol := v_pol st |},
     Qltb (measure t new (v_vals st)) (vi_threshold t g eps)).
  Definition vi_step (t : ctest) (st : vist) : vist * bool := vi_sweep_step t (vi_incr st).
  Definition vi_finish (_ : bool) (st : vist) : vist :=
    {| v_vals := v_vals st; v_iter := v_iter st; v_pol := Some (POL (v_vals st)) |}.
  Definition vi_solve (t : ctest) (ckpt : bool) (freq k : nat) (st : vist) :=
    solve_gen vist (vi_step t) v_iter ckpt freq vi_finish k st.

  (* ---------------------------------------------------------------- relative value iteration (g = 1) *)
  Record rvist := { r_vals : list Q; r_iter : nat; r_pol : option (list nat); r_gain : Q }.
  (* _initialize_solver_state_elements: self.gain = float(self.values[-1]) *)
  Definition rvi_init (V0 : list Q) : rvist := {| r_vals := V0; r_iter := 0; r_pol := None; r_gain := last V0 0 |}.
  Definition rvi_incr (st : rvist) : rvist :=
    {| r_vals := r_vals st; r_iter := S (r_iter st); r_pol := r_pol st; r_gain := r_gain st |}.
  Definition rvi_sweep_step (st : rvist) : rvist * bool :=
    let new0 := SW (r_vals st) in
    let new := map (fun x => Qred (x - r_gain st)) new0 in
    let sp := measure_of_kind test_rvi new (r_vals st) in
    ({| r_vals := new; r_iter := r_iter st; r_pol := r_pol st; r_gain := last new 0 |},
     Qltb sp (rvi_threshold eps)).
  Definition rvi_step (st : rvist) : rvist * bool := rvi_sweep_step (rvi_incr st).
  Definition rvi_finish (_ : bool) (st : rvist) : rvist :=
    {| r_vals := r_vals st; r_iter := r_iter st; r_pol := Some (POL (r_vals st)); r_gain := r_gain st |}.
  Definition rvi_solve (ckpt : bool) (freq k : nat) (st : rvist) :=
    solve_gen rvist rvi_step r_iter ckpt freq rvi_finish k st.

  (* ---------------------------------------------------------------- periodic value iteration *)
  Record pvist := { p_vals : list Q; p_iter : nat; p_pol : option (list nat);
                    p_hist : option (list (list Q)); p_hidx : nat; p_period : nat }.
  Fixpoint ll_set (l : list (list Q)) (i : nat) (x : list Q) : list (list Q) :=
    match l, i with
    | [], _ => []
    | _ :: t, O => x :: t
    | h :: t, S i' => h :: ll_set t i' x
    end.
  (* buffer length, initial slot/index, index update, the indices and exponent of the two measures
     and the "not yet a full period" guard all come from the GENERATED file gen/GenPeriodic.v *)
  Definition zn (x : nat) : Z := Z.of_nat x.
  Definition pvi_init (period : nat) (V0 : list Q) : pvist :=
    {| p_vals := V0; p_iter := 0; p_pol := None;
       p_hist := Some (ll_set (repeat (repeat 0 (length V0)) (Z.to_nat (pv_buffer_len (zn period)))) (Z.to_nat pv_initial_slot) V0);
       p_hidx := Z.to_nat pv_initial_index; p_period := period |}.
  (* _calculate_period_span_with_discount *)
  Definition pvi_discounted_deltas (hist : list (list Q)) (hidx period iteration : nat) : nat -> Q :=
    fun s =>
      fold_left (fun acc p =>
        let curr := Z.to_nat (pv_disc_curr_index (zn hidx) (zn p) (zn period)) in
        let prev := Z.to_nat (pv_disc_prev_index (zn curr) (zn period)) in
        acc + (qnth (nth curr hist []) s - qnth (nth prev hist []) s)
              / (Qpower g (pv_disc_exponent (zn iteration) (zn p))))
        (seq 0 period) 0.
  Definition pvi_measure (new : list Q) (hist : list (list Q)) (hidx period iteration : nat) : option Q :=
    if pv_guard_inf (zn iteration) (zn period) then None
    else if Qeq_bool g 1 then
      Some (span_diff new (nth (Z.to_nat (pv_nodisc_prev_index (zn hidx) (zn period))) hist []))
    else
      Some (Qred (fspan (pvi_discounted_deltas hist hidx period iteration) (length new))).
  Definition pvi_incr (st : pvist) : pvist :=
    {| p_vals := p_vals st; p_iter := S (p_iter st); p_pol := p_pol st; p_hist := p_hist st; p_hidx := p_hidx st; p_period := p_period st |}.
  Definition pvi_sweep_step (st : pvist) : pvist * bool :=
    let it := p_iter st in
    let new := SW (p_vals st) in
    let hidx := Z.to_nat (pv_next_index (zn (p_hidx st)) (zn (p_period st))) in
    let hist := match p_hist st with Some h => ll_set h hidx new | None => [] end in
    let conv := pvi_measure new hist hidx (p_period st) it in
    ({| p_vals := new; p_iter := it; p_pol := p_pol st; p_hist := Some hist; p_hidx := hidx; p_period := p_period st |},
     match conv with None => false | Some c => Qltb c (pvi_threshold g eps) end).
  Definition pvi_step (st : pvist) : pvist * bool := pvi_sweep_step (pvi_incr st).
  Definition pvi_finish (clear : bool) (conv : bool) (st : pvist) : pvist :=
    {| p_vals := p_vals st; p_iter := p_iter st; p_pol := Some (POL (p_vals st));
       p_hist := if conv && clear then None else p_hist st; p_hidx := p_hidx st; p_period := p_period st |}.
  Definition pvi_solve (clear ckpt : bool) (freq k : nat) (st : pvist) :=
    solve_gen pvist pvi_step p_iter ckpt freq (pvi_finish clear) k st.

  (* ---------------------------------------------------------------- semi-asynchronous value iteration *)
  Section Savi.
    Variables (n mb d : Z) (zidx : nat) (pad_wins : bool) (padval : Q).
    Variable perm : nat -> option (list nat).   (* permutation used in sweep number i (0-based), None = fixed order *)
    Record savist := { s_vals : list Q; s_iter : nat; s_pol : option (list nat); s_sweeps : nat }.
    Definition savi_init (V0 : list Q) : savist := {| s_vals := V0; s_iter := 0; s_pol := None; s_sweeps := 0 |}.
    Definition savi_incr (st : savist) : savist :=
      {| s_vals := s_vals st; s_iter := S (s_iter st); s_pol := s_pol st; s_sweeps := s_sweeps st |}.
    Definition savi_sweep_step (t : ctest) (st : savist) : savist * bool :=
      let new := savi_sweep M n mb d zidx pad_wins padval (perm (s_sweeps st)) g (s_vals st) in
      ({| s_vals := new; s_iter := s_iter st; s_pol := s_pol st; s_sweeps := S (s_sweeps st) |},
       Qltb (measure t new (s_vals st)) (vi_threshold t g eps)).
    Definition savi_step (t : ctest) (st : savist) : savist * bool := savi_sweep_step t (savi_incr st).
    Definition savi_finish (_ : bool) (st : savist) : savist :=
      {| s_vals := s_vals st; s_iter := s_iter st; s_pol := Some (POL (s_vals st)); s_sweeps := s_sweeps st |}.
    Definition savi_solve (t : ctest) (ckpt : bool) (freq k : nat) (st : savist) :=
      solve_gen savist (savi_step t) s_iter ckpt freq savi_finish k st.
  End Savi.

  (* ---------------------------------------------------------------- policy iteration *)
  Record pist := { pi_vals : list Q; pi_pol : list nat; pi_iter : nat;
                   pi_last_eval_converged : bool (* ghost: did the last evaluation pass its test? *) }.
  (* _evaluate_policy: returns the PRE-update iterate when the test passes *)
  Fixpoint eval_loop (t : ctest) (k : nat) (P : list nat) (vals : list Q) : list Q * bool :=
    match k with
    | O => (vals, false)
    | S k' =>
        let new := EV P vals in
        if Qltb (measure t new vals) (vi_threshold t g eps) then (vals, true)
        else eval_loop t k' P new
    end.
  (* _initialize_solver_state_elements: policy from the problem, or greedy w.r.t. zero values *)
  Definition pi_init (init_policy : option (list nat)) (V0 : list Q) : pist :=
    {| pi_vals := V0;
       pi_pol := match init_policy with Some p => p | None => POL (repeat 0 (nS M)) end;
       pi_iter := 0; pi_last_eval_converged := false |}.
  Definition count_changed (a b : list nat) : nat :=
    length (filter (fun ab => negb (Nat.eqb (fst ab) (snd ab))) (combine a b)).
  Definition pi_incr (st : pist) : pist :=
    {| pi_vals := pi_vals st; pi_pol := pi_pol st; pi_iter := S (pi_iter st); pi_last_eval_converged := pi_last_eval_converged st |}.
  (* new_policy, n_changed = self._iteration_step(); self.policy = new_policy *)
  Definition pi_improve_step (t : ctest) (max_eval : nat) (reset : bool) (V0 : list Q) (st : pist) : pist * bool :=
    let start := if reset then V0 else pi_vals st in
    let '(vals, ok) := eval_loop t max_eval (pi_pol st) start in
    let newpol := POL vals in
    ({| pi_vals := vals; pi_pol := newpol; pi_iter := pi_iter st; pi_last_eval_converged := ok |},
     Nat.eqb (count_changed newpol (pi_pol st)) 0).
  Definition pi_step (t : ctest) (max_eval : nat) (reset : bool) (V0 : list Q) (st : pist) : pist * bool :=
    pi_improve_step t max_eval reset V0 (pi_incr st).
  Definition pi_finish (_ : bool) (st : pist) : pist := st.
  Definition pi_solve (t : ctest) (max_eval : nat) (reset : bool) (V0 : list Q) (ckpt : bool) (freq k : nat) (st : pist) :=
    solve_gen pist (pi_step t max_eval reset V0) pi_iter ckpt freq pi_finish k st.
End Solvers.

(* ------------------------------------------------------------------ instantiations *)
(* specification instance: layout-free *)
Definition S_vi_step M g eps := vi_step g eps (sweep M g).
Definition S_vi_solve M g eps := vi_solve g eps (sweep M g) (policy_of M g).
Definition S_rvi_solve M g eps := rvi_solve eps (sweep M g) (policy_of M g).
Definition S_pvi_solve M g eps := pvi_solve g eps (sweep M g) (policy_of M g).
Definition S_savi_solve M g eps := savi_solve M g eps (policy_of M g).
Definition S_pi_init M g := pi_init M (policy_of M g).
Definition S_pi_solve M g eps := pi_solve g eps (policy_of M g) (sweep_pi M g).
(* code-shaped instance: one layout (n_states, max_batch_size, devices), arbitrary padding content *)
Definition K_vi_solve M g eps n mb d padval padidx :=
  vi_solve g eps (kernel_sweep M n mb d padval g) (kernel_policy M n mb d padidx g).
Definition K_rvi_solve M g eps n mb d padval padidx :=
  rvi_solve eps (kernel_sweep M n mb d padval g) (kernel_policy M n mb d padidx g).
Definition K_pvi_solve M g eps n mb d padval padidx :=
  pvi_solve g eps (kernel_sweep M n mb d padval g) (kernel_policy M n mb d padidx g).
Definition K_pi_init M g n mb d padidx := pi_init M (kernel_policy M n mb d padidx g).
Definition K_pi_solve M g eps n mb d zidx padval padidx :=
  pi_solve g eps (kernel_policy M n mb d padidx g) (kernel_eval M n mb d zidx padval g).
