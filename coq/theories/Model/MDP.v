(* A finite MDP as the tabulation of a Problem through its public functions:
   nxt s a e = state_to_index(transition(S[s],A[a],E[e]).next_state),
   rew s a e = transition(...).reward,  prb s a e = random_event_probability(...). *)
From Coq Require Import QArith List Arith.
From MdpaxV Require Import Model.QFun.
Import ListNotations.
Open Scope Q_scope.

Record mdp := {
  nS : nat; nA : nat; nE : nat;
  nxt : nat -> nat -> nat -> nat;
  rew : nat -> nat -> nat -> Q;
  prb : nat -> nat -> nat -> Q
}.

Definition wf (M : mdp) : Prop :=
  (0 < nS M)%nat /\ (0 < nA M)%nat /\ (0 < nE M)%nat /\
  (forall s a e, (s < nS M)%nat -> (a < nA M)%nat -> (e < nE M)%nat ->
     (nxt M s a e < nS M)%nat /\ 0 <= prb M s a e) /\
  (forall s a, (s < nS M)%nat -> (a < nA M)%nat -> fsum (prb M s a) (nE M) == 1).

(* executable construction from nested tables [s][a][e] *)
Definition nth3n (t : list (list (list nat))) s a e : nat := nth e (nth a (nth s t []) []) 0%nat.
Definition nth3q (t : list (list (list Q))) s a e : Q := nth e (nth a (nth s t []) []) 0.
Definition of_tables (NXT : list (list (list nat))) (REW PRB : list (list (list Q))) : mdp :=
  {| nS := length NXT;
     nA := length (nth 0 NXT []);
     nE := length (nth 0 (nth 0 NXT []) []);
     nxt := nth3n NXT; rew := nth3q REW; prb := nth3q PRB |}.

(* executable well-formedness check (used by the harness on every generated case) *)
Definition wf_b (M : mdp) : bool :=
  (0 <? nS M)%nat && (0 <? nA M)%nat && (0 <? nE M)%nat &&
  forallb (fun s => forallb (fun a =>
     Qeq_bool (fsum (prb M s a) (nE M)) 1 &&
     forallb (fun e => (nxt M s a e <? nS M)%nat && Qle_bool 0 (prb M s a e)) (seq 0 (nE M)))
     (seq 0 (nA M))) (seq 0 (nS M)).
