(* The checkpoint store as the solvers use it (Orbax CheckpointManager contract, read from the
   installed source): save(step) is SKIPPED when latest_step >= step; otherwise the state
   snapshot is committed under that label and only the max_to_keep most recent steps are kept. *)
From Coq Require Import List Arith Bool.
Import ListNotations.

Section Store.
  Variable Snap : Type.
  Definition store := list (nat * Snap).       (* ascending labels *)

  Definition st_latest (d : store) : option nat :=
    match rev d with [] => None | e :: _ => Some (fst e) end.
  (* the m most recent entries *)
  Definition keep_last (m : nat) (d : store) : store := rev (firstn m (rev d)).
  Definition newer (l : option nat) (e : nat * Snap) : bool :=
    match l with None => true | Some k => Nat.ltb k (fst e) end.
  Definition st_save (m : nat) (d : store) (e : nat * Snap) : store :=
    if newer (st_latest d) e then keep_last m (d ++ [e]) else d.
  Definition st_apply (m : nat) (d : store) (events : list (nat * Snap)) : store := fold_left (st_save m) events d.

  (* the events that are not skipped, given the latest label so far *)
  Fixpoint accepted (l : option nat) (events : list (nat * Snap)) : list (nat * Snap) :=
    match events with
    | [] => []
    | e :: r => if newer l e then e :: accepted (Some (fst e)) r else accepted l r
    end.

  Definition st_restore (d : store) (step : option nat) : option (nat * Snap) :=
    match step with
    | Some k => find (fun e => Nat.eqb (fst e) k) d
    | None => match rev d with [] => None | e :: _ => Some e end
    end.
End Store.
