(* Executable comparators for the solver correspondence (C01-C09). *)
From Coq Require Import QArith List Arith Bool ZArith.
From MdpaxV Require Import Model.ListUtil Model.QFun Model.MDP Model.Bellman Model.Batching Model.Kernel Model.SemiAsync Model.Solvers.
Import ListNotations.

Fixpoint qlist_eqb (a b : list Q) : bool :=
  match a, b with
  | [], [] => true
  | x :: a', y :: b' => Qeq_bool x y && qlist_eqb a' b'
  | _, _ => false
  end.
Fixpoint natlist_eqb (a b : list nat) : bool :=
  match a, b with
  | [], [] => true
  | x :: a', y :: b' => Nat.eqb x y && natlist_eqb a' b'
  | _, _ => false
  end.
Definition onatlist_eqb (a b : option (list nat)) : bool :=
  match a, b with
  | None, None => true
  | Some x, Some y => natlist_eqb x y
  | _, _ => false
  end.
Fixpoint qll_eqb (a b : list (list Q)) : bool :=
  match a, b with
  | [], [] => true
  | x :: a', y :: b' => qlist_eqb x y && qll_eqb a' b'
  | _, _ => false
  end.
Definition oqll_eqb (a b : option (list (list Q))) : bool :=
  match a, b with
  | None, None => true
  | Some x, Some y => qll_eqb x y
  | _, _ => false
  end.

Fixpoint failing (i : nat) (l : list bool) : list nat :=
  match l with [] => [] | true :: t => failing (S i) t | false :: t => i :: failing (S i) t end.

(* observations of the implementation after a solve() call *)
Definition vi_obs_ok (st : vist) (vals : list Q) (it : nat) (pol : option (list nat)) : bool :=
  qlist_eqb (v_vals st) vals && Nat.eqb (v_iter st) it && onatlist_eqb (v_pol st) pol.
Definition rvi_obs_ok (st : rvist) (vals : list Q) (it : nat) (pol : option (list nat)) (gain : Q) : bool :=
  qlist_eqb (r_vals st) vals && Nat.eqb (r_iter st) it && onatlist_eqb (r_pol st) pol && Qeq_bool (r_gain st) gain.
Definition pvi_obs_ok (st : pvist) (vals : list Q) (it : nat) (pol : option (list nat))
           (hist : option (list (list Q))) (hidx : nat) : bool :=
  qlist_eqb (p_vals st) vals && Nat.eqb (p_iter st) it && onatlist_eqb (p_pol st) pol &&
  oqll_eqb (p_hist st) hist && Nat.eqb (p_hidx st) hidx.
Definition savi_obs_ok (st : savist) (vals : list Q) (it : nat) (pol : option (list nat)) : bool :=
  qlist_eqb (s_vals st) vals && Nat.eqb (s_iter st) it && onatlist_eqb (s_pol st) pol.
Definition pi_obs_ok (st : pist) (vals : list Q) (it : nat) (pol : list nat) : bool :=
  qlist_eqb (pi_vals st) vals && Nat.eqb (pi_iter st) it && natlist_eqb (pi_pol st) pol.
