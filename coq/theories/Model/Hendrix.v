(* Model of HendrixTwoProductPerishable's event probabilities (units issued of A and of B), function level.
   pa, pb : demand pmfs of the two products (oracles: scipy / jax.scipy Poisson tables);
   bin u x : Binomial(u; x, substitution_probability) (oracle);  D = max_demand = m * (max(Qa, Qb) + 2);
   sa, sb : total stock of A and of B in the state.  Transliterates _calculate_pu, _calculate_pz and the four
   _get_probs_* cases. *)
From Coq Require Import QArith Qreduction List Arith Bool.
From MdpaxV Require Import Model.QFun.
Import ListNotations.
Open Scope Q_scope.

Section Hendrix.
  Variables (pa pb : nat -> Q) (bin : nat -> nat -> Q).
  Variable D : nat.

  (* pu[u, y]: substitution demand u given y units of B in stock, B's demand >= y;
     x = excess demand for B ranges over u .. D-y-1 (the truncation)
  (Qred: the tables are stored in lowest terms - keeps the evaluation inside the kernel small; Qred q == q) *)
  Definition hx_pu (y u : nat) : Q :=
    Qred (fsum (fun x => if Nat.leb u x then pb (x + y)%nat * bin u x else 0) (D - y)).

  (* pz[z, y]: total demand z for A (own demand k <= z plus substitution z - k) *)
  Definition hx_pz (y z : nat) : Q := Qred (fsum (fun k => pa k * hx_pu y (z - k)) (S z)).

  Definition ind (b : bool) (x : Q) : Q := if b then x else 0.

  (* probability of the event (ia, ib) in a state with total stocks (sa, sb) *)
  Definition hx_prob (sa sb ia ib : nat) : Q :=
    ind (Nat.ltb ia sa && Nat.ltb ib sb) (pa ia * pb ib)
    + ind (Nat.eqb ia sa && Nat.ltb ib sb) ((1 - fsum pa sa) * pb ib)
    + ind (Nat.ltb ia sa && Nat.eqb ib sb) (hx_pz sb ia)
    + ind (Nat.eqb ia sa && Nat.eqb ib sb) (Qred (fsum (fun z => ind (Nat.leb sa z) (hx_pz sb z)) (S D))).

  (* total mass over the event space [0..A] x [0..B] *)
  Definition hx_total (A B sa sb : nat) : Q :=
    fsum (fun ia => fsum (fun ib => hx_prob sa sb ia ib) (S B)) (S A).
End Hendrix.
