(* Specification of the semi-asynchronous sweep: block Gauss-Seidel over a partition
   devices x batches x states.  Function level (nat -> Q); executable. *)
From Coq Require Import QArith List Arith Bool.
From MdpaxV Require Import Model.QFun Model.MDP Model.Bellman.
Import ListNotations.

Definition memb (s : nat) (b : list nat) : bool := existsb (Nat.eqb s) b.

Section GS.
  Variable M : mdp.
  Variable g : Q.

  (* update one batch: its states get the Bellman backup of the CURRENT vector, simultaneously *)
  Definition gs_batch (b : list nat) (cur : nat -> Q) : nat -> Q :=
    fun s => if memb s b then T M g cur s else cur s.

  (* one device: batches in order, each seeing the updates of the earlier ones *)
  Fixpoint gs_device (bs : list (list nat)) (cur : nat -> Q) : nat -> Q :=
    match bs with
    | [] => cur
    | b :: rest => gs_device rest (gs_batch b cur)
    end.

  Definition in_device (s : nat) (dev : list (list nat)) : bool := existsb (memb s) dev.

  (* all devices start from the same vector; a state's new value is the one its own device computed *)
  Definition gs_op (parts : list (list (list nat))) (v : nat -> Q) : nat -> Q :=
    fun s => match find (in_device s) parts with
             | Some dev => gs_device dev v s
             | None => v s
             end.

  Definition covers (parts : list (list (list nat))) (n : nat) : Prop :=
    forall s, (s < n)%nat -> exists dev, find (in_device s) parts = Some dev.
End GS.
