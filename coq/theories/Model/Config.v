(* Construction routes and the precision state machine of Solver.__init__ (core/solver.py).
   The four facts about the source are GENERATED (gen/GenRoutes.v). *)
From Coq Require Import Bool List.
From MdpaxGen Require Import GenRoutes.
Import ListNotations.

Inductive route := RKwargsWithInstance | RConfigOnly | RYamlReload.
Inductive construct_result (C : Type) := Built (cfg : C) | Raises.
Arguments Built {C} _.
Arguments Raises {C}.

(* what each route needs from the code, and what configuration it ends with *)
Definition construct {C : Type} (r : route) (cfg : C) : construct_result C :=
  match r with
  | RKwargsWithInstance => Built cfg
  | RConfigOnly =>
      (* instantiate(self.config.problem) must resolve, and nothing may dereference the (None) problem argument *)
      if solver_instantiate_bound && negb setup_dereferences_problem_argument_after_branch then Built cfg else Raises
  | RYamlReload => Built cfg                  (* OmegaConf round trip: identity modulo tuple/list (validated by execution) *)
  end.

(* precision: which dtype the returned values have *)
Inductive dtype := F32 | F64.
Inductive order := ProblemFirst | SolverFirst.   (* was 64-bit mode already on when the problem's tables were created? *)
Definition problem_tables (o : order) : dtype := match o with ProblemFirst => F32 | SolverFirst => F64 end.
Definition promote (a b : dtype) : dtype := match a, b with F64, _ | _, F64 => F64 | _, _ => F32 end.
(* initial values: weakly typed scalars take the dtype of whatever they meet first unless cast *)
Definition values_dtype (double : bool) (o : order) : dtype :=
  if double then
    (if initial_values_cast_to_requested_precision then F64
     else promote (problem_tables o) (if x64_enabled_before_gamma_array then F64 else problem_tables o))
  else F32.
