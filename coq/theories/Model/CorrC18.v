(* Executable comparators used by the correspondence harness for C18. *)
From Coq Require Import List ZArith Bool.
From MdpaxV Require Import Model.ListUtil Model.Batching.
From MdpaxGen Require Import GenBatch.
Import ListNotations.
Open Scope Z_scope.

Fixpoint zlist_eqb (a b : list Z) : bool :=
  match a, b with
  | [], [] => true
  | x :: a', y :: b' => (x =? y) && zlist_eqb a' b'
  | _, _ => false
  end.

(* ((n, mb, d), (batch_size, n_batches, n_pad, n_devices)) as reported by BatchProcessor *)
Definition c18_attr_ok (c : (Z * Z * Z) * (Z * Z * Z * Z)) : bool :=
  let '((n, mb, d), (bs, nb, pad, dev)) := c in
  (bp_batch_size n mb d =? bs) && (bp_n_batches n mb d =? nb) &&
  (bp_n_pad n mb d =? pad) && (bp_n_devices n mb d =? dev).

(* ((n, mb, d), shape of prepared, flattened prepared ids, unbatched ids):
   states are 1..n, padding rows are 0 *)
Definition c18_array_ok (c : (Z * Z * Z) * list Z * list Z * list Z) : bool :=
  let '((n, mb, d), shape, flat, unb) := c in
  let xs := zrange 1 (n + 1) in
  let p := prepare n mb d 0 xs in
  zlist_eqb shape [d; L_nb n mb d; L_bs n mb d] &&
  zlist_eqb (flatten3 p) flat &&
  zlist_eqb (unbatch n mb d p) unb.
