(* Array operations on policies (one action VECTOR per state) that the generated policy-iteration step is expressed in. *)
From Coq Require Import ZArith List Bool.
From MdpaxV Require Import Model.ListUtil.
Import ListNotations.

Definition mat_ne (a b : list (list Z)) : list (list bool) := map2 (map2 (fun x y => negb (Z.eqb x y))) a b.   (* a != b *)
Definition any_axis1 (m : list (list bool)) : list bool := map (existsb (fun x => x)) m.                        (* jnp.any(m, axis=1) *)
Definition all_axis1 (m : list (list bool)) : list bool := map (forallb (fun x => x)) m.                        (* jnp.all(m, axis=1) *)
Definition bsum (l : list bool) : nat := length (filter (fun x => x) l).                                         (* .sum() of booleans *)
