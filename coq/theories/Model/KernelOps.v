(* Array operations that the GENERATED kernels (gen/GenKernel.v, translated from ValueIteration's methods) are
   expressed in, and the problem interface they call.  Exact arithmetic; the dot product is stored in lowest terms. *)
From Coq Require Import QArith Qabs Qminmax Qreduction List Arith.
From MdpaxV Require Import Model.ListUtil Model.QFun Model.MDP Model.Kernel.
Import ListNotations.
Open Scope Q_scope.

(* self.problem.* as seen by the solver: states, actions and events are row indices of their spaces *)
Record prims := {
  p_transition : nat -> nat -> nat -> nat * Q;            (* (state, action, event) -> (next state, reward) *)
  p_random_event_probability : nat -> nat -> nat -> Q;
  p_state_to_index : nat -> nat }.

Definition prims_of (M : mdp) : prims :=
  {| p_transition := fun s a e => (nxt M s a e, rew M s a e);
     p_random_event_probability := prb M;
     p_state_to_index := fun s => s |}.

Definition qvadd (a b : list Q) : list Q := map2 Qplus a b.        (* a + b, equal shapes *)
Definition qvsub (a b : list Q) : list Q := map2 Qminus a b.       (* a - b *)
Definition qsmul (c : Q) (a : list Q) : list Q := map (Qmult c) a. (* scalar * array *)
Definition qvdot (a b : list Q) : Q := Qred (qdot a b).            (* a.dot(b) *)
Definition qvabs (a : list Q) : list Q := map Qabs a.              (* jnp.abs *)
Definition lmin (l : list Q) : Q := match l with [] => 0 | x :: t => fold_left Qmin t x end.   (* jnp.min *)

(* jax.lax.scan(f, carry, xs) = (final carry, stacked outputs) *)
Fixpoint gscan {C X Y} (f : C -> X -> C * Y) (c : C) (xs : list X) : C * list Y :=
  match xs with
  | [] => (c, [])
  | x :: t => let '(c', y) := f c x in let '(cf, ys) := gscan f c' t in (cf, y :: ys)
  end.
