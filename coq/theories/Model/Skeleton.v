(* A tiny language for the event order of a solve() method, and its interpreter.
   gen/GenLoops.v (translated from the five solve() methods on every run) contains one
   `skel` per solver. *)
From Coq Require Import List Arith Bool.
Import ListNotations.

Inductive thrname := TConvThreshold | TEpsilon.      (* self.conv_threshold / self.epsilon *)
Inductive cond :=
| CConvLt (t : thrname)        (* conv < thr *)
| CConvGe (t : thrname)        (* conv >= thr *)
| CNoChange                    (* n_changed == 0 *)
| CChanged                     (* n_changed > 0 *)
| CCkpt                        (* self.is_checkpointing_enabled *)
| CCkptIterModFreq.            (* self.is_checkpointing_enabled and self.iteration % self.checkpoint_frequency == 0 *)
Inductive stmt :=
| SIncrIter                    (* self.iteration += 1 *)
| SStepAssign                  (* x, conv = self._iteration_step(); self.<field> = x *)
| SBreakIf (c : cond)
| SSaveIf (c : cond)           (* if c: self.save(self.iteration) *)
| SExtractPolicy               (* self.policy = self._extract_policy() *)
| SClearHistoryIf (c : cond).  (* if c: self._clear_value_history() *)
Record skel := { sk_body : list stmt; sk_post : list stmt }.

Section Interp.
  Variable St : Type.
  Variable incr : St -> St.
  Variable stepf : St -> St * bool.     (* (state after step+assign, did the convergence test pass) *)
  Variable iter_of : St -> nat.
  Variable extract : St -> St.
  Variable clear : St -> St.
  Variables (ckpt : bool) (freq : nat).

  Definition eval_cond (c : cond) (st : St) (passed : bool) : bool :=
    match c with
    | CConvLt _ => passed
    | CConvGe _ => negb passed
    | CNoChange => passed
    | CChanged => negb passed
    | CCkpt => ckpt
    | CCkptIterModFreq => ckpt && Nat.eqb (iter_of st mod freq) 0
    end.

  Fixpoint run_stmts (l : list stmt) (st : St) (passed : bool) (saves : list (nat * St))
    : St * bool * list (nat * St) * bool (* broke out of the loop? *) :=
    match l with
    | [] => (st, passed, saves, false)
    | SIncrIter :: r => run_stmts r (incr st) passed saves
    | SStepAssign :: r => let '(st', b) := stepf st in run_stmts r st' b saves
    | SBreakIf c :: r => if eval_cond c st passed then (st, passed, saves, true) else run_stmts r st passed saves
    | SSaveIf c :: r => run_stmts r st passed (if eval_cond c st passed then saves ++ [(iter_of st, st)] else saves)
    | SExtractPolicy :: r => run_stmts r (extract st) passed saves
    | SClearHistoryIf c :: r => run_stmts r (if eval_cond c st passed then clear st else st) passed saves
    end.

  Fixpoint run_loop (body : list stmt) (k : nat) (st : St) (passed : bool) (saves : list (nat * St))
    : St * bool * list (nat * St) :=
    match k with
    | O => (st, passed, saves)
    | S k' => let '(st', p', sv', broke) := run_stmts body st passed saves in
              if broke then (st', p', sv') else run_loop body k' st' p' sv'
    end.

  (* solve(max_iterations = k) *)
  Definition run_skel (sk : skel) (k : nat) (st : St) : St * bool * list (nat * St) :=
    let '(st1, p1, sv1) := run_loop (sk_body sk) k st false [] in
    let '(st2, p2, sv2, _) := run_stmts (sk_post sk) st1 p1 sv1 in
    (st2, p2, sv2).
End Interp.

(* the shapes the theorems are proved for *)
Definition canon_body (t : thrname) : list stmt :=
  [SIncrIter; SStepAssign; SBreakIf (CConvLt t); SSaveIf CCkptIterModFreq].
Definition canon_vi (t : thrname) : skel :=
  {| sk_body := canon_body t; sk_post := [SSaveIf CCkpt; SExtractPolicy] |}.
Definition canon_pvi : skel :=
  {| sk_body := canon_body TConvThreshold; sk_post := [SSaveIf CCkpt; SExtractPolicy; SClearHistoryIf (CConvLt TConvThreshold)] |}.
Definition canon_pi : skel :=
  {| sk_body := [SIncrIter; SStepAssign; SBreakIf CNoChange; SSaveIf CCkptIterModFreq]; sk_post := [SSaveIf CCkpt] |}.
