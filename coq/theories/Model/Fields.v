(* Which runtime fields one iteration of each solver READS (hand-declared from the step functions of
   Model/Solvers.v; the saved / restored lists are GENERATED from the source: gen/GenFields.v). *)
From Coq Require Import List Bool.
From MdpaxGen Require Import GenFields.
Import ListNotations.

Definition field_eqb (a b : field) : bool :=
  match a, b with
  | FValues, FValues | FPolicy, FPolicy | FIteration, FIteration | FGain, FGain | FValueHistory, FValueHistory
  | FHistoryIndex, FHistoryIndex | FPeriod, FPeriod | FBatchOrder, FBatchOrder | FKey, FKey => true
  | _, _ => false
  end.
Definition subset (a b : list field) : bool := forallb (fun x => existsb (field_eqb x) b) a.

Definition vi_reads : list field := [FValues; FIteration].
Definition pi_reads : list field := [FValues; FPolicy; FIteration].
Definition rvi_reads : list field := [FValues; FIteration; FGain].
Definition pvi_reads : list field := [FValues; FIteration; FValueHistory; FHistoryIndex; FPeriod].
Definition savi_fixed_reads : list field := [FValues; FIteration; FBatchOrder].
Definition savi_shuffled_reads : list field := [FValues; FIteration; FBatchOrder; FKey].
