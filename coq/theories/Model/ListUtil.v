(* Generic list helpers used by the executable model. No proofs here. *)
From Coq Require Import List Arith ZArith.
Import ListNotations.

Fixpoint chunks {T} (k count : nat) (l : list T) : list (list T) :=
  match count with
  | O => []
  | S c => firstn k l :: chunks k c (skipn k l)
  end.

(* numpy reshape of a flat row-major list into d x nb x bs *)
Definition reshape3 {T} (d nb bs : nat) (l : list T) : list (list (list T)) :=
  map (chunks bs nb) (chunks (nb * bs) d l).

Definition flatten3 {T} (r : list (list (list T))) : list T := concat (concat r).

Definition map3 {A B} (f : A -> B) (r : list (list (list A))) : list (list (list B)) :=
  map (map (map f)) r.

Definition nth3 {T} (r : list (list (list T))) (i j k : nat) (dflt : T) : T :=
  nth k (nth j (nth i r []) []) dflt.

Fixpoint zrange_from (lo : Z) (len : nat) : list Z :=
  match len with O => [] | S n => lo :: zrange_from (lo + 1)%Z n end.
(* numpy arange(lo, hi) *)
Definition zrange (lo hi : Z) : list Z := zrange_from lo (Z.to_nat (hi - lo)).

(* itertools.product over the ranges: row-major, last factor fastest *)
Fixpoint cart (ranges : list (list Z)) : list (list Z) :=
  match ranges with
  | [] => [[]]
  | r :: rest => flat_map (fun x => map (cons x) (cart rest)) r
  end.

Fixpoint map2 {A B C} (f : A -> B -> C) (l1 : list A) (l2 : list B) : list C :=
  match l1, l2 with
  | a :: t1, b :: t2 => f a b :: map2 f t1 t2
  | _, _ => []
  end.

(* pointwise integer-array helpers (numpy broadcasting over equal-length vectors) *)
Definition vadd (a b : list Z) : list Z := map2 Z.add a b.
Definition vsub (a b : list Z) : list Z := map2 Z.sub a b.
Definition vaddc (a : list Z) (c : Z) : list Z := map (fun x => (x + c)%Z) a.
Definition vsubc (a : list Z) (c : Z) : list Z := map (fun x => (x - c)%Z) a.
