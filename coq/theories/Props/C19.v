(* C19 -- Range spaces enumerate the integer box and the index function inverts them.
   Statements only.  range_space / index_fn are built from the definitions GENERATED
   from src/mdpax/utils/spaces.py; in_box / rank / nearest / box_dims are the
   hand-written specification vocabulary of Model/Spaces.v. *)
From Coq Require Import List Arith ZArith Bool.
From MdpaxV Require Import Model.ListUtil Model.Spaces Proofs.C19P.
From MdpaxGen Require Import GenSpaces.
Import ListNotations.
Open Scope Z_scope.

(* size = product of (max - min + 1) *)
Theorem range_space_length : forall mins maxs, Forall2 Z.le mins maxs ->
  Z.of_nat (length (range_space mins maxs)) = zprod (rs_dimensions mins maxs).
Proof. exact space_length. Qed.
Print Assumptions range_space_length.

(* every vector of the box is listed, at its row-major rank *)
Theorem range_space_complete_row_major : forall mins maxs v, Forall2 Z.le mins maxs -> in_box v mins maxs ->
  nth_error (range_space mins maxs) (Z.to_nat (rank v mins (box_dims mins maxs))) = Some v.
Proof. exact space_complete_row_major. Qed.
Print Assumptions range_space_complete_row_major.

(* nothing outside the box is listed *)
Theorem range_space_sound : forall mins maxs v, Forall2 Z.le mins maxs ->
  In v (range_space mins maxs) -> in_box v mins maxs.
Proof. exact space_in_box. Qed.
Print Assumptions range_space_sound.

(* exactly once *)
Theorem range_space_nodup : forall mins maxs, Forall2 Z.le mins maxs -> NoDup (range_space mins maxs).
Proof. exact space_nodup. Qed.
Print Assumptions range_space_nodup.

(* the index function maps each listed vector to its own row number *)
Theorem index_inverse : forall mins maxs, Forall2 Z.le mins maxs -> forall i,
  (i < length (range_space mins maxs))%nat ->
  exists v, nth_error (range_space mins maxs) i = Some v /\ index_fn mins maxs v = Z.of_nat i.
Proof. exact index_inverse_lemma. Qed.
Print Assumptions index_inverse.

(* any vector of the right dimension is mapped to the row of the coordinate-wise nearest box point *)
Theorem index_total_nearest : forall mins maxs v, Forall2 Z.le mins maxs -> length v = length mins ->
  index_fn mins maxs v = index_fn mins maxs (nearest v mins maxs) /\
  nth_error (range_space mins maxs) (Z.to_nat (index_fn mins maxs v)) = Some (nearest v mins maxs).
Proof. exact index_total_nearest_lemma. Qed.
Print Assumptions index_total_nearest.

(* non-vacuity: negative lower bound, zero-width dimension *)
Example c19_example :
  Forall2 Z.le [1; -1; 4] [2; 1; 4] /\
  range_space [1; -1; 4] [2; 1; 4] = [[1;-1;4]; [1;0;4]; [1;1;4]; [2;-1;4]; [2;0;4]; [2;1;4]] /\
  map (index_fn [1; -1; 4] [2; 1; 4]) (range_space [1; -1; 4] [2; 1; 4]) = [0; 1; 2; 3; 4; 5] /\
  index_fn [1; -1; 4] [2; 1; 4] [7; -5; 0] = 3.
Proof. repeat split; try reflexivity. repeat constructor; discriminate. Qed.
