(* C02 -- One sweep is the exact Bellman optimality backup; the policy is greedy. *)
From Coq Require Import QArith Qabs List Arith ZArith.
From MdpaxV Require Import Model.ListUtil Model.QFun Model.MDP Model.Bellman Model.Batching Model.Kernel Model.KernelOps Proofs.C02P Proofs.GenKernelP.
From MdpaxGen Require Import GenKernel.
Import ListNotations.
Open Scope Q_scope.

(* THE TIE BY TRANSLATION: gen/GenKernel.v is regenerated from ValueIteration's methods on every run (vmap -> map, tuple-valued
   vmaps split, lax.scan -> gscan, positional calls type-checked).  Instantiated with the problem interface of an mdp
   it IS the hand-written kernel of Model/Kernel.v, function by function - so every theorem below and in C01/C03/C05/C06
   about k_* / kernel_sweep is a theorem about what the source says now. *)
Theorem generated_kernels_are_the_modelled_kernels : forall (M : mdp),
  (forall st a events g V, gen_calculate_updated_state_action_value (prims_of M) st a events g V = k_state_action_value M st a events g V) /\
  (forall st actions events g V, gen_calculate_updated_value (prims_of M) st actions events g V = k_updated_value M st actions events g V) /\
  (forall st actions events g V, gen_extract_policy_idx_one_state (prims_of M) st actions events g V = k_policy_idx M st actions events g V) /\
  (forall padval c batch, gen_calculate_updated_value_state_batch (prims_of M) c batch = k_value_state_batch M padval c (map Some batch)) /\
  (forall padidx c batch, gen_extract_policy_idx_state_batch (prims_of M) c batch = k_policy_state_batch M padidx c (map Some batch)) /\
  (forall padval batches c, gen_calculate_updated_value_scan_state_batches (prims_of M) c batches = k_scan (k_value_state_batch M padval) c (map (map Some) batches)) /\
  (forall padidx batches c, gen_extract_policy_idx_scan_state_batches (prims_of M) c batches = k_scan (k_policy_state_batch M padidx) c (map (map Some) batches)).
Proof.
  exact (fun M => conj (gen_state_action_value_eq M) (conj (gen_updated_value_eq M) (conj (gen_policy_idx_eq M)
    (conj (gen_value_state_batch_eq M) (conj (gen_policy_state_batch_eq M) (conj (gen_value_scan_eq M) (gen_policy_scan_eq M))))))).
Qed.
Print Assumptions generated_kernels_are_the_modelled_kernels.

(* in particular the generated one-state update over the whole action and event spaces is the Bellman optimality backup *)
Theorem generated_update_is_bellman_backup : forall (M : mdp) st g V, (0 < nA M)%nat ->
  gen_calculate_updated_value (prims_of M) st (seq 0 (nA M)) (seq 0 (nE M)) g V = backup M g V st.
Proof. exact gen_updated_value_is_backup. Qed.
Print Assumptions generated_update_is_bellman_backup.

(* the code-shaped computation (devices x batches x slots, padded last batch, carry tuple)
   equals the specification sweep, for EVERY layout, value vector and gamma *)
Theorem kernel_sweep_eq_spec : forall (M : mdp) (g : Q) (V : list Q) (n mb d : Z),
  n = Z.of_nat (nS M) -> (0 < nS M)%nat -> (0 < nA M)%nat -> (1 <= mb)%Z -> (1 <= d)%Z ->
  forall padval, Forall2 Qeq (kernel_sweep M n mb d padval g V) (sweep M g V).
Proof. exact kernel_sweep_spec. Qed.
Print Assumptions kernel_sweep_eq_spec.

(* ... and the specification sweep is max_a sum_e prb * (rew + g * V[nxt]) at every state *)
Theorem sweep_is_bellman_backup : forall (M : mdp) (g : Q) (V : list Q) s, (s < nS M)%nat ->
  qnth (sweep M g V) s ==
  fmax (fun a => fsum (fun e => prb M s a e * (rew M s a e + g * qnth V (nxt M s a e))) (nE M)) (nA M).
Proof. exact sweep_spec. Qed.
Print Assumptions sweep_is_bellman_backup.

Theorem kernel_policy_eq_spec : forall (M : mdp) (g : Q) (V : list Q) (n mb d : Z),
  n = Z.of_nat (nS M) -> (0 < nS M)%nat -> (0 < nA M)%nat -> (1 <= mb)%Z -> (1 <= d)%Z ->
  forall padidx, kernel_policy M n mb d padidx g V = policy_of M g V.
Proof. exact kernel_policy_spec. Qed.
Print Assumptions kernel_policy_eq_spec.

(* the extracted action is in range, attains the maximum, and is the first maximiser *)
Theorem policy_is_greedy : forall (M : mdp) (g : Q), wf M -> forall V s, (s < nS M)%nat ->
  (nth s (policy_of M g V) 0 < nA M)%nat /\
  Qsa M g (qnth V) s (nth s (policy_of M g V) 0%nat) == T M g (qnth V) s /\
  (forall a, (a < nth s (policy_of M g V) 0)%nat -> Qsa M g (qnth V) s a < T M g (qnth V) s).
Proof. exact policy_greedy_l. Qed.
Print Assumptions policy_is_greedy.

Theorem sweep_monotone : forall (M : mdp) (g : Q), wf M -> 0 <= g -> forall U V,
  (forall s, (s < nS M)%nat -> qnth U s <= qnth V s) ->
  forall s, (s < nS M)%nat -> qnth (sweep M g U) s <= qnth (sweep M g V) s.
Proof. exact sweep_monotone_l. Qed.
Print Assumptions sweep_monotone.

Theorem sweep_contraction : forall (M : mdp) (g : Q), wf M -> 0 <= g -> forall U V d,
  (forall s, (s < nS M)%nat -> Qabs (qnth U s - qnth V s) <= d) ->
  forall s, (s < nS M)%nat -> Qabs (qnth (sweep M g U) s - qnth (sweep M g V) s) <= g * d.
Proof. exact sweep_contraction_l. Qed.
Print Assumptions sweep_contraction.

Theorem sweep_shift : forall (M : mdp) (g : Q), wf M -> 0 <= g -> forall V c, length V = nS M ->
  forall s, (s < nS M)%nat -> qnth (sweep M g (map (fun x => x + c) V)) s == qnth (sweep M g V) s + g * c.
Proof. exact sweep_shift_l. Qed.
Print Assumptions sweep_shift.

(* non-vacuity: a concrete well-formed 2-state, 2-action, 2-event MDP, 3 states would not fit one batch of 2 *)
Definition ex_M : mdp := of_tables
  [[[0;1];[1;1]]; [[0;0];[1;0]]; [[2;0];[2;1]]]%nat
  [[[1;2];[0;3]]; [[-1;4];[2;2]]; [[0;0];[5;-5]]]
  [[[1#2;1#2];[1#4;3#4]]; [[1;0];[1#8;7#8]]; [[1#2;1#2];[3#8;5#8]]].
Example ex_wf : wf_b ex_M = true /\
  sweep ex_M (1#2) [4; -2; 0] = [2; 29#8; 1] /\
  kernel_sweep ex_M 3 2 1 (7#1) (1#2) [4; -2; 0] = [2; 29#8; 1] /\
  policy_of ex_M (1#2) [4; -2; 0] = [0; 1; 0]%nat /\
  kernel_policy ex_M 3 2 1 5%nat (1#2) [4; -2; 0] = [0; 1; 0]%nat.
Proof. vm_compute. repeat split; reflexivity. Qed.
