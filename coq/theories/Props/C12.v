(* C12 -- Checkpoint cadence and retention follow frequency and max_checkpoints. *)
From Coq Require Import List Arith Bool Sorted.
From MdpaxV Require Import Model.Store Model.Solvers Proofs.LoopP Proofs.StoreP Proofs.C12P.
Import ListNotations.

(* the save calls of one solve(k): the periodic ones, then the final one *)
Theorem save_calls_of_solve : forall (St : Type) step iter_of ckpt freq finish k (st : St),
  snd (solve_gen St step iter_of ckpt freq finish k st) =
  run_events St step iter_of ckpt freq k st ++
  (if ckpt then [(iter_of (fst (fst (loop St step iter_of ckpt freq k st []))), fst (fst (loop St step iter_of ckpt freq k st [])))] else []).
Proof. exact solve_gen_saves. Qed.
Print Assumptions save_calls_of_solve.

(* periodic saves = exactly the iterations that are multiples of f reached WITHOUT having converged,
   each holding the solver state of that iteration *)
Theorem periodic_saves_spec : forall (St : Type) step iter_of ckpt freq k (st : St) l s,
  In (l, s) (run_events St step iter_of ckpt freq k st) <->
  ckpt = true /\ exists i, (1 <= i <= k)%nat /\ s = steps St step i st /\ l = iter_of s /\ (l mod freq = 0)%nat /\
    forall i', (i' < i)%nat -> snd (step (steps St step i' st)) = false.
Proof. exact run_events_in. Qed.
Print Assumptions periodic_saves_spec.

Theorem periodic_saves_increasing : forall (St : Type) step iter_of ckpt freq,
  (forall st, iter_of (fst (step st)) = S (iter_of st)) -> forall k (st : St),
  StronglySorted lt (map fst (run_events St step iter_of ckpt freq k st)) /\
  Forall (fun l => iter_of st < l) (map fst (run_events St step iter_of ckpt freq k st)).
Proof. exact run_events_sorted. Qed.
Print Assumptions periodic_saves_increasing.

(* with frequency 0 (checkpointing disabled) no save is ever attempted *)
Theorem freq_zero_no_effects : forall (St : Type) step iter_of ckpt freq finish k (st : St),
  ckpt = false -> snd (solve_gen St step iter_of ckpt freq finish k st) = [].
Proof. exact no_checkpointing_no_saves. Qed.
Print Assumptions freq_zero_no_effects.

(* the directory after any sequence of save calls: the m most recent of (old content ++ accepted saves);
   a save is accepted iff its label is newer than everything before it *)
Theorem retained_is_last_m_accepted : forall (Snap : Type) m events, (1 <= m)%nat -> forall d : store Snap, (length d <= m)%nat ->
  st_apply Snap m d events = keep_last Snap m (d ++ accepted Snap (st_latest Snap d) events).
Proof. exact st_apply_spec. Qed.
Print Assumptions retained_is_last_m_accepted.

Theorem retained_at_most_m : forall (Snap : Type) m events (d : store Snap), (length d <= m)%nat ->
  (length (st_apply Snap m d events) <= m)%nat.
Proof. exact st_apply_length. Qed.
Print Assumptions retained_at_most_m.

Theorem increasing_saves_all_accepted : forall (Snap : Type) (evs : list (nat * Snap)) l,
  StronglySorted lt (map fst evs) -> Forall (fun k => label_newer l k = true) (map fst evs) ->
  accepted Snap l evs = evs.
Proof. exact accepted_all. Qed.
Print Assumptions increasing_saves_all_accepted.

Theorem last_save_always_retained : forall (Snap : Type) m (d : store Snap) evs e, (1 <= m)%nat ->
  newer Snap (st_latest Snap (st_apply Snap m d evs)) e = true ->
  st_restore Snap (st_apply Snap m d (evs ++ [e])) None = Some e.
Proof. exact st_restore_latest_after. Qed.
Print Assumptions last_save_always_retained.

(* non-vacuity: labels 2,4,5 (final 5), then a second call 6,8,8(dup): m = 2 keeps [6;8] *)
Example c12_example :
  map fst (st_apply nat 2 [] [(2,0);(4,0);(5,0);(6,0);(8,0);(8,1)]%nat) = [6;8]%nat /\
  st_restore nat (st_apply nat 2 [] [(2,0);(4,0);(5,0);(6,0);(8,0);(8,1)]%nat) None = Some (8,0)%nat.
Proof. vm_compute. split; reflexivity. Qed.

(* ---------- ties by translation (re-stated here so that THIS property's obligations break when the source they speak about
   changes shape): gen/GenLoops.v is regenerated from $VERIF_REPO/src on every run *)
From Coq Require Import QArith.
From MdpaxV Require Import Model.Skeleton Proofs.SkeletonP.
From MdpaxGen Require Import GenLoops.

(* each solve() whose result this property speaks about = the interpretation of the skeleton translated from ITS source
   (one step per pass, the stopping test, the periodic and the final save, the policy extraction) *)
Theorem c12_vi_solve_follows_source : forall g eps SW POL t ckpt freq k st,
  vi_solve g eps SW POL t ckpt freq k st =
  run_skel vist vi_incr (vi_sweep_step g eps SW t) v_iter (vi_finish POL true) (fun s => s) ckpt freq vi_skel k st.
Proof. exact vi_solve_is_skeleton. Qed.
Print Assumptions c12_vi_solve_follows_source.
Theorem c12_rvi_solve_follows_source : forall eps SW POL ckpt freq k st,
  rvi_solve eps SW POL ckpt freq k st =
  run_skel rvist rvi_incr (rvi_sweep_step eps SW) r_iter (rvi_finish POL true) (fun s => s) ckpt freq rvi_skel k st.
Proof. exact rvi_solve_is_skeleton. Qed.
Print Assumptions c12_rvi_solve_follows_source.
Theorem c12_pvi_solve_follows_source : forall g eps SW POL clearflag ckpt freq k st,
  pvi_solve g eps SW POL clearflag ckpt freq k st =
  run_skel pvist pvi_incr (pvi_sweep_step g eps SW) p_iter (pvi_finish POL false false)
           (fun s => if clearflag then pvi_clear s else s) ckpt freq pvi_skel k st.
Proof. exact pvi_solve_is_skeleton. Qed.
Print Assumptions c12_pvi_solve_follows_source.
Theorem c12_savi_solve_follows_source : forall M g eps POL n mb d zidx pw pv perm t ckpt freq k st,
  savi_solve M g eps POL n mb d zidx pw pv perm t ckpt freq k st =
  run_skel savist savi_incr (savi_sweep_step M g eps n mb d zidx pw pv perm t) s_iter (savi_finish POL true) (fun s => s) ckpt freq savi_skel k st.
Proof. exact savi_solve_is_skeleton. Qed.
Print Assumptions c12_savi_solve_follows_source.
Theorem c12_pi_solve_follows_source : forall g eps POL EV t me reset V0 ckpt freq k st,
  pi_solve g eps POL EV t me reset V0 ckpt freq k st =
  run_skel pist pi_incr (pi_improve_step g eps POL EV t me reset V0) pi_iter (fun s => s) (fun s => s) ckpt freq pi_skel k st.
Proof. exact pi_solve_is_skeleton. Qed.
Print Assumptions c12_pi_solve_follows_source.
