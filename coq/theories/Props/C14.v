(* C14 -- Shipped problems are closed and their state index is consistent.  The index function and the
   enumeration are C19's (about the definitions translated from spaces.py); closure is proved for ALL parameters,
   for EVERY event (not only positive-probability ones). *)
From Coq Require Import ZArith List Bool Lia.
From MdpaxV Require Import Model.ListUtil Model.Spaces Model.Problems Model.ProblemOps Proofs.C19P Proofs.C14P Proofs.GenDeMoorP Proofs.GenMirjaliliP Proofs.GenHendrixP.
From MdpaxGen Require GenDeMoor GenMirjalili GenHendrix.
Import GenDeMoor.
Import ListNotations.
Open Scope Z_scope.

Theorem demoor_closed : forall (L m : nat) (fifo : bool) (Q : Z), (1 <= L)%nat -> (1 <= m)%nat -> 0 <= Q ->
  forall state q d, length state = (L - 1 + m)%nat -> Forall (fun x => 0 <= x <= Q) state -> 0 <= q <= Q -> 0 <= d ->
  Forall (fun x => 0 <= x <= Q) (dm_next L m fifo state q d) /\ length (dm_next L m fifo state q d) = (L - 1 + m)%nat.
Proof. exact demoor_closed_l. Qed.
Print Assumptions demoor_closed.

(* ... and the same about the transition GENERATED from the De Moor source (gen/GenDeMoor.v): every successor of a listed
   state under every action and EVERY demand is a listed state *)
Theorem generated_demoor_transition_closed : forall (L m : nat) (fifo : bool) (Q : Z) c1 c2 c3 c4, (1 <= L)%nat -> (1 <= m)%nat -> 0 <= Q ->
  forall state q d, length state = (L - 1 + m)%nat -> Forall (fun x => 0 <= x <= Q) state -> 0 <= q <= Q -> 0 <= d ->
  let nxt := fst (gen_transition L m fifo c1 c2 c3 c4 state [q] [d]) in
  Forall (fun x => 0 <= x <= Q) nxt /\ length nxt = (L - 1 + m)%nat.
Proof.
  intros L m fifo Q c1 c2 c3 c4 HL Hm HQ state q d Hlen Hs Hq Hd nxt. unfold nxt.
  rewrite (proj1 (gen_transition_eq L m fifo c1 c2 c3 c4 state q d Hlen)).
  exact (demoor_closed_l L m fifo Q HL Hm HQ state q d Hlen Hs Hq Hd).
Qed.
Print Assumptions generated_demoor_transition_closed.

Theorem hendrix_closed : forall m Qa Qb state qa qb ia ib, (1 <= m)%nat -> 0 <= Qa -> 0 <= Qb ->
  length state = (m + m)%nat -> Forall (fun x => 0 <= x <= Qa) (firstn m state) -> Forall (fun x => 0 <= x <= Qb) (skipn m state) ->
  0 <= qa <= Qa -> 0 <= qb <= Qb -> 0 <= ia -> 0 <= ib ->
  Forall (fun x => 0 <= x <= Qa) (firstn m (hx_next m state qa qb ia ib)) /\
  Forall (fun x => 0 <= x <= Qb) (skipn m (hx_next m state qa qb ia ib)) /\
  length (hx_next m state qa qb ia ib) = (m + m)%nat.
Proof. exact hendrix_closed_l. Qed.
Print Assumptions hendrix_closed.

Theorem mirjalili_closed : forall m Qmax state d rec, (1 <= m)%nat -> 0 <= Qmax ->
  length state = m -> length rec = m -> 0 <= hd 0 state <= 6 -> 0 <= d ->
  0 <= hd 0 (mj_next m Qmax state d rec) <= 6 /\ Forall (fun x => 0 <= x <= Qmax) (tl (mj_next m Qmax state d rec)) /\
  length (mj_next m Qmax state d rec) = m.
Proof. exact mirjalili_closed_l. Qed.
Print Assumptions mirjalili_closed.

Theorem generated_mirjalili_transition_closed : forall (m : nat) (Qmax : Z) c1 c2 c3 c4 c5, (1 <= m)%nat -> 0 <= Qmax ->
  forall w stock q d rec, length stock = (m - 1)%nat -> length rec = m -> 0 <= w <= 6 -> 0 <= d ->
  let nxt := fst (GenMirjalili.gen_transition m Qmax c1 c2 c3 c4 c5 (w :: stock) [q] (d :: rec)) in
  0 <= hd 0 nxt <= 6 /\ Forall (fun x => 0 <= x <= Qmax) (tl nxt) /\ length nxt = m.
Proof.
  intros m Qmax c1 c2 c3 c4 c5 Hm HQ w stock q d rec Hs Hr Hw Hd nxt. unfold nxt.
  rewrite (proj1 (gen_mj_transition_eq m Qmax c1 c2 c3 c4 c5 HQ Hm w stock q d rec Hs Hr)).
  apply mirjalili_closed_l; try assumption. simpl. lia.
Qed.
Print Assumptions generated_mirjalili_transition_closed.

Theorem generated_hendrix_transition_closed : forall m Qa Qb c1 c2 c3 c4 state qa qb ia ib, (1 <= m)%nat -> 0 <= Qa -> 0 <= Qb ->
  length state = (m + m)%nat -> Forall (fun x => 0 <= x <= Qa) (firstn m state) -> Forall (fun x => 0 <= x <= Qb) (skipn m state) ->
  0 <= qa <= Qa -> 0 <= qb <= Qb -> 0 <= ia -> 0 <= ib ->
  let nxt := fst (GenHendrix.gen_transition m c1 c2 c3 c4 state [qa; qb] [ia; ib]) in
  Forall (fun x => 0 <= x <= Qa) (firstn m nxt) /\ Forall (fun x => 0 <= x <= Qb) (skipn m nxt) /\ length nxt = (m + m)%nat.
Proof.
  intros m Qa Qb c1 c2 c3 c4 state qa qb ia ib Hm HQa HQb HL Ha Hb Hqa Hqb Hia Hib nxt. unfold nxt.
  rewrite (proj1 (gen_hx_transition_eq m c1 c2 c3 c4 state qa qb ia ib HL)).
  now apply hendrix_closed_l.
Qed.
Print Assumptions generated_hendrix_transition_closed.

Theorem forest_closed : forall S age cut fire, 1 <= S -> 0 <= age <= S - 1 -> 0 <= forest_next S age cut fire <= S - 1.
Proof. exact forest_closed_l. Qed.
Print Assumptions forest_closed.

(* a successor inside the box is a listed state whose index points back to exactly that vector (C19) *)
Theorem successor_index_roundtrip : forall mins maxs v, Forall2 Z.le mins maxs -> in_box v mins maxs ->
  nth_error (range_space mins maxs) (Z.to_nat (index_fn mins maxs v)) = Some v.
Proof.
  exact (fun mins maxs v HF Hb => eq_ind_r (fun i => nth_error (range_space mins maxs) (Z.to_nat i) = Some v)
           (space_complete_row_major mins maxs v HF Hb) (index_is_rank mins maxs v HF Hb)).
Qed.
Print Assumptions successor_index_roundtrip.

(* sizes: the number of listed states is the product of (max - min + 1) *)
Theorem state_space_size : forall mins maxs, Forall2 Z.le mins maxs ->
  Z.of_nat (length (range_space mins maxs)) = zprod (box_dims mins maxs).
Proof. exact (fun mins maxs HF => eq_trans (space_length mins maxs HF) (f_equal zprod (gen_dimensions mins maxs))). Qed.
Print Assumptions state_space_size.

Theorem state_space_no_duplicates : forall mins maxs, Forall2 Z.le mins maxs -> NoDup (range_space mins maxs).
Proof. exact space_nodup. Qed.
Print Assumptions state_space_no_duplicates.
