(* C09 -- Interrupt-and-resume at any iteration equals an uninterrupted run. *)
From Coq Require Import QArith List Arith ZArith Bool.
From MdpaxV Require Import Model.ListUtil Model.MDP Model.Store Model.Solvers Model.Fields
     Proofs.LoopP Proofs.StoreP Proofs.C08P Proofs.C12P Proofs.C09P.
From MdpaxGen Require Import GenFields.
Import ListNotations.

(* every field one iteration reads is saved AND restored (lists translated from the source);
   the only exception, stated not hidden: the PRNG key of the shuffled semi-asynchronous solver *)
Theorem saved_covers_read :
  subset vi_reads vi_saved && subset vi_reads vi_restored &&
  subset pi_reads pi_saved && subset pi_reads pi_restored &&
  subset rvi_reads rvi_saved && subset rvi_reads rvi_restored &&
  subset pvi_reads pvi_saved && subset pvi_reads pvi_restored &&
  subset savi_fixed_reads savi_saved && subset savi_fixed_reads savi_restored = true.
Proof. exact eq_refl. Qed.
Print Assumptions saved_covers_read.

Theorem savi_key_not_saved : subset savi_shuffled_reads savi_saved = false /\ existsb (field_eqb FKey) savi_saved = false.
Proof. exact (conj eq_refl eq_refl). Qed.
Print Assumptions savi_key_not_saved.

(* the last save call of solve(k) snapshots exactly the state the loop ended in, under its iteration number *)
Theorem final_save_snapshots_final_state : forall (St : Type) step iter_of finish freq k (st : St),
  let s1 := fst (fst (loop St step iter_of true freq k st [])) in
  exists evs, snd (solve_gen St step iter_of true freq finish k st) = evs ++ [(iter_of s1, s1)].
Proof. exact final_save_is_loop_state. Qed.
Print Assumptions final_save_snapshots_final_state.

(* continuing from that snapshot = one uninterrupted run (first leg stopped at its limit); any solver *)
Theorem resume_equiv : forall (St : Type) step iter_of finish ckpt freq k1 k2 (st : St),
  let '(s1, c1, _) := loop St step iter_of ckpt freq k1 st [] in
  c1 = false ->
  fst (solve_gen St step iter_of ckpt freq finish k2 s1) = fst (solve_gen St step iter_of ckpt freq finish (k1 + k2) st).
Proof. exact resume_from_snapshot. Qed.
Print Assumptions resume_equiv.

(* a retained periodic snapshot that carries the final label is the final state too (so "latest" is
   the right thing to restore even when the final save was skipped as a duplicate) *)
Theorem latest_label_identifies_final_state : forall (St : Type) step iter_of,
  (forall st, iter_of (fst (step st)) = S (iter_of st)) ->
  forall ckpt freq k (st : St) l s,
  let s1 := fst (fst (loop St step iter_of ckpt freq k st [])) in
  In (l, s) (run_events St step iter_of ckpt freq k st) -> l = iter_of s1 -> s = s1.
Proof. exact periodic_snapshot_with_final_label. Qed.
Print Assumptions latest_label_identifies_final_state.

(* enabling checkpointing, its frequency (and retention / async mode, which the solver state machine
   never sees) change no computed result *)
Theorem checkpointing_transparent : forall (St : Type) step iter_of finish k (st : St) c1 f1 c2 f2,
  fst (solve_gen St step iter_of c1 f1 finish k st) = fst (solve_gen St step iter_of c2 f2 finish k st).
Proof. exact solve_gen_state_indep. Qed.
Print Assumptions checkpointing_transparent.

(* restore by default returns the last accepted save *)
Theorem restore_latest_is_last_accepted_save : forall (Snap : Type) m (d : store Snap) evs e, (1 <= m)%nat ->
  newer Snap (st_latest Snap (st_apply Snap m d evs)) e = true ->
  st_restore Snap (st_apply Snap m d (evs ++ [e])) None = Some e.
Proof. exact st_restore_latest_after. Qed.
Print Assumptions restore_latest_is_last_accepted_save.
