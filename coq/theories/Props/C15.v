(* C15 -- Shipped problems' transitions and rewards match the documented dynamics.
   Age classes: position 0 = youngest ... last = oldest. *)
From Coq Require Import ZArith QArith List Bool.
From MdpaxV Require Import Model.ListUtil Model.Problems Model.ProblemOps Proofs.C15P Proofs.C14P Proofs.GenDeMoorP Proofs.GenMirjaliliP Proofs.GenHendrixP Proofs.GenForestP.
From MdpaxGen Require GenDeMoor GenMirjalili GenHendrix GenForest.
Import GenDeMoor.
Import ListNotations.
Open Scope Z_scope.

(* TIE BY TRANSLATION (De Moor): gen/GenDeMoor.v is regenerated on every run from the problem's transition, issuing functions,
   component lookups, cost vector and issuing-policy choice.  For every lead time, useful life, issuing policy, cost vector,
   state of the documented length, order and demand it IS the model below: same successor, same reward - so the
   conservation, pipeline/ageing and issuing theorems of this file are theorems about the source. *)
Theorem generated_demoor_transition_is_the_modelled_one : forall (L m : nat) (fifo : bool) (c_order c_short c_waste c_hold : Q) state q d,
  length state = (L - 1 + m)%nat ->
  fst (gen_transition L m fifo c_order c_short c_waste c_hold state [q] [d]) = dm_next L m fifo state q d /\
  (snd (gen_transition L m fifo c_order c_short c_waste c_hold state [q] [d]) == dm_reward L m fifo c_order c_short c_waste c_hold state q d)%Q.
Proof. exact gen_transition_eq. Qed.
Print Assumptions generated_demoor_transition_is_the_modelled_one.
(* the same for the Mirjalili platelet problem (gen/GenMirjalili.v): state = weekday :: stock, event = demand :: received by age *)
Theorem generated_mirjalili_transition_is_the_modelled_one : forall (m : nat) (Qmax : Z) (c_var c_fix c_short c_waste c_hold : Q),
  0 <= Qmax -> (1 <= m)%nat -> forall w stock q d rec, length stock = (m - 1)%nat -> length rec = m ->
  fst (GenMirjalili.gen_transition m Qmax c_var c_fix c_short c_waste c_hold (w :: stock) [q] (d :: rec)) = mj_next m Qmax (w :: stock) d rec /\
  (snd (GenMirjalili.gen_transition m Qmax c_var c_fix c_short c_waste c_hold (w :: stock) [q] (d :: rec)) ==
   mj_reward Qmax c_var c_fix c_short c_waste c_hold (w :: stock) q d rec)%Q.
Proof. exact gen_mj_transition_eq. Qed.
Print Assumptions generated_mirjalili_transition_is_the_modelled_one.

(* ... and for the Hendrix two-product problem (gen/GenHendrix.v): state = stock of A ++ stock of B, event = units issued *)
Theorem generated_hendrix_transition_is_the_modelled_one : forall (m : nat) (ca cb pa pb : Q) state qa qb ia ib,
  length state = (m + m)%nat ->
  fst (GenHendrix.gen_transition m ca cb pa pb state [qa; qb] [ia; ib]) = hx_next m state qa qb ia ib /\
  (snd (GenHendrix.gen_transition m ca cb pa pb state [qa; qb] [ia; ib]) == hx_reward ca cb pa pb qa qb ia ib)%Q.
Proof. exact gen_hx_transition_eq. Qed.
Print Assumptions generated_hendrix_transition_is_the_modelled_one.

(* ... and for Forest (gen/GenForest.v): jnp.where as if-then-else; action 1 = cut, event 1 = fire *)
Theorem generated_forest_transition_is_the_modelled_one : forall S r1 r2 age (cut fire : bool),
  GenForest.gen_forest_transition S r1 r2 [age] [if cut then 1 else 0] [if fire then 1 else 0] =
  ([forest_next S age cut fire], forest_reward S r1 r2 age cut).
Proof. exact gen_forest_transition_eq. Qed.
Print Assumptions generated_forest_transition_is_the_modelled_one.

Theorem generated_issuing_is_the_modelled_issuing : forall stock d,
  gen_issue_fifo stock d = issue_fifo stock d /\ gen_issue_lifo stock d = issue_lifo stock d.
Proof. exact (fun stock d => conj (gen_issue_fifo_eq stock d) (gen_issue_lifo_eq stock d)). Qed.
Print Assumptions generated_issuing_is_the_modelled_issuing.

(* issuing: total issued = min(demand, total stock); nothing is created; for both policies *)
Theorem issue_total : forall stock d, 0 <= d -> Forall (fun x => 0 <= x) stock ->
  zsum (issue_fifo stock d) = zsum stock - Z.min d (zsum stock) /\ zsum (issue_lifo stock d) = zsum stock - Z.min d (zsum stock).
Proof. exact (fun stock d Hd HF => conj (issue_fifo_total stock d Hd HF) (issue_lifo_total stock d Hd HF)). Qed.
Print Assumptions issue_total.

Theorem issue_never_creates_stock : forall stock d, 0 <= d -> Forall (fun x => 0 <= x) stock ->
  Forall2 (fun y x => 0 <= y <= x) (issue_fifo stock d) stock /\ Forall2 (fun y x => 0 <= y <= x) (issue_lifo stock d) stock.
Proof. exact (fun stock d Hd HF => conj (issue_fifo_bounds stock d Hd HF) (issue_lifo_bounds stock d Hd HF)). Qed.
Print Assumptions issue_never_creates_stock.

(* ORDER LAW, oldest first: if any unit of class i is issued, every older class j > i is empty afterwards *)
Theorem issue_fifo_spec : forall stock d i j, 0 <= d -> Forall (fun x => 0 <= x) stock ->
  (i < j < length stock)%nat -> nth i (issue_fifo stock d) 0 < nth i stock 0 -> nth j (issue_fifo stock d) 0 = 0.
Proof. exact issue_fifo_order_law. Qed.
Print Assumptions issue_fifo_spec.

(* ORDER LAW, newest first: if any unit of class j is issued, every younger class i < j is empty afterwards *)
Theorem issue_lifo_spec : forall stock d i j, 0 <= d -> Forall (fun x => 0 <= x) stock ->
  (i < j < length stock)%nat -> nth j (issue_lifo stock d) 0 < nth j stock 0 -> nth i (issue_lifo stock d) 0 = 0.
Proof. exact issue_lifo_order_law. Qed.
Print Assumptions issue_lifo_spec.

(* De Moor: opening stock + receipt = issued + expired + closing stock, every lead time and useful life *)
Theorem demoor_conservation_law : forall (L m : nat) (fifo : bool) (Q : Z), (1 <= L)%nat -> (1 <= m)%nat ->
  forall state q d, length state = (L - 1 + m)%nat -> Forall (fun x => 0 <= x <= Q) state -> 0 <= d ->
  let '(in_transit, stock, after) := dm_parts L fifo state q d in
  let issued := Z.min d (zsum stock) in
  let receipt := zlast in_transit in
  let closing := receipt :: firstn (m - 1) after in
  zsum stock + receipt = issued + zlast after + zsum closing /\ zsum after = zsum stock - issued.
Proof. exact demoor_conservation. Qed.
Print Assumptions demoor_conservation_law.

Theorem mirjalili_conservation_law : forall m Qmax state d rec, (1 <= m)%nat -> 0 <= Qmax -> 0 <= d ->
  let opening := mj_opening Qmax state rec in
  let after := issue_fifo opening d in
  zsum after = zsum opening - Z.min d (zsum opening).
Proof. exact mirjalili_conservation. Qed.
Print Assumptions mirjalili_conservation_law.

(* lead time and ageing (De Moor), read off the model: the order placed now heads the pipeline; the
   pipeline shifts by one; its last entry becomes the youngest stock; every stock class ages by one
   and the oldest class leaves *)
Theorem demoor_pipeline_and_ageing : forall (L m : nat) fifo state q d,
  dm_next L m fifo state q d =
  firstn (L - 1) (q :: firstn (L - 1) state) ++
  (zlast (q :: firstn (L - 1) state) :: firstn (m - 1) (if fifo then issue_fifo (skipn (L - 1) state) d else issue_lifo (skipn (L - 1) state) d)).
Proof. exact (fun L m fifo state q d => eq_refl). Qed.
Print Assumptions demoor_pipeline_and_ageing.

Theorem mirjalili_weekday_cyclic : forall m Qmax state d rec,
  hd 0 (mj_next m Qmax state d rec) = (hd 0 state + 1) mod 7 /\ (hd 0 state = 6 -> hd 0 (mj_next m Qmax state d rec) = 0).
Proof. exact (fun m Qmax state d rec => conj eq_refl (fun H => f_equal (fun w => (w + 1) mod 7) H)). Qed.
Print Assumptions mirjalili_weekday_cyclic.

Theorem forest_transition_spec : forall S age cut fire,
  forest_next S age cut fire = if cut || fire then 0 else Z.min (age + 1) (S - 1).
Proof. exact (fun S age cut fire => eq_refl). Qed.
Print Assumptions forest_transition_spec.

(* non-vacuity *)
Example c15_example :
  issue_fifo [3; 2; 4] 5 = [3; 1; 0] /\ issue_lifo [3; 2; 4] 4 = [0; 1; 4] /\
  dm_next 2 2 true [1; 2; 3] 4 4 = [4; 1; 1] /\ dm_components 2 2 true [1; 2; 3] 4 4 = (4, 0, 0, 1) /\
  mj_next 3 3 [6; 2; 1] 2 [1; 1; 3] = [0; 1; 3].
Proof. vm_compute. repeat split; reflexivity. Qed.
