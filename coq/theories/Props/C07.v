(* C07 -- Periodic value iteration: plain VI iterates with the documented period-span stop.
   Index, exponent and guard expressions are the GENERATED ones (gen/GenPeriodic.v). *)
From Coq Require Import QArith Qabs List Arith ZArith Bool.
From MdpaxV Require Import Model.ListUtil Model.QFun Model.MDP Model.Bellman Model.Solvers Model.CorrSolve
     Proofs.LoopP Proofs.C04P Proofs.C08P Proofs.C07P Proofs.C07AvgP.
Import ListNotations.

(* circular-buffer invariant after ANY number of sweeps: slot (i mod (p+1)) holds V_i for i in [n-p, n] *)
Theorem pvi_buffer_invariant : forall g eps SW p V0 j,
  pvi_inv SW p V0 j (steps pvist (pvi_step g eps SW) j (pvi_init p V0)).
Proof. exact pvi_steps_inv. Qed.
Print Assumptions pvi_buffer_invariant.

Theorem pvi_buffer_invariant_step : forall g eps SW p V0 n st,
  pvi_inv SW p V0 n st -> pvi_inv SW p V0 (S n) (fst (pvi_step g eps SW st)).
Proof. exact pvi_step_inv. Qed.
Print Assumptions pvi_buffer_invariant_step.

(* the number compared with epsilon = the documented measure of the true iterates *)
Theorem pvi_measure_spec : forall g SW p V0 n hist, (1 <= n)%nat -> length hist = (p + 1)%nat ->
  (forall i, (n - p <= i)%nat -> (i <= n)%nat -> nth (i mod (p + 1)) hist [] = iterate SW i V0) ->
  pvi_measure g (iterate SW n V0) hist (n mod (p + 1)) p n = doc_measure g SW p V0 n.
Proof. exact pvi_measure_doc. Qed.
Print Assumptions pvi_measure_spec.

(* one solve(k) from the fresh solver: VI iterates, greedy policy, first stop, never before a period *)
Theorem pvi_solve_spec : forall g eps SW POL p V0 clear ckpt freq k st' conv saves,
  pvi_solve g eps SW POL clear ckpt freq k (pvi_init p V0) = (st', conv, saves) ->
  exists j, (j <= k)%nat /\ p_iter st' = j /\ p_vals st' = iterate SW j V0 /\ p_pol st' = Some (POL (iterate SW j V0)) /\
    p_hidx st' = (j mod (p + 1))%nat /\
    (forall i, (i + 1 < j)%nat -> match doc_measure g SW p V0 (S i) with None => True | Some c => ~ (c < pvi_threshold g eps)%Q end) /\
    (conv = true -> (p <= j)%nat /\ (0 < j)%nat /\ exists c, doc_measure g SW p V0 j = Some c /\ (c < pvi_threshold g eps)%Q) /\
    (conv = false -> j = k) /\
    (conv && clear = false -> exists hist, p_hist st' = Some hist /\ length hist = (p + 1)%nat /\
         forall i, (j - p <= i)%nat -> (i <= j)%nat -> nth (i mod (p + 1)) hist [] = iterate SW i V0).
Proof. exact pvi_solve_accounting. Qed.
Print Assumptions pvi_solve_spec.

Theorem pvi_never_before_period : forall g SW p V0 n, (n < p)%nat -> doc_measure g SW p V0 n = None.
Proof. exact doc_measure_before_period. Qed.
Print Assumptions pvi_never_before_period.

Open Scope Q_scope.
(* d-step gain bracket: min(T^d h - h) <= d g* <= max(T^d h - h), any h, any d *)
Theorem multi_step_gain_bracket : forall (M : mdp), wf M -> forall gs hs h d, aroe M gs hs ->
  fmin (fun s => Titer M 1 d h s - h s) (nS M) <= inject_Z (Z.of_nat d) * gs <= fmax (fun s => Titer M 1 d h s - h s) (nS M).
Proof. exact multi_step_gain_bracket_l. Qed.
Print Assumptions multi_step_gain_bracket.

(* at convergence (gamma = 1): |V_n(s) - V_(n-p)(s) - p g*| < eps at every state, periodic chains included *)
Theorem pvi_average_reward_bound : forall (M : mdp), wf M -> forall gs hs Vold p eps,
  aroe M gs hs -> length Vold = nS M ->
  span_diff (iterate (sweep M 1) p Vold) Vold < eps ->
  forall s, (s < nS M)%nat ->
    Qabs (qnth (iterate (sweep M 1) p Vold) s - qnth Vold s - inject_Z (Z.of_nat p) * gs) < eps.
Proof. exact pvi_average_reward_bound_l. Qed.
Print Assumptions pvi_average_reward_bound.

(* non-vacuity: a 2-cycle (period 2) with rewards 1, 3: plain VI never converges in span, periodic VI does *)
Definition c07_M : mdp := of_tables [[[1]];[[0]]]%nat [[[1]];[[3]]] [[[1]];[[1]]].
Example c07_example :
  wf_b c07_M = true /\
  (let '(st, conv, _) := S_pvi_solve c07_M 1 (1#10) false false 1 10 (pvi_init 2 [0;0]) in (conv, p_iter st, p_vals st, p_hidx st))
    = (true, 2%nat, [4; 4], 2%nat) /\
  snd (fst (S_vi_solve c07_M 1 (1#10) Span false 1 10 (vi_init [0;0]))) = false.
Proof. vm_compute. repeat split; reflexivity. Qed.

(* ---------- ties by translation (re-stated here so that THIS property's obligations break when the source they speak about
   changes shape): gen/GenKernel.v and gen/GenLoops.v are regenerated from $VERIF_REPO/src on every run *)
From MdpaxV Require Import Model.Skeleton Model.Kernel Model.KernelOps Proofs.SkeletonP Proofs.GenKernelP.
From MdpaxGen Require Import GenLoops GenKernel.

(* the one-state update GENERATED from ValueIteration._calculate_updated_value (expectation over the event space with the
   problem's own probabilities, maximum over the action space) is the Bellman optimality backup the theorems above use *)
Theorem c07_generated_update_is_bellman_backup : forall (M : mdp) st g V, (0 < nA M)%nat ->
  gen_calculate_updated_value (prims_of M) st (seq 0 (nA M)) (seq 0 (nE M)) g V = backup M g V st.
Proof. exact gen_updated_value_is_backup. Qed.
Print Assumptions c07_generated_update_is_bellman_backup.

(* each solve() whose result this property speaks about = the interpretation of the skeleton translated from ITS source
   (one step per pass, the stopping test, the periodic and the final save, the policy extraction) *)
Theorem c07_pvi_solve_follows_source : forall g eps SW POL clearflag ckpt freq k st,
  pvi_solve g eps SW POL clearflag ckpt freq k st =
  run_skel pvist pvi_incr (pvi_sweep_step g eps SW) p_iter (pvi_finish POL false false)
           (fun s => if clearflag then pvi_clear s else s) ckpt freq pvi_skel k st.
Proof. exact pvi_solve_is_skeleton. Qed.
Print Assumptions c07_pvi_solve_follows_source.
