(* C13 -- Shipped problems define a probability distribution for every state-action pair.
   Special functions (gamma CDF, Poisson, negative binomial, softmax, multinomial) are evaluated by
   numpyro / jax.scipy / scipy in floating point: they enter as ORACLE TABLES, and normalisation is
   proved for EVERY table with the properties a pmf / cdf has, every size. *)
From Coq Require Import QArith List Arith Bool.
From MdpaxV Require Import Proofs.C13P Proofs.MultinomP.
Import ListNotations.
Open Scope Q_scope.

Theorem forest_row_distribution : forall p, 0 <= p <= 1 ->
  (0 <= 1 - p /\ 0 <= p /\ (1 - p) + p == 1) /\ (0 <= 1 /\ 0 <= 0 /\ 1 + 0 == 1).
Proof. exact forest_rows. Qed.
Print Assumptions forest_row_distribution.

(* De Moor: pmf = differences of ANY cdf at the bin edges 0, 1/2, 3/2, ..., with the censored tail added to
   the largest demand: sums to one whatever the cdf values are, any maximum demand *)
Theorem demoor_normalised : forall cdf, (2 <= length cdf)%nat -> qsum (censored_pmf cdf) == 1.
Proof. exact censored_pmf_sums_to_one. Qed.
Print Assumptions demoor_normalised.

Theorem demoor_nonnegative : forall cdf, (2 <= length cdf)%nat -> monotone cdf -> Forall (fun x => 0 <= x <= 1) cdf ->
  Forall (fun x => 0 <= x) (censored_pmf cdf).
Proof. exact censored_pmf_nonneg. Qed.
Print Assumptions demoor_nonnegative.

(* Mirjalili: an event is (demand, units received per age class).
   Demand part: ANY pmf prefix with the tail folded into the last entry sums to one. *)
Theorem mirjalili_demand_normalised : forall pm, pm <> [] -> qsum (add_last pm (1 - qsum pm)) == 1.
Proof. exact folded_tail_sums_to_one. Qed.
Print Assumptions mirjalili_demand_normalised.

(* Received part: the multinomial law over the compositions of the order quantity q into one part per age class
   (multinomial coefficient * prod p_i^(r_i)) is a probability distribution for EVERY q, every number of age
   classes and every age-class probability vector that is non-negative and sums to one (the multinomial theorem,
   proved over Q by Pascal rows) ... *)
Theorem mirjalili_received_distribution : forall p q, Forall (fun x => 0 <= x) p -> qsum p == 1 ->
  qsum (map (mprob p) (comps (length p) q)) == 1 /\ Forall (fun x => 0 <= x) (map (mprob p) (comps (length p) q)).
Proof. exact multinomial_is_distribution. Qed.
Print Assumptions mirjalili_received_distribution.

(* ... whose support is exactly the vectors of the right length that sum to the order (every such vector is a row of
   the event space when q <= max_order_quantity; all other rows get probability zero in the code) *)
Theorem mirjalili_received_support : forall m q r, In r (comps m q) <-> (length r = m /\ sumn r = q).
Proof. exact comps_iff. Qed.
Print Assumptions mirjalili_received_support.

(* Joint law: the probabilities of all events of a state-action pair sum to one *)
Theorem mirjalili_event_law_normalised : forall pm p q, pm <> [] -> qsum p == 1 ->
  qsum (flat_map (fun pd => map (fun r => pd * mprob p r) (comps (length p) q)) (add_last pm (1 - qsum pm))) == 1.
Proof. exact event_law_normalised. Qed.
Print Assumptions mirjalili_event_law_normalised.

(* NOT proved here (stated in DESIGN.md 13.3): the Hendrix mass identity (validated numerically against the closed-form
   truncation loss; open known finding) and that numpyro's log-gamma evaluation equals the coefficient below. *)
Example c13_multinomial_example :
  comps 2 3 = [[0;3];[1;2];[2;1];[3;0]]%nat /\
  map (fun r => Qred (mprob [1#4; 3#4] r)) (comps 2 3) = [27#64; 27#64; 9#64; 1#64] /\
  map (fun r => Qred (mcoef r)) [[2;1;1];[0;0;5];[2;2;2]]%nat = [12#1; 1#1; 90#1].
Proof. vm_compute. repeat split; reflexivity. Qed.

Example c13_example :
  Qeq_bool (qsum (censored_pmf [0; 1#4; 5#8; 7#8])) 1 = true /\
  Qeq_bool (last (censored_pmf [0; 1#4; 5#8; 7#8]) 0) (3#8) = true.
Proof. vm_compute. split; reflexivity. Qed.
