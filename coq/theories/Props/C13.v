(* C13 -- Shipped problems define a probability distribution for every state-action pair.
   Special functions (gamma CDF, Poisson, negative binomial, softmax, multinomial) are evaluated by
   numpyro / jax.scipy / scipy in floating point: they enter as ORACLE TABLES, and normalisation is
   proved for EVERY table with the properties a pmf / cdf has, every size. *)
From Coq Require Import QArith List Arith Bool.
From MdpaxV Require Import Proofs.C13P.
Import ListNotations.
Open Scope Q_scope.

Theorem forest_row_distribution : forall p, 0 <= p <= 1 ->
  (0 <= 1 - p /\ 0 <= p /\ (1 - p) + p == 1) /\ (0 <= 1 /\ 0 <= 0 /\ 1 + 0 == 1).
Proof. exact forest_rows. Qed.
Print Assumptions forest_row_distribution.

(* De Moor: pmf = differences of ANY cdf at the bin edges 0, 1/2, 3/2, ..., with the censored tail added to
   the largest demand: sums to one whatever the cdf values are, any maximum demand *)
Theorem demoor_normalised : forall cdf, (2 <= length cdf)%nat -> qsum (censored_pmf cdf) == 1.
Proof. exact censored_pmf_sums_to_one. Qed.
Print Assumptions demoor_normalised.

Theorem demoor_nonnegative : forall cdf, (2 <= length cdf)%nat -> monotone cdf -> Forall (fun x => 0 <= x <= 1) cdf ->
  Forall (fun x => 0 <= x) (censored_pmf cdf).
Proof. exact censored_pmf_nonneg. Qed.
Print Assumptions demoor_nonnegative.

(* Mirjalili, demand part: ANY pmf prefix with the tail folded into the last entry sums to one.
   PARTIAL: the received-order part (numpyro's multinomial over the splits that sum to the order; the
   binomial/multinomial theorem over the event list) and the Hendrix mass identity are NOT proved here;
   they are validated numerically on complete tables against scipy / exact multinomial coefficients and,
   for Hendrix, against the closed-form truncation loss (open known finding). *)
Theorem mirjalili_demand_normalised_partial : forall pm, pm <> [] -> qsum (add_last pm (1 - qsum pm)) == 1.
Proof. exact folded_tail_sums_to_one. Qed.
Print Assumptions mirjalili_demand_normalised_partial.

Example c13_example :
  Qeq_bool (qsum (censored_pmf [0; 1#4; 5#8; 7#8])) 1 = true /\
  Qeq_bool (last (censored_pmf [0; 1#4; 5#8; 7#8]) 0) (3#8) = true.
Proof. vm_compute. split; reflexivity. Qed.
