(* C13 -- Shipped problems define a probability distribution for every state-action pair.
   Special functions (gamma CDF, Poisson, negative binomial, softmax, multinomial) are evaluated by
   numpyro / jax.scipy / scipy in floating point: they enter as ORACLE TABLES, and normalisation is
   proved for EVERY table with the properties a pmf / cdf has, every size. *)
From Coq Require Import QArith List Arith Bool.
From MdpaxV Require Import Model.QFun Model.Hendrix Proofs.C13P Proofs.MultinomP Proofs.HendrixP.
Import ListNotations.
Open Scope Q_scope.

Theorem forest_row_distribution : forall p, 0 <= p <= 1 ->
  (0 <= 1 - p /\ 0 <= p /\ (1 - p) + p == 1) /\ (0 <= 1 /\ 0 <= 0 /\ 1 + 0 == 1).
Proof. exact forest_rows. Qed.
Print Assumptions forest_row_distribution.

(* De Moor: pmf = differences of ANY cdf at the bin edges 0, 1/2, 3/2, ..., with the censored tail added to
   the largest demand: sums to one whatever the cdf values are, any maximum demand *)
Theorem demoor_normalised : forall cdf, (2 <= length cdf)%nat -> qsum (censored_pmf cdf) == 1.
Proof. exact censored_pmf_sums_to_one. Qed.
Print Assumptions demoor_normalised.

Theorem demoor_nonnegative : forall cdf, (2 <= length cdf)%nat -> monotone cdf -> Forall (fun x => 0 <= x <= 1) cdf ->
  Forall (fun x => 0 <= x) (censored_pmf cdf).
Proof. exact censored_pmf_nonneg. Qed.
Print Assumptions demoor_nonnegative.

(* Mirjalili: an event is (demand, units received per age class).
   Demand part: ANY pmf prefix with the tail folded into the last entry sums to one. *)
Theorem mirjalili_demand_normalised : forall pm, pm <> [] -> qsum (add_last pm (1 - qsum pm)) == 1.
Proof. exact folded_tail_sums_to_one. Qed.
Print Assumptions mirjalili_demand_normalised.

(* Received part: the multinomial law over the compositions of the order quantity q into one part per age class
   (multinomial coefficient * prod p_i^(r_i)) is a probability distribution for EVERY q, every number of age
   classes and every age-class probability vector that is non-negative and sums to one (the multinomial theorem,
   proved over Q by Pascal rows) ... *)
Theorem mirjalili_received_distribution : forall p q, Forall (fun x => 0 <= x) p -> qsum p == 1 ->
  qsum (map (mprob p) (comps (length p) q)) == 1 /\ Forall (fun x => 0 <= x) (map (mprob p) (comps (length p) q)).
Proof. exact multinomial_is_distribution. Qed.
Print Assumptions mirjalili_received_distribution.

(* ... whose support is exactly the vectors of the right length that sum to the order (every such vector is a row of
   the event space when q <= max_order_quantity; all other rows get probability zero in the code) *)
Theorem mirjalili_received_support : forall m q r, In r (comps m q) <-> (length r = m /\ sumn r = q).
Proof. exact comps_iff. Qed.
Print Assumptions mirjalili_received_support.

(* Joint law: the probabilities of all events of a state-action pair sum to one *)
Theorem mirjalili_event_law_normalised : forall pm p q, pm <> [] -> qsum p == 1 ->
  qsum (flat_map (fun pd => map (fun r => pd * mprob p r) (comps (length p) q)) (add_last pm (1 - qsum pm))) == 1.
Proof. exact event_law_normalised. Qed.
Print Assumptions mirjalili_event_law_normalised.

(* Hendrix (units issued of A and of B; model = Model/Hendrix.v, a transliteration of _calculate_pu/_calculate_pz and
   the four _get_probs_* cases over ORACLE tables pa, pb (demand pmfs), bin (binomial pmf)).
   Identity: for every state (total stocks sa <= A, sb <= B) the probabilities of all events sum to
   P(D_b < sb) + sum_{z <= D} pz[z, sb] ... *)
Theorem hendrix_row_mass_identity : forall (pa pb : nat -> Q) (bin : nat -> nat -> Q) (D A B sa sb : nat),
  (sa <= A)%nat -> (sb <= B)%nat -> (sa <= S D)%nat ->
  hx_total pa pb bin D A B sa sb == fsum pb sb + fsum (hx_pz pa pb bin D sb) (S D).
Proof. exact hx_total_identity. Qed.
Print Assumptions hendrix_row_mass_identity.

(* ... which is AT MOST P(D_b < D) whatever the demand laws are (pmf properties only): the mass the demand for B carries
   at or beyond the truncation point D = max_useful_life * (max(order limits) + 2) is lost from EVERY row. So the property
   "sums to one within 1e-4" FAILS for this problem whenever P(D_b >= D) > 1e-4 (e.g. order limits 3, useful life 2,
   default Poisson mean 5: P(D_b >= 10) = 0.032): the open known finding, as a theorem about the model. *)
Theorem hendrix_row_mass_at_most_untruncated : forall (pa pb : nat -> Q) (bin : nat -> nat -> Q) (D : nat),
  (forall k, 0 <= pa k) -> (forall k, 0 <= pb k) -> (forall N, fsum pa N <= 1) ->
  (forall u x, 0 <= bin u x) -> (forall x, fsum (fun u => bin u x) (S x) == 1) ->
  forall A B sa sb, (sa <= A)%nat -> (sb <= B)%nat -> (sa <= S D)%nat -> (sb <= D)%nat ->
  hx_total pa pb bin D A B sa sb <= fsum pb D.
Proof. exact hx_total_le. Qed.
Print Assumptions hendrix_row_mass_at_most_untruncated.

(* non-vacuity / a concrete row that loses mass: geometric demand laws (1/2)^(k+1), substitution with probability 1/2,
   D = 3: the row of total stocks (1, 1) sums to 217/256 <= P(D_b < 3) = 7/8 < 1 *)
Example c13_hendrix_example :
  let pa := fun k => qpow (1#2) (S k) in
  let bin := fun u x => binom x u * qpow (1#2) x in
  Qred (hx_total pa pa bin 3 1 1 1 1) = 217#256 /\ Qred (fsum pa 3) = 7#8 /\
  map (fun x => Qred (fsum (fun u => bin u x) (S x))) [0; 1; 2; 3]%nat = [1; 1; 1; 1].
Proof. vm_compute. repeat split; reflexivity. Qed.

(* NOT proved: that scipy / jax.scipy / numpyro evaluate the Poisson, binomial, gamma and negative-binomial laws and the
   multinomial coefficient (differential testing, C16). *)
Example c13_multinomial_example :
  comps 2 3 = [[0;3];[1;2];[2;1];[3;0]]%nat /\
  map (fun r => Qred (mprob [1#4; 3#4] r)) (comps 2 3) = [27#64; 27#64; 9#64; 1#64] /\
  map (fun r => Qred (mcoef r)) [[2;1;1];[0;0;5];[2;2;2]]%nat = [12#1; 1#1; 90#1].
Proof. vm_compute. repeat split; reflexivity. Qed.

Example c13_example :
  Qeq_bool (qsum (censored_pmf [0; 1#4; 5#8; 7#8])) 1 = true /\
  Qeq_bool (last (censored_pmf [0; 1#4; 5#8; 7#8]) 0) (3#8) = true.
Proof. vm_compute. split; reflexivity. Qed.

(* ---------- tie by translation (gen/GenProbStruct.v is regenerated from $VERIF_REPO/src on every run; the translator accepts
   exactly the statements around the third-party special functions, so a table that is cached, re-keyed or folded differently
   fails it closed): the demand tables whose normalisation is proved above are built the way the code builds them - De Moor's
   pmf is the CDF differenced with the tail folded into the last bin, Mirjalili's is the pmf with the remaining mass appended *)
From MdpaxV Require Import Proofs.C16P.
From MdpaxGen Require Import GenProbStruct.
Theorem c13_generated_tables_fold_the_tail :
  (forall cdf, gen_demoor_demand_probabilities cdf = censored_pmf cdf) /\
  (forall pm, gen_mirjalili_demand_probabilities pm = add_last pm (1 - qsum pm)).
Proof. split; reflexivity. Qed.
Print Assumptions c13_generated_tables_fold_the_tail.
