(* C10 -- restore()/load_checkpoint() reproduce the saved solver exactly and completely.
   What is PROVED here is the logic (error choice, step choice, stage order, override isolation, field
   completeness), about definitions translated from utils/checkpointing.py and the solvers on every run.
   Fidelity of the bytes (Orbax decoding, YAML round trip) is a contract VALIDATED by the fresh-process
   correspondence, not proved. *)
From Coq Require Import List Arith Bool.
From MdpaxV Require Import Model.Restore Model.Fields.
From MdpaxGen Require Import GenRestore GenFields.
Import ListNotations.

(* no configuration file => FileNotFoundError; configuration but no completed checkpoint => ValueError;
   otherwise the requested step, the latest one by default (a request of 0 counts as "not given") *)
Theorem restore_decision : forall d req,
  (d_config d = false -> restore_decide d req = Fail EFileNotFound) /\
  (d_config d = true -> d_steps d = [] -> (req = None \/ req = Some 0) -> restore_decide d req = Fail EValueError) /\
  (d_config d = true -> forall k, req = Some (S k) -> restore_decide d req = Restored (S k)) /\
  (d_config d = true -> forall l k, d_steps d = l ++ [k] -> (req = None \/ req = Some 0) -> restore_decide d req = Restored k).
Proof.
  intros d req. unfold restore_decide, restore_missing_config_error, restore_no_step_error, restore_step_rule, choose_step, latest_step.
  repeat split.
  - intros ->. reflexivity.
  - intros -> -> [->| ->]; reflexivity.
  - intros -> k ->. reflexivity.
  - intros -> l k -> [->| ->]; rewrite rev_app_distr; reflexivity.
Qed.
Print Assumptions restore_decision.

Theorem load_checkpoint_decision : forall d req,
  (d_steps d = [] -> (req = None \/ req = Some 0) -> load_decide d req = Fail EValueError) /\
  (forall k, req = Some (S k) -> load_decide d req = Restored (S k)) /\
  (forall l k, d_steps d = l ++ [k] -> (req = None \/ req = Some 0) -> load_decide d req = Restored k).
Proof.
  intros d req. unfold load_decide, load_no_step_error, load_step_rule, choose_step, latest_step. repeat split.
  - intros -> [->| ->]; reflexivity.
  - intros k ->. reflexivity.
  - intros l k -> [->| ->]; rewrite rev_app_distr; reflexivity.
Qed.
Print Assumptions load_checkpoint_decision.

(* errors are raised BEFORE a solver could be handed back: the configuration check precedes instantiation,
   the empty-directory check precedes reading and assigning state, and returning comes last *)
Theorem restore_never_returns_partly_initialised :
  before SCheckConfig SInstantiate restore_stages && before SCheckStep SReadState restore_stages &&
  before SReadState SAssignFields restore_stages && before SAssignFields SReturn restore_stages &&
  before SApplyOverrides SInstantiate restore_stages && before SCheckStep SAssignFields load_stages = true.
Proof. exact eq_refl. Qed.
Print Assumptions restore_never_returns_partly_initialised.

(* the four overrides write the four checkpoint settings and nothing else *)
Theorem overrides_touch_only_checkpoint_settings :
  restore_override_keys = [KCheckpointDir; KCheckpointFrequency; KMaxCheckpoints; KEnableAsync].
Proof. exact eq_refl. Qed.
Print Assumptions overrides_touch_only_checkpoint_settings.

(* both routes use the same step rule and assign state through the same per-solver method *)
Theorem load_checkpoint_same_state :
  load_step_rule = restore_step_rule /\ before SReadState SAssignFields load_stages = true /\ before SReadState SAssignFields restore_stages = true.
Proof. exact (conj eq_refl (conj eq_refl eq_refl)). Qed.
Print Assumptions load_checkpoint_same_state.

(* field completeness (lists translated from the solvers): every field of the property's list is saved
   and assigned back.  PARTIAL for the stored policy of the value-iteration family: it IS saved and
   assigned, but Orbax reads into the template of a fresh solver whose policy is None, so a stored
   policy is dropped (restore_drops_policy_refuted below; open known finding, DESIGN.md section 8). *)
Definition required (s : list field) (saved restored : list field) : bool := subset s saved && subset s restored.
Theorem restore_state_complete_partial :
  required [FValues; FIteration; FPolicy] vi_saved vi_restored &&
  required [FValues; FIteration; FPolicy] pi_saved pi_restored &&
  required [FValues; FIteration; FPolicy; FGain] rvi_saved rvi_restored &&
  required [FValues; FIteration; FPolicy; FValueHistory; FHistoryIndex; FPeriod] pvi_saved pvi_restored &&
  required [FValues; FIteration; FPolicy] savi_saved savi_restored = true.
Proof. exact eq_refl. Qed.
Print Assumptions restore_state_complete_partial.

Theorem restore_drops_policy_refuted :
  exists (stored : option (list nat)), stored <> None /\ orbax_restore_leaf (@None (list nat)) stored <> stored.
Proof. exists (Some [1]). split; discriminate. Qed.
Print Assumptions restore_drops_policy_refuted.

(* policy iteration always holds a policy, so its template has the leaf and the stored policy is read *)
Theorem restore_keeps_policy_when_template_has_one : forall (p stored : list nat),
  orbax_restore_leaf (Some p) (Some stored) = Some stored.
Proof. exact (fun p stored => eq_refl). Qed.
Print Assumptions restore_keeps_policy_when_template_has_one.
