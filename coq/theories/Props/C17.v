(* C17 -- Explicit matrices describe the same MDP as the functional description. *)
From Coq Require Import QArith Qabs List Arith Bool.
From Coq Require Import Qreduction.
From MdpaxV Require Import Model.QFun Model.MDP Model.Bellman Model.Matrices Model.CorrSolve Proofs.C17P Proofs.GenMatricesP.
From MdpaxGen Require Import GenMatrices.
Import ListNotations.
Open Scope Q_scope.

Definition succ_in_range (M : mdp) : Prop :=
  forall s a e, (s < nS M)%nat -> (a < nA M)%nat -> (e < nE M)%nat -> (nxt M s a e < nS M)%nat.

(* tie by translation: gen/GenMatrices.v is regenerated from Problem.build_transition_and_reward_matrices on every run (the method
   is interpreted statement by statement over tensors with named axes: the vmaps' in_axes, the reductions, the slices, the two
   accumulation loops with the functional scatter-add, the deviation test, the unravelled argmax, the guarded normalisation).
   The builder the source describes IS the modelled builder `build` that every theorem below is about: it raises exactly when
   `build` reports an error and names the same pair, and otherwise returns the same matrices, entry by entry, for every problem *)
Theorem generated_builder_is_the_modelled_builder : forall (M : mdp) tol,
  build M tol =
  if gen_raises (nxt M) (prb M) (nS M) (nA M) (nE M) tol
  then BuildError (fst (gen_worst_pair (nxt M) (prb M) (nS M) (nA M) (nE M))) (snd (gen_worst_pair (nxt M) (prb M) (nS M) (nA M) (nE M)))
  else BuildOk (map (fun a => map (fun s => map (fun s' => Qred (gen_P_final (nxt M) (prb M) (nS M) (nA M) (nE M) a s s')) (seq 0 (nS M))) (seq 0 (nS M))) (seq 0 (nA M)))
               (map (fun s => map (fun a => Qred (gen_R_final (rew M) (prb M) (nE M) s a)) (seq 0 (nA M))) (seq 0 (nS M))).
Proof. exact gen_build_eq. Qed.
Print Assumptions generated_builder_is_the_modelled_builder.

(* transition entry = total probability of the events leading there (several events accumulate) *)
Theorem P_entry_spec : forall (M : mdp) a s s',
  Praw M a s s' == fsum (fun e => if Nat.eqb (nxt M s a e) s' then prb M s a e else 0) (nE M).
Proof. exact P_entry_two_events. Qed.
Print Assumptions P_entry_spec.

Theorem R_entry_spec : forall (M : mdp) s a, Rexp M s a = fsum (fun e => prb M s a e * rew M s a e) (nE M).
Proof. exact (fun M s a => eq_refl). Qed.
Print Assumptions R_entry_spec.

Theorem row_sum_spec : forall (M : mdp), succ_in_range M -> forall a s, (s < nS M)%nat -> (a < nA M)%nat ->
  rowsum M a s == fsum (prb M s a) (nE M).
Proof. exact rowsum_spec. Qed.
Print Assumptions row_sum_spec.

(* an error is raised iff some row deviates from one by more than the tolerance -- every tolerance *)
Theorem build_error_iff : forall (M : mdp) tol, (0 < nA M * nS M)%nat ->
  (exists a s, build M tol = BuildError a s) <-> exists i, (i < nA M * nS M)%nat /\ tol < dev_flat M i.
Proof. exact (fun M => build_error_iff_l M). Qed.
Print Assumptions build_error_iff.

Theorem build_error_names_worst_pair : forall (M : mdp) tol a s, (0 < nS M)%nat -> (0 < nA M)%nat -> build M tol = BuildError a s ->
  let i := fargmax (dev_flat M) (nA M * nS M) in
  (a, s) = ((i / nS M)%nat, (i mod nS M)%nat) /\ dev_flat M i == max_deviation M /\ tol < max_deviation M /\
  (forall j, (j < i)%nat -> dev_flat M j < max_deviation M).
Proof. exact (fun M => build_error_names_worst M). Qed.
Print Assumptions build_error_names_worst_pair.

Theorem build_ok_rows_sum_to_one : forall (M : mdp) a s, 0 < rowsum M a s -> fsum (Pnorm M a s) (nS M) == 1.
Proof. exact (fun M => Pnorm_row_sums_to_one M). Qed.
Print Assumptions build_ok_rows_sum_to_one.

Theorem build_ok_entry_close : forall (M : mdp) a s s',
  (0 < rowsum M a s -> Pnorm M a s s' == Praw M a s s' / rowsum M a s) /\
  (rowsum M a s == 1 -> Pnorm M a s s' == Praw M a s s').
Proof. exact (fun M a s s' => conj (Pnorm_spec M a s s') (Pnorm_eq_raw_when_row_is_distribution M a s s')). Qed.
Print Assumptions build_ok_entry_close.

(* the backup computed from (P, R) is the functional backup, for every value function *)
Theorem matrix_backup_agrees : forall (M : mdp), succ_in_range M -> forall g v s a, (s < nS M)%nat -> (a < nA M)%nat ->
  Qsa_matrix M (Praw M) (Rexp M) g v s a == Qsa M g v s a.
Proof. exact matrix_backup_agrees_l. Qed.
Print Assumptions matrix_backup_agrees.

(* non-vacuity: two events into the same successor; a defective row *)
Definition c17_M : mdp := of_tables [[[1;1];[0;1]];[[0;0];[1;0]]]%nat [[[1;2];[3;4]];[[0;0];[1;1]]] [[[1#4;3#4];[1#2;1#2]];[[1#2;1#4];[1;0]]].
Example c17_example :
  Qeq_bool (Praw c17_M 0 0 1) 1 = true /\ Qeq_bool (Praw c17_M 0 0 0) 0 = true /\
  build c17_M (1#10000) = BuildError 0 1 /\
  (match build c17_M (1#2) with BuildOk P R => qlist_eqb (nth 0 (nth 0 P []) []) [0; 1] && qlist_eqb (nth 1 (nth 0 P []) []) [1; 0] | _ => false end) = true.
Proof. vm_compute. repeat split; reflexivity. Qed.
