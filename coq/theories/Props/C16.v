(* C16 -- Shipped problems' event probabilities equal the documented distributions.
   PROVED: parameter conversions and the structure of the tables.  VALIDATED, not proved (they cannot
   be: floating-point special functions of third-party libraries): numerical agreement of the
   implementation's complete tables with independently computed ones (scipy / math), within 1e-6. *)
From Coq Require Import QArith List Arith Bool.
From MdpaxV Require Import Proofs.C13P.
Import ListNotations.
Open Scope Q_scope.

(* mean / coefficient of variation -> shape / rate:  shape / rate = mean, shape * cov^2 = 1 *)
Theorem gamma_shape_rate_partial : forall mean cov, 0 < mean -> 0 < cov ->
  let alpha := 1 / (cov * cov) in let beta := 1 / (mean * (cov * cov)) in
  alpha / beta == mean /\ alpha * (cov * cov) == 1.
Proof. exact gamma_shape_rate_l. Qed.
Print Assumptions gamma_shape_rate_partial.

(* success probability n / (n + delta): a negative binomial with that p has mean n (1 - p) / p = delta *)
Theorem negbin_success_prob_partial : forall n delta, 0 < n -> 0 < delta ->
  let p := n / (delta + n) in n * (1 - p) / p == delta /\ 0 < p /\ p < 1.
Proof. exact negbin_success_prob_l. Qed.
Print Assumptions negbin_success_prob_partial.

(* bins: entry d is cdf(d + 1/2) - cdf(d - 1/2), entry 0 is cdf(1/2) - cdf(0); the last bin carries the whole tail *)
Theorem demoor_bins_partial : forall c0 c1 c2 c3, censored_pmf [c0; c1; c2; c3] = [c1 - c0; c2 - c1; (c3 - c2) + (1 - ((c1 - c0) + ((c2 - c1) + ((c3 - c2) + 0))))].
Proof. exact (fun c0 c1 c2 c3 => eq_refl). Qed.
Print Assumptions demoor_bins_partial.

(* logits: reversal puts logit 0 (remaining life 1) on the oldest position and c0_j + c1_j * order on remaining life j + 2 *)
Theorem mirjalili_logit_order_partial : forall c0 c1 a,
  last (mj_logits c0 c1 a) 1 == 0 /\
  forall j, (j < length (combine c0 c1))%nat ->
    nth j (mj_logits c0 c1 a) 0 = (let cc := nth (length (combine c0 c1) - 1 - j) (combine c0 c1) (0, 0) in fst cc + snd cc * a).
Proof. exact (fun c0 c1 a => conj (mj_logits_oldest_is_zero c0 c1 a) (mj_logits_position c0 c1 a)). Qed.
Print Assumptions mirjalili_logit_order_partial.

Theorem forest_fire_table_partial : forall p, 0 <= p <= 1 ->
  (0 <= 1 - p /\ 0 <= p /\ (1 - p) + p == 1) /\ (0 <= 1 /\ 0 <= 0 /\ 1 + 0 == 1).
Proof. exact forest_rows. Qed.
Print Assumptions forest_fire_table_partial.
