(* C16 -- Shipped problems' event probabilities equal the documented distributions.
   PROVED: parameter conversions and the structure of the tables.  VALIDATED, not proved (they cannot
   be: floating-point special functions of third-party libraries): numerical agreement of the
   implementation's complete tables with independently computed ones (scipy / math), within 1e-6. *)
From Coq Require Import QArith List Arith Bool Lia.
From MdpaxV Require Import Model.QFun Model.Hendrix Proofs.C13P Proofs.C16P Proofs.MultinomP Proofs.HendrixP.
From MdpaxGen Require Import GenProbStruct.
Import ListNotations.
Open Scope Q_scope.

(* tie to the source (gen/GenProbStruct.v is regenerated on every run; it accepts exactly the statements around the third-party
   special functions): the conversions, the CDF evaluation points, the folding of the tail and the logit order that the
   theorems of this file and of C13 are about are the ones the code performs *)
Theorem generated_probability_structure :
  (forall cdf, gen_demoor_demand_probabilities cdf = censored_pmf cdf) /\
  (forall D, length (gen_demoor_cdf_points D) = (D + 2)%nat) /\
  (forall pm, gen_mirjalili_demand_probabilities pm = add_last pm (1 - qsum pm)) /\
  (forall c0 c1 a, gen_multinomial_logits c0 c1 a = mj_logits c0 c1 a) /\
  (forall mean cov, 0 < mean -> 0 < cov -> fst (gen_convert_gamma_parameters mean cov) / snd (gen_convert_gamma_parameters mean cov) == mean) /\
  (forall n delta, 0 < n -> 0 < delta -> n * (1 - gen_negbin_p n delta) / gen_negbin_p n delta == delta).
Proof.
  repeat split; try reflexivity.
  - intros D. unfold gen_demoor_cdf_points. cbn [length]. rewrite map_length, seq_length. lia.
  - intros mean cov Hm Hc. exact (proj1 (gamma_shape_rate_l mean cov Hm Hc)).
  - intros n delta Hn Hd. exact (proj1 (negbin_success_prob_l n delta Hn Hd)).
Qed.
Print Assumptions generated_probability_structure.

(* mean / coefficient of variation -> shape / rate:  shape / rate = mean, shape * cov^2 = 1 *)
Theorem gamma_shape_rate_partial : forall mean cov, 0 < mean -> 0 < cov ->
  let alpha := 1 / (cov * cov) in let beta := 1 / (mean * (cov * cov)) in
  alpha / beta == mean /\ alpha * (cov * cov) == 1.
Proof. exact gamma_shape_rate_l. Qed.
Print Assumptions gamma_shape_rate_partial.

(* success probability n / (n + delta): a negative binomial with that p has mean n (1 - p) / p = delta *)
Theorem negbin_success_prob_partial : forall n delta, 0 < n -> 0 < delta ->
  let p := n / (delta + n) in n * (1 - p) / p == delta /\ 0 < p /\ p < 1.
Proof. exact negbin_success_prob_l. Qed.
Print Assumptions negbin_success_prob_partial.

(* bins, EVERY table length (cdf = the cdf at the bin edges 0, 1/2, 3/2, ..., max_demand - 1/2, max_demand + 1/2): entry d
   is cdf[d+1] - cdf[d], i.e. cdf(d + 1/2) - cdf(d - 1/2) (and cdf(1/2) - cdf(0) for d = 0); the last entry carries the whole
   censored tail, 1 - cdf(max_demand - 1/2) + cdf(0) *)
Theorem demoor_bins : forall cdf, (2 <= length cdf)%nat ->
  length (censored_pmf cdf) = (length cdf - 1)%nat /\
  (forall k, (k + 2 < length cdf)%nat -> nth k (censored_pmf cdf) 0 == nth (S k) cdf 0 - nth k cdf 0) /\
  nth (length cdf - 2) (censored_pmf cdf) 0 == 1 - nth (length cdf - 2) cdf 0 + nth 0 cdf 0.
Proof. exact censored_pmf_bins. Qed.
Print Assumptions demoor_bins.

(* the same on a 4-point table, by computation *)
Theorem demoor_bins_partial : forall c0 c1 c2 c3, censored_pmf [c0; c1; c2; c3] = [c1 - c0; c2 - c1; (c3 - c2) + (1 - ((c1 - c0) + ((c2 - c1) + ((c3 - c2) + 0))))].
Proof. exact (fun c0 c1 c2 c3 => eq_refl). Qed.
Print Assumptions demoor_bins_partial.

(* logits: reversal puts logit 0 (remaining life 1) on the oldest position and c0_j + c1_j * order on remaining life j + 2 *)
Theorem mirjalili_logit_order_partial : forall c0 c1 a,
  last (mj_logits c0 c1 a) 1 == 0 /\
  forall j, (j < length (combine c0 c1))%nat ->
    nth j (mj_logits c0 c1 a) 0 = (let cc := nth (length (combine c0 c1) - 1 - j) (combine c0 c1) (0, 0) in fst cc + snd cc * a).
Proof. exact (fun c0 c1 a => conj (mj_logits_oldest_is_zero c0 c1 a) (mj_logits_position c0 c1 a)). Qed.
Print Assumptions mirjalili_logit_order_partial.

Theorem forest_fire_table_partial : forall p, 0 <= p <= 1 ->
  (0 <= 1 - p /\ 0 <= p /\ (1 - p) + p == 1) /\ (0 <= 1 /\ 0 <= 0 /\ 1 + 0 == 1).
Proof. exact forest_rows. Qed.
Print Assumptions forest_fire_table_partial.

(* Hendrix: the four documented cases of (units issued of A, of B) over the oracle tables, as the model computes them
   (Model/Hendrix.v is compared entry by entry with random_event_probability in C13): below both stocks the two demands are
   independent; at the stock of A the whole upper tail of A's demand is collected; at the stock of B the substitution
   table pz takes over *)
Theorem hendrix_cases : forall (pa pb : nat -> Q) bin D sa sb ia ib,
  ((ia < sa)%nat -> (ib < sb)%nat -> hx_prob pa pb bin D sa sb ia ib == pa ia * pb ib) /\
  ((ib < sb)%nat -> hx_prob pa pb bin D sa sb sa ib == (1 - fsum pa sa) * pb ib) /\
  ((ia < sa)%nat -> hx_prob pa pb bin D sa sb ia sb == hx_pz pa pb bin D sb ia).
Proof. exact hx_prob_cases. Qed.
Print Assumptions hendrix_cases.

(* Mirjalili: the received-units law is the multinomial with coefficient = product of binomials = q! / prod r_i!
   (checked against factorials on every composition of 6 into 3 parts) *)
Example mirjalili_coefficient_is_factorial_quotient :
  forallb (fun r => Qeq_bool (mcoef r * inject_Z (Z.of_nat (fold_right (fun k acc => (fact k * acc)%nat) 1%nat r))) (inject_Z (Z.of_nat (fact 6)))) (comps 3 6) = true.
Proof. vm_compute. reflexivity. Qed.
