(* C11 -- A crash at any moment leaves a restorable, untorn, correctly labelled checkpoint.
   Theorems quantify over ALL interleavings of the solver thread, the writer/finalizer thread and
   Crash in the model of Model/Crash.v (which covers synchronous mode as the sub-case where the
   solver never runs while the writer is busy).  The protocol is Orbax's (contract, trusted base);
   the real writer thread and the kernel are sampled by kill experiments, not enumerated. *)
From Coq Require Import List Arith Bool.
From MdpaxV Require Import Model.Crash Model.Solvers Proofs.C11P Proofs.C09P Proofs.LoopP.
From MdpaxGen Require Import GenSave.
Import ListNotations.

(* the tie of the crash model's `todo` list to the code: one call of the public save(step) (GENERATED from
   CheckpointMixin.save) is exactly one CheckpointManager.save(step, StandardSave(self.solver_state)), guarded by
   the enabled flag, and touches the directory in no other way (any other statement fails the translation) *)
Theorem save_is_one_manager_save : save_effects = [EManagerSave] /\ save_guarded_by_enabled = true.
Proof. split; reflexivity. Qed.
Print Assumptions save_is_one_manager_save.

(* after ANY finite execution from a directory satisfying the invariant (the empty one does), whatever
   restore() finds is intact and holds exactly the state the solver had at the iteration it is labelled with *)
Theorem crash_restore_sound : forall (Snap : Type) nleaves, 0 < nleaves -> forall m, 1 <= m -> forall (snap_of : nat -> Snap) c0 c,
  Inv Snap nleaves snap_of c0 -> reach Snap nleaves m c0 c ->
  restore_latest Snap (dk Snap c) = None \/
  exists e, restore_latest Snap (dk Snap c) = Some e /\ e_files Snap e = nleaves /\ e_snap Snap e = snap_of (e_step Snap e).
Proof. exact restore_after_any_execution. Qed.
Print Assumptions crash_restore_sound.

(* never older than the last save whose commit (rename) had executed *)
Theorem crash_restore_recent : forall (Snap : Type) nleaves, 0 < nleaves -> forall m, 1 <= m -> forall (snap_of : nat -> Snap) c0 c k,
  Inv Snap nleaves snap_of c0 -> reach Snap nleaves m c0 c ->
  last_committed Snap c = Some k -> exists e, restore_latest Snap (dk Snap c) = Some e /\ k <= e_step Snap e.
Proof. exact restore_not_older_than_last_commit. Qed.
Print Assumptions crash_restore_recent.

Theorem crash_invariant_initial : forall (Snap : Type) nleaves (snap_of : nat -> Snap) td,
  Forall (fun ks => snd ks = snap_of (fst ks)) td ->
  Inv Snap nleaves snap_of {| todo := td; wr := WIdle Snap; dk := {| committed := []; tmp := None |}; crashed := false; last_committed := None |}.
Proof. exact initial_inv. Qed.
Print Assumptions crash_invariant_initial.

(* crash - restore - continue - crash ... : a restart on whatever directory a crashed run left (stale tmp,
   half-deleted oldest step included) satisfies the invariant again, for any consistent list of further saves *)
Theorem crash_chain : forall (Snap : Type) nleaves (snap_of : nat -> Snap) c td,
  Inv Snap nleaves snap_of c -> Forall (fun ks => snd ks = snap_of (fst ks)) td ->
  Inv Snap nleaves snap_of {| todo := td; wr := WIdle Snap; dk := dk Snap c; crashed := false; last_committed := last_committed Snap c |}.
Proof. exact restart_inv. Qed.
Print Assumptions crash_chain.

Theorem crash_invariant_preserved : forall (Snap : Type) nleaves, 0 < nleaves -> forall m, 1 <= m -> forall (snap_of : nat -> Snap) c c',
  Inv Snap nleaves snap_of c -> step Snap nleaves m c c' -> Inv Snap nleaves snap_of c'.
Proof. exact step_preserves. Qed.
Print Assumptions crash_invariant_preserved.

(* continuing from the restored state reaches the uninterrupted result (C09) *)
Theorem crash_resume_equiv : forall (St : Type) step iter_of finish ckpt freq k1 k2 (st : St),
  let '(s1, c1, _) := loop St step iter_of ckpt freq k1 st [] in
  c1 = false ->
  fst (solve_gen St step iter_of ckpt freq finish k2 s1) = fst (solve_gen St step iter_of ckpt freq finish (k1 + k2) st).
Proof. exact resume_from_snapshot. Qed.
Print Assumptions crash_resume_equiv.

(* the snapshot-at-call-time assumption is load bearing: if the writer read the solver's CURRENT
   state leaf by leaf (e.g. a buffer mutated in place by the next sweep), a checkpoint could mix two
   iterations.  Two leaves, trajectory k |-> (k, k): leaf 1 read at iteration k, leaf 2 at k + 1. *)
Theorem torn_without_snapshot_refuted :
  exists (snap_of : nat -> nat * nat) (k : nat),
    let written := (fst (snap_of k), snd (snap_of (S k))) in forall j, written <> snap_of j.
Proof. exists (fun k => (k, k)), 3. cbv zeta. simpl. intros j H. assert (3 = j) by congruence. assert (4 = j) by congruence. congruence. Qed.
Print Assumptions torn_without_snapshot_refuted.
