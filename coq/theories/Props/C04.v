(* C04 -- Relative value iteration reports the optimal average reward within epsilon.
   the pair gs, hs is ANY solution of the average-reward optimality equation hs + gs = T hs,
   gp, hp ANY solution of hp + gp = T_pi hp (they exist for unichain models; quantifying
   over solutions is how "unichain" enters). *)
From Coq Require Import QArith Qabs List Arith ZArith Bool.
From MdpaxV Require Import Model.ListUtil Model.QFun Model.MDP Model.Bellman Model.Solvers Model.CorrSolve
     Proofs.LoopP Proofs.C01P Proofs.C01RunP Proofs.C04P Proofs.C04RunP Proofs.C04DriftP Proofs.GenRviP.
From MdpaxGen Require Import GenRviStep.
Import ListNotations.
Open Scope Q_scope.

(* tie by translation: the initial gain and the iteration step GENERATED from RelativeValueIteration's source are the
   ones of the solver state machine the theorems below are about (the swept vector up to the canonical form Qred) *)
Theorem generated_rvi_step_is_the_modelled_step : forall V0, r_gain (rvi_init V0) = gen_rvi_initial_gain V0.
Proof. exact gen_rvi_initial_gain_eq. Qed.
Print Assumptions generated_rvi_step_is_the_modelled_step.
Theorem generated_rvi_step_values_and_gain : forall eps (SW : list Q -> list Q) (aux : list Q -> Q) SPAN st,
  let st' := fst (rvi_sweep_step eps SW st) in
  let '(nv, _, gn) := gen_rvi_iteration_step (fun v => (SW v, aux v)) SPAN (r_vals st) (r_gain st) in
  Forall2 Qeq (r_vals st') nv /\ r_gain st' == gn /\ r_iter st' = r_iter st /\ r_pol st' = r_pol st.
Proof. exact gen_rvi_step_eq. Qed.
Print Assumptions generated_rvi_step_values_and_gain.

Theorem gain_bracket : forall (M : mdp), wf M -> forall gs hs h, aroe M gs hs ->
  fmin (fun s => T M 1 h s - h s) (nS M) <= gs <= fmax (fun s => T M 1 h s - h s) (nS M).
Proof. exact gain_bracket_l. Qed.
Print Assumptions gain_bracket.

Theorem policy_gain_bracket : forall (M : mdp), wf M -> forall pi gp hp h, valid_policy M pi -> aroe_pi M pi gp hp ->
  fmin (fun s => Tpi M 1 pi h s - h s) (nS M) <= gp <= fmax (fun s => Tpi M 1 pi h s - h s) (nS M).
Proof. exact policy_gain_bracket_l. Qed.
Print Assumptions policy_gain_bracket.

Theorem policy_gain_le_opt : forall (M : mdp), wf M -> forall pi gp hp gs hs,
  valid_policy M pi -> aroe_pi M pi gp hp -> aroe M gs hs -> gp <= gs.
Proof. exact policy_gain_le_opt_l. Qed.
Print Assumptions policy_gain_le_opt.

(* every run that reports convergence, from any start state whose gain field is the reference
   component of its values (rvi_inv; true of every state after >= 1 iteration and of the fresh solver) *)
Theorem rvi_solve_sound : forall (M : mdp), wf M -> forall eps ckpt freq k st0 st' saves gs hs,
  rvi_inv M st0 -> S_rvi_solve M 1 eps ckpt freq k st0 = (st', true, saves) -> aroe M gs hs ->
  Qabs (r_gain st' - gs) < eps /\
  (forall s, (s < nS M)%nat -> Qabs (T M 1 (qnth (r_vals st')) s - qnth (r_vals st') s - r_gain st') < eps) /\
  (forall pol gp hp, r_pol st' = Some pol -> aroe_pi M (policy_fun pol) gp hp -> gs - eps < gp /\ gp <= gs) /\
  r_gain st' == qnth (r_vals st') (nS M - 1).
Proof. exact rvi_solve_sound_l. Qed.
Print Assumptions rvi_solve_sound.

Theorem rvi_invariant_after_any_step : forall (M : mdp), wf M -> forall eps st,
  rvi_inv M (fst (rvi_step eps (sweep M 1) st)).
Proof. exact rvi_step_inv. Qed.
Print Assumptions rvi_invariant_after_any_step.

(* "stay bounded instead of growing with the number of iterations": the reference component IS the gain estimate
   after every iteration ... *)
Theorem rvi_reference_component_is_gain : forall (M : mdp), wf M -> forall eps j st, (0 < j)%nat ->
  let st' := steps rvist (rvi_step eps (sweep M 1)) j st in
  r_gain st' == qnth (r_vals st') (nS M - 1).
Proof. exact rvi_reference_is_gain. Qed.
Print Assumptions rvi_reference_component_is_gain.

(* ... and, UNIFORMLY in the number of iterations j (converged or not; periodic chains included - no aperiodicity is
   needed for boundedness), for every solution (gs, hs) of the optimality equation: the relative values minus the gain
   estimate stay within w of the bias differences hs - hs(ref), and the gain estimate within w of the optimal gain,
   where w = span(v0 - hs) depends on the initial values only. *)
Theorem rvi_no_drift : forall (M : mdp), wf M -> forall eps gs hs st0, aroe M gs hs -> rvi_inv M st0 ->
  let w := fspan (fun s => qnth (r_vals st0) s - hs s) (nS M) in
  forall j, (0 < j)%nat ->
  let st := steps rvist (rvi_step eps (sweep M 1)) j st0 in
  (forall s, (s < nS M)%nat -> Qabs ((qnth (r_vals st) s - r_gain st) - (hs s - hs (nS M - 1)%nat)) <= w) /\
  Qabs (r_gain st - gs) <= w.
Proof. exact rvi_values_bounded. Qed.
Print Assumptions rvi_no_drift.

(* the fresh solver satisfies the invariant *)
Theorem rvi_fresh_state_invariant : forall (M : mdp) V0, length V0 = nS M -> V0 <> [] -> rvi_inv M (rvi_init V0).
Proof. exact rvi_init_inv. Qed.
Print Assumptions rvi_fresh_state_invariant.

(* non-vacuity: 2-state unichain aperiodic MDP with explicit optimal gain 3/2 and bias (0, 1); a converged run *)
Definition c04_M : mdp := of_tables [[[0;1]];[[0;1]]]%nat [[[1;1]];[[2;2]]] [[[1#2;1#2]];[[1#2;1#2]]].
Example c04_example :
  wf_b c04_M = true /\
  qlist_eqb (map (fun x => x - (3#2)) (sweep c04_M 1 [0; 1])) [0; 1] = true /\
  (let '(st, conv, _) := S_rvi_solve c04_M 1 (1#100) false 1 20 (rvi_init [0;0]) in (conv, r_gain st)) = (true, 3#2).
Proof. vm_compute. repeat split; reflexivity. Qed.
(* the uniform bound is meaningful there: from v0 = (5, -3), w = span(v0 - hs) = 9 and after 1, 2, 7, 30 iterations the
   relative values are (v - gain) = (-1, 0) = hs - hs(ref) exactly and |gain - 3/2| <= 9 *)
Example c04_drift_example :
  map (fun j => let st := steps rvist (rvi_step (1#100) (sweep c04_M 1)) j (rvi_init [5; -3]) in
                (map (fun x => Qred (x - r_gain st)) (r_vals st), Qle_bool (Qabs (r_gain st - (3#2))) (9#1)))
      [1; 2; 7; 30]%nat = repeat ([-1; 0], true) 4.
Proof. vm_compute. reflexivity. Qed.

(* ---------- ties by translation (re-stated here so that THIS property's obligations break when the source they speak about
   changes shape): gen/GenKernel.v and gen/GenLoops.v are regenerated from $VERIF_REPO/src on every run *)
From MdpaxV Require Import Model.Skeleton Model.Kernel Model.KernelOps Proofs.SkeletonP Proofs.GenKernelP.
From MdpaxGen Require Import GenLoops GenKernel.

(* the one-state update GENERATED from ValueIteration._calculate_updated_value (expectation over the event space with the
   problem's own probabilities, maximum over the action space) is the Bellman optimality backup the theorems above use *)
Theorem c04_generated_update_is_bellman_backup : forall (M : mdp) st g V, (0 < nA M)%nat ->
  gen_calculate_updated_value (prims_of M) st (seq 0 (nA M)) (seq 0 (nE M)) g V = backup M g V st.
Proof. exact gen_updated_value_is_backup. Qed.
Print Assumptions c04_generated_update_is_bellman_backup.

(* each solve() whose result this property speaks about = the interpretation of the skeleton translated from ITS source
   (one step per pass, the stopping test, the periodic and the final save, the policy extraction) *)
Theorem c04_rvi_solve_follows_source : forall eps SW POL ckpt freq k st,
  rvi_solve eps SW POL ckpt freq k st =
  run_skel rvist rvi_incr (rvi_sweep_step eps SW) r_iter (rvi_finish POL true) (fun s => s) ckpt freq rvi_skel k st.
Proof. exact rvi_solve_is_skeleton. Qed.
Print Assumptions c04_rvi_solve_follows_source.
