(* C06 -- The semi-asynchronous sweep is block Gauss-Seidel in the documented order.
   gs_op parts = the block Gauss-Seidel operator of a partition devices x batches x states
   (Model/GaussSeidel.v); sa_device = the code-shaped per-device scan (Model/SemiAsync.v). *)
From Coq Require Import QArith Qabs List Arith ZArith Bool Permutation.
From MdpaxV Require Import Model.ListUtil Model.QFun Model.MDP Model.Bellman Model.Batching Model.Kernel Model.SemiAsync
     Model.GaussSeidel Proofs.ContractionP Proofs.C01P Proofs.GaussSeidelP Proofs.C06P Proofs.C06DeviceP Proofs.C06CompP Proofs.C01GsP.
From MdpaxGen Require Import GenSemiAsync.
Import ListNotations.
Open Scope Q_scope.

(* the tie of Model/SemiAsync.sa_batch to the code: the scan body GENERATED from the source makes exactly the choices
   the model transliterates - positional carry with the value vector last, the batch backed up against the CARRIED
   vector, scatter indices looked up per state row, padding slots rewriting the current entry, outputs = the new
   batch values (any other statement in scan_fn fails the translation) *)
Theorem scan_body_is_the_modelled_one :
  scan_carry = [CActions; CEvents; CGamma; CValues] /\ scan_backup_input = FromCarriedValues /\
  scan_index_source = IdxStateLookup /\ scan_masked_write = PaddingKeepsCurrent /\ scan_output = NewBatchValues.
Proof. repeat split; reflexivity. Qed.
Print Assumptions scan_body_is_the_modelled_one.

(* THE PROPERTY, full strength, about the code-shaped sweep `savi_sweep` (permute, pad with the all-zero row,
   reshape into devices x batches x slots by the GENERATED layout, per-device scan whose carried vector is
   updated by a masked scatter, un-batch, undo the permutation): for every MDP, every layout (n_states,
   max_batch_size >= 1, devices >= 1), every update order that is a permutation of the states (the fixed order
   when sigma = None), every resolution of duplicate scatter indices, every padding value and every index
   assigned to the padding row, the sweep returns one value per state, in natural order, and that value is the
   block Gauss-Seidel update for the partition the layout induces on the order: T applied to the vector in
   which exactly the states of earlier batches OF THE SAME DEVICE are already updated. *)
Theorem savi_sweep_is_block_gauss_seidel : forall (M : mdp), wf M ->
  forall (g : Q) (zidx : nat) (pad_wins : bool) (padval : Q) (n mb d : Z),
  n = Z.of_nat (nS M) -> (1 <= n)%Z -> (1 <= mb)%Z -> (1 <= d)%Z ->
  forall order, Permutation order (seq 0 (nS M)) ->
  forall (sigma : option (list nat)) (V : list Q),
  order = match sigma with Some s => s | None => seq 0 (nS M) end -> (length V = nS M)%nat ->
  (length (savi_sweep M n mb d zidx pad_wins padval sigma g V) = nS M)%nat /\
  forall s, (s < nS M)%nat ->
    qnth (savi_sweep M n mb d zidx pad_wins padval sigma g V) s == gs_op M g (parts_of n mb d order) (qnth V) s.
Proof. exact savi_sweep_is_gs_op. Qed.
Print Assumptions savi_sweep_is_block_gauss_seidel.

(* the induced partition is a partition: every state in exactly one batch of exactly one device *)
Theorem savi_partition_is_partition : forall (M : mdp) (n mb d : Z),
  n = Z.of_nat (nS M) -> (1 <= n)%Z -> (1 <= mb)%Z -> (1 <= d)%Z ->
  forall order, Permutation order (seq 0 (nS M)) ->
  covers (parts_of n mb d order) (nS M) /\
  Forall (fun dev => NoDup (concat dev)) (parts_of n mb d order) /\
  disjoint_devices (parts_of n mb d order).
Proof.
  exact (fun M n mb d Hn H1 H2 H3 order HP =>
    conj (parts_cover M n mb d Hn H1 H2 H3 order HP)
      (conj (parts_nodup M n mb d Hn H1 H2 H3 order HP) (parts_disjoint M n mb d Hn H1 H2 H3 order HP))).
Qed.
Print Assumptions savi_partition_is_partition.

(* the documented max_diff stopping rule evaluated ON THE CODE-SHAPED SWEEP gives the value bound *)
Theorem savi_sweep_maxdiff_bound : forall (M : mdp) (g : Q), wf M -> 0 < g -> g < 1 ->
  forall Vs, fixedpt (nS M) (T M g) Vs ->
  forall eps zidx pad_wins padval n mb d, n = Z.of_nat (nS M) -> (1 <= n)%Z -> (1 <= mb)%Z -> (1 <= d)%Z ->
  forall order, Permutation order (seq 0 (nS M)) ->
  forall sigma V, order = match sigma with Some s => s | None => seq 0 (nS M) end -> (length V = nS M)%nat ->
  fmaxabs (fun s => qnth (savi_sweep M n mb d zidx pad_wins padval sigma g V) s - qnth V s) (nS M) < thr g eps ->
  forall s, (s < nS M)%nat -> Qabs (qnth (savi_sweep M n mb d zidx pad_wins padval sigma g V) s - Vs s) < eps.
Proof. exact savi_sweep_maxdiff_value_bound. Qed.
Print Assumptions savi_sweep_maxdiff_bound.

(* the per-device half on its own (used by the composition above) *)
Theorem savi_device_scan_is_block_gs : forall (M : mdp), wf M -> forall g zidx pad_wins padval bs cur f,
  length cur = nS M -> (forall t, (t < nS M)%nat -> qnth cur t == f t) ->
  suffix_ok bs -> (forall s, In s (reals (concat bs)) -> (s < nS M)%nat) -> NoDup (reals (concat bs)) ->
  lleq (sa_device M zidx pad_wins padval g cur bs) (gs_outputs M g padval bs f).
Proof. exact sa_device_is_gs. Qed.
Print Assumptions savi_device_scan_is_block_gs.

(* batches after the last real state are all padding and output only padding *)
Theorem savi_padding_batches_inert : forall (M : mdp) zidx pad_wins padval g bs cur,
  forallb all_none bs = true -> sa_device M zidx pad_wins padval g cur bs = map (map (fun _ => padval)) bs.
Proof. exact sa_device_all_none. Qed.
Print Assumptions savi_padding_batches_inert.

(* undoing the permutation: values[argsort sigma] puts state i's value at position i *)
Theorem savi_natural_order : forall (f : nat -> Q) sigma n, Permutation sigma (seq 0 n) ->
  map (fun i => qnth (map f sigma) (pos_of i sigma)) (seq 0 n) = map f (seq 0 n).
Proof. exact reorder_natural. Qed.
Print Assumptions savi_natural_order.

(* for EVERY partition that covers the states: gamma-contraction (one-sided form, shifts d >= 0) *)
Theorem gs_contraction : forall (M : mdp) (g : Q), wf M -> 0 <= g -> g <= 1 -> forall parts,
  covers parts (nS M) -> onesided_pos (nS M) g (gs_op M g parts).
Proof. exact gs_op_onesided_pos. Qed.
Print Assumptions gs_contraction.

(* ... and the same fixed points as synchronous value iteration *)
Theorem gs_fixed_point_of_T : forall (M : mdp) (g : Q), wf M -> forall parts w,
  fixedpt (nS M) (T M g) w -> fixedpt (nS M) (gs_op M g parts) w.
Proof. exact gs_op_fixed. Qed.
Print Assumptions gs_fixed_point_of_T.
Theorem gs_fixed_point_only_of_T : forall (M : mdp) (g : Q), wf M -> forall parts V,
  covers parts (nS M) -> Forall (fun dev => NoDup (concat dev)) parts -> disjoint_devices parts ->
  fixedpt (nS M) (gs_op M g parts) V -> fixedpt (nS M) (T M g) V.
Proof. exact gs_op_fixed_conv. Qed.
Print Assumptions gs_fixed_point_only_of_T.

(* hence the documented max_diff stopping rule gives the C01 bounds for every partition / permutation *)
Theorem savi_maxdiff_bounds : forall (M : mdp) (g : Q), wf M -> 0 < g -> g < 1 ->
  forall Vs, fixedpt (nS M) (T M g) Vs -> forall eps parts, covers parts (nS M) ->
  forall V, fmaxabs (fun s => gs_op M g parts V s - V s) (nS M) < thr g eps ->
  (forall s, (s < nS M)%nat -> Qabs (gs_op M g parts V s - Vs s) < eps) /\
  (forall pi vpi, valid_policy M pi -> greedy_for M g pi (gs_op M g parts V) -> fixedpt (nS M) (Tpi M g pi) vpi ->
     forall s, (s < nS M)%nat -> 0 <= Vs s - vpi s < 2 * g * eps / (1 - g)).
Proof.
  exact (fun M g WF g0 g1 Vs HVs eps parts HC V H =>
    conj (savi_maxdiff_value_bound_l M g WF g0 g1 Vs HVs eps parts HC V H)
         (fun pi vpi => savi_maxdiff_policy_bound_l M g WF g0 g1 Vs HVs eps parts HC V pi vpi H)).
Qed.
Print Assumptions savi_maxdiff_bounds.

(* non-vacuity: 3 states, batches {0,1} then {2} on one device: second batch sees the first's updates *)
Definition c06_M : mdp := of_tables [[[1]];[[2]];[[0]]]%nat [[[1]];[[2]];[[4]]] [[[1]];[[1]];[[1]]].
Example c06_example :
  savi_sweep c06_M 3 2 1 0%nat true (9#1) None (1#2) [0;0;0] = [1; 2; 9#2] /\
  map (fun s => Qred (gs_op c06_M (1#2) [[[0;1]%nat;[2]%nat]] (qnth [0;0;0]) s)) [0;1;2]%nat = [1; 2; 9#2] /\
  savi_sweep c06_M 3 2 1 0%nat false (9#1) (Some [2;0;1]%nat) (1#2) [0;0;0] = [1; 4; 4] /\
  map (fun s => Qred (gs_op c06_M (1#2) [[[2;0]%nat;[1]%nat]] (qnth [0;0;0]) s)) [0;1;2]%nat = [1; 4; 4].
Proof. vm_compute. repeat split; reflexivity. Qed.
(* the partition the layout induces: 5 states, batch size 2 on one device; 7 states on 2 devices (64-minimum does not
   apply below max_batch_size), and a permuted order *)
Example c06_parts_example :
  parts_of 5 2 1 (seq 0 5) = [[[0;1];[2;3];[4]]]%nat /\
  parts_of 7 2 2 (seq 0 7) = [[[0;1];[2;3]];[[4;5];[6]]]%nat /\
  parts_of 3 2 1 [2;0;1]%nat = [[[2;0];[1]]]%nat.
Proof. vm_compute. repeat split; reflexivity. Qed.

(* ---------- ties by translation (re-stated here so that THIS property's obligations break when the source they speak about
   changes shape): gen/GenKernel.v and gen/GenLoops.v are regenerated from $VERIF_REPO/src on every run *)
From MdpaxV Require Import Model.Skeleton Model.Kernel Model.KernelOps Model.Solvers Proofs.SkeletonP Proofs.GenKernelP.
From MdpaxGen Require Import GenLoops GenKernel.

(* the one-state update GENERATED from ValueIteration._calculate_updated_value (expectation over the event space with the
   problem's own probabilities, maximum over the action space) is the Bellman optimality backup the theorems above use *)
Theorem c06_generated_update_is_bellman_backup : forall (M : mdp) st g V, (0 < nA M)%nat ->
  gen_calculate_updated_value (prims_of M) st (seq 0 (nA M)) (seq 0 (nE M)) g V = backup M g V st.
Proof. exact gen_updated_value_is_backup. Qed.
Print Assumptions c06_generated_update_is_bellman_backup.

(* each solve() whose result this property speaks about = the interpretation of the skeleton translated from ITS source
   (one step per pass, the stopping test, the periodic and the final save, the policy extraction) *)
Theorem c06_savi_solve_follows_source : forall M g eps POL n mb d zidx pw pv perm t ckpt freq k st,
  savi_solve M g eps POL n mb d zidx pw pv perm t ckpt freq k st =
  run_skel savist savi_incr (savi_sweep_step M g eps n mb d zidx pw pv perm t) s_iter (savi_finish POL true) (fun s => s) ckpt freq savi_skel k st.
Proof. exact savi_solve_is_skeleton. Qed.
Print Assumptions c06_savi_solve_follows_source.
