(* C06 -- The semi-asynchronous sweep is block Gauss-Seidel in the documented order.
   gs_op parts = the block Gauss-Seidel operator of a partition devices x batches x states
   (Model/GaussSeidel.v); sa_device = the code-shaped per-device scan (Model/SemiAsync.v). *)
From Coq Require Import QArith Qabs List Arith ZArith Bool Permutation.
From MdpaxV Require Import Model.ListUtil Model.QFun Model.MDP Model.Bellman Model.Batching Model.Kernel Model.SemiAsync
     Model.GaussSeidel Proofs.ContractionP Proofs.C01P Proofs.GaussSeidelP Proofs.C06P Proofs.C06DeviceP Proofs.C01GsP.
Import ListNotations.
Open Scope Q_scope.

(* PARTIAL (what is proved): the scan of ONE device -- carried vector, masked scatter, padding
   rows, any resolution order of duplicate scatter indices -- outputs exactly the block
   Gauss-Seidel values: a real slot of batch k gets T applied to the vector in which the states
   of batches < k of this device are already updated; padding slots never influence a real one.
   (what is missing: composing this with the positions of prepare/unbatch across devices into one
   statement about savi_sweep; the two halves are C18.prepare_places_in_order / unbatch_any_result
   and reorder_natural below, and the composition is exercised exactly by the correspondence.) *)
Theorem savi_device_scan_is_block_gs_partial : forall (M : mdp), wf M -> forall g zidx pad_wins padval bs cur f,
  length cur = nS M -> (forall t, (t < nS M)%nat -> qnth cur t == f t) ->
  suffix_ok bs -> (forall s, In s (reals (concat bs)) -> (s < nS M)%nat) -> NoDup (reals (concat bs)) ->
  lleq (sa_device M zidx pad_wins padval g cur bs) (gs_outputs M g padval bs f).
Proof. exact sa_device_is_gs. Qed.
Print Assumptions savi_device_scan_is_block_gs_partial.

(* batches after the last real state are all padding and output only padding *)
Theorem savi_padding_batches_inert : forall (M : mdp) zidx pad_wins padval g bs cur,
  forallb all_none bs = true -> sa_device M zidx pad_wins padval g cur bs = map (map (fun _ => padval)) bs.
Proof. exact sa_device_all_none. Qed.
Print Assumptions savi_padding_batches_inert.

(* undoing the permutation: values[argsort sigma] puts state i's value at position i *)
Theorem savi_natural_order : forall (f : nat -> Q) sigma n, Permutation sigma (seq 0 n) ->
  map (fun i => qnth (map f sigma) (pos_of i sigma)) (seq 0 n) = map f (seq 0 n).
Proof. exact reorder_natural. Qed.
Print Assumptions savi_natural_order.

(* for EVERY partition that covers the states: gamma-contraction (one-sided form, shifts d >= 0) *)
Theorem gs_contraction : forall (M : mdp) (g : Q), wf M -> 0 <= g -> g <= 1 -> forall parts,
  covers parts (nS M) -> onesided_pos (nS M) g (gs_op M g parts).
Proof. exact gs_op_onesided_pos. Qed.
Print Assumptions gs_contraction.

(* ... and the same fixed points as synchronous value iteration *)
Theorem gs_fixed_point_of_T : forall (M : mdp) (g : Q), wf M -> forall parts w,
  fixedpt (nS M) (T M g) w -> fixedpt (nS M) (gs_op M g parts) w.
Proof. exact gs_op_fixed. Qed.
Print Assumptions gs_fixed_point_of_T.
Theorem gs_fixed_point_only_of_T : forall (M : mdp) (g : Q), wf M -> forall parts V,
  covers parts (nS M) -> Forall (fun dev => NoDup (concat dev)) parts -> disjoint_devices parts ->
  fixedpt (nS M) (gs_op M g parts) V -> fixedpt (nS M) (T M g) V.
Proof. exact gs_op_fixed_conv. Qed.
Print Assumptions gs_fixed_point_only_of_T.

(* hence the documented max_diff stopping rule gives the C01 bounds for every partition / permutation *)
Theorem savi_maxdiff_bounds : forall (M : mdp) (g : Q), wf M -> 0 < g -> g < 1 ->
  forall Vs, fixedpt (nS M) (T M g) Vs -> forall eps parts, covers parts (nS M) ->
  forall V, fmaxabs (fun s => gs_op M g parts V s - V s) (nS M) < thr g eps ->
  (forall s, (s < nS M)%nat -> Qabs (gs_op M g parts V s - Vs s) < eps) /\
  (forall pi vpi, valid_policy M pi -> greedy_for M g pi (gs_op M g parts V) -> fixedpt (nS M) (Tpi M g pi) vpi ->
     forall s, (s < nS M)%nat -> 0 <= Vs s - vpi s < 2 * g * eps / (1 - g)).
Proof.
  exact (fun M g WF g0 g1 Vs HVs eps parts HC V H =>
    conj (savi_maxdiff_value_bound_l M g WF g0 g1 Vs HVs eps parts HC V H)
         (fun pi vpi => savi_maxdiff_policy_bound_l M g WF g0 g1 Vs HVs eps parts HC V pi vpi H)).
Qed.
Print Assumptions savi_maxdiff_bounds.

(* non-vacuity: 3 states, batches {0,1} then {2} on one device: second batch sees the first's updates *)
Definition c06_M : mdp := of_tables [[[1]];[[2]];[[0]]]%nat [[[1]];[[2]];[[4]]] [[[1]];[[1]];[[1]]].
Example c06_example :
  savi_sweep c06_M 3 2 1 0%nat true (9#1) None (1#2) [0;0;0] = [1; 2; 9#2] /\
  map (fun s => Qred (gs_op c06_M (1#2) [[[0;1]%nat;[2]%nat]] (qnth [0;0;0]) s)) [0;1;2]%nat = [1; 2; 9#2] /\
  savi_sweep c06_M 3 2 1 0%nat false (9#1) (Some [2;0;1]%nat) (1#2) [0;0;0] = [1; 4; 4] /\
  map (fun s => Qred (gs_op c06_M (1#2) [[[2;0]%nat;[1]%nat]] (qnth [0;0;0]) s)) [0;1;2]%nat = [1; 4; 4].
Proof. vm_compute. repeat split; reflexivity. Qed.
