(* C05 -- Policy iteration: evaluation is accurate and termination means policy stability. *)
From Coq Require Import QArith Qabs List Arith ZArith Bool.
From MdpaxV Require Import Model.ListUtil Model.QFun Model.MDP Model.Bellman Model.Batching Model.Kernel Model.Solvers
     Model.KernelOps Proofs.ContractionP Proofs.LoopP Proofs.C01P Proofs.C01RunP Proofs.C02P Proofs.C05P Proofs.GenKernelP Proofs.GenPiEvalP Proofs.GenPiStepP Model.PolicyOps Model.Skeleton Proofs.SkeletonP.
From MdpaxGen Require Import GenKernel GenPiEval GenThreshold GenPiStep GenLoops.
Import ListNotations.
Open Scope Q_scope.

(* tie by translation: the evaluation sweep GENERATED from PolicyIteration._calculate_policy_value_state_batch /
   _calculate_policy_values_scan_state_batches (policy action gathered by state index, two-argument vmap) backs up every
   state of every batch under that state's own policy action with the generated (= modelled) state-action kernel *)
Theorem generated_policy_evaluation_sweep : forall (M : mdp) actions events g V pol batches,
  gen_calculate_policy_values_scan_state_batches (prims_of M) (actions, events, g, V, pol) batches =
  map (map (fun st => k_state_action_value M st (nth st pol 0%nat) events g V)) batches.
Proof. exact gen_policy_values_scan_eq. Qed.
Print Assumptions generated_policy_evaluation_sweep.

(* the evaluation LOOP generated from _evaluate_policy (budget, sweep, test, break before the assignment - the pre-update
   iterate is returned when the test passes - and the choice of the starting vector) is the eval_loop of the state machine *)
Theorem generated_evaluation_loop_is_the_modelled_loop : forall g eps (EV : list nat -> list Q -> list Q) t k P vals,
  gen_evaluate_policy (EV P) (measure t) (vi_threshold t g eps) k vals = fst (eval_loop g eps EV t k P vals).
Proof. exact gen_evaluate_policy_eq. Qed.
Print Assumptions generated_evaluation_loop_is_the_modelled_loop.
Theorem generated_evaluation_start : forall reset V0 vals, gen_eval_start reset V0 vals None = (if reset then V0 else vals).
Proof. exact gen_eval_start_eq. Qed.
Print Assumptions generated_evaluation_start.

(* "stops before the limit only when an improvement step changes no state's action vector in ANY component": the changed-state
   count GENERATED from _iteration_step (operator by operator: !=, any along axis 1, sum) is zero exactly when the new policy
   equals the old one as a matrix of action vectors - for every number of states and every action dimension *)
Theorem generated_changed_count_zero_iff_policy_unchanged : forall new old,
  Forall2 (fun a b => length a = length b) new old -> (gen_pi_n_changed new old = 0%nat <-> new = old).
Proof. exact gen_pi_n_changed_zero_iff. Qed.
Print Assumptions generated_changed_count_zero_iff_policy_unchanged.

(* one evaluation step, for EVERY layout and whatever the padded rows look up *)
Theorem eval_step_spec : forall (M : mdp) (g : Q) (V : list Q) (n mb d : Z),
  n = Z.of_nat (nS M) -> (0 < nS M)%nat -> (0 < nA M)%nat -> (1 <= mb)%Z -> (1 <= d)%Z ->
  forall zidx padval P, kernel_eval M n mb d zidx padval g P V = sweep_pi M g P V.
Proof. exact kernel_eval_eq_L. Qed.
Print Assumptions eval_step_spec.

Theorem eval_step_is_expected_value_under_own_action : forall (M : mdp) (g : Q) P V s, (s < nS M)%nat ->
  qnth (sweep_pi M g P V) s ==
  fsum (fun e => prb M s (nth s P 0%nat) e * (rew M s (nth s P 0%nat) e + g * qnth V (nxt M s (nth s P 0%nat) e))) (nE M).
Proof. exact eval_step_is_policy_backup. Qed.
Print Assumptions eval_step_is_expected_value_under_own_action.

(* returns the pre-update iterate on a passed test, the last iterate on an exhausted budget *)
Theorem eval_returns_preupdate : forall (M : mdp) (g eps : Q) t k P v0 vals ok,
  eval_loop g eps (sweep_pi M g) t k P v0 = (vals, ok) ->
  exists j, (j <= k)%nat /\ vals = ev_iter M g P j v0 /\
    (forall i, (i < j)%nat -> ~ measure t (ev_iter M g P (S i) v0) (ev_iter M g P i v0) < vi_threshold t g eps) /\
    (ok = true -> measure t (sweep_pi M g P vals) vals < vi_threshold t g eps) /\
    (ok = false -> j = k).
Proof. exact eval_loop_shape. Qed.
Print Assumptions eval_returns_preupdate.

Theorem eval_maxdiff_bound : forall (M : mdp) (g eps : Q), wf M -> 0 < g -> g < 1 ->
  forall k P v0 vals vpi, length v0 = nS M -> (forall s, (s < nS M)%nat -> (nth s P 0 < nA M)%nat) ->
  eval_loop g eps (sweep_pi M g) MaxDiff k P v0 = (vals, true) ->
  fixedpt (nS M) (Tpi M g (policy_fun P)) vpi ->
  forall s, (s < nS M)%nat -> Qabs (qnth vals s - vpi s) < eps / g.
Proof. exact eval_maxdiff_accurate. Qed.
Print Assumptions eval_maxdiff_bound.

(* tie by translation: PolicyIteration.solve() is the GENERATED skeleton (gen/GenLoops.v, regenerated from the source on every
   run): one improvement step per pass, the result assigned at once, the loop left exactly when the step's changed-state COUNT
   is zero (`SBreakIf CNoChange`: the translator accepts `n_changed == 0` and nothing else - not a rounded fraction of the
   states), a save every checkpoint_frequency iterations and one at the end.  pi_stops_iff_stable below is about this loop *)
Theorem generated_policy_iteration_loop_is_the_modelled_loop : forall g eps POL EV t me reset V0 ckpt freq k st,
  pi_solve g eps POL EV t me reset V0 ckpt freq k st =
  run_skel pist pi_incr (pi_improve_step g eps POL EV t me reset V0) pi_iter (fun s => s) (fun s => s) ckpt freq pi_skel k st.
Proof. exact pi_solve_is_skeleton. Qed.
Print Assumptions generated_policy_iteration_loop_is_the_modelled_loop.

Theorem pi_stops_iff_stable : forall (M : mdp) (g eps : Q) t me reset V0 ckpt freq k st st' conv saves,
  length (pi_pol st) = nS M ->
  S_pi_solve M g eps t me reset V0 ckpt freq k st = (st', conv, saves) ->
  exists j, (j <= k)%nat /\ pi_iter st' = (pi_iter st + j)%nat /\
    (conv = true -> (0 < j)%nat /\ exists prev, pi_pol st' = pi_pol prev /\
         st' = fst (pi_step g eps (policy_of M g) (sweep_pi M g) t me reset V0 prev)) /\
    (conv = false -> j = k /\ forall i, (i < k)%nat ->
         let prev := steps pist (pi_step g eps (policy_of M g) (sweep_pi M g) t me reset V0) i st in
         pi_pol (fst (pi_step g eps (policy_of M g) (sweep_pi M g) t me reset V0 prev)) <> pi_pol prev).
Proof. exact pi_stops_iff_stable_l. Qed.
Print Assumptions pi_stops_iff_stable.

Theorem pi_returned_policy_greedy : forall (M : mdp) (g eps : Q) t me reset V0 st,
  let st' := fst (pi_step g eps (policy_of M g) (sweep_pi M g) t me reset V0 st) in
  pi_pol st' = policy_of M g (pi_vals st').
Proof. exact pi_policy_greedy_after_step. Qed.
Print Assumptions pi_returned_policy_greedy.

Theorem pi_first_policy : forall (M : mdp) (g : Q), wf M ->
  (forall ip V0, pi_pol (S_pi_init M g (Some ip) V0) = ip) /\
  (forall V0 s, (s < nS M)%nat ->
     nth s (pi_pol (S_pi_init M g None V0)) 0%nat = fargmax (fun a => Qsa M g (fun _ => 0) s a) (nA M) /\
     forall a, (a < nA M)%nat -> Qsa M g (fun _ => 0) s a == fsum (fun e => prb M s a e * rew M s a e) (nE M)).
Proof. exact (fun M g WF => conj (pi_first_policy_given M g) (pi_first_policy_default M g WF)). Qed.
Print Assumptions pi_first_policy.

Theorem pi_reset_option : forall (M : mdp) (g eps : Q) t me V0 st,
  (fst (pi_step g eps (policy_of M g) (sweep_pi M g) t me true V0 st)) =
  (let '(vals, ok) := eval_loop g eps (sweep_pi M g) t me (pi_pol st) V0 in
   {| pi_vals := vals; pi_pol := policy_of M g vals; pi_iter := S (pi_iter st); pi_last_eval_converged := ok |}) /\
  (fst (pi_step g eps (policy_of M g) (sweep_pi M g) t me false V0 st)) =
  (let '(vals, ok) := eval_loop g eps (sweep_pi M g) t me (pi_pol st) (pi_vals st) in
   {| pi_vals := vals; pi_pol := policy_of M g vals; pi_iter := S (pi_iter st); pi_last_eval_converged := ok |}).
Proof. exact pi_reset_start. Qed.
Print Assumptions pi_reset_option.
