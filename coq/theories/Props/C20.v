(* C20 -- Configuration contract.  Validators, thresholds, number format and the facts about the
   construction code are all TRANSLATED from the source on every run. *)
From Coq Require Import QArith ZArith List String Bool.
From MdpaxV Require Import Model.Config Model.Solvers Proofs.C20P Proofs.C08P.
From MdpaxGen Require Import GenValidators GenThreshold GenRoutes.
Import ListNotations.
Open Scope Q_scope.

(* ---------- the nine validators accept exactly the documented domains *)
Theorem validate_vi_iff_domain : forall c, validate_vi c = None <-> vi_domain c.
Proof. exact validate_vi_iff. Qed.
Print Assumptions validate_vi_iff_domain.
Theorem validate_pi_iff_domain : forall c, validate_pi c = None <-> pi_domain c.
Proof. exact validate_pi_iff. Qed.
Print Assumptions validate_pi_iff_domain.
Theorem validate_rvi_iff_domain : forall c, validate_rvi c = None <-> rvi_domain c.
Proof. exact validate_rvi_iff. Qed.
Print Assumptions validate_rvi_iff_domain.
Theorem validate_pvi_iff_domain : forall c, validate_pvi c = None <-> pvi_domain c.
Proof. exact validate_pvi_iff. Qed.
Print Assumptions validate_pvi_iff_domain.
Theorem validate_savi_iff_domain : forall c, validate_savi c = None <-> savi_domain c.
Proof. exact validate_savi_iff. Qed.
Print Assumptions validate_savi_iff_domain.
Theorem validate_forest_iff_domain : forall c, validate_forest c = None <-> forest_domain c.
Proof. exact validate_forest_iff. Qed.
Print Assumptions validate_forest_iff_domain.
Theorem validate_demoor_iff_domain : forall c, validate_demoor c = None <-> demoor_domain c.
Proof. exact validate_demoor_iff. Qed.
Print Assumptions validate_demoor_iff_domain.
Theorem validate_hendrix_iff_domain : forall c, validate_hendrix c = None <-> hendrix_domain c.
Proof. exact validate_hendrix_iff. Qed.
Print Assumptions validate_hendrix_iff_domain.
Theorem validate_mirjalili_iff_domain : forall c, validate_mirjalili c = None <-> mirjalili_domain c.
Proof. exact validate_mirjalili_iff. Qed.
Print Assumptions validate_mirjalili_iff_domain.

Theorem rejected_with_documented_error_class : forall c e, validate_vi c = Some e -> e = VValueError \/ e = VTypeError.
Proof. exact validate_vi_error_class. Qed.
Print Assumptions rejected_with_documented_error_class.

(* ---------- thresholds are defined for every accepted (gamma, epsilon) with gamma <> 0
   (gamma = 0 divides by zero: IEEE gives +infinity, which is outside this rational model; the
   implementation then stops after the first sweep, which is exact for gamma = 0 -- checked by execution) *)
Theorem threshold_total_partial : forall t g eps, ~ g == 0 ->
  (~ g == 1 -> vi_threshold t g eps == eps * (1 - g) / g) /\ (g == 1 -> vi_threshold t g eps == eps).
Proof. exact (fun t g eps _ => conj (threshold_vi_discounted t g eps) (threshold_vi_undiscounted t g eps)). Qed.
Print Assumptions threshold_total_partial.

(* ---------- the number format is valid for EVERY threshold magnitude k = floor(log10 threshold) *)
Theorem format_wellformed : forall k maxd : Z, (0 <= maxd)%Z -> (0 <= fmt_decimals k maxd <= maxd)%Z.
Proof. exact format_wellformed_l. Qed.
Print Assumptions format_wellformed.
Theorem format_nonfinite_threshold_handled : fmt_nonfinite_handled = true /\ (0 <= fmt_nonfinite_decimals)%Z.
Proof. exact (conj eq_refl (Z.le_refl 0)). Qed.
Print Assumptions format_nonfinite_threshold_handled.

(* ---------- the three construction routes build the same configuration *)
Theorem routes_agree : forall (C : Type) (cfg : C) r, construct r cfg = Built cfg.
Proof. exact (fun C cfg r => match r with RKwargsWithInstance => eq_refl | RConfigOnly => eq_refl | RYamlReload => eq_refl end). Qed.
Print Assumptions routes_agree.

(* ---------- 64-bit mode is switched on BEFORE the discount-factor array is created (otherwise the first solver of
   a process would compute with a discount factor rounded to single precision although the values are float64) *)
Theorem discount_factor_not_rounded : x64_enabled_before_gamma_array = true.
Proof. exact eq_refl. Qed.
Print Assumptions discount_factor_not_rounded.

(* ---------- with double precision requested the values are float64 in both construction orders *)
Theorem precision_order_independent : forall o, values_dtype true o = F64.
Proof. exact (fun o => match o with ProblemFirst => eq_refl | SolverFirst => eq_refl end). Qed.
Print Assumptions precision_order_independent.
