(* C18 -- Batching places every state exactly once and round-trips losslessly.
   Statements only; every proof is `exact <lemma>`.  All statements are about
   the definitions GENERATED from src/mdpax/utils/batch_processing.py. *)
From Coq Require Import List Arith ZArith Bool.
From MdpaxV Require Import Model.ListUtil Model.Batching Proofs.C18P.
From MdpaxGen Require Import GenBatch.
Import ListNotations.
Open Scope Z_scope.

Theorem layout_batch_size_bounds : forall n mb d, 1 <= n -> 1 <= mb -> 1 <= d ->
  1 <= bp_batch_size n mb d <= mb.
Proof. exact batch_size_bounds. Qed.
Print Assumptions layout_batch_size_bounds.

Theorem layout_batches_pos : forall n mb d, 1 <= n -> 1 <= mb -> 1 <= d ->
  1 <= bp_n_batches n mb d.
Proof. exact n_batches_pos. Qed.
Print Assumptions layout_batches_pos.

Theorem layout_pad_nonneg : forall n mb d, 1 <= n -> 1 <= mb -> 1 <= d ->
  0 <= bp_n_pad n mb d.
Proof. exact pad_nonneg. Qed.
Print Assumptions layout_pad_nonneg.

Theorem layout_slots : forall n mb d,
  d * bp_n_batches n mb d * bp_batch_size n mb d = n + bp_n_pad n mb d.
Proof. exact slots_eq. Qed.
Print Assumptions layout_slots.

Theorem layout_devices : forall n mb d, bp_n_devices n mb d = d.
Proof. exact devices_eq. Qed.
Print Assumptions layout_devices.

(* shape: d devices x nb batches x bs slots *)
Theorem prepare_has_shape : forall n mb d, 1 <= n -> 1 <= mb -> 1 <= d ->
  forall (T : Type) (padrow : T) (xs : list T), Z.of_nat (length xs) = n ->
  length (prepare n mb d padrow xs) = Z.to_nat d /\
  Forall (fun dev => length dev = Z.to_nat (bp_n_batches n mb d) /\
                     Forall (fun b => length b = Z.to_nat (bp_batch_size n mb d)) dev)
         (prepare n mb d padrow xs).
Proof. exact (fun n mb d Hn Hmb Hd T => @prepare_shape n mb d Hn Hmb Hd T). Qed.
Print Assumptions prepare_has_shape.

(* states in original order, followed only by padding *)
Theorem prepare_places_in_order : forall n mb d, 1 <= n -> 1 <= mb -> 1 <= d ->
  forall (T : Type) (padrow : T) (xs : list T), Z.of_nat (length xs) = n ->
  forall i j k dflt,
    (i < Z.to_nat d)%nat -> (j < Z.to_nat (bp_n_batches n mb d))%nat ->
    (k < Z.to_nat (bp_batch_size n mb d))%nat ->
    nth3 (prepare n mb d padrow xs) i j k dflt =
      let s := ((i * Z.to_nat (bp_n_batches n mb d) + j) * Z.to_nat (bp_batch_size n mb d) + k)%nat in
      if (s <? length xs)%nat then nth s xs dflt else padrow.
Proof. exact (fun n mb d Hn Hmb Hd T => @prepare_slot n mb d Hn Hmb Hd T). Qed.
Print Assumptions prepare_places_in_order.

(* any per-slot result, any row type (hence any trailing shape) *)
Theorem prepare_unbatch_roundtrip : forall n mb d, 1 <= n -> 1 <= mb -> 1 <= d ->
  forall (T : Type) (padrow : T) (xs : list T), Z.of_nat (length xs) = n ->
  forall (R : Type) (f : T -> R),
    unbatch n mb d (map3 f (prepare n mb d padrow xs)) = map f xs.
Proof. exact (fun n mb d Hn Hmb Hd T => @unbatch_map3_prepare n mb d Hn Hmb Hd T). Qed.
Print Assumptions prepare_unbatch_roundtrip.

Theorem unbatch_any_result : forall (R : Type) n mb d, 1 <= n -> 1 <= mb -> 1 <= d ->
  forall (r : list (list (list R))),
  length (flatten3 r) = Z.to_nat (n + bp_n_pad n mb d) ->
  length (unbatch n mb d r) = Z.to_nat n /\
  forall s dflt, (s < Z.to_nat n)%nat -> nth s (unbatch n mb d r) dflt = nth s (flatten3 r) dflt.
Proof. exact (@unbatch_any_shape). Qed.
Print Assumptions unbatch_any_result.

(* hypotheses are satisfiable / non-trivial layout: 130 states, batch 64, 3 devices *)
Example layout_example :
  (bp_batch_size 130 64 3, bp_n_batches 130 64 3, bp_n_pad 130 64 3) = (64, 1, 62)
  /\ unbatch 5 2 1 (map3 (fun x => x * 10) (prepare 5 2 1 0 [1;2;3;4;5])) = [10;20;30;40;50].
Proof. vm_compute. split; reflexivity. Qed.
