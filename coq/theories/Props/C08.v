(* C08 -- Stopping rule, iteration accounting and composability of solve().
   The solve() loops are the GENERATED skeletons (gen/GenLoops.v) interpreted by
   Model/Skeleton.v; the thresholds are the GENERATED formulas (gen/GenThreshold.v). *)
From Coq Require Import QArith List Arith ZArith Bool.
From MdpaxV Require Import Model.ListUtil Model.QFun Model.MDP Model.Bellman Model.Batching Model.Skeleton Model.Solvers
     Model.Kernel Model.KernelOps Proofs.LoopP Proofs.SkeletonP Proofs.C08P Proofs.C18P Proofs.GenKernelP.
From MdpaxGen Require Import GenLoops GenThreshold GenBatch GenKernel.
Import ListNotations.
Open Scope Q_scope.

(* ---------- tie: the convergence measures GENERATED from _get_span / _get_max_diff are the measures the solver
   state machines compare with the threshold (span = max(delta) - min(delta) of the SIGNED changes; max_diff = max |delta|) *)
Theorem generated_measures_are_the_modelled_measures : forall new old, length new = length old -> (0 < length new)%nat ->
  gen_get_span new old == span_diff new old /\ gen_get_max_diff new old == maxabs_diff new old.
Proof. exact (fun new old HL Hn => conj (gen_span_eq new old HL Hn) (gen_max_diff_eq new old HL Hn)). Qed.
Print Assumptions generated_measures_are_the_modelled_measures.

(* ---------- tie: each solver's solve() = interpretation of the skeleton translated from ITS source *)
Theorem vi_solve_follows_source : forall g eps SW POL t ckpt freq k st,
  vi_solve g eps SW POL t ckpt freq k st =
  run_skel vist vi_incr (vi_sweep_step g eps SW t) v_iter (vi_finish POL true) (fun s => s) ckpt freq vi_skel k st.
Proof. exact vi_solve_is_skeleton. Qed.
Print Assumptions vi_solve_follows_source.
Theorem rvi_solve_follows_source : forall eps SW POL ckpt freq k st,
  rvi_solve eps SW POL ckpt freq k st =
  run_skel rvist rvi_incr (rvi_sweep_step eps SW) r_iter (rvi_finish POL true) (fun s => s) ckpt freq rvi_skel k st.
Proof. exact rvi_solve_is_skeleton. Qed.
Print Assumptions rvi_solve_follows_source.
Theorem pvi_solve_follows_source : forall g eps SW POL clearflag ckpt freq k st,
  pvi_solve g eps SW POL clearflag ckpt freq k st =
  run_skel pvist pvi_incr (pvi_sweep_step g eps SW) p_iter (pvi_finish POL false false)
           (fun s => if clearflag then pvi_clear s else s) ckpt freq pvi_skel k st.
Proof. exact pvi_solve_is_skeleton. Qed.
Print Assumptions pvi_solve_follows_source.
Theorem savi_solve_follows_source : forall M g eps POL n mb d zidx pw pv perm t ckpt freq k st,
  savi_solve M g eps POL n mb d zidx pw pv perm t ckpt freq k st =
  run_skel savist savi_incr (savi_sweep_step M g eps n mb d zidx pw pv perm t) s_iter (savi_finish POL true) (fun s => s) ckpt freq savi_skel k st.
Proof. exact savi_solve_is_skeleton. Qed.
Print Assumptions savi_solve_follows_source.
Theorem pi_solve_follows_source : forall g eps POL EV t me reset V0 ckpt freq k st,
  pi_solve g eps POL EV t me reset V0 ckpt freq k st =
  run_skel pist pi_incr (pi_improve_step g eps POL EV t me reset V0) pi_iter (fun s => s) (fun s => s) ckpt freq pi_skel k st.
Proof. exact pi_solve_is_skeleton. Qed.
Print Assumptions pi_solve_follows_source.

(* ---------- any solver: at most k further iterations; iteration counts the steps; stops at the FIRST
   passing test; reports convergence iff the last test passed *)
Theorem solve_accounting_generic : forall (St : Type) (step : St -> St * bool) (iter_of : St -> nat) ckpt freq,
  (forall st, iter_of (fst (step st)) = S (iter_of st)) ->
  forall k st saves st' conv saves',
  loop St step iter_of ckpt freq k st saves = (st', conv, saves') ->
  exists j, (j <= k)%nat /\ st' = steps St step j st /\ iter_of st' = (iter_of st + j)%nat /\
    (forall i, (i + 1 < j)%nat -> snd (step (steps St step i st)) = false) /\
    (conv = true -> (0 < j)%nat /\ snd (step (steps St step (j - 1) st)) = true) /\
    (conv = false -> j = k /\ forall i, (i < k)%nat -> snd (step (steps St step i st)) = false).
Proof. exact loop_accounting. Qed.
Print Assumptions solve_accounting_generic.

Theorem every_step_counts_one_iteration : forall g eps SW POL EV,
  (forall t st, v_iter (fst (vi_step g eps SW t st)) = S (v_iter st)) /\
  (forall st, r_iter (fst (rvi_step eps SW st)) = S (r_iter st)) /\
  (forall st, p_iter (fst (pvi_step g eps SW st)) = S (p_iter st)) /\
  (forall t me reset V0 st, pi_iter (fst (pi_step g eps POL EV t me reset V0 st)) = S (pi_iter st)).
Proof.
  exact (fun g eps SW POL EV => conj (fun t st => vi_step_incr g eps SW t st)
          (conj (rvi_step_incr eps SW) (conj (pvi_step_incr g eps SW) (pi_step_incr g eps POL EV)))).
Qed.
Print Assumptions every_step_counts_one_iteration.

(* ---------- value iteration, spelled out: values are reference backups of the start values *)
Theorem vi_solve_stopping_rule : forall g eps SW POL t ckpt freq k st st' conv saves,
  vi_solve g eps SW POL t ckpt freq k st = (st', conv, saves) ->
  exists j, (j <= k)%nat /\ v_iter st' = (v_iter st + j)%nat /\ v_vals st' = iterate SW j (v_vals st) /\
    v_pol st' = Some (POL (v_vals st')) /\
    (forall i, (i + 1 < j)%nat ->
       ~ measure t (iterate SW (S i) (v_vals st)) (iterate SW i (v_vals st)) < vi_threshold t g eps) /\
    (conv = true -> (0 < j)%nat /\
       measure t (iterate SW j (v_vals st)) (iterate SW (j - 1) (v_vals st)) < vi_threshold t g eps) /\
    (conv = false -> j = k /\ forall i, (i < k)%nat ->
       ~ measure t (iterate SW (S i) (v_vals st)) (iterate SW i (v_vals st)) < vi_threshold t g eps).
Proof. exact vi_solve_accounting. Qed.
Print Assumptions vi_solve_stopping_rule.

(* ---------- documented thresholds *)
Theorem threshold_documented : forall t g eps,
  (~ g == 1 -> vi_threshold t g eps == eps * (1 - g) / g) /\ (g == 1 -> vi_threshold t g eps == eps) /\
  rvi_threshold eps == eps /\ pvi_threshold g eps == eps.
Proof.
  exact (fun t g eps => conj (threshold_vi_discounted t g eps) (conj (threshold_vi_undiscounted t g eps)
          (conj (threshold_rvi eps) (threshold_pvi g eps)))).
Qed.
Print Assumptions threshold_documented.

(* ---------- solve(k1); solve(k2) = solve(k1 + k2) when the first call stopped at its limit *)
Theorem vi_solve_composes : forall g eps SW POL t ckpt freq k1 k2 st st1 sv1,
  vi_solve g eps SW POL t ckpt freq k1 st = (st1, false, sv1) ->
  fst (vi_solve g eps SW POL t ckpt freq k2 st1) = fst (vi_solve g eps SW POL t ckpt freq (k1 + k2) st).
Proof. exact vi_solve_compose. Qed.
Print Assumptions vi_solve_composes.
Theorem rvi_solve_composes : forall eps SW POL ckpt freq k1 k2 st st1 sv1,
  rvi_solve eps SW POL ckpt freq k1 st = (st1, false, sv1) ->
  fst (rvi_solve eps SW POL ckpt freq k2 st1) = fst (rvi_solve eps SW POL ckpt freq (k1 + k2) st).
Proof. exact rvi_solve_compose. Qed.
Print Assumptions rvi_solve_composes.
Theorem pvi_solve_composes : forall g eps SW POL clear ckpt freq k1 k2 st st1 sv1,
  pvi_solve g eps SW POL clear ckpt freq k1 st = (st1, false, sv1) ->
  fst (pvi_solve g eps SW POL clear ckpt freq k2 st1) = fst (pvi_solve g eps SW POL clear ckpt freq (k1 + k2) st).
Proof. exact pvi_solve_compose. Qed.
Print Assumptions pvi_solve_composes.
Theorem savi_solve_composes : forall M g eps POL n mb d zidx pw pv perm t ckpt freq k1 k2 st st1 sv1,
  savi_solve M g eps POL n mb d zidx pw pv perm t ckpt freq k1 st = (st1, false, sv1) ->
  fst (savi_solve M g eps POL n mb d zidx pw pv perm t ckpt freq k2 st1) =
  fst (savi_solve M g eps POL n mb d zidx pw pv perm t ckpt freq (k1 + k2) st).
Proof. exact savi_solve_compose. Qed.
Print Assumptions savi_solve_composes.
Theorem pi_solve_composes : forall g eps POL EV t me reset V0 ckpt freq k1 k2 st st1 sv1,
  pi_solve g eps POL EV t me reset V0 ckpt freq k1 st = (st1, false, sv1) ->
  fst (pi_solve g eps POL EV t me reset V0 ckpt freq k2 st1) = fst (pi_solve g eps POL EV t me reset V0 ckpt freq (k1 + k2) st).
Proof. exact pi_solve_compose. Qed.
Print Assumptions pi_solve_composes.

(* ---------- initial value estimates: computed batch by batch = applying initial_value to every state *)
Theorem initial_values_spec : forall n mb d, (1 <= n)%Z -> (1 <= mb)%Z -> (1 <= d)%Z ->
  forall (T : Type) (padrow : T) (states : list T), Z.of_nat (length states) = n ->
  forall (initial_value : T -> Q),
    unbatch n mb d (map3 initial_value (prepare n mb d padrow states)) = map initial_value states.
Proof. exact (fun n mb d Hn Hmb Hd T padrow xs HL => @unbatch_map3_prepare n mb d Hn Hmb Hd T padrow xs HL Q). Qed.
Print Assumptions initial_values_spec.
