(* C03 -- Results are independent of batch size, device count and padding.
   K_*_solve are the solvers instantiated with the code-shaped kernels of ONE layout
   (n_states, max_batch_size, devices) and arbitrary padding content (pv, pi, z). *)
From Coq Require Import QArith List Arith ZArith.
From MdpaxV Require Import Model.ListUtil Model.QFun Model.MDP Model.Bellman Model.Batching Model.Kernel
     Model.Solvers Proofs.C03P.
Import ListNotations.

Theorem layout_independent_sweep : forall (M : mdp) (g : Q) (n : Z),
  n = Z.of_nat (nS M) -> (0 < nS M)%nat -> (0 < nA M)%nat ->
  forall mb1 d1 mb2 d2, (1 <= mb1)%Z -> (1 <= d1)%Z -> (1 <= mb2)%Z -> (1 <= d2)%Z ->
  forall pv1 pv2 V, kernel_sweep M n mb1 d1 pv1 g V = kernel_sweep M n mb2 d2 pv2 g V.
Proof. exact sweep_two_layouts. Qed.
Print Assumptions layout_independent_sweep.

Theorem layout_independent_policy : forall (M : mdp) (g : Q) (n : Z),
  n = Z.of_nat (nS M) -> (0 < nS M)%nat -> (0 < nA M)%nat ->
  forall mb1 d1 mb2 d2, (1 <= mb1)%Z -> (1 <= d1)%Z -> (1 <= mb2)%Z -> (1 <= d2)%Z ->
  forall pi1 pi2 V, kernel_policy M n mb1 d1 pi1 g V = kernel_policy M n mb2 d2 pi2 g V.
Proof. exact policy_two_layouts. Qed.
Print Assumptions layout_independent_policy.

(* policy evaluation: also independent of which state the all-zero padding row indexes *)
Theorem layout_independent_eval : forall (M : mdp) (g : Q) (n : Z),
  n = Z.of_nat (nS M) -> (0 < nS M)%nat -> (0 < nA M)%nat ->
  forall mb1 d1 mb2 d2, (1 <= mb1)%Z -> (1 <= d1)%Z -> (1 <= mb2)%Z -> (1 <= d2)%Z ->
  forall pv1 pv2 z1 z2 P V, kernel_eval M n mb1 d1 z1 pv1 g P V = kernel_eval M n mb2 d2 z2 pv2 g P V.
Proof. exact eval_two_layouts. Qed.
Print Assumptions layout_independent_eval.

(* whole runs: final state (values, policy, iteration, gain, history), convergence flag and
   every checkpoint snapshot coincide for any two layouts and any padding content *)
Theorem vi_run_layout_independent : forall (M : mdp) (g eps : Q) (n : Z),
  n = Z.of_nat (nS M) -> (0 < nS M)%nat -> (0 < nA M)%nat ->
  forall mb1 d1 mb2 d2, (1 <= mb1)%Z -> (1 <= d1)%Z -> (1 <= mb2)%Z -> (1 <= d2)%Z ->
  forall pv1 pv2 pi1 pi2 t ckpt freq k st,
  K_vi_solve M g eps n mb1 d1 pv1 pi1 t ckpt freq k st = K_vi_solve M g eps n mb2 d2 pv2 pi2 t ckpt freq k st.
Proof. exact vi_two_layouts. Qed.
Print Assumptions vi_run_layout_independent.

Theorem rvi_run_layout_independent : forall (M : mdp) (g eps : Q) (n : Z),
  n = Z.of_nat (nS M) -> (0 < nS M)%nat -> (0 < nA M)%nat ->
  forall mb1 d1 mb2 d2, (1 <= mb1)%Z -> (1 <= d1)%Z -> (1 <= mb2)%Z -> (1 <= d2)%Z ->
  forall pv1 pv2 pi1 pi2 ckpt freq k st,
  K_rvi_solve M g eps n mb1 d1 pv1 pi1 ckpt freq k st = K_rvi_solve M g eps n mb2 d2 pv2 pi2 ckpt freq k st.
Proof. exact rvi_two_layouts. Qed.
Print Assumptions rvi_run_layout_independent.

Theorem pvi_run_layout_independent : forall (M : mdp) (g eps : Q) (n : Z),
  n = Z.of_nat (nS M) -> (0 < nS M)%nat -> (0 < nA M)%nat ->
  forall mb1 d1 mb2 d2, (1 <= mb1)%Z -> (1 <= d1)%Z -> (1 <= mb2)%Z -> (1 <= d2)%Z ->
  forall pv1 pv2 pi1 pi2 clear ckpt freq k st,
  K_pvi_solve M g eps n mb1 d1 pv1 pi1 clear ckpt freq k st = K_pvi_solve M g eps n mb2 d2 pv2 pi2 clear ckpt freq k st.
Proof. exact pvi_two_layouts. Qed.
Print Assumptions pvi_run_layout_independent.

Theorem pi_run_layout_independent : forall (M : mdp) (g eps : Q) (n : Z),
  n = Z.of_nat (nS M) -> (0 < nS M)%nat -> (0 < nA M)%nat ->
  forall mb1 d1 mb2 d2, (1 <= mb1)%Z -> (1 <= d1)%Z -> (1 <= mb2)%Z -> (1 <= d2)%Z ->
  forall pv1 pv2 pi1 pi2 z1 z2 t me reset V0 ckpt freq k st,
  K_pi_solve M g eps n mb1 d1 z1 pv1 pi1 t me reset V0 ckpt freq k st =
  K_pi_solve M g eps n mb2 d2 z2 pv2 pi2 t me reset V0 ckpt freq k st.
Proof. exact pi_two_layouts. Qed.
Print Assumptions pi_run_layout_independent.

Theorem pi_init_layout_independent : forall (M : mdp) (g : Q) (n : Z),
  n = Z.of_nat (nS M) -> (0 < nS M)%nat -> (0 < nA M)%nat ->
  forall mb1 d1 mb2 d2, (1 <= mb1)%Z -> (1 <= d1)%Z -> (1 <= mb2)%Z -> (1 <= d2)%Z ->
  forall pi1 pi2 ip V0, K_pi_init M g n mb1 d1 pi1 ip V0 = K_pi_init M g n mb2 d2 pi2 ip V0.
Proof. exact pi_init_two_layouts. Qed.
Print Assumptions pi_init_layout_independent.

(* padding never appears in a returned array *)
Theorem returned_values_length : forall M g V n mb d pv, n = Z.of_nat (nS M) -> (0 < nS M)%nat -> (0 < nA M)%nat ->
  (1 <= mb)%Z -> (1 <= d)%Z -> length (kernel_sweep M n mb d pv g V) = nS M.
Proof. exact kernel_sweep_length. Qed.
Print Assumptions returned_values_length.

Theorem returned_policy_length : forall M g V n mb d pidx, n = Z.of_nat (nS M) -> (0 < nS M)%nat -> (0 < nA M)%nat ->
  (1 <= mb)%Z -> (1 <= d)%Z -> length (kernel_policy M n mb d pidx g V) = nS M.
Proof. exact kernel_policy_length. Qed.
Print Assumptions returned_policy_length.

(* ---------- ties by translation (re-stated here so that THIS property's obligations break when the source they speak about
   changes shape): gen/GenKernel.v and gen/GenLoops.v are regenerated from $VERIF_REPO/src on every run *)
From MdpaxV Require Import Model.Skeleton Model.Kernel Model.KernelOps Proofs.SkeletonP Proofs.GenKernelP.
From MdpaxGen Require Import GenLoops GenKernel.

(* the one-state update GENERATED from ValueIteration._calculate_updated_value (expectation over the event space with the
   problem's own probabilities, maximum over the action space) is the Bellman optimality backup the theorems above use *)
Theorem c03_generated_update_is_bellman_backup : forall (M : mdp) st g V, (0 < nA M)%nat ->
  gen_calculate_updated_value (prims_of M) st (seq 0 (nA M)) (seq 0 (nE M)) g V = backup M g V st.
Proof. exact gen_updated_value_is_backup. Qed.
Print Assumptions c03_generated_update_is_bellman_backup.
