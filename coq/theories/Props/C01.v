(* C01 -- Discounted solvers return near-optimal policies (and values) on convergence.
   Vs stands for ANY solution of V = T V, vpi for ANY solution of v = T_pi v (at most one
   of each exists, fixed_point_unique); S_*_solve are the solver state machines of
   Model/Solvers.v (layout-free; C03 shows every layout gives the same run). *)
From Coq Require Import QArith Qabs List Arith ZArith Bool.
From MdpaxV Require Import Model.ListUtil Model.QFun Model.MDP Model.Bellman Model.Solvers Model.CorrSolve
     Proofs.ContractionP Proofs.BellmanP Proofs.C01P Proofs.C01RunP.
Import ListNotations.
Open Scope Q_scope.

(* ---------- structure of the Bellman operators *)
Theorem bellman_onesided_contraction : forall (M : mdp) (g : Q), wf M -> 0 <= g ->
  forall u v d, (forall s, (s < nS M)%nat -> u s <= v s + d) ->
  forall s, (s < nS M)%nat -> T M g u s <= T M g v s + g * d.
Proof. exact T_onesided. Qed.
Print Assumptions bellman_onesided_contraction.

Theorem bellman_span_contraction : forall (M : mdp) (g : Q), wf M -> 0 <= g ->
  forall u v lo hi, (forall t, (t < nS M)%nat -> lo <= u t - v t <= hi) ->
  forall s, (s < nS M)%nat -> g * lo <= T M g u s - T M g v s <= g * hi.
Proof. exact T_span_contraction. Qed.
Print Assumptions bellman_span_contraction.

Theorem fixed_point_unique : forall (M : mdp) (g : Q), wf M -> 0 <= g -> g < 1 ->
  forall w1 w2, fixedpt (nS M) (T M g) w1 -> fixedpt (nS M) (T M g) w2 ->
  forall s, (s < nS M)%nat -> w1 s == w2 s.
Proof.
  exact (fun M g WF g0 g1 w1 w2 =>
    fixedpt_unique (nS M) g (wf_nS M WF) g1 (T M g) w1 w2 (onesided_is_pos _ _ _ (T_onesided M g WF g0))).
Qed.
Print Assumptions fixed_point_unique.

Theorem vstar_dominates : forall (M : mdp) (g : Q), wf M -> 0 < g -> g < 1 ->
  forall Vs, fixedpt (nS M) (T M g) Vs ->
  forall pi vpi, valid_policy M pi -> fixedpt (nS M) (Tpi M g pi) vpi ->
  forall s, (s < nS M)%nat -> vpi s <= Vs s.
Proof. exact vstar_dominates_l. Qed.
Print Assumptions vstar_dominates.

(* lo <= TV - V <= hi and pi greedy for V  ==>  (1-g)(V* - v_pi) <= hi - lo *)
Theorem greedy_sandwich : forall (M : mdp) (g : Q), wf M -> 0 < g -> g < 1 ->
  forall Vs, fixedpt (nS M) (T M g) Vs ->
  forall pi vpi V lo hi, valid_policy M pi -> fixedpt (nS M) (Tpi M g pi) vpi -> greedy_for M g pi V ->
  (forall s, (s < nS M)%nat -> lo <= T M g V s - V s <= hi) ->
  forall s, (s < nS M)%nat -> (1 - g) * (Vs s - vpi s) <= hi - lo.
Proof. exact greedy_gap. Qed.
Print Assumptions greedy_sandwich.

(* ---------- value iteration: any run that reports convergence, from ANY start state *)
Theorem vi_solve_sound_span : forall (M : mdp) (g eps : Q), wf M -> 0 < g -> g < 1 ->
  forall Vs, fixedpt (nS M) (T M g) Vs ->
  forall ckpt freq k st0 st' saves pol vpi,
  S_vi_solve M g eps Span ckpt freq k st0 = (st', true, saves) ->
  v_pol st' = Some pol -> fixedpt (nS M) (Tpi M g (policy_fun pol)) vpi ->
  forall s, (s < nS M)%nat -> 0 <= Vs s - vpi s < eps.
Proof. exact vi_solve_sound_span_l. Qed.
Print Assumptions vi_solve_sound_span.

Theorem vi_solve_sound_maxdiff_values : forall (M : mdp) (g eps : Q), wf M -> 0 < g -> g < 1 ->
  forall Vs, fixedpt (nS M) (T M g) Vs ->
  forall ckpt freq k st0 st' saves,
  S_vi_solve M g eps MaxDiff ckpt freq k st0 = (st', true, saves) ->
  forall s, (s < nS M)%nat -> Qabs (qnth (v_vals st') s - Vs s) < eps.
Proof. exact vi_solve_sound_maxdiff_values_l. Qed.
Print Assumptions vi_solve_sound_maxdiff_values.

Theorem vi_solve_sound_maxdiff_policy : forall (M : mdp) (g eps : Q), wf M -> 0 < g -> g < 1 ->
  forall Vs, fixedpt (nS M) (T M g) Vs ->
  forall ckpt freq k st0 st' saves pol vpi,
  S_vi_solve M g eps MaxDiff ckpt freq k st0 = (st', true, saves) ->
  v_pol st' = Some pol -> fixedpt (nS M) (Tpi M g (policy_fun pol)) vpi ->
  forall s, (s < nS M)%nat -> 0 <= Vs s - vpi s < 2 * eps.
Proof. exact vi_solve_sound_maxdiff_policy_l. Qed.
Print Assumptions vi_solve_sound_maxdiff_policy.

(* ---------- policy iteration.  The proof FORCES the hypothesis that the last evaluation passed
   its test (ghost flag pi_last_eval_converged); without it the statement is false of the
   faithful model -- see pi_bound_without_eval_convergence_refuted below. *)
Theorem pi_solve_sound_span_partial : forall (M : mdp) (g eps : Q), wf M -> 0 < g -> g < 1 ->
  forall Vs, fixedpt (nS M) (T M g) Vs ->
  forall me reset V0 ckpt freq k st0 st' saves vpi,
  length (pi_pol st0) = nS M ->
  S_pi_solve M g eps Span me reset V0 ckpt freq k st0 = (st', true, saves) ->
  pi_last_eval_converged st' = true ->
  fixedpt (nS M) (Tpi M g (policy_fun (pi_pol st'))) vpi ->
  forall s, (s < nS M)%nat -> 0 <= Vs s - vpi s < eps / g.
Proof. exact pi_solve_sound_span_l. Qed.
Print Assumptions pi_solve_sound_span_partial.

Theorem pi_solve_sound_maxdiff_values_partial : forall (M : mdp) (g eps : Q), wf M -> 0 < g -> g < 1 ->
  forall me reset V0 ckpt freq k st0 st' saves vpi,
  length (pi_pol st0) = nS M ->
  S_pi_solve M g eps MaxDiff me reset V0 ckpt freq k st0 = (st', true, saves) ->
  pi_last_eval_converged st' = true ->
  fixedpt (nS M) (Tpi M g (policy_fun (pi_pol st'))) vpi ->
  forall s, (s < nS M)%nat -> Qabs (qnth (pi_vals st') s - vpi s) < eps / g.
Proof. exact pi_solve_sound_maxdiff_values_l. Qed.
Print Assumptions pi_solve_sound_maxdiff_values_partial.

Theorem pi_solve_sound_maxdiff_policy_partial : forall (M : mdp) (g eps : Q), wf M -> 0 < g -> g < 1 ->
  forall Vs, fixedpt (nS M) (T M g) Vs ->
  forall me reset V0 ckpt freq k st0 st' saves vpi,
  length (pi_pol st0) = nS M ->
  S_pi_solve M g eps MaxDiff me reset V0 ckpt freq k st0 = (st', true, saves) ->
  pi_last_eval_converged st' = true ->
  fixedpt (nS M) (Tpi M g (policy_fun (pi_pol st'))) vpi ->
  forall s, (s < nS M)%nat -> 0 <= Vs s - vpi s < 2 * (eps / g).
Proof. exact pi_solve_sound_maxdiff_policy_l. Qed.
Print Assumptions pi_solve_sound_maxdiff_policy_partial.

(* full-strength statement is FALSE for the faithful model: a 2-state MDP, gamma = 1/2,
   eps = 1/4, max_eval_iter = 1; policy iteration reports convergence at iteration 1 with a
   policy whose value is 1 below optimal at state 0, while the bound eps/gamma is 1/2. *)
Definition refut_M : mdp := of_tables
  [[[0;1];[0;0]]; [[1;1];[0;1]]]%nat
  [[[-1;-3];[1;-2]]; [[-3;4];[-3;4]]]
  [[[1#2;1#2];[1#2;1#2]]; [[0;1];[1;0]]].
Definition refut_run := S_pi_solve refut_M (1#2) (1#4) Span 1 false [0;0] false 1 5 (S_pi_init refut_M (1#2) None [0;0]).
Lemma refut_facts :
  wf_b refut_M = true /\
  snd (fst refut_run) = true /\                                         (* convergence reported *)
  pi_iter (fst (fst refut_run)) = 1%nat /\
  pi_last_eval_converged (fst (fst refut_run)) = false /\               (* evaluation budget exhausted *)
  pi_pol (fst (fst refut_run)) = [1; 0]%nat /\
  qlist_eqb (sweep refut_M (1#2) [0; 8]) [0; 8] = true /\               (* V* = (0, 8) *)
  qlist_eqb (sweep_pi refut_M (1#2) [1; 0]%nat [-1; 8]) [-1; 8] = true. (* v_pi = (-1, 8) *)
Proof. vm_compute. repeat split; reflexivity. Qed.
Theorem pi_bound_without_eval_convergence_refuted :
  exists (M : mdp) (g eps : Q) me V0 st0 st' saves (Vs vpi : list Q) s,
    wf_b M = true /\ 0 < g /\ g < 1 /\ 0 < eps /\ length (pi_pol st0) = nS M /\
    S_pi_solve M g eps Span me false V0 false 1 5 st0 = (st', true, saves) /\
    qlist_eqb (sweep M g Vs) Vs = true /\ qlist_eqb (sweep_pi M g (pi_pol st') vpi) vpi = true /\
    (s < nS M)%nat /\ eps / g <= qnth Vs s - qnth vpi s.
Proof.
  exists refut_M, (1#2), (1#4), 1%nat, [0;0], (S_pi_init refut_M (1#2) None [0;0]),
         (fst (fst refut_run)), (snd refut_run), [0; 8], [-1; 8], 0%nat.
  vm_compute. repeat split; try reflexivity; try discriminate; repeat constructor.
Qed.
Print Assumptions pi_bound_without_eval_convergence_refuted.

(* non-vacuity of the hypotheses: a well-formed MDP with explicit V*, a converged span-tested run *)
Example c01_hypotheses_satisfiable :
  wf_b refut_M = true /\
  snd (fst (S_vi_solve refut_M (1#2) (1#4) Span false 1 50 (vi_init [0;0]))) = true /\
  qlist_eqb (sweep refut_M (1#2) [0; 8]) [0; 8] = true.
Proof. vm_compute. repeat split; reflexivity. Qed.

(* ---------- ties by translation (re-stated here so that THIS property's obligations break when the source they speak about
   changes shape): gen/GenKernel.v and gen/GenLoops.v are regenerated from $VERIF_REPO/src on every run *)
From MdpaxV Require Import Model.Skeleton Model.Kernel Model.KernelOps Proofs.SkeletonP Proofs.GenKernelP.
From MdpaxGen Require Import GenLoops GenKernel.

(* the one-state update GENERATED from ValueIteration._calculate_updated_value (expectation over the event space with the
   problem's own probabilities, maximum over the action space) is the Bellman optimality backup the theorems above use *)
Theorem c01_generated_update_is_bellman_backup : forall (M : mdp) st g V, (0 < nA M)%nat ->
  gen_calculate_updated_value (prims_of M) st (seq 0 (nA M)) (seq 0 (nE M)) g V = backup M g V st.
Proof. exact gen_updated_value_is_backup. Qed.
Print Assumptions c01_generated_update_is_bellman_backup.

(* the measures GENERATED from _get_span / _get_max_diff are the ones the stopping rules above compare with the threshold *)
Theorem c01_generated_measures : forall new old, length new = length old -> (0 < length new)%nat ->
  gen_get_span new old == span_diff new old /\ gen_get_max_diff new old == maxabs_diff new old.
Proof. exact (fun new old HL Hn => conj (gen_span_eq new old HL Hn) (gen_max_diff_eq new old HL Hn)). Qed.
Print Assumptions c01_generated_measures.

(* each solve() whose result this property speaks about = the interpretation of the skeleton translated from ITS source
   (one step per pass, the stopping test, the periodic and the final save, the policy extraction) *)
Theorem c01_vi_solve_follows_source : forall g eps SW POL t ckpt freq k st,
  vi_solve g eps SW POL t ckpt freq k st =
  run_skel vist vi_incr (vi_sweep_step g eps SW t) v_iter (vi_finish POL true) (fun s => s) ckpt freq vi_skel k st.
Proof. exact vi_solve_is_skeleton. Qed.
Print Assumptions c01_vi_solve_follows_source.
Theorem c01_savi_solve_follows_source : forall M g eps POL n mb d zidx pw pv perm t ckpt freq k st,
  savi_solve M g eps POL n mb d zidx pw pv perm t ckpt freq k st =
  run_skel savist savi_incr (savi_sweep_step M g eps n mb d zidx pw pv perm t) s_iter (savi_finish POL true) (fun s => s) ckpt freq savi_skel k st.
Proof. exact savi_solve_is_skeleton. Qed.
Print Assumptions c01_savi_solve_follows_source.
Theorem c01_pi_solve_follows_source : forall g eps POL EV t me reset V0 ckpt freq k st,
  pi_solve g eps POL EV t me reset V0 ckpt freq k st =
  run_skel pist pi_incr (pi_improve_step g eps POL EV t me reset V0) pi_iter (fun s => s) (fun s => s) ckpt freq pi_skel k st.
Proof. exact pi_solve_is_skeleton. Qed.
Print Assumptions c01_pi_solve_follows_source.
Theorem c01_pvi_solve_follows_source : forall g eps SW POL clearflag ckpt freq k st,
  pvi_solve g eps SW POL clearflag ckpt freq k st =
  run_skel pvist pvi_incr (pvi_sweep_step g eps SW) p_iter (pvi_finish POL false false)
           (fun s => if clearflag then pvi_clear s else s) ckpt freq pvi_skel k st.
Proof. exact pvi_solve_is_skeleton. Qed.
Print Assumptions c01_pvi_solve_follows_source.
