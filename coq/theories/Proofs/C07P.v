(* C07: periodic value iteration -- plain VI iterates, circular-buffer invariant for runs of
   any length (about the GENERATED index expressions), the documented measure, first-stop. *)
From Coq Require Import QArith Qminmax Qabs Qreduction List Arith ZArith Lia Lqa Bool.
From MdpaxV Require Import Model.ListUtil Model.QFun Model.MDP Model.Bellman Model.Solvers
     Proofs.QFunP Proofs.LoopP Proofs.C03P Proofs.C08P.
From MdpaxGen Require Import GenThreshold GenPeriodic.
Import ListNotations.
Local Open Scope nat_scope.

(* ---------- list / arithmetic helpers *)
Lemma ll_set_length l i x : length (ll_set l i x) = length l.
Proof. revert i; induction l as [|h l IH]; intros [|i]; simpl; try reflexivity. now rewrite IH. Qed.
Lemma ll_set_nth_eq l i x : (i < length l)%nat -> nth i (ll_set l i x) [] = x.
Proof. revert i; induction l as [|h l IH]; intros [|i] H; simpl in *; try lia; [reflexivity|]. apply IH. lia. Qed.
Lemma ll_set_nth_neq l i j x : i <> j -> nth j (ll_set l i x) [] = nth j l [].
Proof.
  revert i j; induction l as [|h l IH]; intros [|i] [|j] H; simpl; try reflexivity; try lia.
  apply IH. lia.
Qed.

Lemma mod_distinct i j m : (i < j)%nat -> (j - i < m)%nat -> i mod m <> j mod m.
Proof.
  intros Hij Hm E. assert (m <> 0)%nat as M0 by lia.
  pose proof (Nat.div_mod i m M0) as Di. pose proof (Nat.div_mod j m M0) as Dj.
  pose proof (Nat.mod_upper_bound i m M0). rewrite E in Di.
  assert (j - i = m * (j / m - i / m))%nat as D by nia.
  destruct (j / m - i / m)%nat as [|q]; nia.
Qed.

Lemma next_index_nat a p : Z.to_nat (pv_next_index (zn a) (zn p)) = ((a + 1) mod (p + 1))%nat.
Proof.
  unfold pv_next_index, zn. rewrite <- (Nat2Z.id ((a + 1) mod (p + 1))). f_equal.
  rewrite Nat2Z.inj_mod, !Nat2Z.inj_add. reflexivity.
Qed.
Lemma nodisc_prev_index_nat a p : Z.to_nat (pv_nodisc_prev_index (zn a) (zn p)) = ((a + 1) mod (p + 1))%nat.
Proof.
  unfold pv_nodisc_prev_index, zn. rewrite <- (Nat2Z.id ((a + 1) mod (p + 1))). f_equal.
  rewrite Nat2Z.inj_mod, !Nat2Z.inj_add. reflexivity.
Qed.
Lemma disc_curr_index_nat n q p : (q <= n)%nat ->
  Z.to_nat (pv_disc_curr_index (zn (n mod (p + 1))) (zn q) (zn p)) = ((n - q) mod (p + 1))%nat.
Proof.
  intros H. unfold pv_disc_curr_index, zn. rewrite <- (Nat2Z.id ((n - q) mod (p + 1))). f_equal.
  rewrite !Nat2Z.inj_mod, Nat2Z.inj_sub, !Nat2Z.inj_add by exact H. apply Zminus_mod_idemp_l.
Qed.
Lemma disc_prev_index_nat i p : (1 <= i)%nat ->
  Z.to_nat (pv_disc_prev_index (zn (i mod (p + 1))) (zn p)) = ((i - 1) mod (p + 1))%nat.
Proof.
  intros H. unfold pv_disc_prev_index, zn. rewrite <- (Nat2Z.id ((i - 1) mod (p + 1))). f_equal.
  rewrite !Nat2Z.inj_mod, Nat2Z.inj_sub, !Nat2Z.inj_add by exact H. apply Zminus_mod_idemp_l.
Qed.
Lemma disc_exponent_nat n q : (q + 1 <= n)%nat -> pv_disc_exponent (zn n) (zn q) = Z.of_nat (n - q - 1).
Proof. intros H. unfold pv_disc_exponent, zn. lia. Qed.
Lemma guard_inf_nat n p : pv_guard_inf (zn n) (zn p) = (n <? p)%nat.
Proof.
  unfold pv_guard_inf, zn. destruct (Nat.ltb_spec n p); [apply Z.ltb_lt|apply Z.ltb_ge]; lia.
Qed.

Section PVI.
  Variables (g eps : Q).
  Variable SW : list Q -> list Q.
  Variable POL : list Q -> list nat.
  Variable p : nat.               (* period *)
  Variable V0 : list Q.
  Let m := (p + 1)%nat.
  Let V (i : nat) : list Q := iterate SW i V0.

  (* slot (i mod (p+1)) of the buffer holds V_i for every i in [n-p, n] *)
  Definition pvi_inv (n : nat) (st : pvist) : Prop :=
    p_iter st = n /\ p_vals st = V n /\ p_hidx st = (n mod m)%nat /\ p_period st = p /\
    exists hist, p_hist st = Some hist /\ length hist = m /\
      forall i, (n - p <= i)%nat -> (i <= n)%nat -> nth (i mod m) hist [] = V i.

  Lemma pvi_init_inv : pvi_inv 0 (pvi_init p V0).
  Proof.
    unfold pvi_inv, pvi_init. simpl. repeat split.
    - unfold pv_initial_index. simpl. rewrite Nat.mod_0_l by (unfold m; lia). reflexivity.
    - eexists. split; [reflexivity|]. split.
      + rewrite ll_set_length, repeat_length. unfold pv_buffer_len, zn, m. lia.
      + intros i _ Hi. assert (i = 0)%nat as -> by lia. rewrite Nat.mod_0_l by (unfold m; lia).
        unfold pv_initial_slot. simpl. apply ll_set_nth_eq. rewrite repeat_length. unfold pv_buffer_len, zn. lia.
  Qed.

  Lemma pvi_step_inv n st : pvi_inv n st -> pvi_inv (S n) (fst (pvi_step g eps SW st)).
  Proof.
    intros (Hit & Hv & Hx & Hp & hist & Hh & HL & HS).
    unfold pvi_inv, pvi_step, pvi_sweep_step. simpl. rewrite Hit, Hv, Hx, Hp, Hh.
    rewrite next_index_nat. fold m.
    assert (IDX : ((n mod m + 1) mod m = S n mod m)%nat).
    { rewrite Nat.add_mod_idemp_l by (unfold m; lia). f_equal. lia. }
    rewrite IDX. repeat split.
    eexists. split; [reflexivity|]. split; [now rewrite ll_set_length|].
    intros i Hlo0 Hhi. assert (Hlo : S n - p <= i) by exact Hlo0. clear Hlo0.
    destruct (Nat.eq_dec i (S n)) as [->|Hne].
    - apply ll_set_nth_eq. rewrite HL. apply Nat.mod_upper_bound. unfold m; lia.
    - rewrite ll_set_nth_neq.
      + apply HS; lia.
      + apply not_eq_sym. apply mod_distinct; unfold m; lia.
  Qed.

  Lemma pvi_steps_inv j : pvi_inv j (steps pvist (pvi_step g eps SW) j (pvi_init p V0)).
  Proof. induction j as [|j IH]; [apply pvi_init_inv|]. simpl. now apply pvi_step_inv. Qed.

  (* the documented measure, in terms of the true iterates (no buffer) *)
  Definition doc_measure (n : nat) : option Q :=
    if (n <? p)%nat then None
    else if Qeq_bool g 1 then Some (span_diff (V n) (V (n - p)))
    else Some (Qred (fspan (fun s =>
           fold_left (fun acc q => (acc + (qnth (V (n - q)) s - qnth (V (n - q - 1)) s) / Qpower g (Z.of_nat (n - q - 1)))%Q)
                     (seq 0 p) 0%Q) (length (V n)))).

  Lemma fold_left_ext_seq (f h : Q -> nat -> Q) a len acc :
    (forall x q, (a <= q < a + len)%nat -> f x q = h x q) -> fold_left f (seq a len) acc = fold_left h (seq a len) acc.
  Proof.
    revert a acc; induction len as [|len IH]; intros a acc H; simpl; [reflexivity|].
    rewrite H by lia. apply IH. intros x q Hq. apply H. lia.
  Qed.

  Lemma fmin_ext_L (f h : nat -> Q) k : (forall i, f i = h i) -> fmin f k = fmin h k.
  Proof.
    intros H. induction k as [|k IH]; [reflexivity|]. destruct k; [simpl; apply H|].
    rewrite (fmin_S f), (fmin_S h) by lia. now rewrite IH, H.
  Qed.
  Lemma fmax_ext_L' (f h : nat -> Q) k : (forall i, f i = h i) -> fmax f k = fmax h k.
  Proof.
    intros H. induction k as [|k IH]; [reflexivity|]. destruct k; [simpl; apply H|].
    rewrite (fmax_S f), (fmax_S h) by lia. now rewrite IH, H.
  Qed.
  Lemma fspan_ext_L (f h : nat -> Q) k : (forall i, f i = h i) -> fspan f k = fspan h k.
  Proof. intros H. unfold fspan. now rewrite (fmax_ext_L' f h k H), (fmin_ext_L f h k H). Qed.

  (* what the code compares with epsilon after the n-th sweep = the documented measure *)
  Lemma pvi_measure_doc n hist : (1 <= n)%nat -> length hist = m ->
    (forall i, (n - p <= i)%nat -> (i <= n)%nat -> nth (i mod m) hist [] = V i) ->
    pvi_measure g (V n) hist (n mod m) p n = doc_measure n.
  Proof.
    intros Hn HL HS. unfold pvi_measure, doc_measure. rewrite guard_inf_nat.
    destruct (Nat.ltb_spec n p) as [Hlt|Hge]; [reflexivity|].
    destruct (Qeq_bool g 1).
    - unfold m. rewrite nodisc_prev_index_nat. fold m.
      assert (E : ((n mod m + 1) mod m = (n - p) mod m)%nat).
      { rewrite Nat.add_mod_idemp_l by (unfold m; lia).
        replace (n + 1)%nat with ((n - p) + 1 * m)%nat by (unfold m; lia).
        apply Nat.mod_add. unfold m; lia. }
      rewrite E, HS by lia. reflexivity.
    - f_equal. f_equal. apply fspan_ext_L. intros s. unfold pvi_discounted_deltas.
      apply fold_left_ext_seq. intros acc q Hq. simpl in Hq.
      unfold m. rewrite disc_curr_index_nat by lia.
      rewrite disc_prev_index_nat by lia. fold m.
      rewrite disc_exponent_nat by lia.
      rewrite !HS by lia. replace (n - q - 1)%nat with (n - q - 1)%nat by lia. reflexivity.
  Qed.

  (* the test taken in step number j (0-based) of a run from the fresh solver *)
  Lemma pvi_test_at j :
    snd (pvi_step g eps SW (steps pvist (pvi_step g eps SW) j (pvi_init p V0))) =
    match doc_measure (S j) with None => false | Some c => Qltb c (pvi_threshold g eps) end.
  Proof.
    pose proof (pvi_steps_inv (S j)) as (Hit' & Hv' & Hx' & Hp' & hist' & Hh' & HL' & HS').
    simpl steps in *.
    set (st := steps pvist (pvi_step g eps SW) j (pvi_init p V0)) in *.
    unfold pvi_step, pvi_sweep_step in *.
    cbn [fst snd p_vals p_iter p_hidx p_period p_hist p_pol pvi_incr] in *.
    injection Hh' as Hh'. rewrite Hh', Hv', Hx', Hit', Hp'.
    rewrite (pvi_measure_doc (S j)); [reflexivity|lia|exact HL'|exact HS'].
  Qed.

  Lemma pvi_steps_values j : p_vals (steps pvist (pvi_step g eps SW) j (pvi_init p V0)) = V j.
  Proof. apply (pvi_steps_inv j). Qed.

  (* never before a full period *)
  Lemma doc_measure_before_period n : (n < p)%nat -> doc_measure n = None.
  Proof. intros H. unfold doc_measure. destruct (Nat.ltb_spec n p); [reflexivity|lia]. Qed.

  Lemma pvi_solve_accounting clear ckpt freq k st' conv saves :
    pvi_solve g eps SW POL clear ckpt freq k (pvi_init p V0) = (st', conv, saves) ->
    exists j, (j <= k)%nat /\ p_iter st' = j /\ p_vals st' = V j /\ p_pol st' = Some (POL (V j)) /\
      p_hidx st' = (j mod m)%nat /\
      (forall i, (i + 1 < j)%nat -> match doc_measure (S i) with None => True | Some c => ~ (c < pvi_threshold g eps)%Q end) /\
      (conv = true -> (p <= j)%nat /\ (0 < j)%nat /\ exists c, doc_measure j = Some c /\ (c < pvi_threshold g eps)%Q) /\
      (conv = false -> j = k) /\
      (conv && clear = false -> exists hist, p_hist st' = Some hist /\ length hist = m /\
           forall i, (j - p <= i)%nat -> (i <= j)%nat -> nth (i mod m) hist [] = V i).
  Proof.
    unfold pvi_solve, solve_gen. intros H.
    destruct (loop pvist (pvi_step g eps SW) p_iter ckpt freq k (pvi_init p V0) []) as [[st1 c1] sv1] eqn:L.
    injection H as <- <- _.
    destruct (loop_accounting pvist (pvi_step g eps SW) p_iter ckpt freq (pvi_step_incr g eps SW) _ _ _ _ _ _ L)
      as [j [Hj [Hst [Hit [Hprev [Hc Hn]]]]]].
    pose proof (pvi_steps_inv j) as (Iit & Iv & Ix & Ip & hist & Ih & IL & IS). rewrite <- Hst in *.
    exists j. unfold pvi_finish. simpl. rewrite Iv. repeat split; try assumption.
    - intros i Hi. specialize (Hprev i Hi). rewrite pvi_test_at in Hprev.
      destruct (doc_measure (S i)) as [c|]; [|exact I]. intros C. apply Qltb_true in C. congruence.
    - destruct (Hc H) as [Hj0 Hl]. rewrite pvi_test_at in Hl. replace (S (j - 1)) with j in Hl by lia.
      destruct (Nat.lt_ge_cases j p) as [C|C]; [|exact C]. rewrite doc_measure_before_period in Hl by exact C. discriminate.
    - now apply Hc.
    - destruct (Hc H) as [Hj0 Hl]. rewrite pvi_test_at in Hl. replace (S (j - 1)) with j in Hl by lia.
      destruct (doc_measure j) as [c|]; [|discriminate]. exists c. split; [reflexivity|]. now apply Qltb_true.
    - intros C. now apply Hn.
    - intros C. rewrite C. exists hist. repeat split; assumption.
  Qed.
End PVI.
