(* Forest.transition as GENERATED from the source is the model forest_next / forest_reward. *)
From Coq Require Import ZArith QArith List Bool.
From MdpaxV Require Import Model.Problems Model.ProblemOps.
From MdpaxGen Require Import GenForest.
Import ListNotations.
Open Scope Z_scope.

Theorem gen_forest_transition_eq S r1 r2 age (cut fire : bool) :
  gen_forest_transition S r1 r2 [age] [if cut then 1 else 0] [if fire then 1 else 0] =
  ([forest_next S age cut fire], forest_reward S r1 r2 age cut).
Proof. unfold gen_forest_transition, forest_next, forest_reward. destruct cut, fire; reflexivity. Qed.
