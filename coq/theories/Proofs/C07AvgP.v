(* C07, undiscounted case: multi-step gain bracket and the average-reward bound at convergence
   (no aperiodicity assumed, so chains that are periodic with the period are included). *)
From Coq Require Import QArith Qminmax Qabs Qreduction List Arith ZArith Lia Lqa Bool.
From MdpaxV Require Import Model.ListUtil Model.QFun Model.MDP Model.Bellman Model.Solvers
     Proofs.QFunP Proofs.ContractionP Proofs.BellmanP Proofs.C02P Proofs.C04P Proofs.C08P Proofs.C01RunP.
Import ListNotations.
Open Scope Q_scope.

Section Multi.
  Variable M : mdp.
  Hypothesis WF : wf M.
  Let n := nS M.
  Let npos : (0 < n)%nat. Proof. apply WF. Qed.
  Let one_nonneg : 0 <= 1. Proof. lra. Qed.

  Lemma Titer_onesided d : onesided n 1 (Titer M 1 d).
  Proof.
    induction d as [|d IH]; intros u v D H s Hs; simpl.
    - specialize (H s Hs). lra.
    - pose proof (T_onesided M 1 WF one_nonneg (Titer M 1 d u) (Titer M 1 d v) (1 * D)) as X.
      assert (forall t, (t < nS M)%nat -> Titer M 1 d u t <= Titer M 1 d v t + 1 * D) as H0 by (intros t Ht; now apply IH).
      specialize (X H0 s Hs). lra.
  Qed.

  Lemma aroe_iter gs hs d : aroe M gs hs -> forall s, (s < n)%nat -> hs s + inject_Z (Z.of_nat d) * gs == Titer M 1 d hs s.
  Proof.
    intros HA. induction d as [|d IH]; intros s Hs.
    - simpl. ring.
    - simpl Titer.
      rewrite (T_ext M 1 WF (Titer M 1 d hs) (fun t => hs t + inject_Z (Z.of_nat d) * gs)) by (try exact Hs; intros t Ht; symmetry; now apply IH).
      rewrite (T_shift M 1 WF one_nonneg hs (inject_Z (Z.of_nat d) * gs) s Hs), <- (HA s Hs).
      rewrite Nat2Z.inj_succ. unfold Z.succ. rewrite inject_Z_plus. ring.
  Qed.

  Lemma multi_step_gain_bracket_l gs hs h d : aroe M gs hs ->
    fmin (fun s => Titer M 1 d h s - h s) n <= inject_Z (Z.of_nat d) * gs <= fmax (fun s => Titer M 1 d h s - h s) n.
  Proof.
    intros HA. apply (gain_bracket_gen n npos (Titer M 1 d) (Titer_onesided d) (inject_Z (Z.of_nat d) * gs) hs h).
    intros s Hs. now apply aroe_iter.
  Qed.

  Lemma iterate_length d V : length V = n -> length (iterate (sweep M 1) d V) = n.
  Proof. intros H. destruct d; simpl; [exact H|apply sweep_length]. Qed.

  Lemma iterate_spec d V s : (s < n)%nat -> qnth (iterate (sweep M 1) d V) s == Titer M 1 d (qnth V) s.
  Proof.
    revert s; induction d as [|d IH]; intros s Hs; simpl; [reflexivity|].
    rewrite sweep_spec by exact Hs. apply (T_ext M 1 WF); [|exact Hs]. intros t Ht. now apply IH.
  Qed.

  (* at convergence with gamma = 1: every component of (V_n - V_(n-p)) / p is within eps/p of g*,
     stated without the division:  | V_n(s) - V_(n-p)(s) - p g* | < eps *)
  Lemma pvi_average_reward_bound_l gs hs Vold p eps : aroe M gs hs -> length Vold = n ->
    span_diff (iterate (sweep M 1) p Vold) Vold < eps ->
    forall s, (s < n)%nat ->
      Qabs (qnth (iterate (sweep M 1) p Vold) s - qnth Vold s - inject_Z (Z.of_nat p) * gs) < eps.
  Proof.
    intros HA HL Hsp s Hs.
    pose proof (multi_step_gain_bracket_l gs hs (qnth Vold) p HA) as [B1 B2].
    rewrite span_diff_spec, iterate_length in Hsp by exact HL. unfold fspan in Hsp.
    set (f := fun i => qnth (iterate (sweep M 1) p Vold) i - qnth Vold i) in *.
    assert (E : forall i, (i < n)%nat -> f i == Titer M 1 p (qnth Vold) i - qnth Vold i).
    { intros i Hi. unfold f. now rewrite iterate_spec. }
    rewrite <- (fmin_ext f _ n E) in B1. rewrite <- (fmax_ext f _ n E) in B2.
    pose proof (fmin_le f n s Hs). pose proof (fmax_ge f n s Hs). fold (f s).
    apply Qabs_Qlt_condition. lra.
  Qed.
End Multi.
