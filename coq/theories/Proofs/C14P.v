(* C14 / C15: closure of the shipped problems' state spaces and conservation of units, for ALL parameters. *)
From Coq Require Import ZArith QArith List Lia Bool.
From MdpaxV Require Import Model.ListUtil Model.Problems Proofs.C15P.
Import ListNotations.
Open Scope Z_scope.

Notation within Q l := (Forall (fun x => 0 <= x <= Q) l) (only parsing).

Lemma within_firstn Q k l : within Q l -> within Q (firstn k l).
Proof.
  intros H. apply Forall_forall. intros x Hx. rewrite Forall_forall in H. apply H.
  rewrite <- (firstn_skipn k l). apply in_or_app. now left.
Qed.
Lemma within_skipn Q k l : within Q l -> within Q (skipn k l).
Proof.
  intros H. apply Forall_forall. intros x Hx. rewrite Forall_forall in H. apply H.
  rewrite <- (firstn_skipn k l). apply in_or_app. now right.
Qed.
Lemma within_nonneg Q l : within Q l -> Forall (fun x => 0 <= x) l.
Proof. intros H. eapply Forall_impl; [|exact H]. intros; simpl in *; lia. Qed.
Lemma within_last Q l : within Q l -> 0 <= Q -> 0 <= zlast l <= Q.
Proof.
  intros H HQ. unfold zlast. induction H as [|x l Hx Hl IH]; [simpl; lia|].
  destruct l as [|y l]; [simpl; exact Hx|]. exact IH.
Qed.
Lemma within_of_bounds Q after stock : Forall2 (fun y x => 0 <= y <= x) after stock -> within Q stock -> within Q after.
Proof. induction 1; intros W; [constructor|]. inversion W; subst. constructor; [lia|now apply IHForall2]. Qed.

Lemma issue_within Q (fifo : bool) stock d : 0 <= d -> within Q stock ->
  within Q (if fifo then issue_fifo stock d else issue_lifo stock d).
Proof.
  intros Hd W. destruct fifo; eapply within_of_bounds; try exact W;
  [apply issue_fifo_bounds|apply issue_lifo_bounds]; try assumption; now apply (within_nonneg Q).
Qed.

(* ---------------- De Moor *)
Section DeMoor.
  Variables (L m : nat) (fifo : bool) (Q : Z).
  Hypothesis HL : (1 <= L)%nat.
  Hypothesis Hm : (1 <= m)%nat.
  Hypothesis HQ : 0 <= Q.

  Lemma demoor_closed_l state q d : length state = (L - 1 + m)%nat -> within Q state -> 0 <= q <= Q -> 0 <= d ->
    within Q (dm_next L m fifo state q d) /\ length (dm_next L m fifo state q d) = (L - 1 + m)%nat.
  Proof.
    intros Hlen W Hq Hd. unfold dm_next, dm_parts.
    set (transit := firstn (L - 1) state). set (stock := skipn (L - 1) state).
    set (after := if fifo then issue_fifo stock d else issue_lifo stock d).
    assert (Wt : within Q (q :: transit)) by (constructor; [exact Hq|now apply within_firstn]).
    assert (Wa : within Q after) by (apply issue_within; [exact Hd|now apply within_skipn]).
    assert (La : length after = m).
    { unfold after. destruct fifo; [rewrite issue_fifo_length|unfold issue_lifo; rewrite scan_fwd_length];
      unfold stock; rewrite skipn_length; lia. }
    split.
    - apply Forall_app. split; [now apply within_firstn|]. constructor; [now apply within_last|now apply within_firstn].
    - rewrite app_length, firstn_length. simpl length. rewrite firstn_length.
      unfold transit. rewrite firstn_length. lia.
  Qed.

  (* units are conserved: opening stock + receipt = issued + expired + closing stock *)
  Lemma demoor_conservation state q d : length state = (L - 1 + m)%nat -> within Q state -> 0 <= d ->
    let '(in_transit, stock, after) := dm_parts L fifo state q d in
    let issued := Z.min d (zsum stock) in
    let receipt := zlast in_transit in
    let closing := receipt :: firstn (m - 1) after in
    zsum stock + receipt = issued + zlast after + zsum closing /\ zsum after = zsum stock - issued.
  Proof.
    intros Hlen W Hd. unfold dm_parts.
    set (stock := skipn (L - 1) state). set (after := if fifo then issue_fifo stock d else issue_lifo stock d).
    cbv zeta.
    assert (Ws : Forall (fun x => 0 <= x) stock) by (apply (within_nonneg Q); now apply within_skipn).
    assert (T : zsum after = zsum stock - Z.min d (zsum stock)).
    { unfold after. destruct fifo; [apply issue_fifo_total|apply issue_lifo_total]; assumption. }
    assert (La : length after = m).
    { unfold after. destruct fifo; [rewrite issue_fifo_length|unfold issue_lifo; rewrite scan_fwd_length];
      unfold stock; rewrite skipn_length; lia. }
    assert (S : zsum after = zsum (firstn (m - 1) after) + zlast after).
    { rewrite <- (firstn_skipn (m - 1) after) at 1. rewrite zsum_app. f_equal.
      unfold zlast. rewrite <- (firstn_skipn (m - 1) after) at 2.
      assert (Lk : length (skipn (m - 1) after) = 1%nat) by (rewrite skipn_length; lia).
      destruct (skipn (m - 1) after) as [|z [|z' r]] eqn:E; simpl in Lk; try lia.
      rewrite last_last. simpl. lia. }
    split; [|exact T]. rewrite zsum_cons. lia.
  Qed.
End DeMoor.

(* ---------------- Hendrix *)
Lemma hendrix_closed_l m Qa Qb state qa qb ia ib : (1 <= m)%nat -> 0 <= Qa -> 0 <= Qb ->
  length state = (m + m)%nat -> within Qa (firstn m state) -> within Qb (skipn m state) ->
  0 <= qa <= Qa -> 0 <= qb <= Qb -> 0 <= ia -> 0 <= ib ->
  within Qa (firstn m (hx_next m state qa qb ia ib)) /\ within Qb (skipn m (hx_next m state qa qb ia ib)) /\
  length (hx_next m state qa qb ia ib) = (m + m)%nat.
Proof.
  intros Hm HQa HQb Hlen Wa Wb Hqa Hqb Hia Hib. unfold hx_next.
  set (A := qa :: firstn (m - 1) (issue_fifo (firstn m state) ia)).
  set (B := qb :: firstn (m - 1) (issue_fifo (skipn m state) ib)).
  assert (LA : length A = m).
  { unfold A. simpl. rewrite firstn_length, issue_fifo_length, firstn_length. lia. }
  assert (LB : length B = m).
  { unfold B. simpl. rewrite firstn_length, issue_fifo_length, skipn_length. lia. }
  assert (WA : within Qa A).
  { unfold A. constructor; [exact Hqa|]. apply within_firstn. apply (issue_within Qa true); assumption. }
  assert (WB : within Qb B).
  { unfold B. constructor; [exact Hqb|]. apply within_firstn. apply (issue_within Qb true); assumption. }
  repeat split.
  - rewrite firstn_app, LA, Nat.sub_diag, firstn_O, app_nil_r. rewrite firstn_all2 by lia. exact WA.
  - rewrite skipn_app, LA, Nat.sub_diag. rewrite skipn_all2 by lia. exact WB.
  - rewrite app_length. lia.
Qed.

(* ---------------- Mirjalili *)
Lemma map2_clip_within Qmax : 0 <= Qmax -> forall a rec, within Qmax (map2 (fun x r => clipz0 Qmax (x + r)) a rec).
Proof.
  intros HQ. induction a as [|x a IH]; intros rec; [constructor|].
  destruct rec as [|r rec]; simpl; [constructor|]. constructor; [unfold clipz0; lia|apply IH].
Qed.

Lemma mirjalili_closed_l m Qmax state d rec : (1 <= m)%nat -> 0 <= Qmax ->
  length state = m -> length rec = m -> 0 <= hd 0 state <= 6 -> 0 <= d ->
  0 <= hd 0 (mj_next m Qmax state d rec) <= 6 /\ within Qmax (tl (mj_next m Qmax state d rec)) /\
  length (mj_next m Qmax state d rec) = m.
Proof.
  intros Hm HQ Hlen Hrec Hwd Hd. unfold mj_next. simpl hd. simpl tl.
  assert (WO : within Qmax (mj_opening Qmax state rec)) by (unfold mj_opening; now apply map2_clip_within).
  assert (LO : length (mj_opening Qmax state rec) = m).
  { unfold mj_opening. destruct state as [|w st]; [simpl in Hlen; lia|]. simpl tl. simpl in Hlen.
    assert (forall (a b : list Z), length a = length b -> length (map2 (fun x r => clipz0 Qmax (x + r)) a b) = length a) as ML.
    { induction a as [|x a IH]; intros [|y b] E; simpl in *; try lia. rewrite IH; lia. }
    rewrite ML; simpl; lia. }
  repeat split.
  - apply Z.mod_pos_bound. lia.
  - pose proof (Z.mod_pos_bound (hd 0 state + 1) 7 ltac:(lia)). lia.
  - apply within_firstn. apply (issue_within Qmax true); assumption.
  - simpl. rewrite firstn_length, issue_fifo_length, LO. lia.
Qed.

(* delivery may refuse units beyond the per-age limit (documented); everything accepted is conserved *)
Lemma mirjalili_conservation m Qmax state d rec : (1 <= m)%nat -> 0 <= Qmax -> 0 <= d ->
  let opening := mj_opening Qmax state rec in
  let after := issue_fifo opening d in
  zsum after = zsum opening - Z.min d (zsum opening).
Proof.
  intros Hm HQ Hd. cbv zeta. apply issue_fifo_total; [exact Hd|].
  apply (within_nonneg Qmax). unfold mj_opening. now apply map2_clip_within.
Qed.

(* ---------------- Forest *)
Lemma forest_closed_l S age cut fire : 1 <= S -> 0 <= age <= S - 1 -> 0 <= forest_next S age cut fire <= S - 1.
Proof. intros HS Ha. unfold forest_next. destruct (cut || fire); lia. Qed.
