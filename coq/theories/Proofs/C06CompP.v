(* C06, the composition: the WHOLE semi-asynchronous sweep of the code-shaped model (permute, pad, reshape
   into devices x batches x slots, per-device scan with masked scatter, un-batch, undo the permutation)
   equals the block Gauss-Seidel operator of the partition that the layout induces on the chosen order. *)
From Coq Require Import QArith Qabs List Arith ZArith Lia Bool Permutation.
From MdpaxV Require Import Model.ListUtil Model.QFun Model.MDP Model.Bellman Model.Batching Model.Kernel Model.SemiAsync
     Model.GaussSeidel Proofs.ListUtilP Proofs.C18P Proofs.BellmanP Proofs.C06P Proofs.C06DeviceP Proofs.GaussSeidelP Proofs.QFunP Proofs.C01GsP.
From MdpaxGen Require Import GenBatch.
Import ListNotations.
Open Scope Q_scope.

(* ---------- generic list facts *)
Lemma Forall2_map_r_in {A B} (R : A -> B -> Prop) (h : A -> B) l :
  (forall x, In x l -> R x (h x)) -> Forall2 R l (map h l).
Proof.
  induction l as [|x l IH]; intros H; [constructor|]. simpl. constructor.
  - apply H. now left.
  - apply IH. intros y Hy. apply H. now right.
Qed.

Lemma Forall2_impl_in {A B} (R R' : A -> B -> Prop) l1 l2 :
  (forall x y, In x l1 -> R x y -> R' x y) -> Forall2 R l1 l2 -> Forall2 R' l1 l2.
Proof.
  intros H F. induction F as [|x y l1 l2 Hxy F IH]; [constructor|]. constructor.
  - apply H; [now left|exact Hxy].
  - apply IH. intros a b Ha. apply H. now right.
Qed.

Lemma Forall2_concat {A B} (R : A -> B -> Prop) a b :
  Forall2 (Forall2 R) a b -> Forall2 R (concat a) (concat b).
Proof.
  intros F. induction F as [|x y a b Hxy F IH]; [constructor|]. simpl. now apply Forall2_app.
Qed.

Lemma Forall2_nth_lt {A B} (R : A -> B -> Prop) l1 l2 i d1 d2 :
  Forall2 R l1 l2 -> (i < length l1)%nat -> R (nth i l1 d1) (nth i l2 d2).
Proof.
  intros F. revert i. induction F as [|x y l1 l2 Hxy F IH]; intros i Hi; simpl in Hi; [lia|].
  destruct i as [|i]; simpl; [exact Hxy|]. apply IH. lia.
Qed.

Lemma Forall2_len {A B} (R : A -> B -> Prop) l1 l2 : Forall2 R l1 l2 -> length l1 = length l2.
Proof. intros F. induction F; simpl; congruence. Qed.

Lemma skipn_repeat {T} (x : T) m k : skipn m (repeat x k) = repeat x (k - m).
Proof.
  revert k. induction m as [|m IH]; intros k; simpl.
  - now rewrite Nat.sub_0_r.
  - destruct k as [|k]; simpl; [reflexivity|apply IH].
Qed.

Lemma firstn_repeat {T} (x : T) m k : firstn m (repeat x k) = repeat x (Nat.min m k).
Proof.
  revert k. induction m as [|m IH]; intros k; simpl; [reflexivity|].
  destruct k as [|k]; simpl; [reflexivity|]. now rewrite IH.
Qed.

(* ---------- real slots *)
Lemma reals_app a b : reals (a ++ b) = reals a ++ reals b.
Proof. unfold reals. apply flat_map_app. Qed.

Lemma reals_map_Some l : reals (map Some l) = l.
Proof. unfold reals. induction l as [|x l IH]; simpl; [reflexivity|now rewrite IH]. Qed.

Lemma reals_repeat_None k : reals (repeat None k) = [].
Proof. unfold reals. induction k as [|k IH]; simpl; [reflexivity|exact IH]. Qed.

Lemma reals_In s b : In s (reals b) <-> In (Some s) b.
Proof.
  unfold reals. rewrite in_flat_map. split.
  - intros [x [Hx Hs]]. destruct x as [t|]; simpl in Hs; [|contradiction].
    destruct Hs as [->|[]]. exact Hx.
  - intros H. exists (Some s). split; [exact H|now left].
Qed.

Lemma reals_concat (dev : list (list (option nat))) : reals (concat dev) = concat (map reals dev).
Proof.
  induction dev as [|b rest IH]; [reflexivity|]. simpl. now rewrite reals_app, IH.
Qed.

Lemma memb_iff s l : memb s l = true <-> In s l.
Proof.
  unfold memb. rewrite existsb_exists. split.
  - intros [x [Hx E]]. apply Nat.eqb_eq in E. now subst.
  - intros H. exists s. split; [exact H|apply Nat.eqb_refl].
Qed.

Lemma in_device_reals s (dev : list (list (option nat))) :
  in_device s (map reals dev) = true <-> In s (reals (concat dev)).
Proof.
  unfold in_device. rewrite existsb_exists, reals_concat, in_concat. split.
  - intros [b [Hb Hs]]. exists b. split; [exact Hb|now apply memb_iff].
  - intros [b [Hb Hs]]. exists b. split; [exact Hb|now apply memb_iff].
Qed.

(* ---------- "states, then only padding": the shape of every piece of the padded state list *)
Definition SN (l : list (option nat)) : Prop := exists a k, l = map Some a ++ repeat None k.

Lemma SN_skipn m l : SN l -> SN (skipn m l).
Proof.
  intros [a [k ->]]. exists (skipn m a), (k - (m - length (map Some a)))%nat.
  now rewrite skipn_app, skipn_map, skipn_repeat.
Qed.

Lemma SN_firstn m l : SN l -> SN (firstn m l).
Proof.
  intros [a [k ->]]. exists (firstn m a), (Nat.min (m - length (map Some a)) k).
  now rewrite firstn_app, firstn_map, firstn_repeat.
Qed.

Lemma has_none_map_Some a : has_none (map Some a) = false.
Proof. unfold has_none. induction a as [|x a IH]; simpl; [reflexivity|exact IH]. Qed.

Lemma all_none_repeat k : all_none (repeat None k) = true.
Proof. unfold all_none. induction k as [|k IH]; simpl; [reflexivity|exact IH]. Qed.

Lemma chunks_all_none bs c k : forallb all_none (chunks bs c (repeat None k)) = true.
Proof.
  revert k. induction c as [|c IH]; intros k; simpl; [reflexivity|].
  rewrite firstn_repeat, all_none_repeat, skipn_repeat. simpl. apply IH.
Qed.

Lemma chunks_suffix_ok bs c l : SN l -> suffix_ok (chunks bs c l).
Proof.
  revert l. induction c as [|c IH]; intros l HS; simpl; [exact I|]. split.
  - destruct HS as [a [k ->]]. intros HN.
    destruct (Nat.le_gt_cases bs (length a)) as [Hle|Hgt].
    + exfalso. rewrite firstn_app, map_length in HN.
      replace (bs - length a)%nat with 0%nat in HN by lia. simpl in HN. rewrite app_nil_r in HN.
      rewrite firstn_map, has_none_map_Some in HN. discriminate.
    + rewrite skipn_app, map_length, skipn_all2 by (rewrite map_length; lia). simpl.
      rewrite skipn_repeat. apply chunks_all_none.
  - apply IH. now apply SN_skipn.
Qed.

Lemma chunks_Forall_SN bs c l : SN l -> Forall SN (chunks bs c l).
Proof.
  revert l. induction c as [|c IH]; intros l HS; simpl; constructor.
  - now apply SN_firstn.
  - apply IH. now apply SN_skipn.
Qed.

Section Comp.
  Variable M : mdp.
  Hypothesis WF : wf M.
  Variable g : Q.
  Hypothesis g0 : 0 <= g.
  Variables (zidx : nat) (pad_wins : bool) (padval : Q).
  Let nn := nS M.

  Definition slot_ok (F : nat -> Q) (sl : option nat) (y : Q) : Prop :=
    match sl with Some s => y == F s | None => True end.

  Lemma gs_device_notin bs t : forall c, existsb (memb t) bs = false -> gs_device M g bs c t = c t.
  Proof.
    induction bs as [|b bs IH]; intros c H; simpl in *; [reflexivity|].
    apply orb_false_iff in H. destruct H as [H1 H2]. rewrite IH by exact H2. unfold gs_batch. now rewrite H1.
  Qed.

  (* one device: every real slot's output is the final block Gauss-Seidel value of its state on this device *)
  Lemma gs_outputs_device dev : forall f, NoDup (reals (concat dev)) ->
    Forall2 (slot_ok (gs_device M g (map reals dev) f)) (concat dev) (concat (gs_outputs M g padval dev f)).
  Proof.
    induction dev as [|b rest IH]; intros f ND; [constructor|].
    cbn [concat gs_outputs map gs_device]. apply Forall2_app.
    - apply Forall2_map_r_in. intros sl Hsl. destruct sl as [s|]; [|exact I]. simpl.
      assert (Hb : In s (reals b)) by now apply reals_In.
      assert (NI : existsb (memb s) (map reals rest) = false).
      { destruct (existsb (memb s) (map reals rest)) eqn:E; [|reflexivity]. exfalso.
        change (in_device s (map reals rest) = true) in E. apply in_device_reals in E.
        simpl in ND. rewrite reals_app in ND. revert ND Hb E. generalize (reals b) (reals (concat rest)).
        intros l1 l2 ND H1 H2. induction l1 as [|x l1 IHl]; [contradiction|].
        simpl in ND. inversion ND as [|? ? Hn Hr]; subst. destruct H1 as [->|H1].
        - apply Hn. apply in_or_app. now right.
        - now apply IHl. }
      rewrite gs_device_notin by exact NI. unfold gs_batch.
      assert (memb s (reals b) = true) as -> by now apply memb_iff. reflexivity.
    - apply IH. simpl in ND. rewrite reals_app in ND. now apply NoDup_app_r in ND.
  Qed.

  (* the device a state belongs to is the one `find` returns *)
  Lemma find_device sl : NoDup (reals (flatten3 sl)) -> forall dev s, In dev sl -> In s (reals (concat dev)) ->
    find (in_device s) (map (map reals) sl) = Some (map reals dev).
  Proof.
    induction sl as [|d0 rest IH]; intros ND dev s Hdev Hs; [contradiction|].
    unfold flatten3 in ND. simpl in ND. rewrite concat_app, reals_app in ND. simpl.
    destruct Hdev as [->|Hdev].
    - assert (in_device s (map reals dev) = true) as -> by now apply in_device_reals. reflexivity.
    - destruct (in_device s (map reals d0)) eqn:E.
      + exfalso. apply in_device_reals in E.
        assert (H2 : In s (reals (concat (concat rest)))).
        { rewrite reals_concat. apply in_concat. rewrite reals_concat in Hs. apply in_concat in Hs.
          destruct Hs as [b [Hb Hsb]]. exists b. split; [|exact Hsb].
          apply in_map_iff in Hb. destruct Hb as [b0 [<- Hb0]]. apply in_map. apply in_concat. exists dev. split; assumption. }
        revert ND E H2. generalize (reals (concat d0)) (reals (concat (concat rest))).
        intros l1 l2 ND H1 H2. induction l1 as [|x l1 IHl]; [contradiction|].
        simpl in ND. inversion ND as [|? ? Hn Hr]; subst. destruct H1 as [->|H1].
        * apply Hn. apply in_or_app. now right.
        * now apply IHl.
      + apply IH; try assumption. now apply NoDup_app_r in ND.
  Qed.

  Lemma NoDup_device sl dev : NoDup (reals (flatten3 sl)) -> In dev sl -> NoDup (reals (concat dev)).
  Proof.
    induction sl as [|d0 rest IH]; intros ND H; [contradiction|].
    unfold flatten3 in ND. simpl in ND. rewrite concat_app, reals_app in ND. destruct H as [->|H].
    - now apply NoDup_app_l in ND.
    - apply IH; [|exact H]. now apply NoDup_app_r in ND.
  Qed.

  (* all devices: every real slot's output is gs_op of the induced partition at its state *)
  Lemma outputs_all sl f : NoDup (reals (flatten3 sl)) -> forall sub, incl sub sl ->
    Forall2 (slot_ok (gs_op M g (map (map reals) sl) f)) (flatten3 sub)
            (flatten3 (map (fun dev => gs_outputs M g padval dev f) sub)).
  Proof.
    intros ND sub. induction sub as [|dev sub IH]; intros HI; [constructor|].
    unfold flatten3. simpl. rewrite !concat_app. apply Forall2_app.
    - assert (Hdev : In dev sl) by (apply HI; now left).
      apply (Forall2_impl_in (slot_ok (gs_device M g (map reals dev) f))).
      + intros sl0 y Hin H. destruct sl0 as [s|]; [|exact I]. simpl in *. unfold gs_op.
        rewrite (find_device sl ND dev s Hdev); [exact H|]. rewrite reals_In. exact Hin.
      + apply gs_outputs_device. now apply (NoDup_device sl).
    - apply IH. intros x Hx. apply HI. now right.
  Qed.

  Lemma slot_ok_Qeq F l ys zs : Forall2 (slot_ok F) l ys -> Forall2 Qeq zs ys -> Forall2 (slot_ok F) l zs.
  Proof.
    intros H. revert zs. induction H as [|sl y l ys Hy H IH]; intros zs HZ; inversion HZ; subst; constructor.
    - destruct sl as [s|]; [|exact I]. simpl in *. match goal with E : _ == y |- _ => now rewrite E end.
    - now apply IH.
  Qed.

  (* the scan results of all devices, flattened *)
  Lemma scan_all cur f sl : length cur = nn -> (forall t, (t < nn)%nat -> qnth cur t == f t) ->
    Forall (fun dev => suffix_ok dev) sl -> (forall s, In s (reals (flatten3 sl)) -> (s < nn)%nat) ->
    NoDup (reals (flatten3 sl)) ->
    Forall2 Qeq (flatten3 (map (sa_device M zidx pad_wins padval g cur) sl))
                (flatten3 (map (fun dev => gs_outputs M g padval dev f) sl)).
  Proof.
    intros HL HC HS HR ND. induction sl as [|dev rest IH]; [constructor|].
    unfold flatten3 in *. simpl in *. rewrite !concat_app in *. rewrite reals_app in HR, ND.
    inversion HS as [|? ? HS1 HS2]; subst. apply Forall2_app.
    - apply Forall2_concat. apply (sa_device_is_gs M WF g zidx pad_wins padval dev cur f HL HC HS1).
      + intros s Hs. apply HR. apply in_or_app. now left.
      + now apply NoDup_app_l in ND.
    - apply IH; [exact HS2| |now apply NoDup_app_r in ND].
      intros s Hs. apply HR. apply in_or_app. now right.
  Qed.
End Comp.

(* ---------- the layout of the code: slots n mb d order *)
Section Layout.
  Variable M : mdp.
  Hypothesis WF : wf M.
  Variable g : Q.
  Hypothesis g0 : 0 <= g.
  Variables (zidx : nat) (pad_wins : bool) (padval : Q).
  Variables (n mb d : Z).
  Hypothesis Hn : n = Z.of_nat (nS M).
  Hypothesis Hn1 : (1 <= n)%Z.
  Hypothesis Hmb : (1 <= mb)%Z.
  Hypothesis Hd : (1 <= d)%Z.
  Variable order : list nat.
  Hypothesis HP : Permutation order (seq 0 (nS M)).

  Let bs := Z.to_nat (bp_batch_size n mb d).
  Let nb := Z.to_nat (bp_n_batches n mb d).
  Let dn := Z.to_nat d.
  Let pad := Z.to_nat (bp_n_pad n mb d).
  Let sl := slots n mb d order.
  Definition parts_of : list (list (list nat)) := map (map reals) (slots n mb d order).

  Lemma order_len : Z.of_nat (length (map Some order)) = n.
  Proof. rewrite map_length, (Permutation_length HP), seq_length. now rewrite Hn. Qed.

  Lemma sl_eq : sl = reshape3 dn nb bs (map Some order ++ repeat None pad).
  Proof. unfold sl, slots. apply (prepare_eq n mb d Hn1 Hmb Hd None (map Some order)). Qed.

  Lemma flat_len : length (map Some order ++ repeat None pad) = (dn * (nb * bs))%nat.
  Proof.
    pose proof (pad_list_length n mb d Hn1 Hmb Hd None (map Some order) order_len) as PL.
    rewrite (pad_list_eq n mb d Hn1 Hmb Hd None (map Some order)) in PL. exact PL.
  Qed.

  Lemma flat_sl : flatten3 sl = map Some order ++ repeat None pad.
  Proof. rewrite sl_eq. apply flatten3_reshape3. exact flat_len. Qed.

  Lemma reals_sl : reals (flatten3 sl) = order.
  Proof. now rewrite flat_sl, reals_app, reals_map_Some, reals_repeat_None, app_nil_r. Qed.

  Lemma order_NoDup : NoDup order.
  Proof. apply (Permutation_NoDup (Permutation_sym HP)). apply seq_NoDup. Qed.

  Lemma order_range s : In s order -> (s < nS M)%nat.
  Proof. intros H. apply (Permutation_in _ HP) in H. apply in_seq in H. lia. Qed.

  Lemma sl_suffix : Forall (fun dev => suffix_ok dev) sl.
  Proof.
    rewrite sl_eq. unfold reshape3. apply Forall_map.
    assert (S0 : SN (map Some order ++ repeat None pad)) by (exists order, pad; reflexivity).
    pose proof (chunks_Forall_SN (nb * bs) dn _ S0) as F.
    eapply Forall_impl; [|exact F]. intros ch Hch. now apply chunks_suffix_ok.
  Qed.

  (* the induced partition covers every state, devices are disjoint and no state repeats within a device *)
  Lemma parts_cover : covers parts_of (nS M).
  Proof.
    intros s Hs. assert (Hin : In s (reals (flatten3 sl))).
    { rewrite reals_sl. apply (Permutation_in _ (Permutation_sym HP)). apply in_seq. lia. }
    unfold flatten3 in Hin. rewrite reals_concat in Hin. apply in_concat in Hin. destruct Hin as [b [Hb Hsb]].
    apply in_map_iff in Hb. destruct Hb as [b0 [<- Hb0]]. apply in_concat in Hb0. destruct Hb0 as [dev [Hdev Hb0]].
    exists (map reals dev). apply (find_device sl); [rewrite reals_sl; exact order_NoDup|exact Hdev|].
    rewrite reals_concat. apply in_concat. exists (reals b0). split; [now apply in_map|exact Hsb].
  Qed.

  Lemma parts_nodup : Forall (fun dev => NoDup (concat dev)) parts_of.
  Proof.
    unfold parts_of. fold sl. apply Forall_map. apply Forall_forall. intros dev Hdev.
    rewrite <- reals_concat. apply (NoDup_device sl); [rewrite reals_sl; exact order_NoDup|exact Hdev].
  Qed.

  Lemma parts_disjoint : disjoint_devices parts_of.
  Proof.
    intros t dev dev' H1 H2 I1 I2. unfold parts_of in H1, H2. fold sl in H1, H2.
    apply in_map_iff in H1. destruct H1 as [dv [<- Hdv]]. apply in_map_iff in H2. destruct H2 as [dv' [<- Hdv']].
    assert (ND : NoDup (reals (flatten3 sl))) by (rewrite reals_sl; exact order_NoDup).
    apply in_device_reals in I1. apply in_device_reals in I2.
    pose proof (find_device sl ND dv t Hdv I1) as F1. pose proof (find_device sl ND dv' t Hdv' I2) as F2.
    rewrite F1 in F2. now inversion F2.
  Qed.

  (* THE COMPOSITION *)
  Theorem savi_sweep_is_gs_op (sigma : option (list nat)) V :
    order = match sigma with Some s => s | None => seq 0 (nS M) end ->
    length V = nS M ->
    length (savi_sweep M n mb d zidx pad_wins padval sigma g V) = nS M /\
    forall s, (s < nS M)%nat ->
      qnth (savi_sweep M n mb d zidx pad_wins padval sigma g V) s == gs_op M g parts_of (qnth V) s.
  Proof.
    intros Ho HL.
    set (res := map (sa_device M zidx pad_wins padval g V) sl).
    set (flat := unbatch n mb d res).
    assert (ND : NoDup (reals (flatten3 sl))) by (rewrite reals_sl; exact order_NoDup).
    assert (HR : forall s, In s (reals (flatten3 sl)) -> (s < nS M)%nat) by (rewrite reals_sl; exact order_range).
    pose proof (scan_all M WF g zidx pad_wins padval V (qnth V) sl HL (fun t _ => Qeq_refl _) sl_suffix HR ND) as SC.
    pose proof (outputs_all M g padval sl (qnth V) ND sl (incl_refl sl)) as OUT.
    pose proof (slot_ok_Qeq _ _ _ _ OUT SC) as OK. fold res in OK.
    assert (LEN : length (flatten3 res) = Z.to_nat (n + bp_n_pad n mb d)).
    { rewrite <- (Forall2_len _ _ _ OK), flat_sl, flat_len.
      pose proof (slots_eq n mb d) as S. pose proof (pad_nonneg n mb d Hn1 Hmb Hd) as P.
      pose proof (batch_size_bounds n mb d Hn1 Hmb Hd). pose proof (n_batches_pos n mb d Hn1 Hmb Hd).
      unfold dn, nb, bs. apply Nat2Z.inj. rewrite !Nat2Z.inj_mul, !Z2Nat.id by lia. lia. }
    destruct (unbatch_any_shape n mb d Hn1 Hmb Hd res LEN) as [FL FN]. fold flat in FL, FN.
    assert (NN : Z.to_nat n = nS M) by (rewrite Hn; apply Nat2Z.id).
    rewrite NN in FL, FN.
    (* position p of the flat result holds the value of state order[p] *)
    assert (POS : forall p, (p < nS M)%nat -> qnth flat p == gs_op M g parts_of (qnth V) (nth p order 0%nat)).
    { intros p Hp. unfold qnth at 1. rewrite (FN p 0 Hp).
      assert (Hpl : (p < length (flatten3 sl))%nat).
      { rewrite flat_sl, app_length, map_length, (Permutation_length HP), seq_length. lia. }
      pose proof (Forall2_nth_lt _ _ _ p None 0 OK Hpl) as H.
      rewrite flat_sl, app_nth1 in H by (rewrite map_length, (Permutation_length HP), seq_length; lia).
      rewrite (nth_indep _ None (Some 0%nat)) in H by (rewrite map_length, (Permutation_length HP), seq_length; lia).
      rewrite map_nth in H. exact H. }
    unfold savi_sweep. destruct sigma as [sg|]; [subst sg|rewrite <- Ho]; fold sl; fold res; fold flat.
    - split; [now rewrite map_length, seq_length|].
      intros s Hs. unfold qnth at 1.
      rewrite (nth_map_lt _ _ _ _ 0%nat) by (now rewrite seq_length).
      rewrite seq_nth by exact Hs. simpl.
      assert (Hin : In s order) by (apply (Permutation_in _ (Permutation_sym HP)); apply in_seq; lia).
      assert (PL : (pos_of s order < nS M)%nat).
      { rewrite <- (seq_length (nS M) 0), <- (Permutation_length HP). now apply pos_of_lt. }
      transitivity (gs_op M g parts_of (qnth V) (nth (pos_of s order) order 0%nat)); [exact (POS _ PL)|].
      rewrite pos_of_nth by exact Hin. reflexivity.
    - split; [exact FL|]. intros s Hs.
      transitivity (gs_op M g parts_of (qnth V) (nth s order 0%nat)); [exact (POS s Hs)|].
      replace (nth s order 0%nat) with s; [reflexivity|]. rewrite Ho. now rewrite seq_nth.
  Qed.
End Layout.

(* ---------- hence the documented max_diff rule, evaluated on the CODE-SHAPED sweep, gives the value bound *)
Lemma savi_sweep_maxdiff_value_bound (M : mdp) (g : Q) : wf M -> 0 < g -> g < 1 ->
  forall Vs, ContractionP.fixedpt (nS M) (T M g) Vs ->
  forall eps zidx pad_wins padval n mb d, n = Z.of_nat (nS M) -> (1 <= n)%Z -> (1 <= mb)%Z -> (1 <= d)%Z ->
  forall order, Permutation order (seq 0 (nS M)) ->
  forall sigma V, order = match sigma with Some s => s | None => seq 0 (nS M) end -> length V = nS M ->
  fmaxabs (fun s => qnth (savi_sweep M n mb d zidx pad_wins padval sigma g V) s - qnth V s) (nS M) < C01P.thr g eps ->
  forall s, (s < nS M)%nat -> Qabs (qnth (savi_sweep M n mb d zidx pad_wins padval sigma g V) s - Vs s) < eps.
Proof.
  intros WF g0 g1 Vs HVs eps zidx pad_wins padval n mb d Hn Hn1 Hmb Hd order HP sigma V Ho HL HM s Hs.
  destruct (savi_sweep_is_gs_op M WF g zidx pad_wins padval n mb d Hn Hn1 Hmb Hd order HP sigma V Ho HL) as [_ EQ].
  assert (Hpos : (0 < nS M)%nat) by lia.
  rewrite (EQ s Hs).
  apply (savi_maxdiff_value_bound_l M g WF g0 g1 Vs HVs eps (parts_of n mb d order)
           (parts_cover M n mb d Hn Hn1 Hmb Hd order HP) (qnth V)); [|exact Hs].
  apply fmaxabs_lt_iff; [exact Hpos|]. intros i Hi.
  rewrite <- (EQ i Hi). revert i Hi. apply fmaxabs_lt_iff; [exact Hpos|exact HM].
Qed.
