(* C01: a-priori error bounds implied by the documented stopping rules
   (function level; lifted to solver runs in Proofs/SolversP.v). *)
From Coq Require Import QArith Qminmax Qabs List Arith Lia Lqa.
From MdpaxV Require Import Model.QFun Model.MDP Model.Bellman Proofs.QFunP Proofs.ContractionP Proofs.BellmanP.
Open Scope Q_scope.

Section Bounds.
  Variable M : mdp.
  Variable g : Q.
  Hypothesis WF : wf M.
  Hypothesis g0 : 0 < g.
  Hypothesis g1 : g < 1.
  Let n := nS M.
  Let gle : 0 <= g. Proof. lra. Qed.
  Let npos : (0 < n)%nat. Proof. apply WF. Qed.

  Variable Vs : nat -> Q.                       (* ANY solution of V = T V *)
  Hypothesis HVs : fixedpt n (T M g) Vs.

  Definition valid_policy (pi : nat -> nat) := forall s, (s < n)%nat -> (pi s < nA M)%nat.
  Definition greedy_for (pi : nat -> nat) (v : nat -> Q) :=
    forall s, (s < n)%nat -> Tpi M g pi v s == T M g v s.

  Lemma div_lt_of_mul (x c : Q) : 0 < 1 - g -> (1 - g) * x < (1 - g) * c -> x < c.
  Proof.
    intros P H. destruct (Qlt_le_dec x c) as [C|C]; [exact C|].
    assert ((1 - g) * c <= (1 - g) * x) by (apply Qmult_le_l; lra). lra.
  Qed.

  (* no stationary policy beats V* *)
  Lemma vstar_dominates_l pi vpi : valid_policy pi -> fixedpt n (Tpi M g pi) vpi ->
    forall s, (s < n)%nat -> vpi s <= Vs s.
  Proof.
    intros Hpi Hv s Hs.
    assert ((1 - g) * (vpi s - Vs s) <= 0) as A.
    { apply (sub_fixed_bound n g npos g1 (T M g) Vs vpi 0 (T_onesided M g WF gle) HVs); [|exact Hs].
      intros t Ht. rewrite (Hv t Ht) at 1. pose proof (Tpi_le_T M g pi vpi t (Hpi t Ht)). lra. }
    destruct (Qlt_le_dec (Vs s) (vpi s)) as [C|C]; [|exact C].
    assert (0 < (1 - g) * (vpi s - Vs s)) by (apply Qmult_lt_0_compat; lra). lra.
  Qed.

  (* the sandwich: lo <= TV - V <= hi and pi greedy for V  ==>  (1-g)(V* - v_pi) <= hi - lo *)
  Lemma greedy_gap pi vpi V lo hi : valid_policy pi -> fixedpt n (Tpi M g pi) vpi ->
    greedy_for pi V ->
    (forall s, (s < n)%nat -> lo <= T M g V s - V s <= hi) ->
    forall s, (s < n)%nat -> (1 - g) * (Vs s - vpi s) <= hi - lo.
  Proof.
    intros Hpi Hv Hg HB s Hs.
    assert (U : (1 - g) * (Vs s - V s) <= hi).
    { apply (super_fixed_bound n g npos g1 (T M g) Vs V hi (T_onesided M g WF gle) HVs); [|exact Hs].
      intros t Ht. specialize (HB t Ht). lra. }
    assert (L : (1 - g) * (V s - vpi s) <= - lo).
    { apply (sub_fixed_bound n g npos g1 (Tpi M g pi) vpi V (- lo) (Tpi_onesided M g WF gle pi Hpi) Hv); [|exact Hs].
      intros t Ht. specialize (HB t Ht). rewrite (Hg t Ht). lra. }
    lra.
  Qed.

  Variable eps : Q.
  Hypothesis epos : 0 < eps.
  Definition thr := eps * (1 - g) / g.
  Lemma g_thr : g * thr == eps * (1 - g).
  Proof. unfold thr. field. lra. Qed.

  (* ---- value iteration, span test: stop when sp(TV - V) < thr; return V' = TV and greedy(V') *)
  Lemma vi_span_policy_bound_l V V' pi vpi :
    (forall s, (s < n)%nat -> V' s == T M g V s) ->
    fspan (fun s => V' s - V s) n < thr ->
    valid_policy pi -> greedy_for pi V' -> fixedpt n (Tpi M g pi) vpi ->
    forall s, (s < n)%nat -> 0 <= Vs s - vpi s < eps.
  Proof.
    intros HV' Hsp Hpi Hg Hv s Hs. split.
    { pose proof (vstar_dominates_l pi vpi Hpi Hv s Hs). lra. }
    set (hi := fmax (fun s => V' s - V s) n). set (lo := fmin (fun s => V' s - V s) n).
    assert (B : forall t, (t < n)%nat -> g * lo <= T M g V' t - V' t <= g * hi).
    { intros t Ht. rewrite (HV' t Ht).
      apply (T_span_contraction M g WF gle V' V lo hi); [|exact Ht].
      intros u Hu. split.
      - apply (fmin_le (fun s => V' s - V s) n u Hu).
      - apply (fmax_ge (fun s => V' s - V s) n u Hu). }
    pose proof (greedy_gap pi vpi V' (g * lo) (g * hi) Hpi Hv Hg B s Hs) as G.
    unfold fspan in Hsp. fold hi lo in Hsp. pose proof g_thr as GT.
    assert (g * (hi - lo) < g * thr) by (apply Qmult_lt_l; lra).
    apply div_lt_of_mul; lra.
  Qed.

  (* ---- value iteration, max_diff test *)
  Lemma vi_maxdiff_value_bound_l V V' :
    (forall s, (s < n)%nat -> V' s == T M g V s) ->
    fmaxabs (fun s => V' s - V s) n < thr ->
    forall s, (s < n)%nat -> Qabs (V' s - Vs s) < eps.
  Proof.
    intros HV' Hm s Hs.
    set (delta := fmaxabs (fun s => V' s - V s) n) in *.
    assert (Hd : forall t, (t < n)%nat -> Qabs (T M g V t - V t) <= delta).
    { intros t Ht. rewrite <- (HV' t Ht). apply (fmaxabs_ge (fun s => V' s - V s) n t Ht). }
    assert (0 <= delta) as dpos.
    { eapply Qle_trans; [apply Qabs_nonneg|apply (Hd 0%nat npos)]. }
    pose proof (maxdiff_value_bound n g npos g1 (T M g) Vs V delta
                  (onesided_is_pos n g _ (T_onesided M g WF gle)) HVs dpos Hd s Hs) as B.
    rewrite <- (HV' s Hs) in B. pose proof g_thr as GT.
    assert (g * delta < g * thr) by (apply Qmult_lt_l; lra).
    apply div_lt_of_mul; lra.
  Qed.

  Lemma vi_maxdiff_policy_bound_l V V' pi vpi :
    (forall s, (s < n)%nat -> V' s == T M g V s) ->
    fmaxabs (fun s => V' s - V s) n < thr ->
    valid_policy pi -> greedy_for pi V' -> fixedpt n (Tpi M g pi) vpi ->
    forall s, (s < n)%nat -> 0 <= Vs s - vpi s < 2 * eps.
  Proof.
    intros HV' Hm Hpi Hg Hv s Hs. split.
    { pose proof (vstar_dominates_l pi vpi Hpi Hv s Hs). lra. }
    set (delta := fmaxabs (fun s => V' s - V s) n) in *.
    assert (B : forall t, (t < n)%nat -> - (g * delta) <= T M g V' t - V' t <= g * delta).
    { intros t Ht. rewrite (HV' t Ht).
      pose proof (T_contraction M g WF gle V' V delta) as C.
      assert (forall u, (u < n)%nat -> Qabs (V' u - V u) <= delta) as H0.
      { intros u Hu. apply (fmaxabs_ge (fun s => V' s - V s) n u Hu). }
      specialize (C H0 t Ht). apply Qabs_Qle_condition in C. lra. }
    pose proof (greedy_gap pi vpi V' (- (g * delta)) (g * delta) Hpi Hv Hg B s Hs) as G.
    pose proof g_thr as GT.
    assert (g * delta < g * thr) by (apply Qmult_lt_l; lra).
    apply div_lt_of_mul; lra.
  Qed.

  (* ---- policy iteration: stable policy pi = greedy(v), last evaluation passed its test on (Tpi v, v) *)
  Lemma pi_span_policy_bound_l v pi vpi :
    valid_policy pi -> greedy_for pi v -> fixedpt n (Tpi M g pi) vpi ->
    fspan (fun s => Tpi M g pi v s - v s) n < thr ->
    forall s, (s < n)%nat -> 0 <= Vs s - vpi s < eps / g.
  Proof.
    intros Hpi Hg Hv Hsp s Hs. split.
    { pose proof (vstar_dominates_l pi vpi Hpi Hv s Hs). lra. }
    set (hi := fmax (fun s => Tpi M g pi v s - v s) n). set (lo := fmin (fun s => Tpi M g pi v s - v s) n).
    assert (B : forall t, (t < n)%nat -> lo <= T M g v t - v t <= hi).
    { intros t Ht. rewrite <- (Hg t Ht). split.
      - apply (fmin_le (fun s => Tpi M g pi v s - v s) n t Ht).
      - apply (fmax_ge (fun s => Tpi M g pi v s - v s) n t Ht). }
    pose proof (greedy_gap pi vpi v lo hi Hpi Hv Hg B s Hs) as G.
    unfold fspan in Hsp. fold hi lo in Hsp.
    assert (E : (1 - g) * (eps / g) == thr) by (unfold thr; field; lra).
    apply div_lt_of_mul; lra.
  Qed.

  Lemma pi_maxdiff_value_bound_l v pi vpi :
    valid_policy pi -> fixedpt n (Tpi M g pi) vpi ->
    fmaxabs (fun s => Tpi M g pi v s - v s) n < thr ->
    forall s, (s < n)%nat -> Qabs (v s - vpi s) < eps / g.
  Proof.
    intros Hpi Hv Hm s Hs.
    set (delta := fmaxabs (fun s => Tpi M g pi v s - v s) n) in *.
    assert (Hd : forall t, (t < n)%nat -> - delta <= Tpi M g pi v t - v t <= delta).
    { intros t Ht. pose proof (fmaxabs_ge (fun s => Tpi M g pi v s - v s) n t Ht) as A.
      fold delta in A. apply Qabs_Qle_condition in A. lra. }
    pose proof (Tpi_onesided M g WF gle pi Hpi) as OS.
    assert (A1 : (1 - g) * (v s - vpi s) <= delta).
    { apply (sub_fixed_bound n g npos g1 _ vpi v delta OS Hv); [|exact Hs]. intros t Ht. specialize (Hd t Ht). lra. }
    assert (A2 : (1 - g) * (vpi s - v s) <= delta).
    { apply (super_fixed_bound n g npos g1 _ vpi v delta OS Hv); [|exact Hs]. intros t Ht. specialize (Hd t Ht). lra. }
    assert (E : (1 - g) * (eps / g) == thr) by (unfold thr; field; lra).
    apply Qabs_Qlt_condition. split; apply div_lt_of_mul; lra.
  Qed.

  Lemma pi_maxdiff_policy_bound_l v pi vpi :
    valid_policy pi -> greedy_for pi v -> fixedpt n (Tpi M g pi) vpi ->
    fmaxabs (fun s => Tpi M g pi v s - v s) n < thr ->
    forall s, (s < n)%nat -> 0 <= Vs s - vpi s < 2 * (eps / g).
  Proof.
    intros Hpi Hg Hv Hm s Hs. split.
    { pose proof (vstar_dominates_l pi vpi Hpi Hv s Hs). lra. }
    set (delta := fmaxabs (fun s => Tpi M g pi v s - v s) n) in *.
    assert (B : forall t, (t < n)%nat -> - delta <= T M g v t - v t <= delta).
    { intros t Ht. rewrite <- (Hg t Ht).
      pose proof (fmaxabs_ge (fun s => Tpi M g pi v s - v s) n t Ht) as A.
      fold delta in A. apply Qabs_Qle_condition in A. lra. }
    pose proof (greedy_gap pi vpi v (- delta) delta Hpi Hv Hg B s Hs) as G.
    assert (E : (1 - g) * (eps / g) == thr) by (unfold thr; field; lra).
    apply div_lt_of_mul; lra.
  Qed.

  (* ---- any one-sided (for d >= 0) gamma-contraction G with fixed point V* (block Gauss-Seidel sweeps) *)
  Lemma gs_maxdiff_value_bound_l (G : (nat -> Q) -> nat -> Q) V :
    onesided_pos n g G -> fixedpt n G Vs ->
    fmaxabs (fun s => G V s - V s) n < thr ->
    forall s, (s < n)%nat -> Qabs (G V s - Vs s) < eps.
  Proof.
    intros HG HF Hm s Hs.
    set (delta := fmaxabs (fun s => G V s - V s) n) in *.
    assert (Hd : forall t, (t < n)%nat -> Qabs (G V t - V t) <= delta).
    { intros t Ht. apply (fmaxabs_ge (fun s => G V s - V s) n t Ht). }
    assert (0 <= delta) as dpos.
    { eapply Qle_trans; [apply Qabs_nonneg|apply (Hd 0%nat npos)]. }
    pose proof (maxdiff_value_bound n g npos g1 G Vs V delta HG HF dpos Hd s Hs) as B.
    pose proof g_thr as GT.
    assert (g * delta < g * thr) by (apply Qmult_lt_l; lra).
    apply div_lt_of_mul; lra.
  Qed.

  (* Singh-Yee: policy greedy for an eps-accurate value function *)
  Lemma greedy_of_accurate_values V' pi vpi d :
    valid_policy pi -> greedy_for pi V' -> fixedpt n (Tpi M g pi) vpi ->
    (forall s, (s < n)%nat -> Qabs (V' s - Vs s) <= d) ->
    forall s, (s < n)%nat -> (1 - g) * (Vs s - vpi s) <= 2 * g * d.
  Proof.
    intros Hpi Hg Hv Hd s Hs.
    apply (sub_fixed_bound n g npos g1 (Tpi M g pi) vpi Vs (2 * g * d) (Tpi_onesided M g WF gle pi Hpi) Hv); [|exact Hs].
    intros t Ht.
    assert (H1 : forall u, (u < n)%nat -> V' u <= Vs u + d).
    { intros u Hu. pose proof (Hd u Hu) as A. apply Qabs_Qle_condition in A. lra. }
    assert (H2 : forall u, (u < n)%nat -> Vs u <= V' u + d).
    { intros u Hu. pose proof (Hd u Hu) as A. apply Qabs_Qle_condition in A. lra. }
    pose proof (Tpi_onesided M g WF gle pi Hpi V' Vs d H1 t Ht) as X1.
    pose proof (T_onesided M g WF gle Vs V' d H2 t Ht) as X2.
    pose proof (Hg t Ht) as X3. pose proof (HVs t Ht) as X4. lra.
  Qed.

  Lemma gs_maxdiff_policy_bound_l (G : (nat -> Q) -> nat -> Q) V pi vpi :
    onesided_pos n g G -> fixedpt n G Vs ->
    fmaxabs (fun s => G V s - V s) n < thr ->
    valid_policy pi -> greedy_for pi (G V) -> fixedpt n (Tpi M g pi) vpi ->
    forall s, (s < n)%nat -> 0 <= Vs s - vpi s < 2 * g * eps / (1 - g).
  Proof.
    intros HG HF Hm Hpi Hg Hv s Hs. split.
    { pose proof (vstar_dominates_l pi vpi Hpi Hv s Hs). lra. }
    (* accuracy d := max |GV - V*| < eps *)
    set (d := fmaxabs (fun s => G V s - Vs s) n).
    assert (dlt : d < eps).
    { unfold d. apply fmaxabs_lt_iff; [exact npos|]. intros t Ht. now apply gs_maxdiff_value_bound_l. }
    assert (Hd : forall t, (t < n)%nat -> Qabs (G V t - Vs t) <= d).
    { intros t Ht. apply (fmaxabs_ge (fun s => G V s - Vs s) n t Ht). }
    pose proof (greedy_of_accurate_values (G V) pi vpi d Hpi Hg Hv Hd s Hs) as B.
    assert (E : (1 - g) * (2 * g * eps / (1 - g)) == 2 * g * eps) by (field; lra).
    assert (2 * g * d < 2 * g * eps) by (apply Qmult_lt_l; lra).
    apply div_lt_of_mul; lra.
  Qed.
End Bounds.
