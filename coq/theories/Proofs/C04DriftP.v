(* C04, boundedness: along EVERY run of relative value iteration (any number of iterations, converged or not,
   periodic chains included) the relative values stay within span(v0 - hs) of the bias differences and the gain
   estimate within span(v0 - hs) of the optimal gain, for every solution (gs, hs) of the optimality equation.
   No aperiodicity and no convergence-rate argument is needed: T is non-expansive in the span seminorm. *)
From Coq Require Import QArith Qminmax Qabs Qreduction List Arith ZArith Lia Lqa Bool.
From MdpaxV Require Import Model.ListUtil Model.QFun Model.MDP Model.Bellman Model.Solvers
     Proofs.QFunP Proofs.ContractionP Proofs.BellmanP Proofs.C02P Proofs.LoopP Proofs.C04P Proofs.C04RunP.
Import ListNotations.
Open Scope Q_scope.

Section Drift.
  Variable M : mdp.
  Hypothesis WF : wf M.
  Variable eps : Q.
  Let n := nS M.
  Let npos : (0 < n)%nat. Proof. apply WF. Qed.
  Variables (gs : Q) (hs : nat -> Q).
  Hypothesis HA : aroe M gs hs.
  Variables (lo hi : Q).

  (* v + c lies between hs + lo and hs + hi *)
  Definition sandwich (v : nat -> Q) (c : Q) : Prop := forall s, (s < n)%nat -> lo <= v s + c - hs s <= hi.

  Lemma sandwich_step v c v' gn : sandwich v c -> (forall s, (s < n)%nat -> v' s == T M 1 v s - gn) ->
    sandwich v' (c - gs + gn) /\ (forall s, (s < n)%nat -> hs s + gs + lo - c <= T M 1 v s <= hs s + gs + hi - c).
  Proof.
    intros HS HV.
    assert (one_nonneg : 0 <= 1) by lra.
    pose proof (T_onesided M 1 WF one_nonneg) as OS.
    assert (UP : forall s, (s < n)%nat -> T M 1 v s <= hs s + gs + hi - c).
    { intros s Hs. pose proof (OS v hs (hi - c)) as X.
      assert (P : forall t, (t < nS M)%nat -> v t <= hs t + (hi - c)) by (intros t Ht; pose proof (HS t Ht); lra).
      specialize (X P s Hs). pose proof (HA s Hs) as E. lra. }
    assert (DN : forall s, (s < n)%nat -> hs s + gs + lo - c <= T M 1 v s).
    { intros s Hs. pose proof (OS hs v (c - lo)) as X.
      assert (P : forall t, (t < nS M)%nat -> hs t <= v t + (c - lo)) by (intros t Ht; pose proof (HS t Ht); lra).
      specialize (X P s Hs). pose proof (HA s Hs) as E. lra. }
    split.
    - intros s Hs. pose proof (HV s Hs) as E. pose proof (UP s Hs). pose proof (DN s Hs). lra.
    - intros s Hs. split; [now apply DN|now apply UP].
  Qed.

  (* one step of the solver state machine *)
  Lemma rvi_step_values st s : length (r_vals st) = n -> (s < n)%nat ->
    qnth (r_vals (fst (rvi_step eps (sweep M 1) st))) s == T M 1 (qnth (r_vals st)) s - r_gain st.
  Proof.
    intros HL Hs. rewrite (rvi_step_vals M eps st).
    rewrite qnth_map_sub by (rewrite sweep_length; exact Hs).
    rewrite (sweep_spec M 1) by exact Hs. reflexivity.
  Qed.

  Definition run_inv (st : rvist) : Prop :=
    length (r_vals st) = n /\ r_gain st == qnth (r_vals st) (n - 1) /\ exists c, sandwich (qnth (r_vals st)) c.

  Lemma run_inv_step st : run_inv st ->
    run_inv (fst (rvi_step eps (sweep M 1) st)) /\ Qabs (r_gain (fst (rvi_step eps (sweep M 1) st)) - gs) <= hi - lo.
  Proof.
    intros [HL [HG [c HS]]].
    pose proof (rvi_step_inv M WF eps st) as [HL' HG'].
    destruct (sandwich_step (qnth (r_vals st)) c (qnth (r_vals (fst (rvi_step eps (sweep M 1) st)))) (r_gain st) HS
                (fun s Hs => rvi_step_values st s HL Hs)) as [HS' HT].
    split.
    - split; [exact HL'|]. split; [exact HG'|]. exists (c - gs + r_gain st). exact HS'.
    - (* new gain = T v (ref) - v(ref) *)
      assert (Hr : (n - 1 < n)%nat) by lia.
      rewrite HG'. fold n. rewrite (rvi_step_values st (n - 1)%nat HL Hr), HG.
      pose proof (HT (n - 1)%nat Hr) as [A B]. pose proof (HS (n - 1)%nat Hr) as [C D].
      apply Qabs_Qle_condition. split; lra.
  Qed.

  Lemma run_inv_steps j st : run_inv st -> run_inv (steps rvist (rvi_step eps (sweep M 1)) j st).
  Proof. intros H. induction j as [|j IH]; [exact H|]. simpl. now apply run_inv_step. Qed.

  (* what the invariant says about the values *)
  Lemma run_inv_bound st : run_inv st -> forall s, (s < n)%nat ->
    Qabs ((qnth (r_vals st) s - r_gain st) - (hs s - hs (n - 1)%nat)) <= hi - lo.
  Proof.
    intros [HL [HG [c HS]]] s Hs.
    assert (Hr : (n - 1 < n)%nat) by lia.
    pose proof (HS s Hs) as [A B]. pose proof (HS (n - 1)%nat Hr) as [C D]. rewrite HG.
    apply Qabs_Qle_condition. split; lra.
  Qed.
End Drift.

Section DriftMain.
  Variable M : mdp.
  Hypothesis WF : wf M.
  Let n := nS M.
  Let npos : (0 < n)%nat. Proof. apply WF. Qed.

  (* THE BOUND, uniform in the number of iterations *)
  Theorem rvi_values_bounded eps gs hs st0 : aroe M gs hs -> rvi_inv M st0 ->
    let w := fspan (fun s => qnth (r_vals st0) s - hs s) n in
    forall j, (0 < j)%nat ->
    let st := steps rvist (rvi_step eps (sweep M 1)) j st0 in
    (forall s, (s < n)%nat -> Qabs ((qnth (r_vals st) s - r_gain st) - (hs s - hs (n - 1)%nat)) <= w) /\
    Qabs (r_gain st - gs) <= w.
  Proof.
    intros HA [HL HG] w j Hj st.
    set (d := fun s => qnth (r_vals st0) s - hs s).
    set (lo := fmin d n). set (hi := fmax d n).
    assert (I0 : run_inv M hs lo hi st0).
    { split; [exact HL|]. split; [exact HG|]. exists 0. intros s Hs.
      pose proof (fmin_le d n s Hs) as A. pose proof (fmax_ge d n s Hs) as B.
      change (lo <= d s) in A. change (d s <= hi) in B. unfold d in A, B. split; lra. }
    assert (W : w == hi - lo) by reflexivity.
    destruct j as [|j]; [lia|]. unfold st. simpl steps.
    pose proof (run_inv_steps M WF eps gs hs HA lo hi j st0 I0) as Ij.
    destruct (run_inv_step M WF eps gs hs HA lo hi _ Ij) as [IS GB].
    split.
    - intros s Hs. rewrite W. now apply (run_inv_bound M WF hs lo hi _ IS).
    - rewrite W. exact GB.
  Qed.
End DriftMain.
