(* C04: relative value iteration (gamma = 1): gain brackets and what convergence implies. *)
From Coq Require Import QArith Qminmax Qabs Qreduction List Arith ZArith Lia Lqa Bool.
From MdpaxV Require Import Model.ListUtil Model.QFun Model.MDP Model.Bellman Model.Solvers
     Proofs.QFunP Proofs.ContractionP Proofs.BellmanP Proofs.C01P Proofs.C02P Proofs.C03P Proofs.LoopP Proofs.C01RunP Proofs.C08P.
From MdpaxGen Require Import GenThreshold.
Import ListNotations.
Open Scope Q_scope.

Section Bracket.
  Variable n : nat.
  Hypothesis npos : (0 < n)%nat.
  Variable F : (nat -> Q) -> nat -> Q.
  Hypothesis HF : onesided n 1 F.

  (* (gs, hs) solves  hs + gs = F hs ;  then for ANY h :  min(Fh - h) <= gs <= max(Fh - h) *)
  Lemma gain_bracket_gen gs hs h : (forall s, (s < n)%nat -> hs s + gs == F hs s) ->
    fmin (fun s => F h s - h s) n <= gs <= fmax (fun s => F h s - h s) n.
  Proof.
    intros HE. split.
    - set (D := fmax (fun s => h s - hs s) n).
      assert (HD : forall s, (s < n)%nat -> h s <= hs s + D).
      { intros t Ht. pose proof (fmax_ge (fun s => h s - hs s) n t Ht) as G. cbv beta in G. fold D in G. lra. }
      destruct (fmax_attained (fun s => h s - hs s) n npos) as [s1 [Hs1 E1]]. fold D in E1. cbv beta in E1.
      pose proof (HF h hs D HD s1 Hs1) as X. pose proof (HE s1 Hs1) as Y.
      pose proof (fmin_le (fun s => F h s - h s) n s1 Hs1) as Z. cbv beta in Z. lra.
    - set (D := fmax (fun s => hs s - h s) n).
      assert (HD : forall s, (s < n)%nat -> hs s <= h s + D).
      { intros t Ht. pose proof (fmax_ge (fun s => hs s - h s) n t Ht) as G. cbv beta in G. fold D in G. lra. }
      destruct (fmax_attained (fun s => hs s - h s) n npos) as [s0 [Hs0 E0]]. fold D in E0. cbv beta in E0.
      pose proof (HF hs h D HD s0 Hs0) as X. pose proof (HE s0 Hs0) as Y.
      pose proof (fmax_ge (fun s => F h s - h s) n s0 Hs0) as Z. cbv beta in Z. lra.
  Qed.
End Bracket.

Section RVI.
  Variable M : mdp.
  Hypothesis WF : wf M.
  Let n := nS M.
  Let npos : (0 < n)%nat. Proof. apply WF. Qed.
  Let one_nonneg : 0 <= 1. Proof. lra. Qed.

  Definition aroe (gs : Q) (hs : nat -> Q) : Prop := forall s, (s < n)%nat -> hs s + gs == T M 1 hs s.
  Definition aroe_pi (pi : nat -> nat) (gp : Q) (hp : nat -> Q) : Prop := forall s, (s < n)%nat -> hp s + gp == Tpi M 1 pi hp s.

  Lemma gain_bracket_l gs hs h : aroe gs hs ->
    fmin (fun s => T M 1 h s - h s) n <= gs <= fmax (fun s => T M 1 h s - h s) n.
  Proof. apply gain_bracket_gen; [exact npos|apply (T_onesided M 1 WF one_nonneg)]. Qed.

  Lemma policy_gain_bracket_l pi gp hp h : valid_policy M pi -> aroe_pi pi gp hp ->
    fmin (fun s => Tpi M 1 pi h s - h s) n <= gp <= fmax (fun s => Tpi M 1 pi h s - h s) n.
  Proof. intros Hpi. apply gain_bracket_gen; [exact npos|now apply (Tpi_onesided M 1 WF one_nonneg)]. Qed.

  Lemma policy_gain_le_opt_l pi gp hp gs hs : valid_policy M pi -> aroe_pi pi gp hp -> aroe gs hs -> gp <= gs.
  Proof.
    intros Hpi Hp Hs.
    pose proof (gain_bracket_l gs hs hp Hs) as [B _].
    assert (gp <= fmin (fun s => T M 1 hp s - hp s) n).
    { apply fmin_ge_bound; [exact npos|]. intros s Hs'. cbv beta.
      pose proof (Hp s Hs') as E. pose proof (Tpi_le_T M 1 pi hp s (Hpi s Hs')). lra. }
    lra.
  Qed.

  (* one relative-value-iteration step on functions: h' = T h - c *)
  Variables (h h' : nat -> Q) (c : Q).
  Hypothesis Hstep : forall s, (s < n)%nat -> h' s == T M 1 h s - c.

  Lemma residual_of_step s : (s < n)%nat -> T M 1 h s - h s == (h' s - h s) + c.
  Proof. intros Hs. rewrite (Hstep s Hs). ring. Qed.

  (* T h' - h' = T(Th) - Th  lies in the same interval as Th - h *)
  Lemma next_residual_in_interval lo hi :
    (forall s, (s < n)%nat -> lo <= T M 1 h s - h s <= hi) ->
    forall s, (s < n)%nat -> lo <= T M 1 h' s - h' s <= hi.
  Proof.
    intros HB s Hs.
    assert (E : T M 1 h' s == T M 1 (T M 1 h) s - c).
    { rewrite (T_ext M 1 WF h' (fun t => T M 1 h t + - c)) by (try exact Hs; intros t Ht; rewrite (Hstep t Ht); ring).
      rewrite (T_shift M 1 WF one_nonneg (T M 1 h) (- c) s Hs). ring. }
    pose proof (T_span_contraction M 1 WF one_nonneg (T M 1 h) h lo hi HB s Hs) as X.
    rewrite E, (Hstep s Hs). lra.
  Qed.

  Variable eps : Q.
  Hypothesis Hconv : fspan (fun s => h' s - h s) n < eps.

  Let lo := fmin (fun s => h' s - h s) n + c.
  Let hi := fmax (fun s => h' s - h s) n + c.
  Lemma interval_width : hi - lo < eps.
  Proof. unfold hi, lo. unfold fspan in Hconv. lra. Qed.
  Lemma residual_in_interval s : (s < n)%nat -> lo <= T M 1 h s - h s <= hi.
  Proof.
    intros Hs. rewrite residual_of_step by exact Hs. unfold lo, hi.
    pose proof (fmin_le (fun s => h' s - h s) n s Hs). pose proof (fmax_ge (fun s => h' s - h s) n s Hs). cbv beta in *. lra.
  Qed.

  (* the reported gain is the residual at the reference (last) state, provided the subtracted
     constant was the reference component of the previous values *)
  Variable ref : nat.
  Hypothesis Href : (ref < n)%nat.
  Hypothesis Hinv : c == h ref.

  Lemma reported_gain_in_interval : lo <= h' ref <= hi.
  Proof.
    pose proof (residual_in_interval ref Href) as B. rewrite residual_of_step in B by exact Href. lra.
  Qed.

  Lemma rvi_gain_within_eps_l gs hs : aroe gs hs -> Qabs (h' ref - gs) < eps.
  Proof.
    intros HA. pose proof (gain_bracket_l gs hs h HA) as [B1 B2].
    assert (lo <= gs <= hi).
    { split.
      - eapply Qle_trans; [|exact B1]. apply fmin_ge_bound; [exact npos|]. intros s Hs. apply residual_in_interval; exact Hs.
      - eapply Qle_trans; [exact B2|]. apply fmax_le_bound; [exact npos|]. intros s Hs. apply residual_in_interval; exact Hs. }
    pose proof reported_gain_in_interval. pose proof interval_width. apply Qabs_Qlt_condition. lra.
  Qed.

  Lemma rvi_aroe_residual_l s : (s < n)%nat -> Qabs (T M 1 h' s - h' s - h' ref) < eps.
  Proof.
    intros Hs. pose proof (next_residual_in_interval lo hi residual_in_interval s Hs).
    pose proof reported_gain_in_interval. pose proof interval_width. apply Qabs_Qlt_condition. lra.
  Qed.

  Lemma rvi_policy_gain_within_eps_l pi gp hp gs hs :
    valid_policy M pi -> greedy_for M 1 pi h' -> aroe_pi pi gp hp -> aroe gs hs ->
    gs - eps < gp /\ gp <= gs.
  Proof.
    intros Hpi Hg Hp HA. split; [|eapply policy_gain_le_opt_l; eassumption].
    pose proof (policy_gain_bracket_l pi gp hp h' Hpi Hp) as [B1 _].
    assert (lo <= fmin (fun s => Tpi M 1 pi h' s - h' s) n).
    { apply fmin_ge_bound; [exact npos|]. intros s Hs. cbv beta. rewrite (Hg s Hs).
      apply (next_residual_in_interval lo hi residual_in_interval s Hs). }
    pose proof (gain_bracket_l gs hs h HA) as [_ B2].
    assert (gs <= hi).
    { eapply Qle_trans; [exact B2|]. apply fmax_le_bound; [exact npos|]. intros s Hs. apply residual_in_interval; exact Hs. }
    pose proof interval_width. lra.
  Qed.
End RVI.
