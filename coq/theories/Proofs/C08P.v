(* C08: stopping rule, iteration accounting and composability of solve(). *)
From Coq Require Import QArith Qreduction List Arith ZArith Lia Lqa Bool.
From MdpaxV Require Import Model.ListUtil Model.QFun Model.MDP Model.Bellman Model.Solvers
     Proofs.QFunP Proofs.LoopP Proofs.C03P.
From MdpaxGen Require Import GenThreshold.
Import ListNotations.
Open Scope Q_scope.

Section Generic.
  Variable St : Type.
  Variable step : St -> St * bool.
  Variable iter_of : St -> nat.
  Variables (ckpt : bool) (freq : nat).
  Hypothesis step_incr : forall st, iter_of (fst (step st)) = S (iter_of st).

  Lemma steps_iter j st : iter_of (steps St step j st) = (iter_of st + j)%nat.
  Proof. induction j as [|j IH]; simpl; [lia|]. rewrite step_incr, IH. lia. Qed.

  (* at most k steps; iteration = number of steps; stop at the FIRST passing test; never
     report convergence unless the last test passed *)
  Lemma loop_accounting k st saves st' conv saves' :
    loop St step iter_of ckpt freq k st saves = (st', conv, saves') ->
    exists j, (j <= k)%nat /\ st' = steps St step j st /\ iter_of st' = (iter_of st + j)%nat /\
      (forall i, (i + 1 < j)%nat -> snd (step (steps St step i st)) = false) /\
      (conv = true -> (0 < j)%nat /\ snd (step (steps St step (j - 1) st)) = true) /\
      (conv = false -> j = k /\ forall i, (i < k)%nat -> snd (step (steps St step i st)) = false).
  Proof.
    intros H. destruct (loop_spec _ _ _ _ _ _ _ _ _ _ _ H) as [j [Hj [Hst [Hprev [Hc Hn]]]]].
    exists j. repeat split; try assumption.
    - rewrite Hst. apply steps_iter.
    - intros i Hi. apply Hprev; lia.
    - now apply Hc.
    - now apply Hc.
    - now apply Hn.
    - now apply Hn.
  Qed.

  (* solve(k1) then solve(k2) at loop level *)
  Lemma loop_compose k1 k2 st saves :
    loop St step iter_of ckpt freq (k1 + k2) st saves =
    match loop St step iter_of ckpt freq k1 st saves with
    | (st1, true, sv1) => (st1, true, sv1)
    | (st1, false, sv1) => loop St step iter_of ckpt freq k2 st1 sv1
    end.
  Proof.
    revert st saves; induction k1 as [|k1 IH]; intros st saves; [reflexivity|].
    simpl. destruct (step st) as [s1 b]. destruct b; [reflexivity|]. apply IH.
  Qed.

  (* runs from related states stay related (used to ignore the stored-policy field) *)
  Variable R : St -> St -> Prop.
  Hypothesis R_step : forall a b, R a b -> R (fst (step a)) (fst (step b)) /\ snd (step a) = snd (step b).
  Lemma loop_related k a b sa sb :
    R a b -> R (fst (fst (loop St step iter_of ckpt freq k a sa))) (fst (fst (loop St step iter_of ckpt freq k b sb))) /\
             snd (fst (loop St step iter_of ckpt freq k a sa)) = snd (fst (loop St step iter_of ckpt freq k b sb)).
  Proof.
    revert a b sa sb; induction k as [|k IH]; intros a b sa sb HR; simpl; [auto|].
    destruct (R_step a b HR) as [H1 H2].
    destruct (step a) as [a1 ba], (step b) as [b1 bb]. simpl in *. subst bb.
    destruct ba; simpl; [auto|]. now apply IH.
  Qed.
End Generic.

(* ---------------------------------------------------------------- value iteration *)
Section VI.
  Variables (g eps : Q).
  Variable SW : list Q -> list Q.
  Variable POL : list Q -> list nat.
  Variable t : ctest.

  Lemma vi_step_incr st : v_iter (fst (vi_step g eps SW t st)) = S (v_iter st).
  Proof. reflexivity. Qed.

  Fixpoint iterate (n : nat) (V : list Q) : list Q := match n with O => V | S m => SW (iterate m V) end.

  Lemma vi_steps_values j st : v_vals (steps vist (vi_step g eps SW t) j st) = iterate j (v_vals st).
  Proof. induction j as [|j IH]; simpl; [reflexivity|]. now rewrite IH. Qed.

  Lemma vi_test_at j st :
    snd (vi_step g eps SW t (steps vist (vi_step g eps SW t) j st)) =
    Qltb (measure t (iterate (S j) (v_vals st)) (iterate j (v_vals st))) (vi_threshold t g eps).
  Proof. unfold vi_step, vi_sweep_step. simpl. now rewrite vi_steps_values. Qed.

  (* the full statement for one solve(k) call *)
  Lemma vi_solve_accounting ckpt freq k st st' conv saves :
    vi_solve g eps SW POL t ckpt freq k st = (st', conv, saves) ->
    exists j, (j <= k)%nat /\ v_iter st' = (v_iter st + j)%nat /\ v_vals st' = iterate j (v_vals st) /\
      v_pol st' = Some (POL (v_vals st')) /\
      (forall i, (i + 1 < j)%nat ->
         ~ measure t (iterate (S i) (v_vals st)) (iterate i (v_vals st)) < vi_threshold t g eps) /\
      (conv = true -> (0 < j)%nat /\
         measure t (iterate j (v_vals st)) (iterate (j - 1) (v_vals st)) < vi_threshold t g eps) /\
      (conv = false -> j = k /\ forall i, (i < k)%nat ->
         ~ measure t (iterate (S i) (v_vals st)) (iterate i (v_vals st)) < vi_threshold t g eps).
  Proof.
    unfold vi_solve, solve_gen. intros H.
    destruct (loop vist (vi_step g eps SW t) v_iter ckpt freq k st []) as [[st1 c1] sv1] eqn:L.
    injection H as <- <- _.
    destruct (loop_accounting vist (vi_step g eps SW t) v_iter ckpt freq vi_step_incr _ _ _ _ _ _ L)
      as [j [Hj [Hst [Hit [Hprev [Hc Hn]]]]]].
    exists j. simpl. repeat split; try assumption.
    - rewrite Hst. apply vi_steps_values.
    - intros i Hi C. specialize (Hprev i Hi). rewrite vi_test_at in Hprev. apply Qltb_true in C. simpl iterate in *. congruence.
    - now apply Hc.
    - destruct (Hc H) as [Hj0 Hl]. rewrite vi_test_at in Hl. apply Qltb_true in Hl.
      replace (S (j - 1)) with j in Hl by lia. exact Hl.
    - now apply Hn.
    - destruct (Hn H) as [_ Hall]. intros i Hi C. specialize (Hall i Hi). rewrite vi_test_at in Hall.
      apply Qltb_true in C. simpl iterate in *. congruence.
  Qed.

  (* composability: values, policy, iteration, convergence flag *)
  Definition vi_rel (a b : vist) : Prop := v_vals a = v_vals b /\ v_iter a = v_iter b.
  Lemma vi_rel_step a b : vi_rel a b ->
    vi_rel (fst (vi_step g eps SW t a)) (fst (vi_step g eps SW t b)) /\
    snd (vi_step g eps SW t a) = snd (vi_step g eps SW t b).
  Proof. intros [H1 H2]. unfold vi_rel, vi_step, vi_sweep_step. simpl. rewrite H1, H2. auto. Qed.

  Lemma vi_solve_compose ckpt freq k1 k2 st st1 sv1 :
    vi_solve g eps SW POL t ckpt freq k1 st = (st1, false, sv1) ->
    fst (vi_solve g eps SW POL t ckpt freq k2 st1) = fst (vi_solve g eps SW POL t ckpt freq (k1 + k2) st).
  Proof.
    unfold vi_solve, solve_gen. intros H.
    destruct (loop vist (vi_step g eps SW t) v_iter ckpt freq k1 st []) as [[s1 c1] v1] eqn:L1.
    injection H as <- -> _.
    rewrite (loop_compose vist (vi_step g eps SW t) v_iter ckpt freq k1 k2 st []), L1.
    pose proof (loop_related vist (vi_step g eps SW t) v_iter ckpt freq vi_rel vi_rel_step k2
                  (vi_finish POL false s1) s1 [] v1) as [[RV RI] RC].
    { split; reflexivity. }
    destruct (loop vist (vi_step g eps SW t) v_iter ckpt freq k2 (vi_finish POL false s1) []) as [[a ca] va].
    destruct (loop vist (vi_step g eps SW t) v_iter ckpt freq k2 s1 v1) as [[b cb] vb].
    simpl in *. subst cb. unfold vi_finish. now rewrite RV, RI.
  Qed.
End VI.

(* ---------------------------------------------------------------- thresholds (GENERATED formulas) *)
Lemma threshold_vi_discounted t g eps : ~ g == 1 -> vi_threshold t g eps == eps * (1 - g) / g.
Proof.
  intros Hg. unfold vi_threshold. rewrite Qred_correct.
  destruct t; unfold thr_vi_span, thr_vi_max_diff;
  (destruct (Qeq_bool g (1#1)) eqn:E; simpl; [apply Qeq_bool_eq in E; contradiction|reflexivity]).
Qed.
Lemma threshold_vi_undiscounted t g eps : g == 1 -> vi_threshold t g eps == eps.
Proof.
  intros Hg. unfold vi_threshold. rewrite Qred_correct.
  destruct t; unfold thr_vi_span, thr_vi_max_diff;
  (destruct (Qeq_bool g (1#1)) eqn:E; simpl; [reflexivity|]);
  apply Qeq_eq_bool in Hg; congruence.
Qed.
Lemma threshold_rvi eps : rvi_threshold eps == eps.
Proof. unfold rvi_threshold, thr_rvi. apply Qred_correct. Qed.
Lemma threshold_pvi g eps : pvi_threshold g eps == eps.
Proof. unfold pvi_threshold, thr_pvi. apply Qred_correct. Qed.
Lemma tests_documented : test_vi_span = MKSpan /\ test_vi_max_diff = MKMaxDiff /\ test_rvi = MKSpan /\ test_pvi = MKPeriodSpan.
Proof. repeat split; reflexivity. Qed.

(* ---------------------------------------------------------------- the other solvers *)
Section Others.
  Variables (g eps : Q).
  Variable SW : list Q -> list Q.
  Variable POL : list Q -> list nat.
  Variable EV : list nat -> list Q -> list Q.

  Lemma rvi_step_incr st : r_iter (fst (rvi_step eps SW st)) = S (r_iter st).
  Proof. reflexivity. Qed.
  Lemma pvi_step_incr st : p_iter (fst (pvi_step g eps SW st)) = S (p_iter st).
  Proof. reflexivity. Qed.
  Lemma pi_step_incr t me reset V0 st : pi_iter (fst (pi_step g eps POL EV t me reset V0 st)) = S (pi_iter st).
  Proof. unfold pi_step, pi_improve_step. destruct (eval_loop _ _ _ _ _ _ _). reflexivity. Qed.

  Definition rvi_rel (a b : rvist) : Prop := r_vals a = r_vals b /\ r_iter a = r_iter b /\ r_gain a = r_gain b.
  Lemma rvi_rel_step a b : rvi_rel a b ->
    rvi_rel (fst (rvi_step eps SW a)) (fst (rvi_step eps SW b)) /\ snd (rvi_step eps SW a) = snd (rvi_step eps SW b).
  Proof. intros [H1 [H2 H3]]. unfold rvi_rel, rvi_step, rvi_sweep_step. simpl. rewrite H1, H2, H3. auto. Qed.

  Lemma rvi_solve_compose ckpt freq k1 k2 st st1 sv1 :
    rvi_solve eps SW POL ckpt freq k1 st = (st1, false, sv1) ->
    fst (rvi_solve eps SW POL ckpt freq k2 st1) = fst (rvi_solve eps SW POL ckpt freq (k1 + k2) st).
  Proof.
    unfold rvi_solve, solve_gen. intros H.
    destruct (loop rvist (rvi_step eps SW) r_iter ckpt freq k1 st []) as [[s1 c1] v1] eqn:L1.
    injection H as <- -> _.
    rewrite (loop_compose rvist (rvi_step eps SW) r_iter ckpt freq k1 k2 st []), L1.
    pose proof (loop_related rvist (rvi_step eps SW) r_iter ckpt freq rvi_rel rvi_rel_step k2
                  (rvi_finish POL false s1) s1 [] v1) as [[RV [RI RG]] RC].
    { repeat split; reflexivity. }
    destruct (loop rvist (rvi_step eps SW) r_iter ckpt freq k2 (rvi_finish POL false s1) []) as [[a ca] va].
    destruct (loop rvist (rvi_step eps SW) r_iter ckpt freq k2 s1 v1) as [[b cb] vb].
    simpl in *. subst cb. unfold rvi_finish. now rewrite RV, RI, RG.
  Qed.

  Definition pvi_rel (a b : pvist) : Prop :=
    p_vals a = p_vals b /\ p_iter a = p_iter b /\ p_hist a = p_hist b /\ p_hidx a = p_hidx b /\ p_period a = p_period b.
  Lemma pvi_rel_step a b : pvi_rel a b ->
    pvi_rel (fst (pvi_step g eps SW a)) (fst (pvi_step g eps SW b)) /\ snd (pvi_step g eps SW a) = snd (pvi_step g eps SW b).
  Proof.
    intros [H1 [H2 [H3 [H4 H5]]]]. unfold pvi_rel, pvi_step, pvi_sweep_step. simpl.
    rewrite H1, H2, H3, H4, H5. auto 10.
  Qed.

  (* history is kept when the first call did not converge, so the second call continues exactly *)
  Lemma pvi_solve_compose clear ckpt freq k1 k2 st st1 sv1 :
    pvi_solve g eps SW POL clear ckpt freq k1 st = (st1, false, sv1) ->
    fst (pvi_solve g eps SW POL clear ckpt freq k2 st1) = fst (pvi_solve g eps SW POL clear ckpt freq (k1 + k2) st).
  Proof.
    unfold pvi_solve, solve_gen. intros H.
    destruct (loop pvist (pvi_step g eps SW) p_iter ckpt freq k1 st []) as [[s1 c1] v1] eqn:L1.
    injection H as <- -> _.
    rewrite (loop_compose pvist (pvi_step g eps SW) p_iter ckpt freq k1 k2 st []), L1.
    pose proof (loop_related pvist (pvi_step g eps SW) p_iter ckpt freq pvi_rel pvi_rel_step k2
                  (pvi_finish POL clear false s1) s1 [] v1) as [[RV [RI [RH [RX RP]]]] RC].
    { repeat split; reflexivity. }
    destruct (loop pvist (pvi_step g eps SW) p_iter ckpt freq k2 (pvi_finish POL clear false s1) []) as [[a ca] va].
    destruct (loop pvist (pvi_step g eps SW) p_iter ckpt freq k2 s1 v1) as [[b cb] vb].
    simpl in *. subst cb. unfold pvi_finish. now rewrite RV, RI, RH, RX, RP.
  Qed.

  Lemma pi_solve_compose t me reset V0 ckpt freq k1 k2 st st1 sv1 :
    pi_solve g eps POL EV t me reset V0 ckpt freq k1 st = (st1, false, sv1) ->
    fst (pi_solve g eps POL EV t me reset V0 ckpt freq k2 st1) = fst (pi_solve g eps POL EV t me reset V0 ckpt freq (k1 + k2) st).
  Proof.
    unfold pi_solve, solve_gen, pi_finish. intros H.
    destruct (loop pist (pi_step g eps POL EV t me reset V0) pi_iter ckpt freq k1 st []) as [[s1 c1] v1] eqn:L1.
    injection H as <- -> _.
    rewrite (loop_compose pist (pi_step g eps POL EV t me reset V0) pi_iter ckpt freq k1 k2 st []), L1.
    pose proof (loop_related pist (pi_step g eps POL EV t me reset V0) pi_iter ckpt freq eq
                  (fun a b E => ltac:(subst; split; reflexivity)) k2 s1 s1 [] v1 eq_refl) as [RS RC].
    destruct (loop pist (pi_step g eps POL EV t me reset V0) pi_iter ckpt freq k2 s1 []) as [[a ca] va].
    destruct (loop pist (pi_step g eps POL EV t me reset V0) pi_iter ckpt freq k2 s1 v1) as [[b cb] vb].
    simpl in *. now subst.
  Qed.
End Others.

Section SaviCompose.
  Variable M : mdp.
  Variables (g eps : Q).
  Variable POL : list Q -> list nat.
  Variables (n mb d : Z) (zidx : nat) (pw : bool) (pv : Q).
  Variable perm : nat -> option (list nat).
  Variable t : ctest.

  Lemma savi_step_incr st : s_iter (fst (savi_step M g eps n mb d zidx pw pv perm t st)) = S (s_iter st).
  Proof. reflexivity. Qed.

  Definition savi_rel (a b : savist) : Prop := s_vals a = s_vals b /\ s_iter a = s_iter b /\ s_sweeps a = s_sweeps b.
  Lemma savi_rel_step a b : savi_rel a b ->
    savi_rel (fst (savi_step M g eps n mb d zidx pw pv perm t a)) (fst (savi_step M g eps n mb d zidx pw pv perm t b)) /\
    snd (savi_step M g eps n mb d zidx pw pv perm t a) = snd (savi_step M g eps n mb d zidx pw pv perm t b).
  Proof. intros [H1 [H2 H3]]. unfold savi_rel, savi_step, savi_sweep_step. simpl. rewrite H1, H2, H3. auto. Qed.

  (* the permutation stream continues where the first call stopped (same process: the PRNG key lives on) *)
  Lemma savi_solve_compose ckpt freq k1 k2 st st1 sv1 :
    savi_solve M g eps POL n mb d zidx pw pv perm t ckpt freq k1 st = (st1, false, sv1) ->
    fst (savi_solve M g eps POL n mb d zidx pw pv perm t ckpt freq k2 st1) =
    fst (savi_solve M g eps POL n mb d zidx pw pv perm t ckpt freq (k1 + k2) st).
  Proof.
    unfold savi_solve, solve_gen. intros H.
    set (stp := savi_step M g eps n mb d zidx pw pv perm t) in *.
    destruct (loop savist stp s_iter ckpt freq k1 st []) as [[s1 c1] v1] eqn:L1.
    injection H as <- -> _.
    rewrite (loop_compose savist stp s_iter ckpt freq k1 k2 st []), L1.
    pose proof (loop_related savist stp s_iter ckpt freq savi_rel savi_rel_step k2
                  (savi_finish POL false s1) s1 [] v1) as [[RV [RI RW]] RC].
    { repeat split; reflexivity. }
    destruct (loop savist stp s_iter ckpt freq k2 (savi_finish POL false s1) []) as [[a ca] va].
    destruct (loop savist stp s_iter ckpt freq k2 s1 v1) as [[b cb] vb].
    simpl in *. subst cb. unfold savi_finish. now rewrite RV, RI, RW.
  Qed.
End SaviCompose.
