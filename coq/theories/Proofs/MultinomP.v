(* The multinomial theorem over Q, by Pascal rows (no factorials, no division):
     sum over all compositions r of q into (length p) parts of  C(r) * prod p_i^(r_i)  ==  (sum p)^q.
   Used by C13: the received-units law of the Mirjalili platelet problem is a probability distribution
   over the compositions of the order quantity whenever the age-class probabilities sum to one. *)
From Coq Require Import QArith List Arith Lia Lqa.
From MdpaxV Require Import Proofs.C13P.
Import ListNotations.
Open Scope Q_scope.

Fixpoint qpow (a : Q) (n : nat) : Q := match n with O => 1 | S n' => a * qpow a n' end.

Fixpoint zipadd (a b : list Q) : list Q :=
  match a, b with x :: a', y :: b' => (x + y) :: zipadd a' b' | _, _ => [] end.

(* Pascal row n: C(n,0) .. C(n,n) *)
Fixpoint prow (n : nat) : list Q :=
  match n with O => [1] | S n' => zipadd (0 :: prow n') (prow n' ++ [0]) end.
Definition binom (n k : nat) : Q := nth k (prow n) 0.

(* sum_k l[k] a^k b^(len-1-k), by Horner-like recursion on the list *)
Fixpoint evalL (l : list Q) (a b : Q) : Q :=
  match l with [] => 0 | c :: t => c * qpow b (length t) + a * evalL t a b end.

Lemma zipadd_length a b : length a = length b -> length (zipadd a b) = length a.
Proof.
  revert b. induction a as [|x a IH]; intros [|y b] H; simpl in *; try discriminate; [reflexivity|].
  f_equal. apply IH. lia.
Qed.

Lemma prow_length n : length (prow n) = S n.
Proof.
  induction n as [|n IH]; [reflexivity|].
  change (prow (S n)) with (zipadd (0 :: prow n) (prow n ++ [0])).
  rewrite zipadd_length; simpl length; rewrite ?app_length, IH; simpl; lia.
Qed.

Lemma evalL_cons0 l a b : evalL (0 :: l) a b == a * evalL l a b.
Proof. simpl. ring. Qed.

Lemma evalL_snoc0 l a b : evalL (l ++ [0]) a b == b * evalL l a b.
Proof.
  induction l as [|c t IH]; simpl; [ring|].
  rewrite app_length, IH. simpl length. rewrite Nat.add_1_r. simpl qpow. ring.
Qed.

Lemma evalL_zipadd l1 : forall l2 a b, length l1 = length l2 ->
  evalL (zipadd l1 l2) a b == evalL l1 a b + evalL l2 a b.
Proof.
  induction l1 as [|x t1 IH]; intros [|y t2] a b H; simpl in *; try discriminate; [ring|].
  assert (HL : length t1 = length t2) by lia.
  rewrite (IH t2 a b HL), (zipadd_length t1 t2 HL), <- HL. ring.
Qed.

(* the binomial theorem *)
Lemma evalL_prow n a b : evalL (prow n) a b == qpow (a + b) n.
Proof.
  induction n as [|n IH]; [simpl; ring|].
  change (prow (S n)) with (zipadd (0 :: prow n) (prow n ++ [0])). rewrite evalL_zipadd by (simpl; rewrite app_length, prow_length; simpl; lia).
  rewrite evalL_cons0, evalL_snoc0, IH. simpl qpow. ring.
Qed.

(* head-first finite sums over an index *)
Fixpoint ssum (f : nat -> Q) (n : nat) : Q :=
  match n with O => 0 | S n' => f O + ssum (fun i => f (S i)) n' end.

Lemma ssum_ext n : forall f g, (forall i, (i < n)%nat -> f i == g i) -> ssum f n == ssum g n.
Proof.
  induction n as [|n IH]; intros f g H; simpl; [reflexivity|].
  rewrite (H O) by lia. rewrite (IH (fun i => f (S i)) (fun i => g (S i))); [reflexivity|].
  intros i Hi. apply H. lia.
Qed.

Lemma ssum_scale n : forall f c, ssum (fun i => c * f i) n == c * ssum f n.
Proof.
  induction n as [|n IH]; intros f c; simpl; [ring|].
  rewrite (IH (fun i => f (S i)) c). ring.
Qed.

Lemma evalL_index l a b :
  evalL l a b == ssum (fun k => nth k l 0 * qpow a k * qpow b (length l - 1 - k)) (length l).
Proof.
  induction l as [|c t IH]; [reflexivity|].
  change (evalL (c :: t) a b) with (c * qpow b (length t) + a * evalL t a b).
  change (length (c :: t)) with (S (length t)).
  change (ssum (fun k => nth k (c :: t) 0 * qpow a k * qpow b (S (length t) - 1 - k)) (S (length t)))
    with (nth 0 (c :: t) 0 * qpow a 0 * qpow b (S (length t) - 1 - 0) +
          ssum (fun i => nth (S i) (c :: t) 0 * qpow a (S i) * qpow b (S (length t) - 1 - S i)) (length t)).
  assert (X0 : (S (length t) - 1 - 0 = length t)%nat) by lia. rewrite X0.
  assert (E : ssum (fun i => nth (S i) (c :: t) 0 * qpow a (S i) * qpow b (S (length t) - 1 - S i)) (length t) ==
              ssum (fun i => a * (nth i t 0 * qpow a i * qpow b (length t - 1 - i))) (length t)).
  { apply ssum_ext. intros i Hi.
    assert (X : (S (length t) - 1 - S i = length t - 1 - i)%nat) by lia. rewrite X.
    change (nth (S i) (c :: t) 0) with (nth i t 0). change (qpow a (S i)) with (a * qpow a i). ring. }
  rewrite E, ssum_scale, IH.
  change (nth 0 (c :: t) 0) with c. change (qpow a 0) with 1. ring.
Qed.

Lemma binomial_theorem a b n :
  ssum (fun k => binom n k * qpow a k * qpow b (n - k)) (S n) == qpow (a + b) n.
Proof.
  rewrite <- evalL_prow, evalL_index, prow_length.
  apply ssum_ext. intros k Hk. unfold binom.
  replace (S n - 1 - k)%nat with (n - k)%nat by lia. reflexivity.
Qed.

(* ---------- sums over lists *)
Lemma qsum_app l1 l2 : qsum (l1 ++ l2) == qsum l1 + qsum l2.
Proof. induction l1 as [|x l IH]; simpl; [ring|rewrite IH; ring]. Qed.

Lemma qsum_map_ext {A} (f g : A -> Q) l : (forall x, In x l -> f x == g x) -> qsum (map f l) == qsum (map g l).
Proof.
  induction l as [|x l IH]; intros H; simpl; [reflexivity|].
  rewrite (H x) by (now left). rewrite IH; [reflexivity|]. intros y Hy. apply H. now right.
Qed.

Lemma qsum_map_scale {A} (f : A -> Q) c l : qsum (map (fun x => c * f x) l) == c * qsum (map f l).
Proof. induction l as [|x l IH]; simpl; [ring|rewrite IH; ring]. Qed.

Lemma qsum_flat_map {A B} (f : B -> Q) (g : A -> list B) l :
  qsum (map f (flat_map g l)) == qsum (map (fun k => qsum (map f (g k))) l).
Proof.
  induction l as [|x l IH]; simpl; [reflexivity|]. rewrite map_app, qsum_app, IH. reflexivity.
Qed.

Lemma qsum_seq (F : nat -> Q) n : forall s, qsum (map F (seq s n)) == ssum (fun i => F (s + i)%nat) n.
Proof.
  induction n as [|n IH]; intros s; simpl; [reflexivity|].
  rewrite (IH (S s)). rewrite Nat.add_0_r.
  rewrite (ssum_ext n (fun i => F (S s + i)%nat) (fun i => F (s + S i)%nat)); [reflexivity|].
  intros i _. now rewrite Nat.add_succ_r.
Qed.

(* ---------- compositions and the multinomial law *)
Fixpoint sumn (r : list nat) : nat := match r with [] => O | k :: t => (k + sumn t)%nat end.

Fixpoint comps (m q : nat) : list (list nat) :=
  match m with
  | O => if Nat.eqb q 0 then [[]] else []
  | S m' => flat_map (fun k => map (cons k) (comps m' (q - k))) (seq 0 (S q))
  end.

(* multinomial coefficient as a product of binomials: C(k1+...+km; k1) * C(k2+...+km; k2) * ... *)
Fixpoint mcoef (r : list nat) : Q :=
  match r with [] => 1 | k :: t => binom (k + sumn t) k * mcoef t end.
Fixpoint mterm (p : list Q) (r : list nat) : Q :=
  match p, r with x :: p', k :: r' => qpow x k * mterm p' r' | _, _ => 1 end.
Definition mprob (p : list Q) (r : list nat) : Q := mcoef r * mterm p r.

Lemma comps_sum m : forall q r, In r (comps m q) -> sumn r = q /\ length r = m.
Proof.
  induction m as [|m IH]; intros q r H; cbn [comps] in H.
  - destruct (Nat.eqb q 0) eqn:E; [|contradiction]. destruct H as [<-|[]]. apply Nat.eqb_eq in E. now subst.
  - apply in_flat_map in H. destruct H as [k [Hk Hr]]. apply in_seq in Hk.
    apply in_map_iff in Hr. destruct Hr as [r' [<- Hr']]. destruct (IH _ _ Hr') as [S1 S2]. simpl. split; lia.
Qed.

Lemma comps_complete m : forall q r, length r = m -> sumn r = q -> In r (comps m q).
Proof.
  induction m as [|m IH]; intros q r HL HS.
  - destruct r; [|discriminate]. simpl in HS. subst q. simpl. now left.
  - destruct r as [|k t]; [discriminate|]. simpl in HL, HS. cbn [comps]. apply in_flat_map. exists k. split.
    + apply in_seq. lia.
    + apply in_map. apply IH; lia.
Qed.

Theorem multinomial_sum p : forall q, qsum (map (mprob p) (comps (length p) q)) == qpow (qsum p) q.
Proof.
  induction p as [|x p IH]; intros q.
  - simpl. destruct q as [|q]; simpl; [unfold mprob; simpl; ring|ring].
  - change (length (x :: p)) with (S (length p)). cbn [comps]. rewrite qsum_flat_map.
    assert (E : qsum (map (fun k => qsum (map (mprob (x :: p)) (map (cons k) (comps (length p) (q - k))))) (seq 0 (S q))) ==
                qsum (map (fun k => binom q k * qpow x k * qpow (qsum p) (q - k)) (seq 0 (S q)))).
    { apply qsum_map_ext. intros k Hk. apply in_seq in Hk. rewrite map_map.
      rewrite (qsum_map_ext (fun r => mprob (x :: p) (k :: r)) (fun r => (binom q k * qpow x k) * mprob p r)).
      - rewrite qsum_map_scale, IH. reflexivity.
      - intros r Hr. destruct (comps_sum _ _ _ Hr) as [S1 _]. unfold mprob. simpl. rewrite S1.
        replace (k + (q - k))%nat with q by lia. ring. }
    rewrite E, (qsum_seq _ (S q) 0). simpl qsum.
    rewrite (ssum_ext (S q) _ (fun k => binom q k * qpow x k * qpow (qsum p) (q - k))) by (intros; reflexivity).
    apply binomial_theorem.
Qed.

Lemma qpow_one n : qpow 1 n == 1.
Proof. induction n as [|n IH]; simpl; [reflexivity|rewrite IH; ring]. Qed.

Lemma qpow_nonneg a n : 0 <= a -> 0 <= qpow a n.
Proof. intros H. induction n as [|n IH]; simpl; [lra|]. apply Qmult_le_0_compat; assumption. Qed.

Lemma zipadd_nonneg a : forall b, Forall (fun x => 0 <= x) a -> Forall (fun x => 0 <= x) b -> Forall (fun x => 0 <= x) (zipadd a b).
Proof.
  induction a as [|x a IH]; intros [|y b] Ha Hb; simpl; try constructor.
  - inversion Ha; inversion Hb; subst. lra.
  - inversion Ha; inversion Hb; subst. now apply IH.
Qed.

Lemma prow_nonneg n : Forall (fun x => 0 <= x) (prow n).
Proof.
  induction n as [|n IH]; [constructor; [lra|constructor]|].
  change (prow (S n)) with (zipadd (0 :: prow n) (prow n ++ [0])).
  apply zipadd_nonneg.
  - constructor; [lra|exact IH].
  - apply Forall_app. split; [exact IH|constructor; [lra|constructor]].
Qed.

Lemma binom_nonneg n k : 0 <= binom n k.
Proof.
  unfold binom. destruct (Nat.lt_ge_cases k (length (prow n))) as [H|H].
  - pose proof (prow_nonneg n) as F. rewrite Forall_forall in F. apply F. now apply nth_In.
  - rewrite nth_overflow by exact H. lra.
Qed.

Lemma mprob_nonneg p : Forall (fun x => 0 <= x) p -> forall r, 0 <= mprob p r.
Proof.
  intros Hp r. unfold mprob. apply Qmult_le_0_compat.
  - induction r as [|k t IH]; simpl; [lra|]. apply Qmult_le_0_compat; [apply binom_nonneg|exact IH].
  - revert r. induction Hp as [|x p Hx Hp IH]; intros r; simpl; [lra|].
    destruct r as [|k t]; [lra|]. apply Qmult_le_0_compat; [now apply qpow_nonneg|apply IH].
Qed.

(* the law of the units received by age class: a probability distribution over the compositions of q *)
Theorem multinomial_is_distribution p q : Forall (fun x => 0 <= x) p -> qsum p == 1 ->
  qsum (map (mprob p) (comps (length p) q)) == 1 /\ Forall (fun x => 0 <= x) (map (mprob p) (comps (length p) q)).
Proof.
  intros Hp H1. split.
  - rewrite multinomial_sum. clear Hp. induction q as [|q IH]; simpl; [reflexivity|]. rewrite IH, H1. ring.
  - apply Forall_map. apply Forall_forall. intros r _. now apply mprob_nonneg.
Qed.

(* ---------- the joint law of an event (demand, received-by-age): product of the two laws *)
Lemma joint_sum (la : list Q) {B} (f : B -> Q) (lb : list B) :
  qsum (flat_map (fun x => map (fun y => x * f y) lb) la) == qsum la * qsum (map f lb).
Proof.
  induction la as [|x la IH]; simpl; [ring|].
  rewrite qsum_app, IH, (qsum_map_scale f x lb). ring.
Qed.

Theorem event_law_normalised pm p q : pm <> [] -> qsum p == 1 ->
  qsum (flat_map (fun pd => map (fun r => pd * mprob p r) (comps (length p) q)) (add_last pm (1 - qsum pm))) == 1.
Proof.
  intros Hpm H1. rewrite joint_sum, (folded_tail_sums_to_one pm Hpm), multinomial_sum.
  assert (E : qpow (qsum p) q == 1).
  { induction q as [|q IH]; simpl; [reflexivity|]. rewrite IH, H1. ring. }
  rewrite E. ring.
Qed.

Lemma comps_iff m q r : In r (comps m q) <-> (length r = m /\ sumn r = q).
Proof.
  split.
  - intros H. destruct (comps_sum m q r H). split; assumption.
  - intros [H1 H2]. now apply comps_complete.
Qed.
