(* C13 / C16: normalisation of the event-probability tables for EVERY table with the properties a
   pmf / cdf has (the special functions themselves are oracle tables), and parameter conversions. *)
From Coq Require Import QArith Qminmax Qabs List Arith Lia Lqa Bool.
From MdpaxV Require Import Model.QFun Proofs.QFunP Proofs.ListUtilP.
Import ListNotations.
Open Scope Q_scope.

Fixpoint qsum (l : list Q) : Q := match l with [] => 0 | x :: t => x + qsum t end.
(* jnp.diff *)
Fixpoint qdiff (l : list Q) : list Q :=
  match l with
  | a :: ((b :: _) as t) => (b - a) :: qdiff t
  | _ => []
  end.
(* x.at[-1].add(v) *)
Fixpoint add_last (l : list Q) (v : Q) : list Q :=
  match l with
  | [] => []
  | [x] => [x + v]
  | x :: t => x :: add_last t v
  end.
Definition qlast (l : list Q) : Q := last l 0.
Definition qhead (l : list Q) : Q := hd 0 l.

Lemma qsum_add_last l v : l <> [] -> qsum (add_last l v) == qsum l + v.
Proof.
  induction l as [|x l IH]; intros H; [contradiction|]. destruct l as [|y l]; [simpl; ring|].
  change (add_last (x :: y :: l) v) with (x :: add_last (y :: l) v). simpl qsum at 1.
  rewrite IH by discriminate. simpl. ring.
Qed.

Lemma qsum_qdiff l : l <> [] -> qsum (qdiff l) == qlast l - qhead l.
Proof.
  induction l as [|a l IH]; intros H; [contradiction|]. destruct l as [|b l]; [unfold qlast, qhead; simpl; ring|].
  change (qdiff (a :: b :: l)) with ((b - a) :: qdiff (b :: l)). simpl qsum.
  rewrite IH by discriminate. unfold qlast, qhead. simpl hd.
  change (last (a :: b :: l) 0) with (last (b :: l) 0). ring.
Qed.

(* discretised, censored distribution: pmf = diff(cdf at the bin edges), tail mass folded into the last bin *)
Definition censored_pmf (cdf : list Q) : list Q := let d := qdiff cdf in add_last d (1 - qsum d).

Lemma censored_pmf_sums_to_one cdf : (2 <= length cdf)%nat -> qsum (censored_pmf cdf) == 1.
Proof.
  intros H. unfold censored_pmf. rewrite qsum_add_last; [ring|].
  destruct cdf as [|a [|b t]]; simpl in H; try lia. simpl. discriminate.
Qed.

Fixpoint monotone (l : list Q) : Prop :=
  match l with
  | a :: ((b :: _) as t) => a <= b /\ monotone t
  | _ => True
  end.

Lemma qdiff_nonneg l : monotone l -> Forall (fun x => 0 <= x) (qdiff l).
Proof.
  induction l as [|a l IH]; intros H; [constructor|]. destruct l as [|b l]; [constructor|].
  change (qdiff (a :: b :: l)) with ((b - a) :: qdiff (b :: l)). destruct H as [H1 H2].
  constructor; [lra|now apply IH].
Qed.

Lemma add_last_nonneg l v : Forall (fun x => 0 <= x) l -> 0 <= qlast l + v -> Forall (fun x => 0 <= x) (add_last l v).
Proof.
  induction l as [|x l IH]; intros HF Hv; [constructor|]. destruct l as [|y l].
  - simpl. constructor; [unfold qlast in Hv; simpl in Hv; exact Hv|constructor].
  - change (add_last (x :: y :: l) v) with (x :: add_last (y :: l) v). inversion HF; subst.
    constructor; [assumption|]. apply IH; [assumption|]. exact Hv.
Qed.

Lemma qlast_qdiff l : (2 <= length l)%nat -> exists prev, qlast (qdiff l) == qlast l - prev /\ In prev l.
Proof.
  induction l as [|a l IH]; intros H; [simpl in H; lia|]. destruct l as [|b l]; [simpl in H; lia|].
  destruct l as [|c l].
  - exists a. unfold qlast. simpl. split; [ring|now left].
  - destruct (IH ltac:(simpl; lia)) as [prev [E Hin]]. exists prev. split; [|now right].
    change (qdiff (a :: b :: c :: l)) with ((b - a) :: qdiff (b :: c :: l)).
    unfold qlast in *. change (last ((b - a) :: qdiff (b :: c :: l)) 0) with (last (qdiff (b :: c :: l)) 0).
    change (last (a :: b :: c :: l) 0) with (last (b :: c :: l) 0). exact E.
Qed.

(* entries are non-negative when the cdf is monotone with values in [0, 1] *)
Lemma censored_pmf_nonneg cdf : (2 <= length cdf)%nat -> monotone cdf -> Forall (fun x => 0 <= x <= 1) cdf ->
  Forall (fun x => 0 <= x) (censored_pmf cdf).
Proof.
  intros HL HM HB. unfold censored_pmf. apply add_last_nonneg; [now apply qdiff_nonneg|].
  rewrite qsum_qdiff by (destruct cdf; [simpl in HL; lia|discriminate]).
  destruct (qlast_qdiff cdf HL) as [prev [E Hin]]. rewrite E.
  assert (0 <= qhead cdf <= 1).
  { destruct cdf as [|a t]; [simpl in HL; lia|]. inversion HB; subst. exact H1. }
  rewrite Forall_forall in HB. pose proof (HB prev Hin). lra.
Qed.

(* a pmf prefix with the tail folded in (negative binomial censored at the maximum demand) *)
Lemma folded_tail_sums_to_one pm : pm <> [] -> qsum (add_last pm (1 - qsum pm)) == 1.
Proof. intros H. rewrite qsum_add_last by exact H. ring. Qed.

(* forest: both rows of the fire table are distributions for every p in [0, 1] *)
Lemma forest_rows p : 0 <= p <= 1 -> (0 <= 1 - p /\ 0 <= p /\ (1 - p) + p == 1) /\ (0 <= 1 /\ 0 <= 0 /\ 1 + 0 == 1).
Proof. intros H. repeat split; lra. Qed.

(* ---------- C16: parameter conversions *)
Lemma gamma_shape_rate_l mean cov : 0 < mean -> 0 < cov ->
  let alpha := 1 / (cov * cov) in let beta := 1 / (mean * (cov * cov)) in
  alpha / beta == mean /\ alpha * (cov * cov) == 1.
Proof. intros Hm Hc. cbv zeta. split; field; repeat split; lra. Qed.

Lemma negbin_success_prob_l n delta : 0 < n -> 0 < delta ->
  let p := n / (delta + n) in n * (1 - p) / p == delta /\ 0 < p /\ p < 1.
Proof.
  intros Hn Hd. cbv zeta. assert (0 < delta + n) by lra. split; [field; split; lra|].
  assert (E : n / (delta + n) * (delta + n) == n) by (field; lra).
  split.
  - apply Qlt_shift_div_l; lra.
  - apply Qlt_shift_div_r; lra.
Qed.

(* Mirjalili: logits are listed for remaining life 1, 2, ..., m and then REVERSED to match the stock layout
   (oldest = shortest remaining life on the right): position j of the reversed list is remaining life m - j *)
Definition mj_logits (c0 c1 : list Q) (a : Q) : list Q := rev (0 :: map (fun cc => fst cc + snd cc * a) (combine c0 c1)).
Lemma mj_logits_oldest_is_zero c0 c1 a : last (mj_logits c0 c1 a) 1 == 0.
Proof. unfold mj_logits. simpl. rewrite last_last. reflexivity. Qed.
Lemma mj_logits_position c0 c1 a j : (j < length (combine c0 c1))%nat ->
  nth j (mj_logits c0 c1 a) 0 =
  (let cc := nth (length (combine c0 c1) - 1 - j) (combine c0 c1) (0, 0) in fst cc + snd cc * a).
Proof.
  intros Hj. unfold mj_logits. simpl rev. rewrite app_nth1 by (rewrite rev_length, map_length; exact Hj).
  rewrite rev_nth by (rewrite map_length; exact Hj). rewrite map_length.
  rewrite (nth_map_lt (fun cc : Q * Q => fst cc + snd cc * a) (combine c0 c1) _ 0 (0, 0)) by lia.
  cbv zeta beta. replace (length (combine c0 c1) - S j)%nat with (length (combine c0 c1) - 1 - j)%nat by lia. reflexivity.
Qed.
