(* C12: which save() calls a solve() makes, what the store keeps. *)
From Coq Require Import List Arith Lia Bool Sorted.
From MdpaxV Require Import Model.Store Model.Solvers Proofs.LoopP Proofs.StoreP.
Import ListNotations.

Section Saves.
  Variable St : Type.
  Variable step : St -> St * bool.
  Variable iter_of : St -> nat.
  Variables (ckpt : bool) (freq : nat).

  (* the periodic save calls of one solve(k), in order *)
  Fixpoint run_events (k : nat) (st : St) : list (nat * St) :=
    match k with
    | O => []
    | S k' => let '(st', stop) := step st in
              if stop then []
              else (if ckpt && Nat.eqb (iter_of st' mod freq) 0 then [(iter_of st', st')] else []) ++ run_events k' st'
    end.

  Lemma loop_saves k : forall st saves,
    snd (loop St step iter_of ckpt freq k st saves) = saves ++ run_events k st.
  Proof.
    induction k as [|k IH]; intros st saves; simpl; [now rewrite app_nil_r|].
    destruct (step st) as [st' stop]. destruct stop; simpl; [now rewrite app_nil_r|].
    rewrite IH. destruct (ckpt && Nat.eqb (iter_of st' mod freq) 0); simpl; [now rewrite <- app_assoc|reflexivity].
  Qed.

  (* solve(k): periodic saves, then the final save of the state the loop ended in *)
  Lemma solve_gen_saves finish k st :
    snd (solve_gen St step iter_of ckpt freq finish k st) =
    run_events k st ++ (if ckpt then [(iter_of (fst (fst (loop St step iter_of ckpt freq k st []))),
                                       fst (fst (loop St step iter_of ckpt freq k st [])))] else []).
  Proof.
    unfold solve_gen. pose proof (loop_saves k st []) as L.
    destruct (loop St step iter_of ckpt freq k st []) as [[st' conv] sv]. simpl in *. subst sv.
    destruct ckpt; simpl; [reflexivity|now rewrite app_nil_r].
  Qed.

  Lemma steps_shift st i : steps St step i (fst (step st)) = steps St step (S i) st.
  Proof. induction i as [|i IH]; [reflexivity|]. simpl. now rewrite IH. Qed.

  (* set-builder description of the periodic saves *)
  Lemma run_events_in k : forall st l s,
    In (l, s) (run_events k st) <->
    ckpt = true /\ exists i, (1 <= i <= k)%nat /\ s = steps St step i st /\ l = iter_of s /\ (l mod freq = 0)%nat /\
      forall i', (i' < i)%nat -> snd (step (steps St step i' st)) = false.
  Proof.
    induction k as [|k IH]; intros st l s; simpl.
    - split; [contradiction|]. intros [_ [i [Hi _]]]. lia.
    - destruct (step st) as [st' stop] eqn:E. destruct stop.
      + split; [contradiction|]. intros [_ [i [Hi [_ [_ [_ Hall]]]]]].
        specialize (Hall 0%nat ltac:(lia)). simpl in Hall. rewrite E in Hall. discriminate.
      + rewrite in_app_iff, IH. split.
        * intros [H|H].
          -- destruct (ckpt && Nat.eqb (iter_of st' mod freq) 0) eqn:C; [|contradiction].
             apply andb_true_iff in C. destruct C as [C1 C2]. apply Nat.eqb_eq in C2.
             destruct H as [H|[]]. injection H as <- <-. split; [exact C1|].
             exists 1%nat. simpl. rewrite E. simpl. repeat split; try lia.
             intros i' Hi'. assert (i' = 0)%nat as -> by lia. simpl. now rewrite E.
          -- destruct H as [C [i [Hi [Hs [Hl [Hm Hall]]]]]]. split; [exact C|].
             exists (S i). replace st' with (fst (step st)) in * by now rewrite E.
             rewrite steps_shift in Hs. repeat split; try assumption; try lia.
             intros i' Hi'. destruct i' as [|i']; [simpl; now rewrite E|]. rewrite <- steps_shift. apply Hall. lia.
        * intros [C [i [Hi [Hs [Hl [Hm Hall]]]]]].
          destruct (Nat.eq_dec i 1) as [->|Hne].
          -- left. simpl in Hs. rewrite E in Hs. simpl in Hs. subst s l. rewrite C. simpl.
             apply Nat.eqb_eq in Hm. rewrite Hm. now left.
          -- right. split; [exact C|]. exists (i - 1)%nat.
             replace st' with (fst (step st)) by now rewrite E. rewrite steps_shift.
             replace (S (i - 1)) with i by lia. repeat split; try assumption; try lia.
             intros i' Hi'. rewrite steps_shift. apply Hall. lia.
  Qed.

  Hypothesis step_incr : forall st, iter_of (fst (step st)) = S (iter_of st).

  Lemma steps_iter' j st : iter_of (steps St step j st) = (iter_of st + j)%nat.
  Proof. induction j as [|j IH]; simpl; [lia|]. rewrite step_incr, IH. lia. Qed.

  (* labels are strictly increasing and above the starting iteration *)
  Lemma run_events_sorted k : forall st, StronglySorted lt (map fst (run_events k st)) /\
    Forall (fun l => iter_of st < l)%nat (map fst (run_events k st)).
  Proof.
    induction k as [|k IH]; intros st; simpl; [split; constructor|].
    destruct (step st) as [st' stop] eqn:E. destruct stop; [split; constructor|].
    destruct (IH st') as [S1 F1]. assert (I : iter_of st' = S (iter_of st)) by (rewrite <- step_incr, E; reflexivity).
    destruct (ckpt && Nat.eqb (iter_of st' mod freq) 0); simpl.
    - split.
      + constructor; [exact S1|]. eapply Forall_impl; [|exact F1]. intros a Ha. exact Ha.
      + constructor; [lia|]. eapply Forall_impl; [|exact F1]. intros a Ha. simpl in Ha. lia.
    - split; [exact S1|]. eapply Forall_impl; [|exact F1]. intros a Ha. simpl in Ha. lia.
  Qed.

  (* with checkpointing off (frequency 0) nothing is ever saved *)
  Lemma no_checkpointing_no_saves finish k st : ckpt = false -> snd (solve_gen St step iter_of ckpt freq finish k st) = [].
  Proof.
    intros H. rewrite solve_gen_saves. rewrite H at 1. rewrite app_nil_r.
    revert st. induction k as [|k IH]; intros st; simpl; [reflexivity|].
    destruct (step st) as [st' stop]. destruct stop; [reflexivity|]. rewrite H. simpl. apply IH.
  Qed.
End Saves.

(* ---------- strictly increasing events above the latest label are all accepted *)
Section Accepted.
  Variable Snap : Type.
  Definition label_newer (l : option nat) (k : nat) : bool := match l with None => true | Some x => Nat.ltb x k end.

  Lemma accepted_all (evs : list (nat * Snap)) : forall l,
    StronglySorted lt (map fst evs) -> Forall (fun k => label_newer l k = true) (map fst evs) ->
    accepted Snap l evs = evs.
  Proof.
    induction evs as [|e r IH]; intros l HS HF; [reflexivity|].
    simpl in *. inversion HS as [|? ? HS' HL]; subst. inversion HF as [|? ? H1 H2]; subst.
    unfold newer. destruct l as [x|]; simpl in H1 |- *.
    - rewrite H1. f_equal. apply IH; [exact HS'|].
      eapply Forall_impl; [|exact HL]. intros k Hk. simpl. now apply Nat.ltb_lt.
    - f_equal. apply IH; [exact HS'|].
      eapply Forall_impl; [|exact HL]. intros k Hk. simpl. now apply Nat.ltb_lt.
  Qed.
End Accepted.
