From Coq Require Import QArith Qminmax Qabs List Arith Lia Lqa.
From MdpaxV Require Import Model.QFun.
Import ListNotations.
Open Scope Q_scope.

Lemma fsum_ext f g n : (forall i, (i < n)%nat -> f i == g i) -> fsum f n == fsum g n.
Proof.
  induction n as [|n IH]; intros H; simpl; [reflexivity|].
  rewrite IH by (intros; apply H; lia). rewrite (H n) by lia. reflexivity.
Qed.

Lemma fsum_le f g n : (forall i, (i < n)%nat -> f i <= g i) -> fsum f n <= fsum g n.
Proof.
  induction n as [|n IH]; intros H; simpl; [apply Qle_refl|].
  apply Qplus_le_compat; [apply IH; intros; apply H; lia|apply H; lia].
Qed.

Lemma fsum_plus f g n : fsum (fun i => f i + g i) n == fsum f n + fsum g n.
Proof. induction n as [|n IH]; simpl; [ring|]. rewrite IH. ring. Qed.

Lemma fsum_scale c f n : fsum (fun i => c * f i) n == c * fsum f n.
Proof. induction n as [|n IH]; simpl; [ring|]. rewrite IH. ring. Qed.

Lemma fsum_scale_r c f n : fsum (fun i => f i * c) n == fsum f n * c.
Proof. induction n as [|n IH]; simpl; [ring|]. rewrite IH. ring. Qed.

Lemma fsum_nonneg f n : (forall i, (i < n)%nat -> 0 <= f i) -> 0 <= fsum f n.
Proof.
  induction n as [|n IH]; intros H; simpl; [apply Qle_refl|].
  assert (0 <= fsum f n) by (apply IH; intros; apply H; lia).
  assert (0 <= f n) by (apply H; lia). lra.
Qed.

Lemma fsum_zero n : fsum (fun _ => 0) n == 0.
Proof. induction n as [|n IH]; simpl; [reflexivity|]. rewrite IH. ring. Qed.

(* ---------- fmax *)
Lemma fmax_S f n : (0 < n)%nat -> fmax f (S n) = Qmax (fmax f n) (f n).
Proof. destruct n; [lia|reflexivity]. Qed.

Lemma fmax_ge f n i : (i < n)%nat -> f i <= fmax f n.
Proof.
  induction n as [|n IH]; intros Hi; [lia|].
  destruct n as [|n].
  - assert (i = 0)%nat as -> by lia. simpl. apply Qle_refl.
  - rewrite fmax_S by lia. destruct (Nat.eq_dec i (S n)) as [->|Hne].
    + apply Q.le_max_r.
    + eapply Qle_trans; [apply IH; lia|apply Q.le_max_l].
Qed.

Lemma fmax_attained f n : (0 < n)%nat -> exists i, (i < n)%nat /\ fmax f n == f i.
Proof.
  induction n as [|n IH]; intros Hn; [lia|].
  destruct n as [|n].
  - exists 0%nat. split; [lia|reflexivity].
  - rewrite fmax_S by lia. destruct (IH ltac:(lia)) as [i [Hi Ei]].
    destruct (Qlt_le_dec (fmax f (S n)) (f (S n))) as [Hlt|Hle].
    + exists (S n). split; [lia|]. apply Q.max_r. lra.
    + exists i. split; [lia|]. rewrite Q.max_l by assumption. exact Ei.
Qed.

Lemma fmax_le_bound f n c : (0 < n)%nat -> (forall i, (i < n)%nat -> f i <= c) -> fmax f n <= c.
Proof.
  intros Hn H. destruct (fmax_attained f n Hn) as [i [Hi E]]. rewrite E. now apply H.
Qed.

Lemma fmax_lt_bound f n c : (0 < n)%nat -> (forall i, (i < n)%nat -> f i < c) -> fmax f n < c.
Proof.
  intros Hn H. destruct (fmax_attained f n Hn) as [i [Hi E]]. rewrite E. now apply H.
Qed.

Lemma fmax_mono f g n : (0 < n)%nat -> (forall i, (i < n)%nat -> f i <= g i) -> fmax f n <= fmax g n.
Proof.
  intros Hn H. apply fmax_le_bound; [assumption|]. intros i Hi.
  eapply Qle_trans; [apply H; assumption|apply fmax_ge; assumption].
Qed.

Lemma fmax_ext f g n : (forall i, (i < n)%nat -> f i == g i) -> fmax f n == fmax g n.
Proof.
  destruct n as [|n]; [reflexivity|]. intros H. apply Qle_antisym; apply fmax_mono; try lia;
  intros i Hi; rewrite (H i Hi); apply Qle_refl.
Qed.

Lemma fmax_plus_const f c n : (0 < n)%nat -> fmax (fun i => f i + c) n == fmax f n + c.
Proof.
  intros Hn. apply Qle_antisym.
  - apply fmax_le_bound; [assumption|]. intros i Hi. pose proof (fmax_ge f n i Hi). lra.
  - destruct (fmax_attained f n Hn) as [i [Hi E]]. rewrite E.
    apply (fmax_ge (fun i => f i + c) n i Hi).
Qed.

(* ---------- fmin *)
Lemma fmin_S f n : (0 < n)%nat -> fmin f (S n) = Qmin (fmin f n) (f n).
Proof. destruct n; [lia|reflexivity]. Qed.

Lemma fmin_le f n i : (i < n)%nat -> fmin f n <= f i.
Proof.
  induction n as [|n IH]; intros Hi; [lia|].
  destruct n as [|n].
  - assert (i = 0)%nat as -> by lia. simpl. apply Qle_refl.
  - rewrite fmin_S by lia. destruct (Nat.eq_dec i (S n)) as [->|Hne].
    + apply Q.le_min_r.
    + eapply Qle_trans; [apply Q.le_min_l|apply IH; lia].
Qed.

Lemma fmin_attained f n : (0 < n)%nat -> exists i, (i < n)%nat /\ fmin f n == f i.
Proof.
  induction n as [|n IH]; intros Hn; [lia|].
  destruct n as [|n].
  - exists 0%nat. split; [lia|reflexivity].
  - rewrite fmin_S by lia. destruct (IH ltac:(lia)) as [i [Hi Ei]].
    destruct (Qlt_le_dec (f (S n)) (fmin f (S n))) as [Hlt|Hle].
    + exists (S n). split; [lia|]. apply Q.min_r. lra.
    + exists i. split; [lia|]. rewrite Q.min_l by assumption. exact Ei.
Qed.

Lemma fmin_ge_bound f n c : (0 < n)%nat -> (forall i, (i < n)%nat -> c <= f i) -> c <= fmin f n.
Proof.
  intros Hn H. destruct (fmin_attained f n Hn) as [i [Hi E]]. rewrite E. now apply H.
Qed.

Lemma fmin_le_fmax f n : (0 < n)%nat -> fmin f n <= fmax f n.
Proof.
  intros Hn. eapply Qle_trans; [apply (fmin_le f n 0%nat Hn)|apply (fmax_ge f n 0%nat Hn)].
Qed.

Lemma fmin_ext f g n : (forall i, (i < n)%nat -> f i == g i) -> fmin f n == fmin g n.
Proof.
  destruct n as [|n]; [reflexivity|]. intros H. apply Qle_antisym.
  - apply fmin_ge_bound; [lia|]. intros i Hi. rewrite <- (H i Hi). apply fmin_le; assumption.
  - apply fmin_ge_bound; [lia|]. intros i Hi. rewrite (H i Hi). apply fmin_le; assumption.
Qed.

(* ---------- fargmax *)
Lemma Qltb_true a b : Qltb a b = true <-> a < b.
Proof.
  unfold Qltb. rewrite Bool.negb_true_iff. split; intros H.
  - apply Qnot_le_lt. intros Hle. apply Qle_bool_iff in Hle. congruence.
  - destruct (Qle_bool b a) eqn:E; [|reflexivity]. apply Qle_bool_iff in E. lra.
Qed.

Lemma fargmax_S f n : (0 < n)%nat ->
  fargmax f (S n) = let i := fargmax f n in if Qltb (f i) (f n) then n else i.
Proof. destruct n; [lia|reflexivity]. Qed.

Lemma fargmax_lt f n : (0 < n)%nat -> (fargmax f n < n)%nat.
Proof.
  induction n as [|n IH]; intros Hn; [lia|].
  destruct n as [|n]; [simpl; lia|].
  rewrite fargmax_S by lia. cbv zeta. destruct (Qltb _ _); [lia|].
  specialize (IH ltac:(lia)). lia.
Qed.

Lemma fargmax_max f n : (0 < n)%nat -> f (fargmax f n) == fmax f n.
Proof.
  induction n as [|n IH]; intros Hn; [lia|].
  destruct n as [|n]; [reflexivity|].
  rewrite fargmax_S, fmax_S by lia. cbv zeta. specialize (IH ltac:(lia)).
  destruct (Qltb (f (fargmax f (S n))) (f (S n))) eqn:E.
  - apply Qltb_true in E. rewrite Q.max_r by lra. reflexivity.
  - assert (~ f (fargmax f (S n)) < f (S n)) as N by (intros C; apply Qltb_true in C; congruence).
    apply Qnot_lt_le in N. rewrite Q.max_l by lra. exact IH.
Qed.

(* first index: nothing before it attains the maximum *)
Lemma fargmax_first f n j : (0 < n)%nat -> (j < fargmax f n)%nat -> f j < fmax f n.
Proof.
  induction n as [|n IH]; intros Hn Hj; [lia|].
  destruct n as [|n]; [simpl in Hj; lia|].
  rewrite fargmax_S in Hj by lia. rewrite fmax_S by lia. cbv zeta in Hj.
  pose proof (fargmax_max f (S n) ltac:(lia)) as EM.
  destruct (Qltb (f (fargmax f (S n))) (f (S n))) eqn:E.
  - apply Qltb_true in E. rewrite Q.max_r by lra.
    pose proof (fmax_ge f (S n) j Hj). lra.
  - specialize (IH ltac:(lia) Hj). pose proof (Q.le_max_l (fmax f (S n)) (f (S n))). lra.
Qed.

(* ---------- span / abs *)
Lemma fspan_nonneg f n : (0 < n)%nat -> 0 <= fspan f n.
Proof. intros Hn. unfold fspan. pose proof (fmin_le_fmax f n Hn). lra. Qed.

Lemma fspan_bounds f n i j : (i < n)%nat -> (j < n)%nat -> f i - f j <= fspan f n.
Proof.
  intros Hi Hj. unfold fspan. pose proof (fmax_ge f n i Hi). pose proof (fmin_le f n j Hj). lra.
Qed.

Lemma fmaxabs_ge f n i : (i < n)%nat -> Qabs (f i) <= fmaxabs f n.
Proof. intros. unfold fmaxabs. now apply (fmax_ge (fun i => Qabs (f i))). Qed.

Lemma fmaxabs_lt_iff f n c : (0 < n)%nat -> (fmaxabs f n < c <-> forall i, (i < n)%nat -> Qabs (f i) < c).
Proof.
  intros Hn. split.
  - intros H i Hi. eapply Qle_lt_trans; [apply fmaxabs_ge; eassumption|exact H].
  - intros H. unfold fmaxabs. now apply fmax_lt_bound.
Qed.

Lemma fspan_le_2maxabs f n : (0 < n)%nat -> fspan f n <= 2 * fmaxabs f n.
Proof.
  intros Hn. unfold fspan.
  destruct (fmax_attained f n Hn) as [i [Hi Ei]]. destruct (fmin_attained f n Hn) as [j [Hj Ej]].
  rewrite Ei, Ej. pose proof (fmaxabs_ge f n i Hi). pose proof (fmaxabs_ge f n j Hj).
  pose proof (Qle_Qabs (f i)). pose proof (Qle_Qabs (- f j)). rewrite Qabs_opp in *. lra.
Qed.
