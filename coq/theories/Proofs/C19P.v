(* C19: range spaces enumerate the box in row-major order and the index function
   inverts them -- about the GENERATED definitions of gen/GenSpaces.v. *)
From Coq Require Import List Arith ZArith Bool Lia.
From MdpaxV Require Import Model.ListUtil Model.Spaces.
From MdpaxGen Require Import GenSpaces.
Import ListNotations.
Open Scope Z_scope.

(* ---------- zrange *)
Lemma zrange_from_length lo len : length (zrange_from lo len) = len.
Proof. revert lo; induction len; intros; simpl; [reflexivity|now rewrite IHlen]. Qed.

Lemma zrange_from_nth lo len k : (k < len)%nat -> nth_error (zrange_from lo len) k = Some (lo + Z.of_nat k).
Proof.
  revert lo k; induction len as [|len IH]; intros lo k Hk; [lia|].
  destruct k; simpl.
  - f_equal. lia.
  - rewrite IH by lia. f_equal. lia.
Qed.

Lemma zrange_from_in lo len x : In x (zrange_from lo len) <-> lo <= x < lo + Z.of_nat len.
Proof.
  revert lo; induction len as [|len IH]; intros lo; simpl.
  - split; [tauto|lia].
  - rewrite IH. lia.
Qed.

(* ---------- flat_map with uniform block length *)
Lemma nth_error_flat_map_uniform {A B} (f : A -> list B) P l k j a :
  (forall a, In a l -> length (f a) = P) ->
  nth_error l k = Some a -> (j < P)%nat ->
  nth_error (flat_map f l) (k * P + j) = nth_error (f a) j.
Proof.
  revert k; induction l as [|a0 l IH]; intros k HP Hk Hj.
  - destruct k; discriminate.
  - simpl. destruct k as [|k]; simpl in Hk.
    + injection Hk as ->. simpl. apply nth_error_app1. rewrite HP by (left; reflexivity). exact Hj.
    + rewrite nth_error_app2 by (rewrite HP by (left; reflexivity); simpl; lia).
      rewrite HP by (left; reflexivity).
      replace (S k * P + j - P)%nat with (k * P + j)%nat by (simpl; lia).
      apply IH; [intros; apply HP; right; assumption|assumption|assumption].
Qed.

Lemma flat_map_uniform_length {A B} (f : A -> list B) P l :
  (forall a, In a l -> length (f a) = P) -> length (flat_map f l) = (length l * P)%nat.
Proof.
  induction l as [|a l IH]; intros HP; simpl; [reflexivity|].
  rewrite app_length, HP by (left; reflexivity). rewrite IH; [lia|].
  intros; apply HP; right; assumption.
Qed.

(* ---------- the box *)
Definition ranges_of (mins maxs : list Z) : list (list Z) :=
  map2 (fun lo hi => zrange lo (hi + 1)) mins maxs.

Lemma zprod_box_dims_pos mins maxs : Forall2 Z.le mins maxs -> 0 < zprod (box_dims mins maxs).
Proof. induction 1; simpl; [lia|]. unfold box_dims in IHForall2. nia. Qed.

Lemma cart_length mins maxs : Forall2 Z.le mins maxs ->
  Z.of_nat (length (cart (ranges_of mins maxs))) = zprod (box_dims mins maxs).
Proof.
  induction 1 as [|lo hi mins maxs Hle HF IH]; simpl; [reflexivity|].
  rewrite (flat_map_uniform_length _ (length (cart (ranges_of mins maxs)))).
  2:{ intros; apply map_length. }
  unfold zrange. rewrite zrange_from_length. fold (box_dims mins maxs).
  rewrite Nat2Z.inj_mul, IH. rewrite Z2Nat.id by lia. lia.
Qed.

Lemma rank_bounds v mins maxs : Forall2 Z.le mins maxs -> in_box v mins maxs ->
  0 <= rank v mins (box_dims mins maxs) < zprod (box_dims mins maxs).
Proof.
  intros HF; revert v; induction HF as [|lo hi mins maxs Hle HF IH]; intros v Hb.
  - destruct v; simpl in *; [lia|tauto].
  - destruct v as [|x v]; simpl in Hb; [tauto|]. destruct Hb as [Hx Hb].
    specialize (IH v Hb). simpl. fold (box_dims mins maxs).
    pose proof (zprod_box_dims_pos mins maxs HF). nia.
Qed.

(* position of a box vector in the enumeration is its row-major rank *)
Lemma rank_position v mins maxs : Forall2 Z.le mins maxs -> in_box v mins maxs ->
  nth_error (cart (ranges_of mins maxs)) (Z.to_nat (rank v mins (box_dims mins maxs))) = Some v.
Proof.
  intros HF; revert v; induction HF as [|lo hi mins maxs Hle HF IH]; intros v Hb.
  - destruct v; simpl in *; [reflexivity|tauto].
  - destruct v as [|x v]; simpl in Hb; [tauto|]. destruct Hb as [Hx Hb].
    pose proof (rank_bounds v mins maxs HF Hb) as RB.
    pose proof (cart_length mins maxs HF) as CL.
    simpl. fold (box_dims mins maxs). fold (ranges_of mins maxs).
    set (P := length (cart (ranges_of mins maxs))) in *.
    replace (Z.to_nat ((x - lo) * zprod (box_dims mins maxs) + rank v mins (box_dims mins maxs)))
      with (Z.to_nat (x - lo) * P + Z.to_nat (rank v mins (box_dims mins maxs)))%nat.
    2:{ rewrite <- CL. rewrite Z2Nat.inj_add by nia. rewrite Z2Nat.inj_mul by lia.
        now rewrite Nat2Z.id. }
    rewrite (nth_error_flat_map_uniform _ P _ _ _ x).
    + rewrite nth_error_map, IH by assumption. reflexivity.
    + intros; apply map_length.
    + unfold zrange. rewrite zrange_from_nth by lia. f_equal. lia.
    + lia.
Qed.

(* every listed vector lies in the box and sits at its own rank *)
Lemma unrank mins maxs : Forall2 Z.le mins maxs -> forall i,
  (i < length (cart (ranges_of mins maxs)))%nat ->
  exists v, nth_error (cart (ranges_of mins maxs)) i = Some v /\ in_box v mins maxs /\
            rank v mins (box_dims mins maxs) = Z.of_nat i.
Proof.
  induction 1 as [|lo hi mins maxs Hle HF IH]; intros i Hi.
  - simpl in *. assert (i = 0)%nat as -> by lia. exists []. simpl. auto.
  - pose proof (cart_length mins maxs HF) as CL.
    pose proof (zprod_box_dims_pos mins maxs HF) as PP.
    simpl in Hi |- *. fold (ranges_of mins maxs) in *. fold (box_dims mins maxs).
    set (P := length (cart (ranges_of mins maxs))) in *.
    rewrite (flat_map_uniform_length _ P) in Hi by (intros; apply map_length).
    unfold zrange in Hi. rewrite zrange_from_length in Hi.
    assert (P <> 0)%nat as PNZ by lia.
    pose proof (Nat.div_mod i P PNZ) as DM.
    pose proof (Nat.mod_upper_bound i P PNZ) as MB.
    set (k := (i / P)%nat) in *. set (j := (i mod P)%nat) in *.
    assert (k < Z.to_nat (hi + 1 - lo))%nat as Hk by nia.
    destruct (IH j MB) as [v [Hn [Hb Hr]]].
    exists ((lo + Z.of_nat k) :: v). repeat split.
    + replace i with (k * P + j)%nat by lia.
      rewrite (nth_error_flat_map_uniform _ P _ _ _ (lo + Z.of_nat k)).
      * now rewrite nth_error_map, Hn.
      * intros; apply map_length.
      * unfold zrange. now apply zrange_from_nth.
      * exact MB.
    + lia.
    + lia.
    + exact Hb.
    + simpl. fold (box_dims mins maxs). rewrite Hr, <- CL. fold P. lia.
Qed.

Lemma cart_in_box mins maxs v : Forall2 Z.le mins maxs ->
  In v (cart (ranges_of mins maxs)) -> in_box v mins maxs.
Proof.
  intros HF Hin. apply In_nth_error in Hin as [i Hi].
  assert (i < length (cart (ranges_of mins maxs)))%nat as Hlt by (apply nth_error_Some; congruence).
  destruct (unrank mins maxs HF i Hlt) as [w [Hw [Hb _]]]. congruence.
Qed.

Lemma cart_nodup mins maxs : Forall2 Z.le mins maxs -> NoDup (cart (ranges_of mins maxs)).
Proof.
  intros HF. apply NoDup_nth_error. intros i j Hi Hij.
  destruct (unrank mins maxs HF i Hi) as [v [Hv [_ Hr]]].
  assert (j < length (cart (ranges_of mins maxs)))%nat as Hj.
  { apply nth_error_Some. rewrite <- Hij, Hv. discriminate. }
  destruct (unrank mins maxs HF j Hj) as [w [Hw [_ Hr2]]].
  assert (v = w) by congruence. subst w. lia.
Qed.

(* ---------- ravel with clipping *)
Lemma ravel_in_box v mins maxs acc : Forall2 Z.le mins maxs -> in_box v mins maxs ->
  ravel_clip (map2 Z.sub v mins) (box_dims mins maxs) acc =
  acc * zprod (box_dims mins maxs) + rank v mins (box_dims mins maxs).
Proof.
  intros HF; revert v acc; induction HF as [|lo hi mins maxs Hle HF IH]; intros v acc Hb.
  - destruct v; simpl in *; [lia|tauto].
  - destruct v as [|x v]; simpl in Hb; [tauto|]. destruct Hb as [Hx Hb].
    simpl. fold (box_dims mins maxs). rewrite IH by assumption.
    replace (clipz (x - lo) (hi - lo + 1)) with (x - lo) by (unfold clipz; lia).
    ring.
Qed.

Lemma nearest_in_box v mins maxs : Forall2 Z.le mins maxs -> length v = length mins ->
  in_box (nearest v mins maxs) mins maxs.
Proof.
  intros HF; revert v; induction HF as [|lo hi mins maxs Hle HF IH]; intros v Hl.
  - destruct v; simpl in *; [exact I|discriminate].
  - destruct v as [|x v]; simpl in Hl; [discriminate|]. simpl. split; [lia|].
    apply IH. lia.
Qed.

Lemma ravel_nearest v mins maxs acc : Forall2 Z.le mins maxs ->
  ravel_clip (map2 Z.sub v mins) (box_dims mins maxs) acc =
  ravel_clip (map2 Z.sub (nearest v mins maxs) mins) (box_dims mins maxs) acc.
Proof.
  intros HF; revert v acc; induction HF as [|lo hi mins maxs Hle HF IH]; intros v acc.
  - destruct v; reflexivity.
  - destruct v as [|x v]; [reflexivity|]. simpl. fold (box_dims mins maxs).
    rewrite IH. f_equal. unfold clipz. lia.
Qed.

(* ---------- tie to the generated definitions *)
Lemma gen_dims mins maxs : rs_index_dims mins maxs = box_dims mins maxs.
Proof.
  unfold rs_index_dims, rs_dimensions, vaddc, vsub, box_dims.
  revert maxs; induction mins as [|lo mins IH]; intros [|hi maxs]; simpl; try reflexivity;
  f_equal; try lia; try apply IH.
Qed.

Lemma gen_arg v mins maxs : rs_index_arg v mins maxs = map2 Z.sub v mins.
Proof.
  unfold rs_index_arg, vsub.
  revert mins; induction v as [|x v IH]; intros [|lo mins]; simpl; try reflexivity;
  f_equal; try lia; try apply IH.
Qed.

Lemma gen_ranges mins maxs : range_space mins maxs = cart (ranges_of mins maxs).
Proof.
  unfold range_space, ranges_of.
  assert (H : forall a b, map2 (fun lo hi => zrange (rs_range_lo lo hi) (rs_range_hi lo hi)) a b
                          = map2 (fun lo hi => zrange lo (hi + 1)) a b).
  { induction a as [|lo a IH]; intros [|hi b]; simpl; try reflexivity;
    f_equal; try (unfold rs_range_lo, rs_range_hi; f_equal; lia); try apply IH. }
  now rewrite H.
Qed.

Lemma gen_dimensions mins maxs : rs_dimensions mins maxs = box_dims mins maxs.
Proof. rewrite <- gen_dims. reflexivity. Qed.

(* ---------- the property theorems *)
Lemma space_length mins maxs : Forall2 Z.le mins maxs ->
  Z.of_nat (length (range_space mins maxs)) = zprod (rs_dimensions mins maxs).
Proof. intros. rewrite gen_ranges, gen_dimensions. now apply cart_length. Qed.

Lemma space_complete_row_major mins maxs v : Forall2 Z.le mins maxs -> in_box v mins maxs ->
  nth_error (range_space mins maxs) (Z.to_nat (rank v mins (box_dims mins maxs))) = Some v.
Proof. intros. rewrite gen_ranges. now apply rank_position. Qed.

Lemma space_in_box mins maxs v : Forall2 Z.le mins maxs -> In v (range_space mins maxs) -> in_box v mins maxs.
Proof. intros HF. rewrite gen_ranges. now apply cart_in_box. Qed.

Lemma space_nodup mins maxs : Forall2 Z.le mins maxs -> NoDup (range_space mins maxs).
Proof. intros. rewrite gen_ranges. now apply cart_nodup. Qed.

Lemma index_is_rank mins maxs v : Forall2 Z.le mins maxs -> in_box v mins maxs ->
  index_fn mins maxs v = rank v mins (box_dims mins maxs).
Proof.
  intros HF Hb. unfold index_fn. rewrite gen_arg, gen_dims, ravel_in_box by assumption. lia.
Qed.

Lemma index_inverse_lemma mins maxs : Forall2 Z.le mins maxs -> forall i,
  (i < length (range_space mins maxs))%nat ->
  exists v, nth_error (range_space mins maxs) i = Some v /\ index_fn mins maxs v = Z.of_nat i.
Proof.
  intros HF i Hi. rewrite gen_ranges in *.
  destruct (unrank mins maxs HF i Hi) as [v [Hv [Hb Hr]]].
  exists v. split; [exact Hv|]. now rewrite index_is_rank.
Qed.

Lemma index_total_nearest_lemma mins maxs v : Forall2 Z.le mins maxs -> length v = length mins ->
  index_fn mins maxs v = index_fn mins maxs (nearest v mins maxs) /\
  nth_error (range_space mins maxs) (Z.to_nat (index_fn mins maxs v)) = Some (nearest v mins maxs).
Proof.
  intros HF Hl.
  assert (index_fn mins maxs v = index_fn mins maxs (nearest v mins maxs)) as E.
  { unfold index_fn. rewrite !gen_arg, gen_dims. now apply ravel_nearest. }
  split; [exact E|].
  rewrite E, index_is_rank by (try apply nearest_in_box; assumption).
  apply space_complete_row_major; [assumption|now apply nearest_in_box].
Qed.
