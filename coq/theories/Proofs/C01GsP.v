(* C01 for the semi-asynchronous solver: the max_diff stopping rule applied to ANY block
   Gauss-Seidel sweep (any partition; a different one per sweep is fine: only the last sweep matters). *)
From Coq Require Import QArith Qminmax Qabs List Arith Lia Lqa Bool.
From MdpaxV Require Import Model.QFun Model.MDP Model.Bellman Model.GaussSeidel
     Proofs.QFunP Proofs.ContractionP Proofs.BellmanP Proofs.C01P Proofs.GaussSeidelP.
Open Scope Q_scope.

Section SaviBounds.
  Variable M : mdp.
  Variable g : Q.
  Hypothesis WF : wf M.
  Hypothesis g0 : 0 < g.
  Hypothesis g1 : g < 1.
  Variable Vs : nat -> Q.
  Hypothesis HVs : fixedpt (nS M) (T M g) Vs.
  Variable eps : Q.
  Hypothesis epos : 0 < eps.
  Variable parts : list (list (list nat)).
  Hypothesis HC : covers parts (nS M).

  Let HG : onesided_pos (nS M) g (gs_op M g parts).
  Proof. apply gs_op_onesided_pos; try assumption; lra. Qed.
  Let HF : fixedpt (nS M) (gs_op M g parts) Vs.
  Proof. apply gs_op_fixed; try assumption; lra. Qed.

  Lemma savi_maxdiff_value_bound_l V :
    fmaxabs (fun s => gs_op M g parts V s - V s) (nS M) < thr g eps ->
    forall s, (s < nS M)%nat -> Qabs (gs_op M g parts V s - Vs s) < eps.
  Proof. intros H. eapply gs_maxdiff_value_bound_l with (g := g) (eps := eps) (Vs := Vs); eauto. Qed.

  Lemma savi_maxdiff_policy_bound_l V pi vpi :
    fmaxabs (fun s => gs_op M g parts V s - V s) (nS M) < thr g eps ->
    valid_policy M pi -> greedy_for M g pi (gs_op M g parts V) -> fixedpt (nS M) (Tpi M g pi) vpi ->
    forall s, (s < nS M)%nat -> 0 <= Vs s - vpi s < 2 * g * eps / (1 - g).
  Proof. intros H Hp Hg Hv. eapply gs_maxdiff_policy_bound_l with (g := g) (eps := eps) (Vs := Vs) (G := gs_op M g parts) (V := V); eauto. Qed.
End SaviBounds.
