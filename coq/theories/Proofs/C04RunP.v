(* C04 lifted to runs of the relative-value-iteration state machine. *)
From Coq Require Import QArith Qminmax Qabs Qreduction List Arith ZArith Lia Lqa Bool.
From MdpaxV Require Import Model.ListUtil Model.QFun Model.MDP Model.Bellman Model.Solvers
     Proofs.QFunP Proofs.ContractionP Proofs.BellmanP Proofs.C01P Proofs.C02P Proofs.C03P Proofs.LoopP Proofs.C01RunP Proofs.C08P Proofs.C04P.
From MdpaxGen Require Import GenThreshold.
Import ListNotations.
Open Scope Q_scope.

Section Run.
  Variable M : mdp.
  Hypothesis WF : wf M.
  Variable eps : Q.
  Let n := nS M.

  (* reference component: the values at the LAST state carry the gain estimate *)
  Definition rvi_inv (st : rvist) : Prop := length (r_vals st) = n /\ r_gain st == qnth (r_vals st) (n - 1).

  Lemma last_qnth (l : list Q) : l <> [] -> last l 0 = qnth l (length l - 1).
  Proof.
    intros H. unfold qnth. induction l as [|x l IH]; [contradiction|].
    destruct l as [|y l]; [reflexivity|]. simpl length. simpl last.
    replace (S (S (length l)) - 1)%nat with (S (length (y :: l) - 1)) by (simpl; lia).
    simpl nth. apply IH. discriminate.
  Qed.

  Lemma rvi_step_vals st : r_vals (fst (rvi_step eps (sweep M 1) st)) = map (fun x => Qred (x - r_gain st)) (sweep M 1 (r_vals st)).
  Proof. reflexivity. Qed.

  Lemma rvi_step_inv st : rvi_inv (fst (rvi_step eps (sweep M 1) st)).
  Proof.
    unfold rvi_inv. unfold rvi_step, rvi_sweep_step. simpl.
    match goal with |- context [last ?l 0] => set (new := l) end.
    assert (L : length new = n) by (unfold new; rewrite map_length; apply sweep_length).
    split; [exact L|]. rewrite last_qnth.
    - rewrite L. reflexivity.
    - intros E. rewrite E in L. simpl in L. pose proof (wf_nS M WF). unfold n in L. lia.
  Qed.

  Lemma rvi_steps_inv j st : rvi_inv st -> rvi_inv (steps rvist (rvi_step eps (sweep M 1)) j st).
  Proof. intros H. destruct j; [exact H|]. simpl. apply rvi_step_inv. Qed.

  Lemma qnth_map_sub V c s : (s < length V)%nat -> qnth (map (fun x => Qred (x - c)) V) s == qnth V s - c.
  Proof.
    intros Hs. unfold qnth. rewrite (nth_indep _ 0 (Qred (0 - c))) by (rewrite map_length; exact Hs).
    rewrite (map_nth (fun x => Qred (x - c))). apply Qred_correct.
  Qed.

  (* fresh solver: the gain field starts as the reference component of the initial values *)
  Lemma rvi_init_inv V0 : length V0 = n -> V0 <> [] -> rvi_inv (rvi_init V0).
  Proof.
    intros HL HN. unfold rvi_inv, rvi_init. simpl. split; [exact HL|].
    rewrite last_qnth by exact HN. rewrite HL. reflexivity.
  Qed.

  (* shape of a converged run *)
  Lemma rvi_converged_shape ckpt freq k st0 st' saves : rvi_inv st0 ->
    S_rvi_solve M 1 eps ckpt freq k st0 = (st', true, saves) ->
    exists prev, rvi_inv prev /\
      r_vals st' = map (fun x => Qred (x - r_gain prev)) (sweep M 1 (r_vals prev)) /\
      span_diff (r_vals st') (r_vals prev) < eps /\
      r_gain st' = last (r_vals st') 0 /\
      r_pol st' = Some (policy_of M 1 (r_vals st')).
  Proof.
    intros I0. unfold S_rvi_solve, rvi_solve, solve_gen. intros H.
    destruct (loop rvist (rvi_step eps (sweep M 1)) r_iter ckpt freq k st0 []) as [[st1 c1] sv] eqn:L.
    injection H as <- -> _.
    destruct (loop_spec _ _ _ _ _ _ _ _ _ _ _ L) as [j [Hj [Hst [_ [Hc _]]]]].
    destruct (Hc eq_refl) as [Hj0 Hl].
    set (prev := steps rvist (rvi_step eps (sweep M 1)) (j - 1) st0) in *.
    exists prev. split; [apply rvi_steps_inv; exact I0|].
    assert (E1 : st1 = fst (rvi_step eps (sweep M 1) prev)).
    { rewrite Hst. replace j with (S (j - 1)) at 1 by lia. reflexivity. }
    rewrite E1. unfold rvi_step, rvi_sweep_step in *. simpl in *. repeat split.
    apply Qltb_true in Hl. unfold rvi_threshold, thr_rvi in Hl. rewrite Qred_correct in Hl. exact Hl.
  Qed.

  Lemma rvi_solve_sound_l ckpt freq k st0 st' saves gs hs :
    rvi_inv st0 -> S_rvi_solve M 1 eps ckpt freq k st0 = (st', true, saves) -> aroe M gs hs ->
    Qabs (r_gain st' - gs) < eps /\
    (forall s, (s < n)%nat -> Qabs (T M 1 (qnth (r_vals st')) s - qnth (r_vals st') s - r_gain st') < eps) /\
    (forall pol gp hp, r_pol st' = Some pol -> aroe_pi M (policy_fun pol) gp hp -> gs - eps < gp /\ gp <= gs) /\
    r_gain st' == qnth (r_vals st') (n - 1).
  Proof.
    intros I0 H HA.
    destruct (rvi_converged_shape ckpt freq k st0 st' saves I0 H) as [prev [[PL PG] [HV [Hm [HG HP]]]]].
    pose proof (wf_nS M WF) as npos. fold n in npos.
    assert (LV : length (r_vals st') = n) by (rewrite HV, map_length; apply sweep_length).
    assert (Hstep : forall s, (s < n)%nat -> qnth (r_vals st') s == T M 1 (qnth (r_vals prev)) s - r_gain prev).
    { intros s Hs. rewrite HV, qnth_map_sub by (rewrite sweep_length; exact Hs). now rewrite sweep_spec. }
    assert (Hconv : fspan (fun s => qnth (r_vals st') s - qnth (r_vals prev) s) n < eps).
    { rewrite span_diff_spec, LV in Hm. exact Hm. }
    assert (Href : (n - 1 < n)%nat) by lia.
    assert (GE : r_gain st' == qnth (r_vals st') (n - 1)).
    { rewrite HG, last_qnth, LV; [reflexivity|]. intros E. rewrite E in LV. simpl in LV. lia. }
    repeat split.
    - rewrite GE. apply (rvi_gain_within_eps_l M WF (qnth (r_vals prev)) (qnth (r_vals st')) (r_gain prev) Hstep eps Hconv (n - 1)%nat Href PG gs hs HA).
    - intros s Hs. rewrite GE.
      apply (rvi_aroe_residual_l M WF (qnth (r_vals prev)) (qnth (r_vals st')) (r_gain prev) Hstep eps Hconv (n - 1)%nat Href PG s Hs).
    - rewrite HP in H0. injection H0 as <-.
      eapply (rvi_policy_gain_within_eps_l M WF (qnth (r_vals prev)) (qnth (r_vals st')) (r_gain prev) Hstep eps Hconv
                (policy_fun (policy_of M 1 (r_vals st'))) gp hp gs hs); try eassumption.
      + apply (policy_valid M 1 WF).
      + apply (policy_greedy_for M 1 WF).
    - rewrite HP in H0. injection H0 as <-.
      eapply (rvi_policy_gain_within_eps_l M WF (qnth (r_vals prev)) (qnth (r_vals st')) (r_gain prev) Hstep eps Hconv
                (policy_fun (policy_of M 1 (r_vals st'))) gp hp gs hs); try eassumption.
      + apply (policy_valid M 1 WF).
      + apply (policy_greedy_for M 1 WF).
    - exact GE.
  Qed.

  (* the reference component equals the gain estimate after EVERY iteration: values cannot drift like n*g *)
  Lemma rvi_reference_is_gain j st : (0 < j)%nat ->
    let st' := steps rvist (rvi_step eps (sweep M 1)) j st in
    r_gain st' == qnth (r_vals st') (n - 1).
  Proof. intros Hj. destruct j; [lia|]. simpl. apply rvi_step_inv. Qed.
End Run.
