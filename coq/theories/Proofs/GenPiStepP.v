(* The changed-state count GENERATED from PolicyIteration._iteration_step is zero exactly when no state's action vector
   changed in any component. *)
From Coq Require Import ZArith List Bool Lia.
From MdpaxV Require Import Model.ListUtil Model.PolicyOps.
From MdpaxGen Require Import GenPiStep.
Import ListNotations.

Lemma row_unchanged a : forall b, length a = length b ->
  (existsb (fun x => x) (map2 (fun x y => negb (Z.eqb x y)) a b) = false <-> a = b).
Proof.
  induction a as [|x a IH]; intros [|y b] H; simpl in *; try discriminate; [split; reflexivity|].
  rewrite orb_false_iff, negb_false_iff, Z.eqb_eq, (IH b) by lia. split.
  - intros [-> ->]. reflexivity.
  - intros E. inversion E. split; reflexivity.
Qed.

Lemma bsum_cons x l : bsum (x :: l) = ((if x then 1 else 0) + bsum l)%nat.
Proof. unfold bsum. simpl. destruct x; reflexivity. Qed.

Theorem gen_pi_n_changed_zero_iff new old : Forall2 (fun a b => length a = length b) new old ->
  (gen_pi_n_changed new old = 0%nat <-> new = old).
Proof.
  unfold gen_pi_n_changed, any_axis1, mat_ne. intros F. induction F as [|a b new old Hab F IH]; [split; reflexivity|].
  cbn [map2 map]. rewrite bsum_cons.
  destruct (existsb (fun x => x) (map2 (fun x y => negb (Z.eqb x y)) a b)) eqn:E.
  - split; [lia|]. intros H. inversion H; subst.
    assert (existsb (fun x => x) (map2 (fun x y => negb (Z.eqb x y)) b b) = false) by (apply row_unchanged; reflexivity). congruence.
  - apply (row_unchanged a b Hab) in E. subst b. rewrite Nat.add_0_l, IH. split; [intros ->; reflexivity|intros H; now inversion H].
Qed.

(* and the count never exceeds the number of states *)
Lemma bsum_le l : (bsum l <= length l)%nat.
Proof. unfold bsum. induction l as [|x l IH]; simpl; [lia|destruct x; simpl; lia]. Qed.
