(* C13, Hendrix: the four-case table of units issued sums to  P(D_b < s_b) + sum_{z <= D} pz[z, s_b]  (identity), and
   that is AT MOST  P(D_b < D)  for every demand law: whatever mass the demand for B carries at or beyond the truncation
   point D = max_demand is lost from every row.  (pa, pb, bin are oracle tables with the properties of pmfs.) *)
From Coq Require Import QArith Qreduction List Arith Lia Lqa Bool.
From MdpaxV Require Import Model.QFun Model.Hendrix Proofs.QFunP.
Import ListNotations.
Open Scope Q_scope.

(* ---------- finite-sum toolbox *)
Lemma fsum_swap (f : nat -> nat -> Q) n m :
  fsum (fun i => fsum (fun j => f i j) m) n == fsum (fun j => fsum (fun i => f i j) n) m.
Proof.
  induction n as [|n IH]; simpl.
  - symmetry. apply fsum_zero.
  - rewrite IH. rewrite <- fsum_plus. reflexivity.
Qed.

Lemma ind_and a b x : ind (a && b) x = ind a (ind b x).
Proof. destruct a, b; reflexivity. Qed.

Lemma fsum_ind_out (a : bool) h M : fsum (fun j => ind a (h j)) M == ind a (fsum h M).
Proof. destruct a; simpl; [reflexivity|apply fsum_zero]. Qed.

Lemma fsum_ind_lt g : forall N s, (s <= N)%nat -> fsum (fun i => ind (Nat.ltb i s) (g i)) N == fsum g s.
Proof.
  induction N as [|N IH]; intros s Hs.
  - assert (s = 0)%nat as -> by lia. reflexivity.
  - simpl fsum at 1. destruct (Nat.eq_dec s (S N)) as [->|Hne].
    + rewrite (fsum_ext _ g N).
      * assert (Nat.ltb N (S N) = true) as -> by (apply Nat.ltb_lt; lia). reflexivity.
      * intros i Hi. assert (Nat.ltb i (S N) = true) as -> by (apply Nat.ltb_lt; lia). reflexivity.
    + rewrite (IH s) by lia. assert (Nat.ltb N s = false) as -> by (apply Nat.ltb_ge; lia). simpl. ring.
Qed.

Lemma fsum_ind_eq g : forall N s, (s < N)%nat -> fsum (fun i => ind (Nat.eqb i s) (g i)) N == g s.
Proof.
  induction N as [|N IH]; intros s Hs; [lia|]. simpl fsum. destruct (Nat.eq_dec s N) as [->|Hne].
  - rewrite Nat.eqb_refl. simpl.
    rewrite (fsum_ext _ (fun _ => 0) N).
    + rewrite fsum_zero. ring.
    + intros i Hi. assert (Nat.eqb i N = false) as -> by (apply Nat.eqb_neq; lia). reflexivity.
  - rewrite (IH s) by lia. assert (Nat.eqb N s = false) as -> by (apply Nat.eqb_neq; lia). simpl. ring.
Qed.

Lemma fsum_split g : forall N s, (s <= N)%nat ->
  fsum g N == fsum g s + fsum (fun z => ind (Nat.leb s z) (g z)) N.
Proof.
  intros N s Hs. rewrite <- (fsum_ind_lt g N s Hs), <- fsum_plus.
  apply fsum_ext. intros i Hi. destruct (Nat.ltb i s) eqn:E.
  - apply Nat.ltb_lt in E. assert (Nat.leb s i = false) as -> by (apply Nat.leb_gt; lia). simpl. ring.
  - apply Nat.ltb_ge in E. assert (Nat.leb s i = true) as -> by (apply Nat.leb_le; lia). simpl. ring.
Qed.

Lemma fsum_shift_ind h k : forall N, fsum (fun z => ind (Nat.leb k z) (h (z - k)%nat)) N == fsum h (N - k).
Proof.
  induction N as [|N IH]; [reflexivity|]. simpl fsum at 1. rewrite IH.
  destruct (Nat.leb k N) eqn:E.
  - apply Nat.leb_le in E. replace (S N - k)%nat with (S (N - k)) by lia. simpl. reflexivity.
  - apply Nat.leb_gt in E. replace (S N - k)%nat with 0%nat by lia. replace (N - k)%nat with 0%nat by lia. simpl. ring.
Qed.

Lemma fsum_mono_n h a b : (forall i, 0 <= h i) -> (a <= b)%nat -> fsum h a <= fsum h b.
Proof.
  intros Hh Hab. induction Hab as [|b Hab IH]; [lra|]. simpl. pose proof (Hh b). lra.
Qed.

Lemma fsum_shift_add (p : nat -> Q) y : forall L, fsum (fun x => p (x + y)%nat) L + fsum p y == fsum p (y + L).
Proof.
  induction L as [|L IH]; simpl.
  - rewrite Nat.add_0_r. ring.
  - rewrite Nat.add_succ_r. simpl. rewrite <- IH. rewrite (Nat.add_comm L y). ring.
Qed.

Section HendrixP.
  Variables (pa pb : nat -> Q) (bin : nat -> nat -> Q).
  Variable D : nat.
  Hypothesis pa_nonneg : forall k, 0 <= pa k.
  Hypothesis pb_nonneg : forall k, 0 <= pb k.
  Hypothesis pa_le_one : forall N, fsum pa N <= 1.
  Hypothesis bin_nonneg : forall u x, 0 <= bin u x.
  Hypothesis bin_sums_to_one : forall x, fsum (fun u => bin u x) (S x) == 1.

  Notation pu := (hx_pu pb bin D).
  Notation pz := (hx_pz pa pb bin D).

  Lemma pu_eq y u : pu y u == fsum (fun x => if Nat.leb u x then pb (x + y)%nat * bin u x else 0) (D - y).
  Proof. unfold hx_pu. apply Qred_correct. Qed.
  Lemma pz_eq y z : pz y z == fsum (fun k => pa k * pu y (z - k)) (S z).
  Proof. unfold hx_pz. apply Qred_correct. Qed.

  Lemma pu_nonneg y u : 0 <= pu y u.
  Proof.
    rewrite pu_eq. apply fsum_nonneg. intros x _. destruct (Nat.leb u x); [|lra].
    apply Qmult_le_0_compat; [apply pb_nonneg|apply bin_nonneg].
  Qed.

  (* ---------- the identity: total mass of a row *)
  Theorem hx_total_identity A B sa sb : (sa <= A)%nat -> (sb <= B)%nat -> (sa <= S D)%nat ->
    hx_total pa pb bin D A B sa sb == fsum pb sb + fsum (pz sb) (S D).
  Proof.
    intros HA HB HD. unfold hx_total, hx_prob.
    set (X := Qred (fsum (fun z => ind (Nat.leb sa z) (pz sb z)) (S D))).
    (* split the double sum into the four cases *)
    rewrite (fsum_ext _ (fun ia =>
        ind (Nat.ltb ia sa) (pa ia * fsum pb sb) + ind (Nat.eqb ia sa) ((1 - fsum pa sa) * fsum pb sb)
        + ind (Nat.ltb ia sa) (pz sb ia) + ind (Nat.eqb ia sa) X) (S A)).
    2:{ intros ia _. rewrite !fsum_plus.
        assert (E1 : fsum (fun ib => ind (Nat.ltb ia sa && Nat.ltb ib sb) (pa ia * pb ib)) (S B) == ind (Nat.ltb ia sa) (pa ia * fsum pb sb)).
        { rewrite (fsum_ext _ (fun ib => ind (Nat.ltb ia sa) (ind (Nat.ltb ib sb) (pa ia * pb ib))) (S B)) by (intros; now rewrite ind_and).
          rewrite fsum_ind_out. destruct (Nat.ltb ia sa); [|reflexivity]. simpl ind at 1.
          rewrite (fsum_ind_lt (fun ib => pa ia * pb ib) (S B) sb) by lia. simpl. apply fsum_scale. }
        assert (E2 : fsum (fun ib => ind (Nat.eqb ia sa && Nat.ltb ib sb) ((1 - fsum pa sa) * pb ib)) (S B) == ind (Nat.eqb ia sa) ((1 - fsum pa sa) * fsum pb sb)).
        { rewrite (fsum_ext _ (fun ib => ind (Nat.eqb ia sa) (ind (Nat.ltb ib sb) ((1 - fsum pa sa) * pb ib))) (S B)) by (intros; now rewrite ind_and).
          rewrite fsum_ind_out. destruct (Nat.eqb ia sa); [|reflexivity]. simpl ind at 1.
          rewrite (fsum_ind_lt (fun ib => (1 - fsum pa sa) * pb ib) (S B) sb) by lia. simpl. apply fsum_scale. }
        assert (E3 : fsum (fun ib => ind (Nat.ltb ia sa && Nat.eqb ib sb) (pz sb ia)) (S B) == ind (Nat.ltb ia sa) (pz sb ia)).
        { rewrite (fsum_ext _ (fun ib => ind (Nat.ltb ia sa) (ind (Nat.eqb ib sb) (pz sb ia))) (S B)) by (intros; now rewrite ind_and).
          rewrite fsum_ind_out. destruct (Nat.ltb ia sa); [|reflexivity]. simpl ind at 1.
          rewrite (fsum_ind_eq (fun _ => pz sb ia) (S B) sb) by lia. reflexivity. }
        assert (E4 : fsum (fun ib => ind (Nat.eqb ia sa && Nat.eqb ib sb) X) (S B) == ind (Nat.eqb ia sa) X).
        { rewrite (fsum_ext _ (fun ib => ind (Nat.eqb ia sa) (ind (Nat.eqb ib sb) X)) (S B)) by (intros; now rewrite ind_and).
          rewrite fsum_ind_out. destruct (Nat.eqb ia sa); [|reflexivity]. simpl ind at 1.
          rewrite (fsum_ind_eq (fun _ => X) (S B) sb) by lia. reflexivity. }
        rewrite E1, E2, E3, E4. reflexivity. }
    rewrite !fsum_plus.
    rewrite (fsum_ind_lt (fun ia => pa ia * fsum pb sb) (S A) sa) by lia.
    rewrite (fsum_ind_eq (fun _ => (1 - fsum pa sa) * fsum pb sb) (S A) sa) by lia.
    rewrite (fsum_ind_lt (pz sb) (S A) sa) by lia.
    rewrite (fsum_ind_eq (fun _ => X) (S A) sa) by lia.
    rewrite fsum_scale_r. rewrite (fsum_split (pz sb) (S D) sa HD). unfold X. rewrite Qred_correct. ring.
  Qed.

  (* ---------- the bound: what the truncation keeps *)
  Lemma pu_total y : fsum (pu y) (S D) == fsum (fun x => pb (x + y)%nat) (D - y).
  Proof.
    rewrite (fsum_ext (pu y) (fun u => fsum (fun x => if Nat.leb u x then pb (x + y)%nat * bin u x else 0) (D - y)) (S D)) by (intros; apply pu_eq).
    rewrite fsum_swap. apply fsum_ext. intros x Hx.
    rewrite (fsum_ext _ (fun u => pb (x + y)%nat * ind (Nat.leb u x) (bin u x)) (S D)).
    2:{ intros u _. destruct (Nat.leb u x); simpl; ring. }
    rewrite fsum_scale.
    assert (E : fsum (fun u => ind (Nat.leb u x) (bin u x)) (S D) == 1).
    { rewrite (fsum_ext _ (fun u => ind (Nat.ltb u (S x)) (bin u x)) (S D)).
      - rewrite (fsum_ind_lt (fun u => bin u x) (S D) (S x)) by lia. apply bin_sums_to_one.
      - intros u _. assert (Nat.leb u x = Nat.ltb u (S x)) as -> by (unfold Nat.ltb; reflexivity). reflexivity. }
    rewrite E. ring.
  Qed.

  Lemma pz_total_le y : fsum (pz y) (S D) <= fsum (pu y) (S D).
  Proof.
    rewrite (fsum_ext (pz y) (fun z => fsum (fun k => pa k * pu y (z - k)) (S z)) (S D)) by (intros; apply pz_eq).
    (* extend the inner sum to S D with an indicator, swap, shift *)
    rewrite (fsum_ext _ (fun z => fsum (fun k => ind (Nat.leb k z) (pa k * pu y (z - k))) (S D)) (S D)).
    2:{ intros z Hz. rewrite (fsum_ext (fun k => ind (Nat.leb k z) (pa k * pu y (z - k))) (fun k => ind (Nat.ltb k (S z)) (pa k * pu y (z - k))) (S D)).
        - rewrite (fsum_ind_lt (fun k => pa k * pu y (z - k)) (S D) (S z)) by lia. reflexivity.
        - intros k _. assert (Nat.leb k z = Nat.ltb k (S z)) as -> by (unfold Nat.ltb; reflexivity). reflexivity. }
    rewrite fsum_swap.
    rewrite (fsum_ext _ (fun k => pa k * fsum (pu y) (S D - k)) (S D)).
    2:{ intros k _. rewrite (fsum_ext _ (fun z => pa k * ind (Nat.leb k z) (pu y (z - k))) (S D)).
        - rewrite fsum_scale, fsum_shift_ind. reflexivity.
        - intros z _. destruct (Nat.leb k z); simpl; ring. }
    (* each inner sum is at most the full one; the pa's sum to at most one *)
    set (PU := fsum (pu y) (S D)).
    assert (PU0 : 0 <= PU) by (apply fsum_nonneg; intros; apply pu_nonneg).
    apply Qle_trans with (fsum (fun k => pa k * PU) (S D)).
    - apply fsum_le. intros k _.
      assert (M1 : fsum (pu y) (S D - k) <= PU) by (apply fsum_mono_n; [apply pu_nonneg|lia]).
      pose proof (pa_nonneg k) as M2. nra.
    - rewrite fsum_scale_r. pose proof (pa_le_one (S D)) as P1.
      assert (0 <= fsum pa (S D)) by (apply fsum_nonneg; intros; apply pa_nonneg).
      nra.
  Qed.

  Theorem hx_total_le A B sa sb : (sa <= A)%nat -> (sb <= B)%nat -> (sa <= S D)%nat -> (sb <= D)%nat ->
    hx_total pa pb bin D A B sa sb <= fsum pb D.
  Proof.
    intros HA HB HD HsD. rewrite (hx_total_identity A B sa sb HA HB HD).
    pose proof (pz_total_le sb) as P. rewrite pu_total in P.
    pose proof (fsum_shift_add pb sb (D - sb)) as S. replace (sb + (D - sb))%nat with D in S by lia. lra.
  Qed.
End HendrixP.

(* the case structure of hx_prob (no hypotheses on the tables) *)
Lemma hx_prob_cases (pa pb : nat -> Q) bin D sa sb ia ib :
  ((ia < sa)%nat -> (ib < sb)%nat -> hx_prob pa pb bin D sa sb ia ib == pa ia * pb ib) /\
  ((ib < sb)%nat -> hx_prob pa pb bin D sa sb sa ib == (1 - fsum pa sa) * pb ib) /\
  ((ia < sa)%nat -> hx_prob pa pb bin D sa sb ia sb == hx_pz pa pb bin D sb ia).
Proof.
  unfold hx_prob. repeat split.
  - intros H1 H2. assert (Nat.ltb ia sa = true) as -> by (apply Nat.ltb_lt; lia). assert (Nat.ltb ib sb = true) as -> by (apply Nat.ltb_lt; lia).
    assert (Nat.eqb ia sa = false) as -> by (apply Nat.eqb_neq; lia). assert (Nat.eqb ib sb = false) as -> by (apply Nat.eqb_neq; lia).
    simpl. ring.
  - intros H2. assert (Nat.ltb sa sa = false) as -> by (apply Nat.ltb_ge; lia). rewrite Nat.eqb_refl.
    assert (Nat.ltb ib sb = true) as -> by (apply Nat.ltb_lt; lia). assert (Nat.eqb ib sb = false) as -> by (apply Nat.eqb_neq; lia).
    simpl. ring.
  - intros H1. assert (Nat.ltb ia sa = true) as -> by (apply Nat.ltb_lt; lia). assert (Nat.eqb ia sa = false) as -> by (apply Nat.eqb_neq; lia).
    assert (Nat.ltb sb sb = false) as -> by (apply Nat.ltb_ge; lia). rewrite Nat.eqb_refl. simpl. ring.
Qed.
