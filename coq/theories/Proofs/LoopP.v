(* Facts about the generic solve() loop (Model/Solvers.v: loop, solve_gen). *)
From Coq Require Import QArith List Arith Lia Bool.
From MdpaxV Require Import Model.Solvers.
Import ListNotations.

Section LoopFacts.
  Variable St : Type.
  Variable step : St -> St * bool.
  Variable iter_of : St -> nat.
  Variables (ckpt : bool) (freq : nat).

  (* n-fold application of step while the test keeps failing *)
  Fixpoint steps (n : nat) (st : St) : St :=
    match n with O => st | S m => fst (step (steps m st)) end.

  (* trajectory description of loop: it performed j <= k steps; every earlier test failed;
     it reports convergence iff the j-th test passed; and j = k when it does not *)
  Lemma loop_spec k st saves st' conv saves' :
    loop St step iter_of ckpt freq k st saves = (st', conv, saves') ->
    exists j, (j <= k)%nat /\ st' = steps j st /\
      (forall i, (i < j)%nat -> i <> (j - 1)%nat -> snd (step (steps i st)) = false) /\
      (conv = true -> (0 < j)%nat /\ snd (step (steps (j - 1) st)) = true) /\
      (conv = false -> j = k /\ forall i, (i < k)%nat -> snd (step (steps i st)) = false).
  Proof.
    revert st saves; induction k as [|k IH]; intros st saves H; simpl in H.
    - injection H as <- <- <-. exists 0%nat. repeat split; try lia; try discriminate; intros; lia.
    - destruct (step st) as [st1 stop] eqn:E. destruct stop.
      + injection H as <- <- <-. exists 1%nat. simpl. rewrite E.
        repeat split; try lia; try discriminate; try (intros; lia).
      + apply IH in H. destruct H as [j [Hj [Hst [Hprev [Hc Hn]]]]].
        assert (ST : forall i, steps i st1 = steps (S i) st).
        { intros i. induction i as [|i IHi]; simpl; [now rewrite E|]. now rewrite IHi. }
        exists (S j). split; [lia|]. split; [rewrite Hst; apply ST|]. split; [|split].
        * intros i Hi Hne. destruct i as [|i]; [simpl; now rewrite E|].
          rewrite <- ST. apply Hprev; lia.
        * intros C. destruct (Hc C) as [Hj0 Hl]. split; [lia|].
          replace (S j - 1)%nat with (S (j - 1)) by lia. now rewrite <- ST.
        * intros C. destruct (Hn C) as [-> Hall]. split; [reflexivity|].
          intros i Hi. destruct i as [|i]; [simpl; now rewrite E|]. rewrite <- ST. apply Hall. lia.
  Qed.

  (* the state on which the last (passing) test was taken *)
  Lemma loop_converged_last k st saves st' saves' :
    loop St step iter_of ckpt freq k st saves = (st', true, saves') ->
    exists prev, step prev = (st', true).
  Proof.
    intros H. destruct (loop_spec _ _ _ _ _ _ H) as [j [Hj [Hst [_ [Hc _]]]]].
    destruct (Hc eq_refl) as [Hj0 Hl].
    exists (steps (j - 1) st). destruct (step (steps (j - 1) st)) as [s b] eqn:E. simpl in Hl. subst b.
    f_equal. rewrite Hst. replace j with (S (j - 1)) at 1 by lia. simpl. now rewrite E.
  Qed.
End LoopFacts.
