(* C03: every solver run is independent of the layout (batch size, device count) and of
   whatever the padding rows contain. *)
From Coq Require Import QArith List Arith ZArith Lia Bool.
From MdpaxV Require Import Model.ListUtil Model.QFun Model.MDP Model.Bellman Model.Batching Model.Kernel
     Model.SemiAsync Model.Solvers Proofs.C02P.
Import ListNotations.

Lemma loop_ext St (step1 step2 : St -> St * bool) iter ckpt freq :
  (forall st, step1 st = step2 st) ->
  forall k st saves, loop St step1 iter ckpt freq k st saves = loop St step2 iter ckpt freq k st saves.
Proof.
  intros H k. induction k as [|k IH]; intros st saves; simpl; [reflexivity|].
  rewrite H. destruct (step2 st) as [st' stop]. destruct stop; [reflexivity|]. apply IH.
Qed.

Lemma solve_gen_ext St (step1 step2 : St -> St * bool) iter ckpt freq (fin1 fin2 : bool -> St -> St) :
  (forall st, step1 st = step2 st) -> (forall b st, fin1 b st = fin2 b st) ->
  forall k st, solve_gen St step1 iter ckpt freq fin1 k st = solve_gen St step2 iter ckpt freq fin2 k st.
Proof.
  intros H1 H2 k st. unfold solve_gen. rewrite (loop_ext St step1 step2 iter ckpt freq H1).
  destruct (loop St step2 iter ckpt freq k st []) as [[st' conv] saves]. now rewrite H2.
Qed.

Section Indep.
  Variable M : mdp.
  Variables (g eps : Q).
  Variables (n mb d : Z).
  Hypothesis Hn : n = Z.of_nat (nS M).
  Hypothesis HS : (0 < nS M)%nat.
  Hypothesis HA : (0 < nA M)%nat.
  Hypothesis Hmb : (1 <= mb)%Z.
  Hypothesis Hd : (1 <= d)%Z.
  Variables (padval : Q) (padidx zidx : nat).

  Let SWk := kernel_sweep M n mb d padval g.
  Let POLk := kernel_policy M n mb d padidx g.
  Let EVk := kernel_eval M n mb d zidx padval g.

  Lemma SW_eq V : SWk V = sweep M g V.
  Proof. unfold SWk. now apply kernel_sweep_eq_L. Qed.
  Lemma POL_eq V : POLk V = policy_of M g V.
  Proof. unfold POLk. now apply kernel_policy_spec. Qed.
  Lemma EV_eq P V : EVk P V = sweep_pi M g P V.
  Proof. unfold EVk. now apply kernel_eval_eq_L. Qed.

  Lemma vi_run_layout_free t ckpt freq k st :
    K_vi_solve M g eps n mb d padval padidx t ckpt freq k st = S_vi_solve M g eps t ckpt freq k st.
  Proof.
    unfold K_vi_solve, S_vi_solve, vi_solve. apply solve_gen_ext.
    - intros s. unfold vi_step, vi_sweep_step. fold SWk. now rewrite SW_eq.
    - intros b s. unfold vi_finish. fold POLk. now rewrite POL_eq.
  Qed.

  Lemma rvi_run_layout_free ckpt freq k st :
    K_rvi_solve M g eps n mb d padval padidx ckpt freq k st = S_rvi_solve M g eps ckpt freq k st.
  Proof.
    unfold K_rvi_solve, S_rvi_solve, rvi_solve. apply solve_gen_ext.
    - intros s. unfold rvi_step, rvi_sweep_step. fold SWk. now rewrite SW_eq.
    - intros b s. unfold rvi_finish. fold POLk. now rewrite POL_eq.
  Qed.

  Lemma pvi_run_layout_free clear ckpt freq k st :
    K_pvi_solve M g eps n mb d padval padidx clear ckpt freq k st = S_pvi_solve M g eps clear ckpt freq k st.
  Proof.
    unfold K_pvi_solve, S_pvi_solve, pvi_solve. apply solve_gen_ext.
    - intros s. unfold pvi_step, pvi_sweep_step. fold SWk. now rewrite SW_eq.
    - intros b s. unfold pvi_finish. fold POLk. now rewrite POL_eq.
  Qed.

  Lemma eval_loop_layout_free t k P vals :
    eval_loop g eps EVk t k P vals = eval_loop g eps (sweep_pi M g) t k P vals.
  Proof.
    revert vals; induction k as [|k IH]; intros vals; simpl; [reflexivity|].
    rewrite EV_eq. destruct (Qltb _ _); [reflexivity|apply IH].
  Qed.

  Lemma pi_run_layout_free t max_eval reset V0 ckpt freq k st :
    K_pi_solve M g eps n mb d zidx padval padidx t max_eval reset V0 ckpt freq k st =
    S_pi_solve M g eps t max_eval reset V0 ckpt freq k st.
  Proof.
    unfold K_pi_solve, S_pi_solve, pi_solve. apply solve_gen_ext.
    - intros s. unfold pi_step, pi_improve_step. fold EVk POLk. rewrite eval_loop_layout_free.
      destruct (eval_loop g eps (sweep_pi M g) t max_eval (pi_pol (pi_incr s)) (if reset then V0 else pi_vals (pi_incr s))) as [vals ok].
      now rewrite POL_eq.
    - reflexivity.
  Qed.

  Lemma pi_init_layout_free ip V0 : K_pi_init M g n mb d padidx ip V0 = S_pi_init M g ip V0.
  Proof. unfold K_pi_init, S_pi_init, pi_init. fold POLk. now rewrite POL_eq. Qed.
End Indep.

(* returned vectors always have one entry per state, in natural order *)
Lemma policy_of_length M g V : length (policy_of M g V) = nS M.
Proof. unfold policy_of. now rewrite map_length, seq_length. Qed.

Section TwoLayouts.
  Variable M : mdp.
  Variables (g eps : Q).
  Variables (n : Z).
  Hypothesis Hn : n = Z.of_nat (nS M).
  Hypothesis HS : (0 < nS M)%nat.
  Hypothesis HA : (0 < nA M)%nat.
  Variables (mb1 d1 mb2 d2 : Z).
  Hypothesis Hmb1 : (1 <= mb1)%Z.
  Hypothesis Hd1 : (1 <= d1)%Z.
  Hypothesis Hmb2 : (1 <= mb2)%Z.
  Hypothesis Hd2 : (1 <= d2)%Z.
  Variables (pv1 pv2 : Q) (pi1 pi2 z1 z2 : nat).

  Lemma sweep_two_layouts V : kernel_sweep M n mb1 d1 pv1 g V = kernel_sweep M n mb2 d2 pv2 g V.
  Proof. rewrite !kernel_sweep_eq_L by assumption. reflexivity. Qed.
  Lemma policy_two_layouts V : kernel_policy M n mb1 d1 pi1 g V = kernel_policy M n mb2 d2 pi2 g V.
  Proof. rewrite !kernel_policy_spec by assumption. reflexivity. Qed.
  Lemma eval_two_layouts P V : kernel_eval M n mb1 d1 z1 pv1 g P V = kernel_eval M n mb2 d2 z2 pv2 g P V.
  Proof. rewrite !kernel_eval_eq_L by assumption. reflexivity. Qed.

  Lemma vi_two_layouts t ckpt freq k st :
    K_vi_solve M g eps n mb1 d1 pv1 pi1 t ckpt freq k st = K_vi_solve M g eps n mb2 d2 pv2 pi2 t ckpt freq k st.
  Proof. rewrite !vi_run_layout_free by assumption. reflexivity. Qed.
  Lemma rvi_two_layouts ckpt freq k st :
    K_rvi_solve M g eps n mb1 d1 pv1 pi1 ckpt freq k st = K_rvi_solve M g eps n mb2 d2 pv2 pi2 ckpt freq k st.
  Proof. rewrite !rvi_run_layout_free by assumption. reflexivity. Qed.
  Lemma pvi_two_layouts clear ckpt freq k st :
    K_pvi_solve M g eps n mb1 d1 pv1 pi1 clear ckpt freq k st = K_pvi_solve M g eps n mb2 d2 pv2 pi2 clear ckpt freq k st.
  Proof. rewrite !pvi_run_layout_free by assumption. reflexivity. Qed.
  Lemma pi_two_layouts t me reset V0 ckpt freq k st :
    K_pi_solve M g eps n mb1 d1 z1 pv1 pi1 t me reset V0 ckpt freq k st =
    K_pi_solve M g eps n mb2 d2 z2 pv2 pi2 t me reset V0 ckpt freq k st.
  Proof. rewrite !pi_run_layout_free by assumption. reflexivity. Qed.
  Lemma pi_init_two_layouts ip V0 : K_pi_init M g n mb1 d1 pi1 ip V0 = K_pi_init M g n mb2 d2 pi2 ip V0.
  Proof. rewrite !pi_init_layout_free by assumption. reflexivity. Qed.
End TwoLayouts.

Lemma kernel_sweep_length M g V n mb d pv : n = Z.of_nat (nS M) -> (0 < nS M)%nat -> (0 < nA M)%nat ->
  (1 <= mb)%Z -> (1 <= d)%Z -> length (kernel_sweep M n mb d pv g V) = nS M.
Proof. intros. rewrite kernel_sweep_eq_L by assumption. apply sweep_length. Qed.
Lemma kernel_policy_length M g V n mb d pidx : n = Z.of_nat (nS M) -> (0 < nS M)%nat -> (0 < nA M)%nat ->
  (1 <= mb)%Z -> (1 <= d)%Z -> length (kernel_policy M n mb d pidx g V) = nS M.
Proof. intros. rewrite kernel_policy_spec by assumption. apply policy_of_length. Qed.
