(* Block Gauss-Seidel operators of a well-formed MDP: one-sided gamma-contraction (for shifts
   d >= 0), same fixed points as the synchronous Bellman operator -- for EVERY partition. *)
From Coq Require Import QArith Qminmax Qabs List Arith Lia Lqa Bool.
From MdpaxV Require Import Model.QFun Model.MDP Model.Bellman Model.GaussSeidel
     Proofs.QFunP Proofs.ContractionP Proofs.BellmanP.
Import ListNotations.
Open Scope Q_scope.

Section GSP.
  Variable M : mdp.
  Variable g : Q.
  Hypothesis WF : wf M.
  Hypothesis g0 : 0 <= g.
  Hypothesis g1 : g <= 1.
  Let n := nS M.

  (* invariant of the scan: every state within d, already-updated states within g*d *)
  Lemma gs_device_onesided bs : forall cu cv d (upd : nat -> bool), 0 <= d ->
    (forall s, (s < n)%nat -> cu s <= cv s + d) ->
    (forall s, (s < n)%nat -> upd s = true -> cu s <= cv s + g * d) ->
    forall s, (s < n)%nat ->
      gs_device M g bs cu s <= gs_device M g bs cv s + d /\
      (upd s = true \/ existsb (memb s) bs = true -> gs_device M g bs cu s <= gs_device M g bs cv s + g * d).
  Proof.
    induction bs as [|b bs IH]; intros cu cv d upd Hd H1 H2 s Hs; simpl.
    - split; [now apply H1|]. intros [U|U]; [now apply H2|discriminate].
    - assert (GD : g * d <= d) by (assert (0 <= (1 - g) * d) by (apply Qmult_le_0_compat; lra); lra).
      assert (A1 : forall t, (t < n)%nat -> gs_batch M g b cu t <= gs_batch M g b cv t + d).
      { intros t Ht. unfold gs_batch. destruct (memb t b); [|now apply H1].
        pose proof (T_onesided M g WF g0 cu cv d H1 t Ht). lra. }
      assert (A2 : forall t, (t < n)%nat -> (upd t || memb t b) = true -> gs_batch M g b cu t <= gs_batch M g b cv t + g * d).
      { intros t Ht U. unfold gs_batch. destruct (memb t b) eqn:E.
        - apply (T_onesided M g WF g0 cu cv d H1 t Ht).
        - rewrite orb_false_r in U. now apply H2. }
      destruct (IH (gs_batch M g b cu) (gs_batch M g b cv) d (fun t => upd t || memb t b) Hd A1 A2 s Hs) as [R1 R2].
      split; [exact R1|]. intros U. apply R2. destruct U as [U|U].
      + left. now rewrite U.
      + apply orb_true_iff in U. destruct U as [U|U]; [left; rewrite U; apply orb_true_r|right; exact U].
  Qed.

  Lemma gs_op_onesided_pos parts : covers parts n -> onesided_pos n g (gs_op M g parts).
  Proof.
    intros HC u v d Hd H s Hs. unfold gs_op. destruct (HC s Hs) as [dev E]. rewrite E.
    apply find_some in E. destruct E as [_ E].
    destruct (gs_device_onesided dev u v d (fun _ => false) Hd H ltac:(intros; discriminate) s Hs) as [_ R].
    apply R. right. exact E.
  Qed.

  (* pointwise-equal inputs give pointwise-equal outputs *)
  Lemma gs_batch_ext b cu cv : (forall s, (s < n)%nat -> cu s == cv s) ->
    forall s, (s < n)%nat -> gs_batch M g b cu s == gs_batch M g b cv s.
  Proof. intros H s Hs. unfold gs_batch. destruct (memb s b); [now apply (T_ext M g WF)|now apply H]. Qed.

  Lemma gs_device_ext bs : forall cu cv, (forall s, (s < n)%nat -> cu s == cv s) ->
    forall s, (s < n)%nat -> gs_device M g bs cu s == gs_device M g bs cv s.
  Proof.
    induction bs as [|b bs IH]; intros cu cv H s Hs; simpl; [now apply H|].
    apply IH; [|exact Hs]. now apply gs_batch_ext.
  Qed.

  (* a fixed point of T is a fixed point of every Gauss-Seidel operator *)
  Lemma gs_device_fixed bs w : fixedpt n (T M g) w -> forall s, (s < n)%nat -> gs_device M g bs w s == w s.
  Proof.
    intros Hw. induction bs as [|b bs IH]; intros s Hs; simpl; [reflexivity|].
    rewrite (gs_device_ext bs (gs_batch M g b w) w); [now apply IH| |exact Hs].
    intros t Ht. unfold gs_batch. destruct (memb t b); [symmetry; now apply Hw|reflexivity].
  Qed.

  Lemma gs_op_fixed parts w : fixedpt n (T M g) w -> fixedpt n (gs_op M g parts) w.
  Proof.
    intros Hw s Hs. unfold gs_op. destruct (find (in_device s) parts); [|reflexivity].
    symmetry. now apply gs_device_fixed.
  Qed.

  (* conversely: if the Gauss-Seidel sweep leaves V unchanged then V = T V.
     needs: every state is in some batch, no state in two batches of its device *)
  Lemma gs_device_unchanged bs : forall cur V,
    (forall s, (s < n)%nat -> cur s == V s) ->
    NoDup (concat bs) ->
    (forall s, (s < n)%nat -> existsb (memb s) bs = true -> gs_device M g bs cur s == V s) ->
    forall s, (s < n)%nat -> existsb (memb s) bs = true -> T M g V s == V s.
  Proof.
    induction bs as [|b bs IH]; intros cur V HC ND HG s Hs Hin; simpl in *; [discriminate|].
    assert (ND2 : NoDup (concat bs)).
    { clear - ND. induction b as [|z b IHb]; [exact ND|]. simpl in ND. inversion ND; subst. now apply IHb. }
    (* states of b keep their batch value to the end (they are in no later batch) *)
    assert (KEEP : forall t, (t < n)%nat -> memb t b = true -> gs_device M g bs (gs_batch M g b cur) t == T M g cur t).
    { intros t Ht Hb.
      assert (NI : existsb (memb t) bs = false).
      { destruct (existsb (memb t) bs) eqn:E; [|reflexivity]. exfalso.
        apply existsb_exists in E. destruct E as [b' [Hb' Ht']].
        unfold memb in Hb, Ht'. apply existsb_exists in Hb. destruct Hb as [x [Hx Ex]]. apply Nat.eqb_eq in Ex. subst x.
        apply existsb_exists in Ht'. destruct Ht' as [y [Hy Ey]]. apply Nat.eqb_eq in Ey. subst y.
        pose proof ND as ND'. clear - ND' Hx Hb' Hy.
        induction b as [|z b IHb]; [contradiction|]. simpl in ND'. inversion ND' as [|? ? Hn Hr]; subst.
        destruct Hx as [->|Hx].
        - apply Hn. apply in_or_app. right. apply in_concat. exists b'. split; assumption.
        - now apply IHb. }
      assert (Q : forall c, existsb (memb t) bs = false -> gs_device M g bs c t = c t).
      { clear. induction bs as [|b' bs' IH']; intros c H; simpl in *; [reflexivity|].
        apply orb_false_iff in H. destruct H as [H1 H2]. rewrite IH' by exact H2. unfold gs_batch. now rewrite H1. }
      rewrite Q by exact NI. unfold gs_batch. now rewrite Hb. }
    (* hence T cur t == V t on b, i.e. the vector after the batch is still == V *)
    assert (TB : forall t, (t < n)%nat -> memb t b = true -> T M g cur t == V t).
    { intros t Ht Hb. rewrite <- (KEEP t Ht Hb). apply HG; [exact Ht|]. now rewrite Hb. }
    assert (HC' : forall t, (t < n)%nat -> gs_batch M g b cur t == V t).
    { intros t Ht. unfold gs_batch. destruct (memb t b) eqn:E; [now apply TB|now apply HC]. }
    apply orb_true_iff in Hin. destruct Hin as [Hin|Hin].
    - rewrite <- (T_ext M g WF cur V HC s Hs). now apply TB.
    - apply (IH (gs_batch M g b cur) V HC' ND2); try assumption.
      intros t Ht Ht'. apply HG; [exact Ht|]. rewrite Ht'. apply orb_true_r.
  Qed.

  Definition disjoint_devices (parts : list (list (list nat))) : Prop :=
    forall t dev dev', In dev parts -> In dev' parts -> in_device t dev = true -> in_device t dev' = true -> dev = dev'.

  Lemma gs_op_fixed_conv parts V : covers parts n -> Forall (fun dev => NoDup (concat dev)) parts ->
    disjoint_devices parts ->
    fixedpt n (gs_op M g parts) V -> fixedpt n (T M g) V.
  Proof.
    intros HC HN HD HF s Hs. destruct (HC s Hs) as [dev E].
    apply find_some in E. destruct E as [Hin Hd]. rewrite Forall_forall in HN.
    symmetry. apply (gs_device_unchanged dev V V); try assumption.
    - intros; reflexivity.
    - now apply HN.
    - intros t Ht Hdt. specialize (HF t Ht). unfold gs_op in HF.
      destruct (HC t Ht) as [dev' E']. rewrite E' in HF.
      apply find_some in E'. destruct E' as [Hin' Hd'].
      assert (dev' = dev) as -> by (apply (HD t); assumption).
      symmetry. exact HF.
  Qed.
End GSP.
