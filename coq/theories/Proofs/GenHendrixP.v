(* The Hendrix dynamics GENERATED from the source (gen/GenHendrix.v) are the hand-written model of Model/Problems.v. *)
From Coq Require Import ZArith QArith List Bool Lia.
From MdpaxV Require Import Model.ListUtil Model.Problems Model.ProblemOps.
From MdpaxGen Require Import GenHendrix.
Import ListNotations.
Open Scope Z_scope.

Lemma hx_issue_one_step_eq rem x : gen_issue_one_step rem x = issue_one rem x.
Proof. unfold gen_issue_one_step, issue_one. now rewrite (Z.max_comm (x - rem) 0), (Z.max_comm (rem - x) 0). Qed.

Lemma hx_zscan_fwd_issue l : forall d, snd (zscan_fwd gen_issue_one_step d l) = scan_fwd d l.
Proof.
  induction l as [|x t IH]; intros d; [reflexivity|]. cbn [zscan_fwd scan_fwd].
  rewrite hx_issue_one_step_eq. destruct (issue_one d x) as [r y].
  specialize (IH r). destruct (zscan_fwd gen_issue_one_step r t) as [cf ys]. simpl in *. now rewrite IH.
Qed.

Lemma hx_gen_issue_fifo_eq stock d : gen_issue_fifo stock d = issue_fifo stock d.
Proof.
  unfold gen_issue_fifo, issue_fifo, zscan. rewrite <- hx_zscan_fwd_issue.
  destruct (zscan_fwd gen_issue_one_step d (rev stock)); reflexivity.
Qed.

Section Bridge.
  Variables (m : nat) (ca cb pa pb : Q).

  Theorem gen_hx_transition_eq state qa qb ia ib : length state = (m + m)%nat ->
    fst (gen_transition m ca cb pa pb state [qa; qb] [ia; ib]) = hx_next m state qa qb ia ib /\
    (snd (gen_transition m ca cb pa pb state [qa; qb] [ia; ib]) == hx_reward ca cb pa pb qa qb ia ib)%Q.
  Proof.
    intros HL. unfold gen_transition, hx_next, hx_reward. cbn [znth nth].
    assert (E1 : zslice state 0 m = firstn m state) by (unfold zslice; now rewrite Nat.sub_0_r).
    assert (E2 : zslice state m (2 * m) = skipn m state).
    { unfold zslice. replace (2 * m - m)%nat with m by lia. apply firstn_all2. rewrite skipn_length. lia. }
    rewrite E1, E2, !hx_gen_issue_fifo_eq. unfold zslice. rewrite !Nat.sub_0_r. cbn [skipn app fst snd]. split; [reflexivity|].
    unfold gen_calculate_single_step_reward, variable_order_costs, sales_prices. cbn [dotzq]. ring.
  Qed.
End Bridge.
