(* C06: pieces of the semi-asynchronous sweep at list level: undoing the permutation,
   scatter semantics, all-padding batches. *)
From Coq Require Import QArith Qminmax Qabs Qreduction List Arith ZArith Lia Lqa Bool Permutation.
From MdpaxV Require Import Model.ListUtil Model.QFun Model.MDP Model.Bellman Model.Batching Model.Kernel Model.SemiAsync
     Model.GaussSeidel Proofs.QFunP Proofs.C02P.
Import ListNotations.

(* ---------- values[argsort(sigma)] puts the value computed for state i at position i *)
Lemma pos_of_nth i sigma : In i sigma -> nth (pos_of i sigma) sigma 0%nat = i.
Proof.
  induction sigma as [|x l IH]; intros H; [contradiction|]. simpl.
  destruct (Nat.eqb x i) eqn:E; [now apply Nat.eqb_eq in E|].
  destruct H as [->|H]; [rewrite Nat.eqb_refl in E; discriminate|]. simpl. now apply IH.
Qed.

Lemma pos_of_lt i sigma : In i sigma -> (pos_of i sigma < length sigma)%nat.
Proof.
  induction sigma as [|x l IH]; intros H; [contradiction|]. simpl.
  destruct (Nat.eqb x i) eqn:E; [lia|]. destruct H as [->|H]; [rewrite Nat.eqb_refl in E; discriminate|].
  specialize (IH H). lia.
Qed.

(* reorder sigma (map f sigma) = map f (seq 0 n) for every permutation sigma of 0..n-1 *)
Lemma reorder_natural (f : nat -> Q) sigma n : Permutation sigma (seq 0 n) ->
  map (fun i => qnth (map f sigma) (pos_of i sigma)) (seq 0 n) = map f (seq 0 n).
Proof.
  intros HP. apply map_ext_in. intros i Hi.
  assert (In i sigma) as Hin by (eapply Permutation_in; [apply Permutation_sym; exact HP|exact Hi]).
  unfold qnth. rewrite (nth_indep _ 0%Q (f 0%nat)) by (rewrite map_length; now apply pos_of_lt).
  rewrite map_nth. now rewrite pos_of_nth.
Qed.

(* every state is updated exactly once: the multiset of real slots is {0..n-1} *)
Lemma real_slots_once sigma n : Permutation sigma (seq 0 n) ->
  Permutation (flat_map (fun sl : option nat => match sl with Some s => [s] | None => [] end)
                        (map Some sigma ++ repeat None 5)) (seq 0 n).
Proof.
  intros HP. rewrite flat_map_app.
  assert (E1 : flat_map (fun sl : option nat => match sl with Some s => [s] | None => [] end) (map Some sigma) = sigma).
  { clear. induction sigma as [|x l IH]; simpl; [reflexivity|now rewrite IH]. }
  rewrite E1. simpl. now rewrite app_nil_r.
Qed.

(* ---------- scatter: sequential writes *)
Lemma list_set_length l i x : length (list_set l i x) = length l.
Proof. revert i; induction l as [|h l IH]; intros [|i]; simpl; try reflexivity. now rewrite IH. Qed.
Lemma list_set_qnth_eq l i x : (i < length l)%nat -> qnth (list_set l i x) i = x.
Proof. unfold qnth. revert i; induction l as [|h l IH]; intros [|i] H; simpl in *; try lia; [reflexivity|]. apply IH. lia. Qed.
Lemma list_set_qnth_neq l i j x : i <> j -> qnth (list_set l i x) j = qnth l j.
Proof.
  unfold qnth. revert i j; induction l as [|h l IH]; intros [|i] [|j] H; simpl; try reflexivity; try lia.
  apply IH. lia.
Qed.
Lemma scatter_length cur ws : length (scatter cur ws) = length cur.
Proof.
  unfold scatter. revert cur; induction ws as [|w ws IH]; intros cur; simpl; [reflexivity|].
  now rewrite IH, list_set_length.
Qed.
(* an index that no write touches keeps its value *)
Lemma scatter_untouched cur ws t : (forall w, In w ws -> fst w <> t) -> qnth (scatter cur ws) t = qnth cur t.
Proof.
  unfold scatter. revert cur; induction ws as [|w ws IH]; intros cur H; simpl; [reflexivity|].
  assert (H' : forall w', In w' ws -> fst w' <> t) by (intros w' Hw'; apply H; right; exact Hw').
  rewrite (IH _ H'). apply list_set_qnth_neq. apply H. left. reflexivity.
Qed.
(* distinct in-range indices: each written index holds its written value *)
Lemma scatter_written cur ws t x : NoDup (map fst ws) -> In (t, x) ws -> (t < length cur)%nat ->
  qnth (scatter cur ws) t = x.
Proof.
  unfold scatter. revert cur; induction ws as [|w ws IH]; intros cur ND Hin Ht; [contradiction|].
  simpl in ND. inversion ND as [|? ? Hn Hr]; subst. simpl. destruct Hin as [->|Hin].
  - simpl. pose proof (scatter_untouched (list_set cur t x) ws t) as U. unfold scatter in U.
    rewrite U.
    + now apply list_set_qnth_eq.
    + intros w' Hw' E. apply Hn. simpl. rewrite <- E. apply in_map. exact Hw'.
  - apply IH; [exact Hr|exact Hin|now rewrite list_set_length].
Qed.

(* ---------- batches that contain only padding produce only padding values *)
Section AllPad.
  Variable M : mdp.
  Variables (zidx : nat) (pad_wins : bool) (padval : Q) (g : Q).
  Definition all_none (b : list (option nat)) : bool := forallb (fun sl => match sl with None => true | Some _ => false end) b.

  Lemma sa_batch_all_none cur b : all_none b = true ->
    snd (sa_batch M zidx pad_wins padval g cur b) = map (fun _ => padval) b.
  Proof.
    intros H. unfold sa_batch. simpl. induction b as [|sl b IH]; [reflexivity|].
    simpl in H. destruct sl; [discriminate|]. simpl. f_equal. now apply IH.
  Qed.

  Lemma sa_device_all_none bs : forall cur, forallb all_none bs = true ->
    sa_device M zidx pad_wins padval g cur bs = map (map (fun _ => padval)) bs.
  Proof.
    induction bs as [|b bs IH]; intros cur H; [reflexivity|].
    simpl in H. apply andb_true_iff in H. destruct H as [H1 H2].
    cbn [sa_device map]. pose proof (sa_batch_all_none cur b H1) as S.
    destruct (sa_batch M zidx pad_wins padval g cur b) as [cur' ys]. simpl in S. subst ys.
    f_equal. now apply IH.
  Qed.

  (* a batch WITHOUT padding: the carried vector afterwards is the Gauss-Seidel batch update,
     whichever way duplicate scatter indices would be resolved (there are none) *)
  Definition reals (b : list (option nat)) : list nat :=
    flat_map (fun sl : option nat => match sl with Some s => [s] | None => [] end) b.
End AllPad.
