(* C01 lifted to solver runs: whenever solve() reports convergence, the returned state
   satisfies the hypotheses of the function-level bounds -- for ARBITRARY start states. *)
From Coq Require Import QArith Qminmax Qabs Qreduction List Arith ZArith Lia Lqa Bool.
From MdpaxV Require Import Model.ListUtil Model.QFun Model.MDP Model.Bellman Model.Solvers
     Proofs.QFunP Proofs.ContractionP Proofs.BellmanP Proofs.C01P Proofs.C02P Proofs.C03P Proofs.LoopP.
Import ListNotations.
Open Scope Q_scope.

Definition policy_fun (pol : list nat) : nat -> nat := fun s => nth s pol 0%nat.

Lemma span_diff_spec U V : span_diff U V == fspan (fun i => qnth U i - qnth V i) (length U).
Proof. unfold span_diff, vdiff. apply Qred_correct. Qed.
Lemma maxabs_diff_spec U V : maxabs_diff U V == fmaxabs (fun i => qnth U i - qnth V i) (length U).
Proof. unfold maxabs_diff, vdiff. apply Qred_correct. Qed.

Section RunSound.
  Variable M : mdp.
  Variables (g eps : Q).
  Hypothesis WF : wf M.
  Hypothesis g0 : 0 < g.
  Hypothesis g1 : g < 1.
  Hypothesis epos : 0 < eps.
  Variable Vs : nat -> Q.
  Hypothesis HVs : fixedpt (nS M) (T M g) Vs.
  Let gle : 0 <= g. Proof. lra. Qed.

  (* about the GENERATED threshold formulas *)
  Lemma vi_threshold_disc t : vi_threshold t g eps == thr g eps.
  Proof.
    unfold vi_threshold, thr. rewrite Qred_correct.
    destruct t; unfold GenThreshold.thr_vi_span, GenThreshold.thr_vi_max_diff;
    (destruct (Qeq_bool g (1#1)) eqn:E; simpl;
     [apply Qeq_bool_eq in E; lra|reflexivity]).
  Qed.
  Lemma measure_span U V : measure Span U V = span_diff U V.
  Proof. reflexivity. Qed.
  Lemma measure_maxdiff U V : measure MaxDiff U V = maxabs_diff U V.
  Proof. reflexivity. Qed.

  Lemma policy_valid V : valid_policy M (policy_fun (policy_of M g V)).
  Proof. intros s Hs. unfold policy_fun. now apply (policy_greedy_l M g WF). Qed.
  Lemma policy_greedy_for V : greedy_for M g (policy_fun (policy_of M g V)) (qnth V).
  Proof. intros s Hs. unfold policy_fun, Tpi. now apply (policy_greedy_l M g WF). Qed.

  (* what a converged value-iteration run looks like *)
  Lemma vi_converged_shape t ckpt freq k st0 st' saves :
    S_vi_solve M g eps t ckpt freq k st0 = (st', true, saves) ->
    exists Vprev, v_vals st' = sweep M g Vprev /\
      measure t (sweep M g Vprev) Vprev < thr g eps /\
      v_pol st' = Some (policy_of M g (v_vals st')).
  Proof.
    unfold S_vi_solve, vi_solve, solve_gen. intros H.
    destruct (loop vist (vi_step g eps (sweep M g) t) v_iter ckpt freq k st0 []) as [[st1 conv] sv] eqn:L.
    injection H as <- -> _.
    destruct (loop_converged_last _ _ _ _ _ _ _ _ _ _ L) as [prev Hp].
    unfold vi_step, vi_sweep_step in Hp. injection Hp as H1 H2.
    exists (v_vals (vi_incr prev)). subst st1. simpl. repeat split.
    apply Qltb_true in H2. rewrite vi_threshold_disc in H2. exact H2.
  Qed.

  Lemma vi_solve_sound_span_l ckpt freq k st0 st' saves pol vpi :
    S_vi_solve M g eps Span ckpt freq k st0 = (st', true, saves) ->
    v_pol st' = Some pol -> fixedpt (nS M) (Tpi M g (policy_fun pol)) vpi ->
    forall s, (s < nS M)%nat -> 0 <= Vs s - vpi s < eps.
  Proof.
    intros H Hp Hv. destruct (vi_converged_shape _ _ _ _ _ _ _ H) as [Vp [HV [Hm HP]]].
    rewrite HP in Hp. injection Hp as <-.
    assert (A1 : forall s, (s < nS M)%nat -> qnth (v_vals st') s == T M g (qnth Vp) s).
    { intros s Hs. rewrite HV. now apply sweep_spec. }
    assert (A2 : fspan (fun s => qnth (v_vals st') s - qnth Vp s) (nS M) < thr g eps).
    { simpl in Hm. rewrite span_diff_spec, sweep_length in Hm. rewrite HV. exact Hm. }
    eapply vi_span_policy_bound_l with (g := g) (eps := eps) (Vs := Vs) (V := qnth Vp) (V' := qnth (v_vals st'))
      (pi := policy_fun (policy_of M g (v_vals st'))); eauto using policy_valid, policy_greedy_for.
  Qed.

  Lemma vi_solve_sound_maxdiff_values_l ckpt freq k st0 st' saves :
    S_vi_solve M g eps MaxDiff ckpt freq k st0 = (st', true, saves) ->
    forall s, (s < nS M)%nat -> Qabs (qnth (v_vals st') s - Vs s) < eps.
  Proof.
    intros H. destruct (vi_converged_shape _ _ _ _ _ _ _ H) as [Vp [HV [Hm HP]]].
    assert (A1 : forall s, (s < nS M)%nat -> qnth (v_vals st') s == T M g (qnth Vp) s).
    { intros s Hs. rewrite HV. now apply sweep_spec. }
    assert (A2 : fmaxabs (fun s => qnth (v_vals st') s - qnth Vp s) (nS M) < thr g eps).
    { simpl in Hm. rewrite maxabs_diff_spec, sweep_length in Hm. rewrite HV. exact Hm. }
    eapply vi_maxdiff_value_bound_l with (g := g) (eps := eps) (Vs := Vs) (V := qnth Vp); eauto.
  Qed.

  Lemma vi_solve_sound_maxdiff_policy_l ckpt freq k st0 st' saves pol vpi :
    S_vi_solve M g eps MaxDiff ckpt freq k st0 = (st', true, saves) ->
    v_pol st' = Some pol -> fixedpt (nS M) (Tpi M g (policy_fun pol)) vpi ->
    forall s, (s < nS M)%nat -> 0 <= Vs s - vpi s < 2 * eps.
  Proof.
    intros H Hp Hv. destruct (vi_converged_shape _ _ _ _ _ _ _ H) as [Vp [HV [Hm HP]]].
    rewrite HP in Hp. injection Hp as <-.
    assert (A1 : forall s, (s < nS M)%nat -> qnth (v_vals st') s == T M g (qnth Vp) s).
    { intros s Hs. rewrite HV. now apply sweep_spec. }
    assert (A2 : fmaxabs (fun s => qnth (v_vals st') s - qnth Vp s) (nS M) < thr g eps).
    { simpl in Hm. rewrite maxabs_diff_spec, sweep_length in Hm. rewrite HV. exact Hm. }
    eapply vi_maxdiff_policy_bound_l with (g := g) (eps := eps) (Vs := Vs) (V := qnth Vp) (V' := qnth (v_vals st'))
      (pi := policy_fun (policy_of M g (v_vals st'))); eauto using policy_valid, policy_greedy_for.
  Qed.

  (* ---------------- policy iteration *)
  Lemma eval_loop_true t k P v0 vals :
    eval_loop g eps (sweep_pi M g) t k P v0 = (vals, true) ->
    measure t (sweep_pi M g P vals) vals < thr g eps.
  Proof.
    revert v0; induction k as [|k IH]; intros v0 H; simpl in H; [discriminate|].
    destruct (Qltb (measure t (sweep_pi M g P v0) v0) (vi_threshold t g eps)) eqn:E.
    - injection H as <-. apply Qltb_true in E. now rewrite vi_threshold_disc in E.
    - now apply IH in H.
  Qed.

  Lemma eval_loop_length t k P v0 vals b : length v0 = nS M ->
    eval_loop g eps (sweep_pi M g) t k P v0 = (vals, b) -> length vals = nS M.
  Proof.
    revert v0; induction k as [|k IH]; intros v0 HL H; simpl in H.
    - injection H as <- _. exact HL.
    - destruct (Qltb _ _); [injection H as <- _; exact HL|].
      eapply IH; [|exact H]. unfold sweep_pi, tab. now rewrite map_length, seq_length.
  Qed.

  Lemma count_changed_zero a b : length a = length b -> count_changed a b = 0%nat -> a = b.
  Proof.
    revert b; induction a as [|x a IH]; intros [|y b] HL H; simpl in *; try discriminate; [reflexivity|].
    unfold count_changed in *. simpl in H. destruct (Nat.eqb x y) eqn:E; simpl in H; [|discriminate].
    apply Nat.eqb_eq in E. subst y. f_equal. apply IH; [lia|exact H].
  Qed.

  (* a converged PI run whose last evaluation passed its test *)
  Lemma pi_converged_shape t me reset V0 ckpt freq k st0 st' saves :
    (length (pi_pol st0) = nS M) ->
    S_pi_solve M g eps t me reset V0 ckpt freq k st0 = (st', true, saves) ->
    pi_pol st' = policy_of M g (pi_vals st') /\
    (pi_last_eval_converged st' = true ->
       measure t (sweep_pi M g (pi_pol st') (pi_vals st')) (pi_vals st') < thr g eps).
  Proof.
    intros HL0. unfold S_pi_solve, pi_solve, solve_gen. intros H.
    destruct (loop pist (pi_step g eps (policy_of M g) (sweep_pi M g) t me reset V0) pi_iter ckpt freq k st0 []) as [[st1 conv] sv] eqn:L.
    injection H as <- -> _. unfold pi_finish.
    (* invariant: policy length *)
    assert (INV : forall j, length (pi_pol (steps pist (pi_step g eps (policy_of M g) (sweep_pi M g) t me reset V0) j st0)) = nS M).
    { induction j as [|j IHj]; [exact HL0|]. simpl. unfold pi_step at 1. unfold pi_improve_step.
      destruct (eval_loop _ _ _ _ _ _ _) as [vals ok]. simpl. apply policy_of_length. }
    destruct (loop_spec _ _ _ _ _ _ _ _ _ _ _ L) as [j [Hj [Hst [_ [Hc _]]]]].
    destruct (Hc eq_refl) as [Hj0 Hl].
    set (prev := steps pist (pi_step g eps (policy_of M g) (sweep_pi M g) t me reset V0) (j - 1) st0) in *.
    assert (E1 : st1 = fst (pi_step g eps (policy_of M g) (sweep_pi M g) t me reset V0 prev)).
    { rewrite Hst. replace j with (S (j - 1)) at 1 by lia. reflexivity. }
    unfold pi_step, pi_improve_step in E1, Hl.
    destruct (eval_loop g eps (sweep_pi M g) t me (pi_pol (pi_incr prev)) (if reset then V0 else pi_vals (pi_incr prev))) as [vals ok] eqn:EL.
    simpl in E1, Hl. rewrite E1. simpl.
    apply Nat.eqb_eq in Hl. apply count_changed_zero in Hl.
    2:{ rewrite policy_of_length. symmetry. apply INV. }
    split; [reflexivity|]. intros ->. rewrite Hl. now apply (eval_loop_true t me _ _ _ EL).
  Qed.
End RunSound.

Lemma fspan_ext f h n : (forall i, (i < n)%nat -> f i == h i) -> fspan f n == fspan h n.
Proof. intros H. unfold fspan. rewrite (fmax_ext f h n H), (fmin_ext f h n H). reflexivity. Qed.
Lemma fmaxabs_ext f h n : (forall i, (i < n)%nat -> f i == h i) -> fmaxabs f n == fmaxabs h n.
Proof. intros H. unfold fmaxabs. apply fmax_ext. intros i Hi. rewrite (H i Hi). reflexivity. Qed.

Section PISound.
  Variable M : mdp.
  Variables (g eps : Q).
  Hypothesis WF : wf M.
  Hypothesis g0 : 0 < g.
  Hypothesis g1 : g < 1.
  Hypothesis epos : 0 < eps.
  Variable Vs : nat -> Q.
  Hypothesis HVs : fixedpt (nS M) (T M g) Vs.

  Lemma sweep_pi_length P V : length (sweep_pi M g P V) = nS M.
  Proof. unfold sweep_pi, tab. now rewrite map_length, seq_length. Qed.

  Lemma pi_solve_sound_span_l me reset V0 ckpt freq k st0 st' saves vpi :
    length (pi_pol st0) = nS M ->
    S_pi_solve M g eps Span me reset V0 ckpt freq k st0 = (st', true, saves) ->
    pi_last_eval_converged st' = true ->
    fixedpt (nS M) (Tpi M g (policy_fun (pi_pol st'))) vpi ->
    forall s, (s < nS M)%nat -> 0 <= Vs s - vpi s < eps / g.
  Proof.
    intros HL H Hok Hv.
    destruct (pi_converged_shape M g eps ltac:(assumption) Span me reset V0 ckpt freq k st0 st' saves HL H) as [HP Hm].
    specialize (Hm Hok). rewrite HP in *.
    assert (A : fspan (fun s => Tpi M g (policy_fun (policy_of M g (pi_vals st'))) (qnth (pi_vals st')) s - qnth (pi_vals st') s) (nS M) < thr g eps).
    { simpl in Hm. rewrite span_diff_spec, sweep_pi_length in Hm.
      erewrite fspan_ext; [exact Hm|]. intros i Hi. cbv beta.
      rewrite (sweep_pi_spec M g _ _ i Hi). reflexivity. }
    eapply pi_span_policy_bound_l with (g := g) (eps := eps) (Vs := Vs) (v := qnth (pi_vals st'))
      (pi := policy_fun (policy_of M g (pi_vals st'))); eauto using policy_valid, policy_greedy_for.
  Qed.

  Lemma pi_solve_sound_maxdiff_values_l me reset V0 ckpt freq k st0 st' saves vpi :
    length (pi_pol st0) = nS M ->
    S_pi_solve M g eps MaxDiff me reset V0 ckpt freq k st0 = (st', true, saves) ->
    pi_last_eval_converged st' = true ->
    fixedpt (nS M) (Tpi M g (policy_fun (pi_pol st'))) vpi ->
    forall s, (s < nS M)%nat -> Qabs (qnth (pi_vals st') s - vpi s) < eps / g.
  Proof.
    intros HL H Hok Hv.
    destruct (pi_converged_shape M g eps ltac:(assumption) MaxDiff me reset V0 ckpt freq k st0 st' saves HL H) as [HP Hm].
    specialize (Hm Hok). rewrite HP in *.
    assert (A : fmaxabs (fun s => Tpi M g (policy_fun (policy_of M g (pi_vals st'))) (qnth (pi_vals st')) s - qnth (pi_vals st') s) (nS M) < thr g eps).
    { simpl in Hm. rewrite maxabs_diff_spec, sweep_pi_length in Hm.
      erewrite fmaxabs_ext; [exact Hm|]. intros i Hi. cbv beta.
      rewrite (sweep_pi_spec M g _ _ i Hi). reflexivity. }
    eapply pi_maxdiff_value_bound_l with (g := g) (eps := eps) (v := qnth (pi_vals st'))
      (pi := policy_fun (policy_of M g (pi_vals st'))); eauto using policy_valid.
  Qed.

  Lemma pi_solve_sound_maxdiff_policy_l me reset V0 ckpt freq k st0 st' saves vpi :
    length (pi_pol st0) = nS M ->
    S_pi_solve M g eps MaxDiff me reset V0 ckpt freq k st0 = (st', true, saves) ->
    pi_last_eval_converged st' = true ->
    fixedpt (nS M) (Tpi M g (policy_fun (pi_pol st'))) vpi ->
    forall s, (s < nS M)%nat -> 0 <= Vs s - vpi s < 2 * (eps / g).
  Proof.
    intros HL H Hok Hv.
    destruct (pi_converged_shape M g eps ltac:(assumption) MaxDiff me reset V0 ckpt freq k st0 st' saves HL H) as [HP Hm].
    specialize (Hm Hok). rewrite HP in *.
    assert (A : fmaxabs (fun s => Tpi M g (policy_fun (policy_of M g (pi_vals st'))) (qnth (pi_vals st')) s - qnth (pi_vals st') s) (nS M) < thr g eps).
    { simpl in Hm. rewrite maxabs_diff_spec, sweep_pi_length in Hm.
      erewrite fmaxabs_ext; [exact Hm|]. intros i Hi. cbv beta.
      rewrite (sweep_pi_spec M g _ _ i Hi). reflexivity. }
    eapply pi_maxdiff_policy_bound_l with (g := g) (eps := eps) (Vs := Vs) (v := qnth (pi_vals st'))
      (pi := policy_fun (policy_of M g (pi_vals st'))); eauto using policy_valid, policy_greedy_for.
  Qed.
End PISound.
