(* C09: interrupt-and-resume equals an uninterrupted run; checkpointing is transparent. *)
From Coq Require Import QArith List Arith ZArith Lia Bool.
From MdpaxV Require Import Model.ListUtil Model.MDP Model.Store Model.Solvers Proofs.LoopP Proofs.C03P Proofs.C08P Proofs.StoreP Proofs.C12P.
Import ListNotations.

Section Generic.
  Variable St : Type.
  Variable step : St -> St * bool.
  Variable iter_of : St -> nat.

  (* the state and the convergence flag never depend on checkpoint settings or on earlier saves *)
  Lemma loop_state_indep k : forall st c1 f1 s1 c2 f2 s2,
    fst (loop St step iter_of c1 f1 k st s1) = fst (loop St step iter_of c2 f2 k st s2).
  Proof.
    induction k as [|k IH]; intros st c1 f1 s1 c2 f2 s2; simpl; [reflexivity|].
    destruct (step st) as [st' stop]. destruct stop; [reflexivity|]. apply IH.
  Qed.

  Lemma solve_gen_state_indep finish k st c1 f1 c2 f2 :
    fst (solve_gen St step iter_of c1 f1 finish k st) = fst (solve_gen St step iter_of c2 f2 finish k st).
  Proof.
    unfold solve_gen. pose proof (loop_state_indep k st c1 f1 [] c2 f2 []) as E.
    destruct (loop St step iter_of c1 f1 k st []) as [[a ca] sa], (loop St step iter_of c2 f2 k st []) as [[b cb] sb].
    simpl in E. injection E as -> ->. destruct c1, c2; reflexivity.
  Qed.

  (* the final save call of solve(k) snapshots exactly the state the loop ended in, labelled with its iteration *)
  Lemma final_save_is_loop_state finish freq k st :
    let s1 := fst (fst (loop St step iter_of true freq k st [])) in
    exists evs, snd (solve_gen St step iter_of true freq finish k st) = evs ++ [(iter_of s1, s1)].
  Proof. cbv zeta. rewrite solve_gen_saves. eexists. reflexivity. Qed.

  (* continuing from that snapshot = never having stopped (first leg not converged) *)
  Lemma resume_from_snapshot finish ckpt freq k1 k2 st :
    let '(s1, c1, _) := loop St step iter_of ckpt freq k1 st [] in
    c1 = false ->
    fst (solve_gen St step iter_of ckpt freq finish k2 s1) = fst (solve_gen St step iter_of ckpt freq finish (k1 + k2) st).
  Proof.
    destruct (loop St step iter_of ckpt freq k1 st []) as [[s1 c1] sv1] eqn:L1. intros ->.
    unfold solve_gen. rewrite (loop_compose St step iter_of ckpt freq k1 k2 st []), L1.
    pose proof (loop_state_indep k2 s1 ckpt freq [] ckpt freq sv1) as E.
    destruct (loop St step iter_of ckpt freq k2 s1 []) as [[a ca] sa], (loop St step iter_of ckpt freq k2 s1 sv1) as [[b cb] sb].
    simpl in E. injection E as -> ->. destruct ckpt; reflexivity.
  Qed.

  (* a snapshot written by a periodic save with the final label IS the final state *)
  Hypothesis step_incr : forall st, iter_of (fst (step st)) = S (iter_of st).
  Lemma periodic_snapshot_with_final_label ckpt freq k st l s :
    let s1 := fst (fst (loop St step iter_of ckpt freq k st [])) in
    In (l, s) (run_events St step iter_of ckpt freq k st) -> l = iter_of s1 -> s = s1.
  Proof.
    cbv zeta. intros Hin Hl.
    apply run_events_in in Hin. destruct Hin as [_ [i [Hi [Hs [Hli _]]]]].
    destruct (loop St step iter_of ckpt freq k st []) as [[s1 c1] sv1] eqn:L. simpl in *.
    destruct (loop_accounting St step iter_of ckpt freq step_incr _ _ _ _ _ _ L) as [j [Hj [Hst [Hit _]]]].
    subst s. rewrite (steps_iter' St step iter_of step_incr) in Hli. subst l. rewrite Hit in Hl.
    assert (i = j) by lia. now subst.
  Qed.
End Generic.
