(* PolicyIteration._evaluate_policy as GENERATED from the source is the eval_loop of the solver state machine. *)
From Coq Require Import QArith List Arith Bool.
From MdpaxV Require Import Model.QFun Model.MDP Model.Solvers.
From MdpaxGen Require Import GenPiEval GenThreshold.
Import ListNotations.
Open Scope Q_scope.

Lemma gen_evaluate_policy_eq g eps (EV : list nat -> list Q -> list Q) t k P : forall vals,
  gen_evaluate_policy (EV P) (measure t) (vi_threshold t g eps) k vals = fst (eval_loop g eps EV t k P vals).
Proof.
  induction k as [|k IH]; intros vals; [reflexivity|]. cbn [gen_evaluate_policy eval_loop].
  destruct (Qltb (measure t (EV P vals) vals) (vi_threshold t g eps)); [reflexivity|apply IH].
Qed.

Lemma gen_eval_start_eq reset V0 vals :
  gen_eval_start reset V0 vals None = (if reset then V0 else vals).
Proof. reflexivity. Qed.
