(* The interpreter of the GENERATED loop skeletons coincides with the generic loop
   (Model/Solvers.v: solve_gen) that all run-level theorems are proved about. *)
From Coq Require Import QArith ZArith List Arith Bool.
From MdpaxV Require Import Model.Skeleton Model.Solvers Proofs.C03P.
From MdpaxGen Require Import GenLoops.
Import ListNotations.

Section Tie.
  Variable St : Type.
  Variable incr : St -> St.
  Variable stepf : St -> St * bool.
  Variable iter_of : St -> nat.
  Variable extract : St -> St.
  Variable clear : St -> St.
  Variables (ckpt : bool) (freq : nat).

  Let step := fun st => stepf (incr st).

  Lemma run_loop_canon t k st saves :
    run_loop St incr stepf iter_of extract clear ckpt freq (canon_body t) k st false saves
    = loop St step iter_of ckpt freq k st saves.
  Proof.
    revert st saves; induction k as [|k IH]; intros st saves; [reflexivity|].
    simpl. unfold step. destruct (stepf (incr st)) as [st' b]. simpl.
    destruct b; simpl; [reflexivity|]. apply IH.
  Qed.

  Lemma run_loop_canon_pi k st saves :
    run_loop St incr stepf iter_of extract clear ckpt freq (sk_body canon_pi) k st false saves
    = loop St step iter_of ckpt freq k st saves.
  Proof.
    revert st saves; induction k as [|k IH]; intros st saves; [reflexivity|].
    simpl. unfold step. destruct (stepf (incr st)) as [st' b]. simpl.
    destruct b; simpl; [reflexivity|]. apply IH.
  Qed.

  Lemma run_skel_canon_vi t k st :
    run_skel St incr stepf iter_of extract clear ckpt freq (canon_vi t) k st
    = solve_gen St step iter_of ckpt freq (fun _ s => extract s) k st.
  Proof.
    unfold run_skel, solve_gen. simpl sk_body. rewrite run_loop_canon.
    destruct (loop St step iter_of ckpt freq k st []) as [[st1 p1] sv1]. simpl.
    destruct ckpt; reflexivity.
  Qed.

  Lemma run_skel_canon_pvi k st :
    run_skel St incr stepf iter_of extract clear ckpt freq canon_pvi k st
    = solve_gen St step iter_of ckpt freq (fun conv s => if conv then clear (extract s) else extract s) k st.
  Proof.
    unfold run_skel, solve_gen. simpl sk_body. rewrite run_loop_canon.
    destruct (loop St step iter_of ckpt freq k st []) as [[st1 p1] sv1]. simpl.
    destruct ckpt, p1; reflexivity.
  Qed.

  Lemma run_skel_canon_pi k st :
    run_skel St incr stepf iter_of extract clear ckpt freq canon_pi k st
    = solve_gen St step iter_of ckpt freq (fun _ s => s) k st.
  Proof.
    unfold run_skel, solve_gen. rewrite run_loop_canon_pi.
    destruct (loop St step iter_of ckpt freq k st []) as [[st1 p1] sv1]. simpl.
    destruct ckpt; reflexivity.
  Qed.
End Tie.

(* the skeletons translated from the source ARE the canonical ones *)
Lemma vi_skel_canon : vi_skel = canon_vi TConvThreshold.   Proof. reflexivity. Qed.
Lemma rvi_skel_canon : rvi_skel = canon_vi TEpsilon.       Proof. reflexivity. Qed.
Lemma savi_skel_canon : savi_skel = canon_vi TConvThreshold. Proof. reflexivity. Qed.
Lemma pvi_skel_canon : pvi_skel = canon_pvi.               Proof. reflexivity. Qed.
Lemma pi_skel_canon : pi_skel = canon_pi.                  Proof. reflexivity. Qed.

(* each solver's solve() in the model = interpretation of ITS generated skeleton *)
Section SolverTies.
  Variables (g eps : Q).
  Variable SW : list Q -> list Q.
  Variable POL : list Q -> list nat.
  Variable EV : list nat -> list Q -> list Q.

  Lemma vi_solve_is_skeleton t ckpt freq k st :
    vi_solve g eps SW POL t ckpt freq k st =
    run_skel vist vi_incr (vi_sweep_step g eps SW t) v_iter (vi_finish POL true) (fun s => s) ckpt freq vi_skel k st.
  Proof. rewrite vi_skel_canon, run_skel_canon_vi. reflexivity. Qed.

  Lemma rvi_solve_is_skeleton ckpt freq k st :
    rvi_solve eps SW POL ckpt freq k st =
    run_skel rvist rvi_incr (rvi_sweep_step eps SW) r_iter (rvi_finish POL true) (fun s => s) ckpt freq rvi_skel k st.
  Proof. rewrite rvi_skel_canon, run_skel_canon_vi. reflexivity. Qed.

  Definition pvi_clear (st : pvist) : pvist :=
    {| p_vals := p_vals st; p_iter := p_iter st; p_pol := p_pol st; p_hist := None; p_hidx := p_hidx st; p_period := p_period st |}.

  Lemma pvi_solve_is_skeleton clearflag ckpt freq k st :
    pvi_solve g eps SW POL clearflag ckpt freq k st =
    run_skel pvist pvi_incr (pvi_sweep_step g eps SW) p_iter (pvi_finish POL false false)
             (fun s => if clearflag then pvi_clear s else s) ckpt freq pvi_skel k st.
  Proof.
    rewrite pvi_skel_canon, run_skel_canon_pvi. unfold pvi_solve. apply solve_gen_ext.
    - reflexivity.
    - intros b s. unfold pvi_finish, pvi_clear. destruct b, clearflag; reflexivity.
  Qed.

  Lemma pi_solve_is_skeleton t me reset V0 ckpt freq k st :
    pi_solve g eps POL EV t me reset V0 ckpt freq k st =
    run_skel pist pi_incr (pi_improve_step g eps POL EV t me reset V0) pi_iter (fun s => s) (fun s => s) ckpt freq pi_skel k st.
  Proof. rewrite pi_skel_canon, run_skel_canon_pi. reflexivity. Qed.
End SolverTies.

Lemma savi_solve_is_skeleton M g eps POL n mb d zidx pw pv perm t ckpt freq k st :
  savi_solve M g eps POL n mb d zidx pw pv perm t ckpt freq k st =
  run_skel savist savi_incr (savi_sweep_step M g eps n mb d zidx pw pv perm t) s_iter (savi_finish POL true) (fun s => s) ckpt freq savi_skel k st.
Proof. rewrite savi_skel_canon, run_skel_canon_vi. reflexivity. Qed.
