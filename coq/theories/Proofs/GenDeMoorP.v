(* The De Moor dynamics GENERATED from the source (gen/GenDeMoor.v) are the hand-written model of Model/Problems.v
   (dm_next / dm_components / dm_reward), for every lead time, useful life, issuing policy and cost vector:
   the closure, conservation and pipeline theorems of C14 / C15 are theorems about what the source says now. *)
From Coq Require Import ZArith QArith List Bool Lia.
From MdpaxV Require Import Model.Problems Model.ProblemOps.
From MdpaxGen Require Import GenDeMoor.
Import ListNotations.
Open Scope Z_scope.

Lemma gen_issue_one_step_eq rem x : gen_issue_one_step rem x = issue_one rem x.
Proof. unfold gen_issue_one_step, issue_one. now rewrite (Z.max_comm (x - rem) 0), (Z.max_comm (rem - x) 0). Qed.

Lemma zscan_fwd_issue l : forall d, snd (zscan_fwd gen_issue_one_step d l) = scan_fwd d l.
Proof.
  induction l as [|x t IH]; intros d; [reflexivity|]. cbn [zscan_fwd scan_fwd].
  rewrite gen_issue_one_step_eq. destruct (issue_one d x) as [r y].
  specialize (IH r). destruct (zscan_fwd gen_issue_one_step r t) as [cf ys]. simpl in *. now rewrite IH.
Qed.

Lemma gen_issue_lifo_eq stock d : gen_issue_lifo stock d = issue_lifo stock d.
Proof.
  unfold gen_issue_lifo, issue_lifo, zscan. rewrite <- zscan_fwd_issue.
  destruct (zscan_fwd gen_issue_one_step d stock); reflexivity.
Qed.

Lemma gen_issue_fifo_eq stock d : gen_issue_fifo stock d = issue_fifo stock d.
Proof.
  unfold gen_issue_fifo, issue_fifo, zscan. rewrite <- zscan_fwd_issue.
  destruct (zscan_fwd gen_issue_one_step d (rev stock)); reflexivity.
Qed.

Section Bridge.
  Variables (L m : nat) (fifo : bool) (c_order c_short c_waste c_hold : Q).

  Lemma zslice_prefix (l : list Z) k : zslice l 0 k = firstn k l.
  Proof. unfold zslice. now rewrite Nat.sub_0_r. Qed.

  Lemma zslice_rest (l : list Z) a b : length l = (a + b)%nat -> zslice l a (a + b) = skipn a l.
  Proof.
    intros H. unfold zslice. replace (a + b - a)%nat with b by lia.
    apply firstn_all2. rewrite skipn_length. lia.
  Qed.

  Theorem gen_transition_eq state q d : length state = (L - 1 + m)%nat ->
    fst (gen_transition L m fifo c_order c_short c_waste c_hold state [q] [d]) = dm_next L m fifo state q d /\
    (snd (gen_transition L m fifo c_order c_short c_waste c_hold state [q] [d]) == dm_reward L m fifo c_order c_short c_waste c_hold state q d)%Q.
  Proof.
    intros HL. unfold gen_transition, dm_next, dm_reward, dm_components, dm_parts.
    cbn [znth nth]. rewrite !zslice_prefix, (zslice_rest state (L - 1) m HL).
    assert (E : (if fifo then gen_issue_fifo (skipn (L - 1) state) d else gen_issue_lifo (skipn (L - 1) state) d) =
                (if fifo then issue_fifo (skipn (L - 1) state) d else issue_lifo (skipn (L - 1) state) d)).
    { destruct fifo; [apply gen_issue_fifo_eq|apply gen_issue_lifo_eq]. }
    rewrite E. set (after := if fifo then issue_fifo (skipn (L - 1) state) d else issue_lifo (skipn (L - 1) state) d).
    cbn [app fst snd]. split.
    - reflexivity.
    - unfold gen_calculate_single_step_reward, cost_components, zlastv, zlast. cbn [dotzq app]. ring.
  Qed.
End Bridge.
