From Coq Require Import List Arith Lia Bool.
From MdpaxV Require Import Model.Store Model.Solvers Proofs.LoopP.
Import ListNotations.

Section StoreP.
  Variable Snap : Type.
  Notation store := (store Snap).

  Lemma keep_last_length m (d : store) : length (keep_last Snap m d) = Nat.min m (length d).
  Proof. unfold keep_last. now rewrite rev_length, firstn_length, rev_length. Qed.

  Lemma keep_last_all m (d : store) : (length d <= m)%nat -> keep_last Snap m d = d.
  Proof. intros H. unfold keep_last. rewrite firstn_all2 by (rewrite rev_length; exact H). apply rev_involutive. Qed.

  Lemma firstn_app_firstn {T} m (a b : list T) : firstn m (a ++ firstn m b) = firstn m (a ++ b).
  Proof. rewrite !firstn_app, firstn_firstn. f_equal. f_equal. lia. Qed.

  Lemma keep_last_app m (x y : store) : keep_last Snap m (keep_last Snap m x ++ y) = keep_last Snap m (x ++ y).
  Proof.
    unfold keep_last. f_equal. rewrite !rev_app_distr, rev_involutive. apply firstn_app_firstn.
  Qed.

  Lemma st_latest_app (d : store) e : st_latest Snap (d ++ [e]) = Some (fst e).
  Proof. unfold st_latest. rewrite rev_app_distr. reflexivity. Qed.

  Lemma st_latest_keep_last m (d : store) e : (1 <= m)%nat -> st_latest Snap (keep_last Snap m (d ++ [e])) = Some (fst e).
  Proof.
    intros Hm. unfold st_latest, keep_last. rewrite rev_involutive, rev_app_distr. simpl.
    destruct m; [lia|reflexivity].
  Qed.

  (* what is on disk after a sequence of save calls: the last m of (old content ++ accepted events) *)
  Lemma st_apply_spec m events : (1 <= m)%nat -> forall (d : store), (length d <= m)%nat ->
    st_apply Snap m d events = keep_last Snap m (d ++ accepted Snap (st_latest Snap d) events).
  Proof.
    intros Hm. induction events as [|e r IH]; intros d Hd; simpl.
    - rewrite app_nil_r. symmetry. now apply keep_last_all.
    - unfold st_save at 1. destruct (newer Snap (st_latest Snap d) e) eqn:E.
      + rewrite IH by (rewrite keep_last_length; lia).
        rewrite st_latest_keep_last by exact Hm. rewrite keep_last_app.
        rewrite <- app_assoc. reflexivity.
      + now apply IH.
  Qed.

  Lemma st_apply_length m events (d : store) : (length d <= m)%nat -> (length (st_apply Snap m d events) <= m)%nat.
  Proof.
    revert d; induction events as [|e r IH]; intros d Hd; simpl; [exact Hd|].
    apply IH. unfold st_save. destruct (newer _ _ _); [rewrite keep_last_length; lia|exact Hd].
  Qed.

  (* the last accepted event is always retained and is what restore() picks by default *)
  Lemma st_restore_latest_after m (d : store) evs e : (1 <= m)%nat ->
    newer Snap (st_latest Snap (st_apply Snap m d evs)) e = true ->
    st_restore Snap (st_apply Snap m d (evs ++ [e])) None = Some e.
  Proof.
    intros Hm Hn. unfold st_apply in *. rewrite fold_left_app. simpl. unfold st_save at 1. rewrite Hn.
    unfold st_restore, keep_last. rewrite rev_involutive, rev_app_distr. simpl.
    destruct m; [lia|reflexivity].
  Qed.
End StoreP.

