(* The Mirjalili dynamics GENERATED from the source (gen/GenMirjalili.v) are the hand-written model of Model/Problems.v
   (mj_next / mj_reward) for every useful life, order limit and cost vector. *)
From Coq Require Import ZArith QArith List Bool Lia.
From MdpaxV Require Import Model.ListUtil Model.Problems Model.ProblemOps.
From MdpaxGen Require Import GenMirjalili.
Import ListNotations.
Open Scope Z_scope.

Lemma mj_issue_one_step_eq rem x : gen_issue_one_step rem x = issue_one rem x.
Proof. unfold gen_issue_one_step, issue_one. now rewrite (Z.max_comm (x - rem) 0), (Z.max_comm (rem - x) 0). Qed.

Lemma mj_zscan_fwd_issue l : forall d, snd (zscan_fwd gen_issue_one_step d l) = scan_fwd d l.
Proof.
  induction l as [|x t IH]; intros d; [reflexivity|]. cbn [zscan_fwd scan_fwd].
  rewrite mj_issue_one_step_eq. destruct (issue_one d x) as [r y].
  specialize (IH r). destruct (zscan_fwd gen_issue_one_step r t) as [cf ys]. simpl in *. now rewrite IH.
Qed.

Lemma gen_issue_oufo_eq stock d : gen_issue_oufo stock d = issue_fifo stock d.
Proof.
  unfold gen_issue_oufo, issue_fifo, zscan. rewrite <- mj_zscan_fwd_issue.
  destruct (zscan_fwd gen_issue_one_step d (rev stock)); reflexivity.
Qed.

Lemma zclipv_map2 Qmax : 0 <= Qmax -> forall a b,
  zclipv 0 Qmax (vadd a b) = map2 (fun x r => clipz0 Qmax (x + r)) a b.
Proof.
  intros HQ. unfold zclipv, vadd, clipz0. induction a as [|x a IH]; intros [|y b]; simpl; try reflexivity.
  rewrite IH. f_equal. lia.
Qed.

Section Bridge.
  Variables (m : nat) (Qmax : Z) (c_var c_fix c_short c_waste c_hold : Q).
  Hypothesis HQ : 0 <= Qmax.
  Hypothesis Hm : (1 <= m)%nat.

  Theorem gen_mj_transition_eq w stock q d rec : length stock = (m - 1)%nat -> length rec = m ->
    fst (gen_transition m Qmax c_var c_fix c_short c_waste c_hold (w :: stock) [q] (d :: rec)) = mj_next m Qmax (w :: stock) d rec /\
    (snd (gen_transition m Qmax c_var c_fix c_short c_waste c_hold (w :: stock) [q] (d :: rec)) ==
     mj_reward Qmax c_var c_fix c_short c_waste c_hold (w :: stock) q d rec)%Q.
  Proof.
    intros Hs Hr. unfold gen_transition, mj_next, mj_reward, mj_components, mj_opening.
    cbn [znth nth hd tl].
    assert (E1 : zslice (d :: rec) 1 (m + 1) = rec).
    { unfold zslice. replace (m + 1 - 1)%nat with m by lia. cbn [skipn]. apply firstn_all2. lia. }
    assert (E2 : zslice (w :: stock) 1 m = stock).
    { unfold zslice. cbn [skipn]. apply firstn_all2. lia. }
    rewrite E1, E2. cbn [app]. rewrite (zclipv_map2 Qmax HQ), gen_issue_oufo_eq.
    set (opening := map2 (fun x r => clipz0 Qmax (x + r)) (0 :: stock) rec).
    set (after := issue_fifo opening d).
    unfold zslice. rewrite Nat.sub_0_r. cbn [skipn fst snd]. split; [reflexivity|].
    unfold gen_calculate_single_step_reward, cost_components, zlastv, zlast. cbn [dotzq]. ring.
  Qed.
End Bridge.
