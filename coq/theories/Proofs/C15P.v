(* C15: the scan-based issuing obeys the documented order law and conserves units. *)
From Coq Require Import ZArith List Lia Bool.
From MdpaxV Require Import Model.ListUtil Model.Problems.
Import ListNotations.
Open Scope Z_scope.

Lemma zsum_app a b : zsum (a ++ b) = zsum a + zsum b.
Proof. induction a as [|x a IH]; simpl; [reflexivity|]. rewrite IH. lia. Qed.
Lemma zsum_rev l : zsum (rev l) = zsum l.
Proof. induction l as [|x l IH]; simpl; [reflexivity|]. rewrite zsum_app, IH. simpl. lia. Qed.
Lemma zsum_nonneg l : Forall (fun x => 0 <= x) l -> 0 <= zsum l.
Proof. induction 1; simpl; lia. Qed.

Lemma scan_fwd_cons rem x t : scan_fwd rem (x :: t) = Z.max 0 (x - rem) :: scan_fwd (Z.max 0 (rem - x)) t.
Proof. reflexivity. Qed.
Lemma zsum_cons x t : zsum (x :: t) = x + zsum t.
Proof. reflexivity. Qed.
Arguments Z.max : simpl never.
Arguments Z.min : simpl never.

(* forward scan (youngest first) *)
Lemma scan_fwd_length rem l : length (scan_fwd rem l) = length l.
Proof. revert rem; induction l as [|x l IH]; intros rem; simpl; [reflexivity|]. now rewrite IH. Qed.

Lemma scan_fwd_bounds l : forall rem, 0 <= rem -> Forall (fun x => 0 <= x) l ->
  Forall2 (fun y x => 0 <= y <= x) (scan_fwd rem l) l.
Proof.
  induction l as [|x l IH]; intros rem Hr HF; [constructor|]. rewrite scan_fwd_cons.
  inversion HF; subst. constructor; [lia|]. apply IH; [lia|assumption].
Qed.

(* total issued = min(demand, total stock) *)
Lemma scan_fwd_total l : forall rem, 0 <= rem -> Forall (fun x => 0 <= x) l ->
  zsum (scan_fwd rem l) = zsum l - Z.min rem (zsum l).
Proof.
  induction l as [|x l IH]; intros rem Hr HF; [simpl; lia|]. rewrite scan_fwd_cons, !zsum_cons.
  inversion HF as [|? ? Hx HFl]; subst. rewrite IH by (try lia; assumption).
  pose proof (zsum_nonneg l HFl). lia.
Qed.

(* order law: if a class keeps any unit, every LATER class of the scan is untouched; hence if a later
   class is issued from, every earlier class of the scan is empty afterwards *)
Lemma scan_fwd_untouched_after_leftover l : forall rem, rem = 0 -> Forall (fun x => 0 <= x) l -> scan_fwd rem l = l.
Proof.
  induction l as [|x l IH]; intros rem H0 HF; [reflexivity|]. subst rem. rewrite scan_fwd_cons.
  inversion HF as [|? ? Hx HFl]; subst. rewrite IH by (try lia; assumption). f_equal. lia.
Qed.

Lemma scan_fwd_order_law l : forall rem i j, 0 <= rem -> Forall (fun x => 0 <= x) l ->
  (i < j < length l)%nat -> nth j (scan_fwd rem l) 0 < nth j l 0 -> nth i (scan_fwd rem l) 0 = 0.
Proof.
  induction l as [|x l IH]; intros rem i j Hr HF Hij Hlt; [simpl in Hij; lia|]. rewrite scan_fwd_cons in *. simpl length in Hij.
  inversion HF as [|? ? H1 H2]; subst. destruct j as [|j]; [lia|]. destruct i as [|i]; cbn [nth] in *.
  - (* class 0 must be empty, otherwise nothing later is issued *)
    destruct (Z_le_gt_dec x rem) as [Hle|Hgt]; [lia|].
    exfalso. rewrite scan_fwd_untouched_after_leftover in Hlt by (try lia; assumption). lia.
  - apply (IH _ i j); try assumption; lia.
Qed.

(* FIFO: the same laws through the reversal *)
Lemma issue_fifo_length stock d : length (issue_fifo stock d) = length stock.
Proof. unfold issue_fifo. now rewrite rev_length, scan_fwd_length, rev_length. Qed.

Lemma issue_fifo_total stock d : 0 <= d -> Forall (fun x => 0 <= x) stock ->
  zsum (issue_fifo stock d) = zsum stock - Z.min d (zsum stock).
Proof.
  intros Hd HF. unfold issue_fifo. rewrite zsum_rev, scan_fwd_total, zsum_rev; try assumption; [reflexivity|].
  now apply Forall_rev.
Qed.
Lemma issue_lifo_total stock d : 0 <= d -> Forall (fun x => 0 <= x) stock ->
  zsum (issue_lifo stock d) = zsum stock - Z.min d (zsum stock).
Proof. intros. now apply scan_fwd_total. Qed.

Lemma Forall2_rev {A B} (R : A -> B -> Prop) l1 l2 : Forall2 R l1 l2 -> Forall2 R (rev l1) (rev l2).
Proof.
  induction 1; simpl; [constructor|]. apply Forall2_app; [assumption|]. constructor; [assumption|constructor].
Qed.

Lemma issue_fifo_bounds stock d : 0 <= d -> Forall (fun x => 0 <= x) stock ->
  Forall2 (fun y x => 0 <= y <= x) (issue_fifo stock d) stock.
Proof.
  intros Hd HF. unfold issue_fifo. rewrite <- (rev_involutive stock) at 2.
  apply Forall2_rev. apply scan_fwd_bounds; [assumption|now apply Forall_rev].
Qed.
Lemma issue_lifo_bounds stock d : 0 <= d -> Forall (fun x => 0 <= x) stock ->
  Forall2 (fun y x => 0 <= y <= x) (issue_lifo stock d) stock.
Proof. intros. now apply scan_fwd_bounds. Qed.

(* oldest first: if a YOUNGER class i is issued from, every OLDER class j > i is empty afterwards *)
Lemma issue_fifo_order_law stock d i j : 0 <= d -> Forall (fun x => 0 <= x) stock ->
  (i < j < length stock)%nat -> nth i (issue_fifo stock d) 0 < nth i stock 0 -> nth j (issue_fifo stock d) 0 = 0.
Proof.
  intros Hd HF Hij Hlt. unfold issue_fifo in *.
  set (n := length stock) in *.
  assert (Ln : length (scan_fwd d (rev stock)) = n) by (rewrite scan_fwd_length, rev_length; reflexivity).
  rewrite rev_nth in Hlt |- * by (rewrite Ln; lia). rewrite Ln in *.
  apply (scan_fwd_order_law (rev stock) d (n - S j) (n - S i)); try assumption.
  - now apply Forall_rev.
  - rewrite rev_length. fold n. lia.
  - rewrite (rev_nth stock) by (fold n; lia). fold n. replace (n - S (n - S i))%nat with i by lia. exact Hlt.
Qed.

(* newest first (LIFO): if an OLDER class j is issued from, every YOUNGER class i < j is empty afterwards *)
Lemma issue_lifo_order_law stock d i j : 0 <= d -> Forall (fun x => 0 <= x) stock ->
  (i < j < length stock)%nat -> nth j (issue_lifo stock d) 0 < nth j stock 0 -> nth i (issue_lifo stock d) 0 = 0.
Proof. intros. now apply (scan_fwd_order_law stock d i j). Qed.
