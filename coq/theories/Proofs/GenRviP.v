(* The relative-value-iteration step GENERATED from the source (gen/GenRviStep.v) is the step of the solver state machine
   of Model/Solvers.v: same initial gain, same vector (up to the canonical form Qred), same new gain. *)
From Coq Require Import QArith Qreduction List Arith.
From MdpaxV Require Import Model.QFun Model.Solvers.
From MdpaxGen Require Import GenRviStep.
Import ListNotations.
Open Scope Q_scope.

Lemma gen_rvi_initial_gain_eq V0 : r_gain (rvi_init V0) = gen_rvi_initial_gain V0.
Proof. reflexivity. Qed.

Lemma last_map_Qeq (f h : Q -> Q) l : (forall x, f x == h x) -> last (map f l) 0 == last (map h l) 0.
Proof.
  intros H. induction l as [|x l IH]; [reflexivity|]. destruct l as [|y l]; [simpl; apply H|].
  change (last (map f (x :: y :: l)) 0) with (last (map f (y :: l)) 0).
  change (last (map h (x :: y :: l)) 0) with (last (map h (y :: l)) 0). exact IH.
Qed.

Lemma gen_rvi_step_eq eps (SW : list Q -> list Q) (aux : list Q -> Q) SPAN st :
  let st' := fst (rvi_sweep_step eps SW st) in
  let '(nv, _, gn) := gen_rvi_iteration_step (fun v => (SW v, aux v)) SPAN (r_vals st) (r_gain st) in
  Forall2 Qeq (r_vals st') nv /\ r_gain st' == gn /\ r_iter st' = r_iter st /\ r_pol st' = r_pol st.
Proof.
  unfold gen_rvi_iteration_step, rvi_sweep_step. cbn [fst snd r_vals r_gain r_iter r_pol]. repeat split.
  - induction (SW (r_vals st)) as [|x l IH]; cbn [map]; [constructor|]. constructor; [apply Qred_correct|exact IH].
  - apply last_map_Qeq. intros x. apply Qred_correct.
Qed.
