(* C11: invariant of the crash model under ARBITRARY interleavings and crash points. *)
From Coq Require Import List Arith Lia Bool Sorted.
From MdpaxV Require Import Model.Crash.
Import ListNotations.

Section Inv.
  Variable Snap : Type.
  Variable nleaves : nat.
  Hypothesis nl_pos : 0 < nleaves.
  Variable m : nat.
  Hypothesis m_pos : 1 <= m.
  Variable snap_of : nat -> Snap.          (* the deterministic trajectory: state the solver held at iteration k *)

  Notation entry := (entry Snap).
  Notation config := (config Snap).
  Notation step := (step Snap nleaves m).

  Definition good (e : entry) : Prop := e_snap Snap e = snap_of (e_step Snap e).
  Definition intact (e : entry) : Prop := e_files Snap e = nleaves.

  Record Inv (c : config) : Prop := {
    i_good : Forall good (committed Snap (dk Snap c));
    i_sorted : StronglySorted lt (map (e_step Snap) (committed Snap (dk Snap c)));
    i_tail : Forall intact (tl (committed Snap (dk Snap c)));
    i_head : forall e, committed Snap (dk Snap c) = [e] -> intact e;
    i_writer : match wr Snap c with
               | WStart _ k s | WWrite _ k s _ => s = snap_of k /\ Forall (fun e => e_step Snap e < k) (committed Snap (dk Snap c))
               | WDelete _ v => exists e rest, committed Snap (dk Snap c) = e :: rest /\ e_step Snap e = v /\ rest <> []
               | _ => True
               end;
    i_todo : Forall (fun ks => snd ks = snap_of (fst ks)) (todo Snap c);
    i_recent : forall k, last_committed Snap c = Some k ->
               exists e, restore_latest Snap (dk Snap c) = Some e /\ k <= e_step Snap e
  }.

  Lemma sorted_app_one l k : StronglySorted lt l -> Forall (fun x => x < k) l -> StronglySorted lt (l ++ [k]).
  Proof.
    induction l as [|x l IH]; intros HS HF; simpl; [repeat constructor|].
    inversion HS as [|? ? HS' HL]; subst. inversion HF as [|? ? Hx HF']; subst.
    constructor; [now apply IH|]. apply Forall_app. split; [exact HL|]. constructor; [exact Hx|constructor].
  Qed.

  Lemma restore_latest_app d' l (e : entry) :
    committed Snap d' = l ++ [e] -> restore_latest Snap d' = Some e.
  Proof. intros H. unfold restore_latest. rewrite H, rev_app_distr. reflexivity. Qed.

  Lemma drop_head e rest : StronglySorted lt (map (e_step Snap) (e :: rest)) ->
    drop_step Snap (e_step Snap e) (e :: rest) = rest.
  Proof.
    intros HS. unfold drop_step. simpl. rewrite Nat.eqb_refl. simpl.
    inversion HS as [|? ? HS' HL]; subst. clear HS HS'.
    induction rest as [|x rest IH]; [reflexivity|]. simpl in *. inversion HL as [|? ? Hx HL']; subst.
    destruct (Nat.eqb_spec (e_step Snap x) (e_step Snap e)); [lia|]. simpl. f_equal. now apply IH.
  Qed.

  Lemma last_of_tail (e : entry) rest : rest <> [] -> rev (e :: rest) = rev rest ++ [e] /\ exists x l, rev rest = x :: l /\ In x rest.
  Proof.
    intros H. split; [reflexivity|]. destruct (rev rest) as [|x l] eqn:E.
    - apply (f_equal (@rev _)) in E. rewrite rev_involutive in E. simpl in E. contradiction.
    - exists x, l. split; [reflexivity|]. apply in_rev. rewrite E. now left.
  Qed.

  Lemma step_preserves c c' : Inv c -> step c c' -> Inv c'.
  Proof.
    intros I S. destruct I as [Ig Is It Ih Iw Itd Ir]. inversion S; subst; simpl in *.
    - (* SSkip *) constructor; simpl; try assumption. now inversion Itd.
    - (* SHandoff *) constructor; simpl; try assumption.
      + inversion Itd as [|? ? Hs _]; subst. simpl in Hs. split; [exact Hs|].
        unfold skip_save, latest in H. destruct (rev (committed Snap d)) as [|e r] eqn:E.
        * apply (f_equal (@rev _)) in E. rewrite rev_involutive in E. simpl in E. rewrite E. constructor.
        * apply Nat.leb_gt in H.
          (* every step <= the last one < k *)
          assert (L : committed Snap d = rev r ++ [e]) by (rewrite <- (rev_involutive (committed Snap d)), E; reflexivity).
          rewrite L in Is |- *. rewrite map_app in Is. simpl in Is.
          apply Forall_app. split; [|constructor; [exact H|constructor]].
          clear - Is H. induction (rev r) as [|x l IH]; [constructor|]. simpl in Is. inversion Is as [|? ? Is' HL]; subst.
          constructor; [|now apply IH]. apply Forall_app in HL. destruct HL as [_ HL]. inversion HL; subst. lia.
      + now inversion Itd.
    - (* WMkTmp *) constructor; simpl; try assumption.
    - (* WLeaf *) constructor; simpl; try assumption.
    - (* WCommit *) destruct Iw as [Hs Hlt]. constructor; simpl.
      + apply Forall_app. split; [exact Ig|]. constructor; [exact Hs|constructor].
      + rewrite map_app. simpl. apply sorted_app_one; [exact Is|]. now rewrite Forall_map.
      + destruct (committed Snap d) as [|e0 r0]; simpl in *; [constructor|].
        apply Forall_app. split; [exact It|]. constructor; [reflexivity|constructor].
      + intros e He. destruct (committed Snap d) as [|e0 r0]; simpl in He.
        * injection He as <-. reflexivity.
        * destruct r0; discriminate.
      + exact I.
      + exact Itd.
      + intros k0 Hk. injection Hk as <-. eexists. split; [eapply restore_latest_app; reflexivity|]. simpl. lia.
    - (* WPickVictim *) constructor; simpl; try assumption.
      exists e, rest. repeat split; try assumption. intros Hnil. rewrite H, Hnil in H0. simpl in H0. lia.
    - (* WRetainDone *) constructor; simpl; try assumption.
    - (* WDeleteFile *) destruct Iw as [e [rest [Hc [Hv Hr]]]]. subst v. rewrite Hc in *. simpl. rewrite Nat.eqb_refl.
      constructor; simpl.
      + inversion Ig as [|? ? Hg Hgs]; subst. constructor; [exact Hg|exact Hgs].
      + exact Is.
      + exact It.
      + intros e0 He0. injection He0 as _ Hnil. contradiction.
      + exists {| e_step := e_step Snap e; e_snap := e_snap Snap e; e_files := pred (e_files Snap e) |}, rest. now repeat split.
      + exact Itd.
      + intros k Hk. destruct (Ir k Hk) as [x [Hx Hkx]]. exists x. split; [|exact Hkx].
        unfold restore_latest in *. simpl in *. destruct (last_of_tail e rest Hr) as [_ [y [l [E _]]]].
        rewrite ?Hc in Hx. simpl in Hx. rewrite E in *. simpl in *. exact Hx.
    - (* WDeleteDir *) destruct Iw as [e [rest [Hc [Hv Hr]]]]. subst v. rewrite Hc in *. rewrite drop_head by exact Is.
      constructor; simpl.
      + now inversion Ig.
      + simpl in Is. now inversion Is.
      + simpl in It. destruct rest; [constructor|]. now inversion It.
      + intros e0 He0. simpl in It. rewrite He0 in It. now inversion It.
      + exact I.
      + exact Itd.
      + intros k Hk. destruct (Ir k Hk) as [x [Hx Hkx]]. exists x. split; [|exact Hkx].
        unfold restore_latest in *. simpl in *. destruct (last_of_tail e rest Hr) as [_ [y [l [E _]]]].
        rewrite ?Hc in Hx. simpl in Hx. rewrite E in *. simpl in *. exact Hx.
    - (* Crash *) constructor; simpl; try assumption; [exact I|constructor].
  Qed.

  Lemma reach_inv c0 c : Inv c0 -> reach Snap nleaves m c0 c -> Inv c.
  Proof. intros I0 R. induction R as [|c c' R IH S]; [exact I0|]. eapply step_preserves; [exact IH|exact S]. Qed.

  (* after ANY execution (crash included): no checkpoint, or an intact one holding exactly the state of its label *)
  Theorem restore_after_any_execution c0 c : Inv c0 -> reach Snap nleaves m c0 c ->
    restore_latest Snap (dk Snap c) = None \/
    exists e, restore_latest Snap (dk Snap c) = Some e /\ intact e /\ good e.
  Proof.
    intros I0 R. pose proof (reach_inv c0 c I0 R) as [Ig _ It Ih _ _ _].
    unfold restore_latest. destruct (committed Snap (dk Snap c)) as [|e rest] eqn:E; [left; reflexivity|].
    right. destruct rest as [|x r].
    - exists e. simpl. repeat split; [apply Ih; reflexivity|now inversion Ig].
    - destruct (last_of_tail e (x :: r) ltac:(discriminate)) as [Er [y [l [E2 Hin]]]].
      rewrite Er, E2. exists y. simpl. repeat split.
      + rewrite Forall_forall in It. apply It. exact Hin.
      + rewrite Forall_forall in Ig. apply Ig. now right.
  Qed.

  Theorem restore_not_older_than_last_commit c0 c k : Inv c0 -> reach Snap nleaves m c0 c ->
    last_committed Snap c = Some k -> exists e, restore_latest Snap (dk Snap c) = Some e /\ k <= e_step Snap e.
  Proof. intros I0 R. exact (i_recent _ (reach_inv c0 c I0 R) k). Qed.

  (* the empty directory with any consistent list of save calls satisfies the invariant; so does whatever a
     crashed run left behind (crash-restore-crash chains): Inv is preserved by Crash and needs nothing of wr/todo *)
  Lemma initial_inv td : Forall (fun ks => snd ks = snap_of (fst ks)) td ->
    Inv {| todo := td; wr := WIdle Snap; dk := {| committed := []; tmp := None |}; crashed := false; last_committed := None |}.
  Proof. intros H. constructor; simpl; try constructor; try exact H; try discriminate; try (intros; discriminate). Qed.

  Lemma restart_inv c td : Inv c -> Forall (fun ks => snd ks = snap_of (fst ks)) td ->
    Inv {| todo := td; wr := WIdle Snap; dk := dk Snap c; crashed := false; last_committed := last_committed Snap c |}.
  Proof. intros [Ig Is It Ih _ _ Ir] H. constructor; simpl; try assumption. exact I. Qed.
End Inv.
