(* Bridging: the matrix builder GENERATED from Problem.build_transition_and_reward_matrices (gen/GenMatrices.v) is the
   modelled builder (Model/Matrices.v) - entries, expected rewards, deviation test, the pair the error names, normalisation. *)
From Coq Require Import QArith Qabs Qreduction List Arith Bool Lia.
From MdpaxV Require Import Model.QFun Model.MDP Model.Matrices Proofs.QFunP Proofs.C02P.
From MdpaxGen Require Import GenMatrices.
Import ListNotations.
Open Scope Q_scope.

(* the inner loop `for a in range(A): P = P.at[a, arange(S), idx[:, a]].add(p[:, a])` adds p s a' at (a', s, idx s a') once *)
Lemma gen_for_scatter (idx : nat -> nat -> nat) (p : nat -> nat -> Q) n (P : nat -> nat -> nat -> Q) a' s s' :
  gen_for n (fun a_ P_ => fun x_ y_ z_ => gen_scatter_add P_ a_ (fun s_ => idx s_ a_) (fun s_ => p s_ a_) x_ y_ z_) P a' s s'
  == P a' s s' + (if (a' <? n)%nat then (if Nat.eqb s' (idx s a') then p s a' else 0) else 0).
Proof.
  induction n as [|n IH]; cbn [gen_for].
  - replace (a' <? 0)%nat with false by (symmetry; apply Nat.ltb_ge; lia). ring.
  - unfold gen_scatter_add at 1. destruct (Nat.eqb a' n) eqn:E1; cbn [andb].
    + apply Nat.eqb_eq in E1. subst a'.
      replace (n <? S n)%nat with true by (symmetry; apply Nat.ltb_lt; lia).
      replace (n <? n)%nat with false in IH by (symmetry; apply Nat.ltb_ge; lia).
      destruct (Nat.eqb s' (idx s n)); rewrite IH; ring.
    + apply Nat.eqb_neq in E1. rewrite IH.
      replace (a' <? S n)%nat with (a' <? n)%nat; [reflexivity|].
      destruct (Nat.ltb_spec a' n), (Nat.ltb_spec a' (S n)); try reflexivity; lia.
Qed.

Section Bridge.
  Variable M : mdp.

  (* the accumulation loops as the translator emits them (outer loop over the events, inner loop over the actions) *)
  Definition rawP : nat -> nat -> nat -> Q :=
    gen_for (nE M) (fun e_ P_ => fun x_ y_ z_ =>
      gen_for (nA M) (fun a_ P_ => fun x_ y_ z_ => gen_scatter_add P_ a_ (fun s_ => nxt M s_ a_ e_) (fun s_ => prb M s_ a_ e_) x_ y_ z_)
              (fun x_ y_ z_ => P_ x_ y_ z_) x_ y_ z_) (fun _ _ _ => 0).

  Lemma rawP_prefix n a s s' : (a < nA M)%nat ->
    gen_for n (fun e_ P_ => fun x_ y_ z_ =>
      gen_for (nA M) (fun a_ P_ => fun x_ y_ z_ => gen_scatter_add P_ a_ (fun s_ => nxt M s_ a_ e_) (fun s_ => prb M s_ a_ e_) x_ y_ z_)
              (fun x_ y_ z_ => P_ x_ y_ z_) x_ y_ z_) (fun _ _ _ => 0) a s s'
    == fsum (fun e => if Nat.eqb (nxt M s a e) s' then prb M s a e else 0) n.
  Proof.
    intros Ha. induction n as [|n IH]; cbn [gen_for fsum]; [reflexivity|].
    etransitivity; [apply (gen_for_scatter (fun s_ a_ => nxt M s_ a_ n) (fun s_ a_ => prb M s_ a_ n))|].
    cbv beta. rewrite IH.
    replace (a <? nA M)%nat with true by (symmetry; apply Nat.ltb_lt; exact Ha).
    rewrite (Nat.eqb_sym s'). reflexivity.
  Qed.

  Lemma rawP_eq a s s' : (a < nA M)%nat -> rawP a s s' == Praw M a s s'.
  Proof. intros Ha. unfold rawP, Praw. now apply rawP_prefix. Qed.

  Lemma raw_rowsum a s : (a < nA M)%nat -> fsum (rawP a s) (nS M) == rowsum M a s.
  Proof. intros Ha. unfold rowsum. apply fsum_ext. intros i _. now apply rawP_eq. Qed.

  Notation gP := (gen_P_final (nxt M) (prb M) (nS M) (nA M) (nE M)).
  Notation gR := (gen_R_final (rew M) (prb M) (nE M)).
  Notation gdev := (gen_max_deviation (nxt M) (prb M) (nS M) (nA M) (nE M)).
  Notation graises := (gen_raises (nxt M) (prb M) (nS M) (nA M) (nE M)).
  Notation gworst := (gen_worst_pair (nxt M) (prb M) (nS M) (nA M) (nE M)).

  Lemma gen_R_eq s a : gR s a = Rexp M s a.
  Proof. reflexivity. Qed.

  Lemma gen_P_shape a s s' :
    gP a s s' = rawP a s s' / (if Qltb 0 (fsum (rawP a s) (nS M)) then fsum (rawP a s) (nS M) else 1).
  Proof. reflexivity. Qed.

  Lemma gen_P_norm a s s' : (a < nA M)%nat -> Qred (gP a s s') = Pnorm M a s s'.
  Proof.
    intros Ha. unfold Pnorm. apply Qred_complete. rewrite gen_P_shape.
    rewrite (Qltb_ext 0 0 (fsum (rawP a s) (nS M)) (rowsum M a s)) by (try reflexivity; now apply raw_rowsum).
    destruct (Qltb 0 (rowsum M a s)); cbv zeta.
    - rewrite rawP_eq, raw_rowsum by exact Ha. reflexivity.
    - rewrite rawP_eq by exact Ha. reflexivity.
  Qed.

  Lemma idx_action i : (i < nA M * nS M)%nat -> (i / nS M < nA M)%nat.
  Proof. intros Hi. apply Nat.div_lt_upper_bound; [destruct (nS M); lia | lia]. Qed.

  Lemma gen_dev_pointwise i : (i < nA M * nS M)%nat ->
    Qabs (fsum (fun k_ => rawP (i / nS M) (i mod nS M) k_) (nS M) - 1) == dev_flat M i.
  Proof.
    intros Hi. unfold dev_flat, deviation.
    assert (E : fsum (fun k_ => rawP (i / nS M) (i mod nS M) k_) (nS M) == rowsum M (i / nS M) (i mod nS M))
      by (apply raw_rowsum, idx_action, Hi).
    rewrite E. reflexivity.
  Qed.

  Lemma gen_dev_shape :
    gdev = fmax (fun i_ => Qabs (fsum (fun k_ => rawP (i_ / nS M) (i_ mod nS M) k_) (nS M) - 1)) (nA M * nS M).
  Proof. reflexivity. Qed.

  Lemma gen_max_deviation_eq : gdev == max_deviation M.
  Proof. rewrite gen_dev_shape. unfold max_deviation. apply fmax_ext. intros i Hi. now apply gen_dev_pointwise. Qed.

  Lemma gen_raises_eq tol : graises tol = Qltb tol (max_deviation M).
  Proof. unfold gen_raises. apply Qltb_ext; [reflexivity | apply gen_max_deviation_eq]. Qed.

  Lemma gen_worst_shape :
    gworst = let i := fargmax (fun i_ => Qabs (fsum (fun k_ => rawP (i_ / nS M) (i_ mod nS M) k_) (nS M) - 1)) (nA M * nS M) in
             ((i / nS M)%nat, (i mod nS M)%nat).
  Proof. reflexivity. Qed.

  Lemma gen_worst_eq : gworst = worst_pair M.
  Proof.
    rewrite gen_worst_shape. unfold worst_pair. cbv zeta.
    rewrite (fargmax_ext _ (dev_flat M)) by (intros i Hi; now apply gen_dev_pointwise). reflexivity.
  Qed.

  (* the whole builder *)
  Lemma gen_build_eq tol :
    build M tol =
    if graises tol then BuildError (fst gworst) (snd gworst)
    else BuildOk (map (fun a => map (fun s => map (fun s' => Qred (gP a s s')) (seq 0 (nS M))) (seq 0 (nS M))) (seq 0 (nA M)))
                 (map (fun s => map (fun a => Qred (gR s a)) (seq 0 (nA M))) (seq 0 (nS M))).
  Proof.
    unfold build. rewrite gen_raises_eq, gen_worst_eq.
    destruct (Qltb tol (max_deviation M)); [destruct (worst_pair M); reflexivity|].
    f_equal. apply map_ext_in. intros a Ha. apply in_seq in Ha.
    apply map_ext. intros s. apply map_ext. intros s'. symmetry. apply gen_P_norm. lia.
  Qed.
End Bridge.
