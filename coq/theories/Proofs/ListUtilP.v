From Coq Require Import List Arith ZArith Lia.
From MdpaxV Require Import Model.ListUtil.
Import ListNotations.

Lemma skipn_skipn {T} a b (l : list T) : skipn a (skipn b l) = skipn (b + a) l.
Proof.
  revert l; induction b as [|b IH]; intros l; simpl; [reflexivity|].
  destruct l; [now rewrite skipn_nil|apply IH].
Qed.

Lemma chunks_length {T} k c (l : list T) : length (chunks k c l) = c.
Proof. revert l; induction c as [|c IH]; intros l; simpl; [reflexivity|now rewrite IH]. Qed.

Lemma concat_chunks {T} k c (l : list T) :
  length l = c * k -> concat (chunks k c l) = l.
Proof.
  revert l; induction c as [|c IH]; intros l H; simpl in *.
  - destruct l; [reflexivity|discriminate].
  - rewrite IH.
    + apply firstn_skipn.
    + rewrite skipn_length. lia.
Qed.

Lemma chunks_each_length {T} k c (l : list T) :
  length l = c * k -> Forall (fun ch => length ch = k) (chunks k c l).
Proof.
  revert l; induction c as [|c IH]; intros l H; simpl in *; constructor.
  - rewrite firstn_length. lia.
  - apply IH. rewrite skipn_length. lia.
Qed.

Lemma nth_chunks {T} k c (l : list T) j :
  j < c -> nth j (chunks k c l) [] = firstn k (skipn (j * k) l).
Proof.
  revert l j; induction c as [|c IH]; intros l j Hj; [lia|].
  destruct j as [|j]; simpl.
  - reflexivity.
  - rewrite IH by lia. rewrite skipn_skipn. repeat f_equal; lia.
Qed.

Lemma nth_firstn_skipn {T} (l : list T) a k i dflt :
  i < k -> nth i (firstn k (skipn a l)) dflt = nth (a + i) l dflt.
Proof.
  revert l k i; induction a as [|a IH]; intros l k i Hi; simpl.
  - revert k i Hi; induction l as [|x l IHl]; intros k i Hi.
    + rewrite firstn_nil. destruct i; reflexivity.
    + destruct k; [lia|]. destruct i; simpl; [reflexivity|]. apply IHl. lia.
  - destruct l as [|x l]; simpl.
    + rewrite firstn_nil. destruct i; reflexivity.
    + apply IH; assumption.
Qed.

Lemma chunks_app {T} bs nb m (l : list T) :
  chunks bs nb (firstn (nb * bs) l) ++ chunks bs m (skipn (nb * bs) l) = chunks bs (nb + m) l.
Proof.
  revert l; induction nb as [|nb IHnb]; intros l; simpl.
  - reflexivity.
  - f_equal.
    + rewrite firstn_firstn. f_equal. lia.
    + replace (skipn bs (firstn (bs + nb * bs) l)) with (firstn (nb * bs) (skipn bs l)).
      2:{ rewrite skipn_firstn_comm. f_equal. lia. }
      rewrite <- IHnb. f_equal. rewrite skipn_skipn. reflexivity.
Qed.

Lemma concat_map_chunks {T} d nb bs (l : list T) :
  concat (map (chunks bs nb) (chunks (nb * bs) d l)) = chunks bs (d * nb) l.
Proof.
  revert l. induction d as [|d IH]; intros l; simpl; [reflexivity|].
  rewrite IH. apply chunks_app.
Qed.

Lemma flatten3_reshape3 {T} d nb bs (l : list T) :
  length l = d * (nb * bs) -> flatten3 (reshape3 d nb bs l) = l.
Proof.
  intros H. unfold flatten3, reshape3.
  rewrite concat_map_chunks. apply concat_chunks. lia.
Qed.

Lemma nth_map_lt {A B} (f : A -> B) (l : list A) i d1 d2 :
  i < length l -> nth i (map f l) d1 = f (nth i l d2).
Proof.
  revert i; induction l as [|x l IH]; intros i Hi; simpl in *; [lia|].
  destruct i; [reflexivity|]. apply IH. lia.
Qed.

Lemma nth3_reshape3 {T} d nb bs (l : list T) i j k dflt :
  i < d -> j < nb -> k < bs ->
  nth3 (reshape3 d nb bs l) i j k dflt = nth ((i * nb + j) * bs + k) l dflt.
Proof.
  intros Hi Hj Hk. unfold nth3, reshape3.
  rewrite (nth_map_lt _ _ _ _ []) by (rewrite chunks_length; assumption).
  rewrite nth_chunks by assumption.
  rewrite nth_chunks by assumption.
  rewrite nth_firstn_skipn by assumption.
  rewrite nth_firstn_skipn by nia.
  f_equal. lia.
Qed.

Lemma flatten3_map3 {A B} (f : A -> B) r : flatten3 (map3 f r) = map f (flatten3 r).
Proof.
  unfold flatten3, map3. rewrite 2 concat_map. reflexivity.
Qed.

Lemma nth_repeat_lt {T} (a dflt : T) m i : i < m -> nth i (repeat a m) dflt = a.
Proof.
  revert i; induction m as [|m IH]; intros i Hi; [lia|].
  destruct i; simpl; [reflexivity|apply IH; lia].
Qed.

Lemma map_repeat {A B} (f : A -> B) a m : map f (repeat a m) = repeat (f a) m.
Proof. induction m; simpl; [reflexivity|now f_equal]. Qed.

Lemma NoDup_app_l {T} (l1 l2 : list T) : NoDup (l1 ++ l2) -> NoDup l1.
Proof.
  induction l1 as [|x l1 IH]; intros H; [constructor|]. simpl in H. inversion H as [|? ? Hn Hr]; subst.
  constructor; [|now apply IH]. intros C. apply Hn. apply in_or_app. now left.
Qed.
Lemma NoDup_app_r {T} (l1 l2 : list T) : NoDup (l1 ++ l2) -> NoDup l2.
Proof. induction l1 as [|x l1 IH]; intros H; [exact H|]. simpl in H. inversion H; subst. now apply IH. Qed.
