(* The kernels GENERATED from ValueIteration's source (gen/GenKernel.v), instantiated with the problem interface of an
   mdp (prims_of M), ARE the hand-written kernels of Model/Kernel.v and the measures of Model/Bellman.v: every theorem
   about those (C02 exact backup, C03 layout independence, C01 bounds ...) is a theorem about what the code says now. *)
From Coq Require Import QArith Qabs Qminmax Qreduction List Arith Lia.
From MdpaxV Require Import Model.ListUtil Model.QFun Model.MDP Model.Bellman Model.Kernel Model.KernelOps Proofs.QFunP Proofs.C02P.
From MdpaxGen Require Import GenKernel.
Import ListNotations.
Open Scope Q_scope.

Lemma map2_map_r {A B C D} (f : A -> C -> D) (u : B -> C) a b : map2 f a (map u b) = map2 (fun x y => f x (u y)) a b.
Proof. revert b; induction a as [|x a IH]; intros [|y b]; simpl; try reflexivity. now rewrite IH. Qed.

Section Bridge.
  Variable M : mdp.
  Let P := prims_of M.

  Lemma gen_next_state_value s V : gen_get_value_next_state P s V = qnth V s.
  Proof. reflexivity. Qed.

  Lemma gen_state_action_value_eq st a events g V :
    gen_calculate_updated_state_action_value P st a events g V = k_state_action_value M st a events g V.
  Proof.
    unfold gen_calculate_updated_state_action_value, k_state_action_value, qvdot, qvadd, qsmul, P. simpl.
    rewrite !map_map. simpl. f_equal. f_equal.
    induction events as [|e l IH]; simpl; [reflexivity|]. now rewrite IH.
  Qed.

  Lemma gen_updated_value_eq st actions events g V :
    gen_calculate_updated_value P st actions events g V = k_updated_value M st actions events g V.
  Proof.
    unfold gen_calculate_updated_value, k_updated_value. f_equal. apply map_ext. intros a. apply gen_state_action_value_eq.
  Qed.

  Lemma gen_policy_idx_eq st actions events g V :
    gen_extract_policy_idx_one_state P st actions events g V = k_policy_idx M st actions events g V.
  Proof.
    unfold gen_extract_policy_idx_one_state, k_policy_idx. f_equal. apply map_ext. intros a. apply gen_state_action_value_eq.
  Qed.

  (* the per-batch functions, including the positional (mis-named) unpacking of the carry *)
  Lemma gen_value_state_batch_eq padval c batch :
    gen_calculate_updated_value_state_batch P c batch = k_value_state_batch M padval c (map Some batch).
  Proof.
    destruct c as [[[x1 x2] x3] x4]. unfold gen_calculate_updated_value_state_batch, k_value_state_batch.
    f_equal. rewrite map_map. apply map_ext. intros s. apply gen_updated_value_eq.
  Qed.

  Lemma gen_policy_state_batch_eq padidx c batch :
    gen_extract_policy_idx_state_batch P c batch = k_policy_state_batch M padidx c (map Some batch).
  Proof.
    destruct c as [[[x1 x2] x3] x4]. unfold gen_extract_policy_idx_state_batch, k_policy_state_batch.
    f_equal. rewrite map_map. apply map_ext. intros s. apply gen_policy_idx_eq.
  Qed.

  (* the scans over the batches of one device *)
  Lemma gen_value_scan_eq padval batches : forall c,
    gen_calculate_updated_value_scan_state_batches P c batches = k_scan (k_value_state_batch M padval) c (map (map Some) batches).
  Proof.
    unfold gen_calculate_updated_value_scan_state_batches.
    induction batches as [|b rest IH]; intros c; [reflexivity|].
    cbn [gscan k_scan map]. rewrite (gen_value_state_batch_eq padval c b).
    destruct (k_value_state_batch M padval c (map Some b)) as [c' ys] eqn:E.
    specialize (IH c'). destruct (gscan (gen_calculate_updated_value_state_batch P) c' rest) as [cf yss]. now rewrite <- IH.
  Qed.

  Lemma gen_policy_scan_eq padidx batches : forall c,
    gen_extract_policy_idx_scan_state_batches P c batches = k_scan (k_policy_state_batch M padidx) c (map (map Some) batches).
  Proof.
    unfold gen_extract_policy_idx_scan_state_batches.
    induction batches as [|b rest IH]; intros c; [reflexivity|].
    cbn [gscan k_scan map]. rewrite (gen_policy_state_batch_eq padidx c b).
    destruct (k_policy_state_batch M padidx c (map Some b)) as [c' ys] eqn:E.
    specialize (IH c'). destruct (gscan (gen_extract_policy_idx_state_batch P) c' rest) as [cf yss]. now rewrite <- IH.
  Qed.

  (* PolicyIteration's evaluation sweep: each state is backed up under ITS OWN policy action (looked up by state index) *)
  Lemma gen_policy_value_state_batch_eq actions events g V pol batch :
    gen_calculate_policy_value_state_batch P (actions, events, g, V, pol) batch =
    ((actions, events, g, V, pol), map (fun st => k_state_action_value M st (nth st pol 0%nat) events g V) batch).
  Proof.
    unfold gen_calculate_policy_value_state_batch. f_equal. unfold P. simpl. rewrite map_map.
    induction batch as [|st l IH]; simpl; [reflexivity|]. rewrite IH. f_equal. apply gen_state_action_value_eq.
  Qed.

  Lemma gen_policy_values_scan_eq actions events g V pol batches :
    gen_calculate_policy_values_scan_state_batches P (actions, events, g, V, pol) batches =
    map (map (fun st => k_state_action_value M st (nth st pol 0%nat) events g V)) batches.
  Proof.
    unfold gen_calculate_policy_values_scan_state_batches.
    induction batches as [|b rest IH]; [reflexivity|].
    cbn [gscan map]. rewrite gen_policy_value_state_batch_eq.
    destruct (gscan (gen_calculate_policy_value_state_batch P) (actions, events, g, V, pol) rest) as [cf yss]. now rewrite <- IH.
  Qed.

  (* hence: the generated one-state backup over the whole action and event spaces is the Bellman optimality backup *)
  Lemma gen_updated_value_is_backup st g V : (0 < nA M)%nat ->
    gen_calculate_updated_value P st (seq 0 (nA M)) (seq 0 (nE M)) g V = backup M g V st.
  Proof. intros H. rewrite gen_updated_value_eq. now apply k_updated_value_eq_L. Qed.
End Bridge.

(* ---------- the convergence measures *)
Lemma lmin_seq_L f n : (0 < n)%nat -> lmin (map f (seq 0 n)) = fmin f n.
Proof.
  induction n as [|n IH]; intros Hn; [lia|].
  destruct n as [|n]; [reflexivity|].
  rewrite seq_S, map_app. change (fmin f (S (S n))) with (Qmin (fmin f (S n)) (f (S n))). rewrite <- IH by lia.
  simpl. rewrite fold_left_app. reflexivity.
Qed.

Lemma map2_as_seq (f : Q -> Q -> Q) : forall a b, length a = length b ->
  map2 f a b = map (fun i => f (qnth a i) (qnth b i)) (seq 0 (length a)).
Proof.
  induction a as [|x a IH]; intros [|y b] H; simpl in *; try discriminate; [reflexivity|].
  f_equal. rewrite <- seq_shift, map_map. rewrite IH by lia. apply map_ext. intros i. reflexivity.
Qed.

Lemma gen_span_eq new old : length new = length old -> (0 < length new)%nat ->
  gen_get_span new old == span_diff new old.
Proof.
  intros HL Hn. unfold gen_get_span, span_diff, qvsub, fspan. rewrite Qred_correct.
  rewrite (map2_as_seq Qminus new old HL). rewrite lmax_seq_L, lmin_seq_L by exact Hn. reflexivity.
Qed.

Lemma gen_max_diff_eq new old : length new = length old -> (0 < length new)%nat ->
  gen_get_max_diff new old == maxabs_diff new old.
Proof.
  intros HL Hn. unfold gen_get_max_diff, maxabs_diff, qvsub, qvabs, fmaxabs. rewrite Qred_correct.
  rewrite (map2_as_seq Qminus new old HL), map_map. rewrite lmax_seq_L by exact Hn. reflexivity.
Qed.
